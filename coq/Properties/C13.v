(* C13  Lexing is lossless, positions are exact, nothing is skipped.
   Only statements, [exact] and [Print Assumptions] live here.  [lex un ua s] is the
   model of compiler/src/lex/lexer.rs `lex` (Model/Lexer.v); [un]/[ua] are arbitrary
   classifications of the non-ASCII code points (char::is_numeric / is_alphanumeric),
   so every theorem holds for all of Unicode. *)
From Coq Require Import NArith List Bool.
From GV Require Import Base.Result Gen.TokenTypes Gen.Tokens Model.Lexer Spec.LexSpec
  Proofs.C13.LexRun Proofs.C13.LexPosRun Proofs.C13.LexOp Proofs.C13.LexBlankSpec Proofs.C13.LexFull
  Proofs.C13.LexMaximal Proofs.C13.LexMaxNum Proofs.C13.LexMaxPeriod.
Import ListNotations.
Local Open Scope N_scope.

(* (a) whenever lex succeeds, the token texts concatenated in order are the input.
   In particular no character is silently dropped: a character that cannot start or
   continue a token makes lex fail. *)
Theorem C13_lossless : forall un ua s ts,
  lex un ua s = Ok ts -> concat (map tok_text ts) = s.
Proof. exact lex_lossless. Qed.
Print Assumptions C13_lossless.

(* (b) no token is empty *)
Theorem C13_no_empty_token : forall un ua s ts,
  lex un ua s = Ok ts -> Forall (fun t => tok_text t <> []) ts.
Proof. exact lex_no_empty_token. Qed.
Print Assumptions C13_no_empty_token.

(* lex never panics (the `text_column - 1` of the float/range split cannot underflow) *)
Theorem C13_lex_no_panic : forall un ua s, no_panic (lex un ua s).
Proof. exact lex_no_panic. Qed.
Print Assumptions C13_lex_no_panic.

(* ... and always returns: every call of next() consumes input or is one of the two
   end-of-input flushes, so the model's fuel (length + 3) is never exhausted *)
Theorem C13_lex_terminates : forall un ua s, terminates (lex un ua s).
Proof. exact lex_terminates. Qed.
Print Assumptions C13_lex_terminates.

(* (c) every token carries the line and column of its first character, for inputs
   without carriage return (excluded by the property text) and without form feed
   (known finding C13-K1).  A line ends at a line feed; the column counts code points. *)
Definition Known_C13_K1 (s : list N) : Prop := In 12 s.

Theorem C13_positions_exact : forall un ua s ts,
  ~ Known_C13_K1 s -> ~ In 13 s ->
  lex un ua s = Ok ts ->
  forall pre t post, ts = pre ++ t :: post ->
    (tok_row t, tok_col t) = position_of (concat (map tok_text pre)).
Proof. intros un ua s ts Hk Hcr H. exact (lex_positions_exact un ua s ts H Hcr Hk). Qed.
Print Assumptions C13_positions_exact.

(* the exclusion is necessary: `5\f6` reports the 6 at line 1, column 1; its first
   character is at line 0, column 2 (and would be at line 1, column 0 if a form feed
   were a line break) *)
Theorem C13_K1_refuted : forall un ua, exists s ts,
  Known_C13_K1 s /\ ~ In 13 s /\ lex un ua s = Ok ts /\
  ~ (forall pre t post, ts = pre ++ t :: post ->
       (tok_row t, tok_col t) = position_of (concat (map tok_text pre))).
Proof.
  intros un ua. exists [53; 12; 54].
  exists [mkTok [53] TT_Number 0 0; mkTok [12] TT_Whitespace 0 1; mkTok [54] TT_Number 1 1].
  split; [right; left; reflexivity|].
  split; [intros [H|[H|[H|[]]]]; discriminate|].
  split; [vm_compute; reflexivity|].
  intros H.
  specialize (H [mkTok [53] TT_Number 0 0; mkTok [12] TT_Whitespace 0 1] (mkTok [54] TT_Number 1 1) [] eq_refl).
  vm_compute in H. discriminate.
Qed.
Print Assumptions C13_K1_refuted.

(* (d) operators are classified by longest match against the generated operator table
   (Gen.Tokens.operator_spellings, re-extracted from Lexer::new on every run): a token
   whose type is an operator type is spelled exactly as the table says, and no longer
   spelling of the table is a prefix of the input at that point *)
Theorem C13_longest_match : forall un ua s ts,
  lex un ua s = Ok ts ->
  forall pre t post, ts = pre ++ t :: post ->
    (exists sp, In (sp, tok_type t) operator_spellings) ->
    In (tok_text t, tok_type t) operator_spellings /\
    forall sp ty, In (sp, ty) operator_spellings ->
      (length (tok_text t) < length sp)%nat ->
      ~ (exists r, tok_text t ++ concat (map tok_text post) = sp ++ r).
Proof. exact lex_longest_match. Qed.
Print Assumptions C13_longest_match.

(* (e) a blank line separates sub-expressions: wherever the input has two consecutive line
   feeds, the token containing the first one is a Subexpression token, unless that line feed
   lies in a char/byte list literal or ends a line annotation.  What precedes the blank line
   (in particular trailing spaces or tabs) is irrelevant. *)
Theorem C13_blank_lines_separate : forall un ua s ts,
  lex un ua s = Ok ts ->
  forall i t,
    nth_error (concat (map tok_text ts)) i = Some 10 /\ nth_error (concat (map tok_text ts)) (S i) = Some 10 ->
    (exists pre post, ts = pre ++ t :: post /\
       (length (concat (map tok_text pre)) <= i < length (concat (map tok_text pre)) + length (tok_text t))%nat) ->
    tok_type t = TT_Subexpression \/ tok_type t = TT_CharList \/ tok_type t = TT_ByteList \/
    tok_type t = TT_LineAnnotation.
Proof. exact lex_blank_lines_separate. Qed.
Print Assumptions C13_blank_lines_separate.

(* the same for an input written  x ++ pad ++ LF LF ++ y : the token covering the first
   line feed after [pad] is a Subexpression token whenever it is not a literal or a line
   annotation -- for every [pad] (spaces, tabs, or anything else) *)
Theorem C13_blank_line_separates : forall un ua x pad y ts,
  lex un ua (x ++ pad ++ [10; 10] ++ y) = Ok ts ->
  forall t,
    (exists pre post, ts = pre ++ t :: post /\
       (length (concat (map tok_text pre)) <= length x + length pad
        < length (concat (map tok_text pre)) + length (tok_text t))%nat) ->
    tok_type t <> TT_CharList -> tok_type t <> TT_ByteList -> tok_type t <> TT_LineAnnotation ->
    tok_type t = TT_Subexpression.
Proof. exact lex_blank_line_separates. Qed.
Print Assumptions C13_blank_line_separates.

(* The clause as DESIGN.md section 8 words it: if x lexes on its own and does not end in a
   line annotation, then in  x ++ pad ++ LF LF ++ y  (pad any run of spaces and tabs) a
   Subexpression token covers the first line feed after pad. *)
Theorem C13_blank_line_after_trailing_spaces : forall un ua x pad y tx ts,
  lex un ua x = Ok tx ->
  match rev tx with t :: _ => tok_type t <> TT_LineAnnotation | [] => True end ->
  forallb (fun c => (c =? 32) || (c =? 9)) pad = true ->
  lex un ua (x ++ pad ++ [10; 10] ++ y) = Ok ts ->
  exists t,
    (exists pre post, ts = pre ++ t :: post /\
       (length (concat (map tok_text pre)) <= length x + length pad
        < length (concat (map tok_text pre)) + length (tok_text t))%nat) /\
    tok_type t = TT_Subexpression.
Proof. exact lex_blank_line_full. Qed.
Print Assumptions C13_blank_line_after_trailing_spaces.

Definition C13_blank_line_full_statement : Prop :=
  forall un ua,
    blank_line_full_statement (fun s => match lex un ua s with Ok ts => Some ts | _ => None end).

Theorem C13_blank_line_full_statement_holds : C13_blank_line_full_statement.
Proof.
  intros un ua x pad y tx ts Hx Hlast Hpad Hs.
  destruct (lex un ua x) as [tx'| | |] eqn:Ex; try discriminate. inversion Hx; subst tx'.
  destruct (lex un ua (x ++ pad ++ [10; 10] ++ y)) as [ts'| | |] eqn:Es; try discriminate. inversion Hs; subst ts'.
  exact (lex_blank_line_full un ua x pad y tx ts Ex Hlast Hpad Es).
Qed.
Print Assumptions C13_blank_line_full_statement_holds.

(* with trailing spaces before the blank line (repaired): `5 \n\n 6`, `5\t \n\n6` *)
Example C13_ex_blank_after_spaces : forall un ua,
  lex un ua [53; 9; 32; 10; 10; 54] =
  Ok [mkTok [53] TT_Number 0 0; mkTok [9; 32; 10; 10] TT_Subexpression 0 1; mkTok [54] TT_Number 2 0].
Proof. intros. vm_compute. reflexivity. Qed.

(* non-vacuity: lex succeeds on inputs that exercise the repaired paths *)
Example C13_ex_runs : forall un ua,
  lex un ua [53; 32; 10; 10; 32; 54] =
  Ok [mkTok [53] TT_Number 0 0; mkTok [32; 10; 10] TT_Subexpression 0 1; mkTok [32] TT_Whitespace 2 0; mkTok [54] TT_Number 2 1].
Proof. intros. vm_compute. reflexivity. Qed.

(* positions after a multi-line literal (repaired): `"a\nb" 5` *)
Example C13_ex_multiline_literal : forall un ua,
  lex un ua [34; 97; 10; 98; 34; 32; 53] =
  Ok [mkTok [34; 97; 10; 98; 34] TT_CharList 0 0; mkTok [32] TT_Whitespace 1 2; mkTok [53] TT_Number 1 3].
Proof. intros. vm_compute. reflexivity. Qed.

(* a character that cannot start a token makes lex fail (`\ 5`), it is not skipped *)
Example C13_ex_backslash_fails : forall un ua, lex un ua [92; 32; 53] = Err E_InvalidStart.
Proof. intros. vm_compute. reflexivity. Qed.

(* ---------------------------------------------------------------------------------------
   (d), second half: identifier, whitespace, annotation and line-annotation tokens are
   maximal runs of the character class the lexer uses for them.  [t] is any token of a
   successful lex, [post] the tokens after it, so the head of [concat (map tok_text post)]
   is (by C13_lossless) the input character that follows the token. *)

(* An Identifier token consists of identifier characters (alphanumeric, '_' or ':' --
   Lexer::is_identifier_char) only, does not start with a numeric character, and cannot be
   extended: the next input character, if any, is neither an identifier character nor a
   backtick (a backtick would have been absorbed, making it a Prefix/InfixIdentifier). *)
Theorem C13_identifier_maximal : forall un ua s ts,
  lex un ua s = Ok ts ->
  forall pre t post, ts = pre ++ t :: post -> tok_type t = TT_Identifier ->
    forallb (is_identifier_char ua) (tok_text t) = true /\
    match tok_text t with c :: _ => is_numeric un c = false | [] => True end /\
    match concat (map tok_text post) with
    | c :: _ => is_identifier_char ua c = false /\ c <> 96
    | [] => True
    end.
Proof. exact lex_identifier_maximal. Qed.
Print Assumptions C13_identifier_maximal.

(* the same in the vocabulary of Spec.LexSpec *)
Theorem C13_identifier_right_maximal : forall un ua s ts,
  lex un ua s = Ok ts -> right_maximal (is_identifier_char ua) TT_Identifier ts.
Proof. exact lex_identifier_right_maximal. Qed.
Print Assumptions C13_identifier_right_maximal.

(* `a_1:b+` : the identifier stops exactly at the '+' *)
Example C13_ex_identifier_maximal : forall un ua,
  lex un ua [97; 95; 49; 58; 98; 43] =
  Ok [mkTok [97; 95; 49; 58; 98] TT_Identifier 0 0; mkTok [43] TT_PlusSign 0 5].
Proof. intros. vm_compute. reflexivity. Qed.

(* A Whitespace token starts with an ASCII whitespace character and continues with spaces,
   tabs and line feeds only; the next input character, if any, is not a space, a tab or a
   line feed.  There is no exception before a blank line: the lexer never cuts a whitespace
   run in front of a line feed -- a run that reaches a second line feed becomes, as a whole,
   the Subexpression token of clause (e).  (The class is {space, tab, LF}, not all ASCII
   whitespace: a carriage return or form feed after a run starts a new Whitespace token, see
   C13_ex_whitespace_cr_ff.  Both characters are outside the property: CR is excluded by its
   text, FF is C13-K1.) *)
Theorem C13_whitespace_maximal : forall un ua s ts,
  lex un ua s = Ok ts ->
  forall pre t post, ts = pre ++ t :: post -> tok_type t = TT_Whitespace ->
    (exists h r, tok_text t = h :: r /\ is_ascii_whitespace h = true /\
                 forallb (fun c => (c =? 32) || (c =? 9) || (c =? 10)) r = true) /\
    match concat (map tok_text post) with
    | c :: _ => (c =? 32) || (c =? 9) || (c =? 10) = false
    | [] => True
    end.
Proof. exact lex_whitespace_maximal. Qed.
Print Assumptions C13_whitespace_maximal.

(* `5 \t\n 6` : one Whitespace token holds the whole run, including the single line feed *)
Example C13_ex_whitespace_maximal : forall un ua,
  lex un ua [53; 32; 9; 10; 32; 54] =
  Ok [mkTok [53] TT_Number 0 0; mkTok [32; 9; 10; 32] TT_Whitespace 0 1; mkTok [54] TT_Number 1 1].
Proof. intros. vm_compute. reflexivity. Qed.

(* ` \r` and `5 \f` : CR and FF do not continue a run of spaces *)
Example C13_ex_whitespace_cr_ff : forall un ua,
  lex un ua [32; 13] = Ok [mkTok [32] TT_Whitespace 0 0; mkTok [13] TT_Whitespace 0 1] /\
  lex un ua [53; 32; 12] =
  Ok [mkTok [53] TT_Number 0 0; mkTok [32] TT_Whitespace 0 1; mkTok [12] TT_Whitespace 0 2].
Proof. intros. split; vm_compute; reflexivity. Qed.

(* An Annotation token is '@' followed by alphanumeric characters and '_' only (this, not
   "up to the next whitespace", is the rule of LexingState::Annotation); the next input
   character, if any, is not alphanumeric or '_', and it is not '@' when the token is the
   bare "@" (a second '@' there makes it a LineAnnotation). *)
Theorem C13_annotation_maximal : forall un ua s ts,
  lex un ua s = Ok ts ->
  forall pre t post, ts = pre ++ t :: post -> tok_type t = TT_Annotation ->
    (exists r, tok_text t = 64 :: r /\
               forallb (fun c => is_alphanumeric ua c || (c =? 95)) r = true) /\
    match concat (map tok_text post) with
    | c :: _ => is_alphanumeric ua c || (c =? 95) = false /\ (tok_text t = [64] -> c <> 64)
    | [] => True
    end.
Proof. exact lex_annotation_maximal. Qed.
Print Assumptions C13_annotation_maximal.

(* A LineAnnotation token is "@@" followed by the rest of the line: either it ends with the
   first line feed after "@@" (which belongs to the token), or it contains no line feed and
   is the last token of the input. *)
Theorem C13_line_annotation_maximal : forall un ua s ts,
  lex un ua s = Ok ts ->
  forall pre t post, ts = pre ++ t :: post -> tok_type t = TT_LineAnnotation ->
    exists b, ~ In 10 b /\
      ((tok_text t = 64 :: 64 :: b /\ concat (map tok_text post) = []) \/
       tok_text t = 64 :: 64 :: b ++ [10]).
Proof. exact lex_line_annotation_maximal. Qed.
Print Assumptions C13_line_annotation_maximal.

(* `@ab_1+@@x y\n5` : the annotation stops at '+', the line annotation takes the line feed;
   `@a@b` : two annotations; `@@x` : a line annotation that ends with the input *)
Example C13_ex_annotation_maximal : forall un ua,
  lex un ua [64; 97; 98; 95; 49; 43; 64; 64; 120; 32; 121; 10; 53] =
  Ok [mkTok [64; 97; 98; 95; 49] TT_Annotation 0 0; mkTok [43] TT_PlusSign 0 5;
      mkTok [64; 64; 120; 32; 121; 10] TT_LineAnnotation 0 6; mkTok [53] TT_Number 1 0] /\
  lex un ua [64; 97; 64; 98] = Ok [mkTok [64; 97] TT_Annotation 0 0; mkTok [64; 98] TT_Annotation 0 2] /\
  lex un ua [64; 64; 120] = Ok [mkTok [64; 64; 120] TT_LineAnnotation 0 0].
Proof. intros. repeat split; vm_compute; reflexivity. Qed.

(* A Number token (the lexer has no separate float token type) is either digits-like -- a
   numeric character followed by number characters (numeric, alphanumeric or '_':
   the Number state's `c.is_numeric() || c == '_' || c.is_alphanumeric()`) -- or float-like:
   number characters around exactly one period, starting with a numeric character or with the
   period and a numeric character.  It cannot be extended: the next input character, if any, is
   not a number character, and after a float-like token that ends with its period (`7.`) it
   is not a second period (`1..2` is split into Number `1`, Range `..`, Number `2`). *)
Theorem C13_number_maximal : forall un ua s ts,
  lex un ua s = Ok ts ->
  forall pre t post, ts = pre ++ t :: post -> tok_type t = TT_Number ->
    let txt := tok_text t in
    let next_not_number_char :=
      match concat (map tok_text post) with c :: _ => is_number_char un ua c = false | [] => True end in
    (forallb (is_number_char un ua) txt = true /\
     match txt with c :: _ => is_numeric un c = true | [] => False end /\
     next_not_number_char) \/
    ((exists nb fr, txt = nb ++ 46 :: fr /\
        forallb (is_number_char un ua) nb = true /\ forallb (is_number_char un ua) fr = true /\
        match nb with
        | c :: _ => is_numeric un c = true
        | [] => match fr with c :: _ => is_numeric un c = true | [] => False end
        end) /\
     next_not_number_char /\
     (ends_with 46 txt = true ->
      match concat (map tok_text post) with c :: _ => c <> 46 | [] => True end)).
Proof. exact lex_number_maximal. Qed.
Print Assumptions C13_number_maximal.

(* `1_0x.5+.5 7. 1..2` *)
Example C13_ex_number_maximal : forall un ua,
  match lex un ua [49; 95; 48; 120; 46; 53; 43; 46; 53; 32; 55; 46; 32; 49; 46; 46; 50] with
  | Ok ts => map (fun t => (tok_text t, tok_type t)) ts =
             [([49; 95; 48; 120; 46; 53], TT_Number); ([43], TT_PlusSign); ([46; 53], TT_Number);
              ([32], TT_Whitespace); ([55; 46], TT_Number); ([32], TT_Whitespace);
              ([49], TT_Number); ([46; 46], TT_Range); ([50], TT_Number)]
  | _ => False
  end.
Proof. intros. vm_compute. reflexivity. Qed.

(* The one way a digits-like Number token can stop in front of a character it could have
   taken: a period.  If a Number token without a period is followed by a period in the
   input, then either a second period follows (`1..2`: the range operator wins), or the
   token before the number is one after which a period never starts a fraction --
   Value, CharList, ByteList, Identifier, Period or Number ([blocks_float], the
   `can_float` flag of the lexer; e.g. the access chain `x.5.5`).  Otherwise the period
   belongs to the Number token (C13_number_maximal, float-like case). *)
Theorem C13_number_period_rule : forall un ua s ts,
  lex un ua s = Ok ts ->
  forall pre t post, ts = pre ++ t :: post -> tok_type t = TT_Number -> ~ In 46 (tok_text t) ->
  forall r, concat (map tok_text post) = 46 :: r ->
    (exists r', r = 46 :: r') \/
    (exists pre' p, pre = pre' ++ [p] /\ blocks_float (Some (tok_type p)) = true).
Proof. exact lex_number_period_rule. Qed.
Print Assumptions C13_number_period_rule.

(* `x.5.5` : after the Period token the 5 cannot take the following period *)
Example C13_ex_number_period_rule : forall un ua,
  match lex un ua [120; 46; 53; 46; 53] with
  | Ok ts => map (fun t => (tok_text t, tok_type t)) ts =
             [([120], TT_Identifier); ([46], TT_Period); ([53], TT_Number); ([46], TT_Period); ([53], TT_Number)]
  | _ => False
  end.
Proof. intros. vm_compute. reflexivity. Qed.

(* ------------------------------------------------------------------------------------------
   (d) continued: Symbol tokens and the backtick identifier forms (LexingState::Identifier). *)
From GV Require Import Proofs.C13.LexMaxSym.

(* A Symbol token is ':' followed by identifier characters -- alphanumeric, '_' or ':', the
   same class as for Identifier tokens -- of which the first is not ':' (`::a` is an
   Identifier).  There may be none: the bare ":" IS lexed as a Symbol token (the "Identifiers
   must contain more than 1 character" error is only raised for an Identifier-typed token and
   the run ":" has been retyped Symbol before that test).  The token cannot be extended: the
   next input character, if any, is neither an identifier character nor a backtick (a
   backtick would have been taken and made the token a PrefixIdentifier, `:a``). *)
Theorem C13_symbol_maximal : forall un ua s ts,
  lex un ua s = Ok ts ->
  forall pre t post, ts = pre ++ t :: post -> tok_type t = TT_Symbol ->
    (exists r, tok_text t = 58 :: r /\ forallb (is_identifier_char ua) r = true /\
               match r with c :: _ => c <> 58 | [] => True end) /\
    match concat (map tok_text post) with
    | c :: _ => is_identifier_char ua c = false /\ c <> 96
    | [] => True
    end.
Proof. exact lex_symbol_maximal. Qed.
Print Assumptions C13_symbol_maximal.

(* `:a:b+: :a` ::a` : a symbol with an inner ':', the empty symbol ":", `:a`` is a
   PrefixIdentifier, `::a` an Identifier *)
Example C13_ex_symbol_maximal : forall un ua,
  match lex un ua [58; 97; 58; 98; 43; 58; 32; 58; 97; 96; 32; 58; 58; 97] with
  | Ok ts => map (fun t => (tok_text t, tok_type t)) ts =
             [([58; 97; 58; 98], TT_Symbol); ([43], TT_PlusSign); ([58], TT_Symbol);
              ([32], TT_Whitespace); ([58; 97; 96], TT_PrefixIdentifier); ([32], TT_Whitespace);
              ([58; 58; 97], TT_Identifier)]
  | _ => False
  end.
Proof. intros. vm_compute. reflexivity. Qed.

(* The backtick identifier forms, named by the token type the lexer gives them (note the
   naming: the form that STARTS with the backtick is TT_SuffixIdentifier, the one that ENDS
   with it is TT_PrefixIdentifier):
   * TT_SuffixIdentifier, "`f": a backtick followed by identifier characters, possibly none
     (a lone "`" is a SuffixIdentifier token); maximal: the next input character, if any, is
     neither an identifier character nor a backtick;
   * TT_InfixIdentifier, "`f`": a backtick, identifier characters (possibly none: "``"), and
     a closing backtick;
   * TT_PrefixIdentifier, "f`": a non-empty run of identifier characters whose first is not
     numeric (what an Identifier or Symbol token could be, including ":" and ":a"), then a
     backtick.
   For the last two the closing backtick ends the token and nothing is required of the next
   character: `f`g is InfixIdentifier, Identifier (second example). *)
Theorem C13_backtick_identifier_forms : forall un ua s ts,
  lex un ua s = Ok ts ->
  forall pre t post, ts = pre ++ t :: post ->
    (tok_type t = TT_SuffixIdentifier ->
       (exists r, tok_text t = 96 :: r /\ forallb (is_identifier_char ua) r = true) /\
       match concat (map tok_text post) with
       | c :: _ => is_identifier_char ua c = false /\ c <> 96
       | [] => True
       end) /\
    (tok_type t = TT_InfixIdentifier ->
       exists r, tok_text t = 96 :: r ++ [96] /\ forallb (is_identifier_char ua) r = true) /\
    (tok_type t = TT_PrefixIdentifier ->
       exists r, tok_text t = r ++ [96] /\ forallb (is_identifier_char ua) r = true /\
                 match r with c :: _ => is_numeric un c = false | [] => False end).
Proof. exact lex_backtick_identifier_forms. Qed.
Print Assumptions C13_backtick_identifier_forms.

(* "`f` `f f` ` `` `f`g" and "1`" (a numeric character does not start the f` form) *)
Example C13_ex_backtick_identifier_forms : forall un ua,
  match lex un ua [96; 102; 96; 32; 96; 102; 32; 102; 96; 32; 96; 32; 96; 96; 32; 96; 102; 96; 103] with
  | Ok ts => map (fun t => (tok_text t, tok_type t)) ts =
             [([96; 102; 96], TT_InfixIdentifier); ([32], TT_Whitespace);
              ([96; 102], TT_SuffixIdentifier); ([32], TT_Whitespace);
              ([102; 96], TT_PrefixIdentifier); ([32], TT_Whitespace);
              ([96], TT_SuffixIdentifier); ([32], TT_Whitespace);
              ([96; 96], TT_InfixIdentifier); ([32], TT_Whitespace);
              ([96; 102; 96], TT_InfixIdentifier); ([103], TT_Identifier)]
  | _ => False
  end /\
  match lex un ua [49; 96] with
  | Ok ts => map (fun t => (tok_text t, tok_type t)) ts = [([49], TT_Number); ([96], TT_SuffixIdentifier)]
  | _ => False
  end.
Proof. intros. split; vm_compute; reflexivity. Qed.

(* ------------------------------------------------------------------------------------------
   (d) continued: the text of a Subexpression token (the "blank line"). *)
From GV Require Import Proofs.C13.LexMaxGen3 Proofs.C13.LexMaxSub.

(* Vocabulary (Proofs.C13.LexMaxSub): blank_ch = space or tab; break_ch = line feed, form
   feed or carriage return (the ASCII whitespace that is not a blank); sp_head_ch = space,
   tab or carriage return; lf_ff = line feed or form feed.

   The exact rule.  The text of a Subexpression token is  a ++ m ++ [z]  where
   * the head a is a single line feed or form feed, or a whitespace run  h b* LF  with h a
     space, tab or carriage return and b* blanks (spaces/tabs);
   * m is a run of blanks and z closes the token: if m is empty z is any line-break character
     (line feed, form feed or carriage return), if m is not empty z is a line feed.
   So the token is: optional leading blanks (or a carriage return and blanks), a first
   line-break character, blanks only, a second line-break character -- where the first may
   be a form feed only at the very start of the token and the second may be a form feed or
   carriage return only when it follows the first immediately.  It need not contain two line
   feeds (C13_subexpression_two_line_feeds_refuted).
   What the next character cannot be: nothing.  The closing character always ends the token
   and the character after it starts a fresh one, whatever it is -- in particular a third line
   feed is not absorbed (C13_ex_subexpression_text, first case). *)
Theorem C13_subexpression_text : forall un ua s ts,
  lex un ua s = Ok ts ->
  forall pre t post, ts = pre ++ t :: post -> tok_type t = TT_Subexpression ->
    exists a m z, tok_text t = a ++ m ++ [z] /\
      ((exists c0, a = [c0] /\ lf_ff c0 = true) \/
       (exists h r, a = h :: r ++ [10] /\ sp_head_ch h = true /\ forallb blank_ch r = true)) /\
      forallb blank_ch m = true /\
      ((m = [] /\ break_ch z = true) \/ (m <> [] /\ z = 10)).
Proof. exact lex_subexpression_text. Qed.
Print Assumptions C13_subexpression_text.

(* Consequences: a Subexpression token consists of ASCII whitespace only, and it contains two
   line-break characters (line feed / form feed / carriage return), three when it starts
   with a carriage return. *)
Theorem C13_subexpression_whitespace : forall un ua s ts,
  lex un ua s = Ok ts ->
  forall pre t post, ts = pre ++ t :: post -> tok_type t = TT_Subexpression ->
    forallb is_ascii_whitespace (tok_text t) = true /\
    (2 <= length (filter break_ch (tok_text t)) <= 3)%nat.
Proof. exact lex_subexpression_whitespace. Qed.
Print Assumptions C13_subexpression_whitespace.

(* "\n\n\n": the third line feed is not part of the Subexpression token (no maximality);
   "a \n\t \nb": blanks before the first and between the two line feeds stay in the token;
   "a\r\t\n\x0cb": carriage return + tab + line feed, closed by a form feed;
   "a\n\r\n\n": LF CR is a Subexpression, so "\n\r\n\n" is two of them *)
Example C13_ex_subexpression_text : forall un ua,
  let show s := match lex un ua s with
                | Ok ts => Some (map (fun t => (tok_text t, tok_type t)) ts)
                | _ => None
                end in
  show [10; 10; 10] = Some [([10; 10], TT_Subexpression); ([10], TT_Whitespace)] /\
  show [97; 32; 10; 9; 32; 10; 98] =
    Some [([97], TT_Identifier); ([32; 10; 9; 32; 10], TT_Subexpression); ([98], TT_Identifier)] /\
  show [97; 13; 9; 10; 12; 98] =
    Some [([97], TT_Identifier); ([13; 9; 10; 12], TT_Subexpression); ([98], TT_Identifier)] /\
  show [97; 10; 13; 10; 10] =
    Some [([97], TT_Identifier); ([10; 13], TT_Subexpression); ([10; 10], TT_Subexpression)].
Proof. intros. repeat split; vm_compute; reflexivity. Qed.

(* The reading "a Subexpression token contains two line feeds" is false of the lexer: a form
   feed followed by a carriage return is lexed as one Subexpression token that contains no
   line feed at all (confirmed on the Rust lexer: lex("\x0c\r") = [Subexpression "\x0c\r"]). *)
Theorem C13_subexpression_two_line_feeds_refuted : forall un ua,
  exists s ts t, lex un ua s = Ok ts /\ In t ts /\ tok_type t = TT_Subexpression /\
                 ~ In 10 (tok_text t).
Proof.
  intros un ua. exists [12; 13], [mkTok [12; 13] TT_Subexpression 0 0], (mkTok [12; 13] TT_Subexpression 0 0).
  split; [vm_compute; reflexivity|]. split; [left; reflexivity|]. split; [reflexivity|].
  cbn. intros [H|[H|[]]]; discriminate.
Qed.
Print Assumptions C13_subexpression_two_line_feeds_refuted.

(* ---------------------------------------------------------------------------------------
   (d) for the quoted literals: the text of a CharList (double quote, 34) / ByteList (apostrophe, 39)
   token of a successful lex.  Either it is exactly two quote characters (the empty literal: an opening run of exactly
   two quotes followed by a non-quote or by the end of input), or it is
        q^n  x body  q^n      with n >= 1, n <> 2, x <> q
   where [runs_ok q n 0 body] holds: every run of quote characters inside body is shorter than n
   and body does not end with a quote character.  So the opening run is maximal (x is not a
   quote), the literal ends at the FIRST place after it where n consecutive quotes occur
   (nothing is swallowed beyond it: the character after the token is unconstrained and starts
   a fresh token, even another quote), and nothing is cut short (no shorter run closes it).
   Backslashes, line feeds and NUL characters are ordinary body characters to the lexer.
   This is the converse of Proofs.C14.LexSpellingThen.lex_literal_general. *)
From GV Require Import Proofs.C14.LexSpelling Proofs.C14.LexSpellingThen Proofs.C13.LexMaxGen4 Proofs.C13.LexMaxLit.

Theorem C13_char_list_shape : forall un ua s ts,
  lex un ua s = Ok ts ->
  forall pre t post, ts = pre ++ t :: post -> tok_type t = TT_CharList ->
    tok_text t = [34; 34] \/
    exists n x body, (1 <= n)%nat /\ n <> 2%nat /\ x <> 34 /\ runs_ok 34 n 0 body = true /\
                     tok_text t = repeat 34 n ++ (x :: body) ++ repeat 34 n.
Proof. exact lex_char_list_shape. Qed.
Print Assumptions C13_char_list_shape.

Theorem C13_byte_list_shape : forall un ua s ts,
  lex un ua s = Ok ts ->
  forall pre t post, ts = pre ++ t :: post -> tok_type t = TT_ByteList ->
    tok_text t = [39; 39] \/
    exists n x body, (1 <= n)%nat /\ n <> 2%nat /\ x <> 39 /\ runs_ok 39 n 0 body = true /\
                     tok_text t = repeat 39 n ++ (x :: body) ++ repeat 39 n.
Proof. exact lex_byte_list_shape. Qed.
Print Assumptions C13_byte_list_shape.

(* Both directions together ([k] = KChar / KByte, [kq k] = 34 / 39, [kty k] the token type,
   [literal_text k n b] = q^n b q^n): such a text is lexed as ONE literal token exactly when
   [runs_ok] holds of its body. *)
Theorem C13_literal_one_token_iff : forall un ua k n x body, (1 <= n)%nat -> n <> 2%nat -> x <> kq k ->
  (lex un ua (literal_text k n (x :: body)) = Ok [mkTok (literal_text k n (x :: body)) (kty k) 0 0]
   <-> runs_ok (kq k) n 0 body = true).
Proof. exact lex_literal_one_token_iff. Qed.
Print Assumptions C13_literal_one_token_iff.

(* Below Q stands for the double quote and A for the apostrophe.
   a Q b \ Q c Q d Q : the backslash does not protect the quote, the literal ends at the first quote;
   QQQ a QQ b QQQQ x Q : opened by three quotes, the run of two inside is body, the literal ends at
                 the first run of three; the fourth quote is left over and opens the literal Q x Q;
   QQ x : exactly two quotes and a non-quote: the empty literal, x is the next token;
   A a A A b A : two adjacent byte lists, nothing is required of the character after a literal;
   AAAA 1 AAAA : n = 4;
   Q LF NUL Q : line feed and NUL are body characters. *)
Example C13_ex_literal_shape : forall un ua,
  let show s := match lex un ua s with
                | Ok ts => Some (map (fun t => (tok_text t, tok_type t)) ts)
                | _ => None
                end in
  show [97; 34; 98; 92; 34; 99; 34; 100; 34] =
    Some [([97], TT_Identifier); ([34; 98; 92; 34], TT_CharList); ([99], TT_Identifier);
          ([34; 100; 34], TT_CharList)] /\
  show [34; 34; 34; 97; 34; 34; 98; 34; 34; 34; 34; 120; 34] =
    Some [([34; 34; 34; 97; 34; 34; 98; 34; 34; 34], TT_CharList); ([34; 120; 34], TT_CharList)] /\
  show [34; 34; 120] = Some [([34; 34], TT_CharList); ([120], TT_Identifier)] /\
  show [39; 97; 39; 39; 98; 39] = Some [([39; 97; 39], TT_ByteList); ([39; 98; 39], TT_ByteList)] /\
  show [39; 39; 39; 39; 32; 49; 32; 39; 39; 39; 39] =
    Some [([39; 39; 39; 39; 32; 49; 32; 39; 39; 39; 39], TT_ByteList)] /\
  show [34; 10; 0; 34] = Some [([34; 10; 0; 34], TT_CharList)].
Proof. intros. repeat split; vm_compute; reflexivity. Qed.

(* the hypotheses of the two shape theorems are met with the second disjunct: n = 3, x = a,
   body = QQb (Q the double quote) *)
Example C13_ex_char_list_shape_instance : forall un ua,
  exists ts t post, lex un ua [34; 34; 34; 97; 34; 34; 98; 34; 34; 34; 34; 120; 34] = Ok ts /\
    ts = [] ++ t :: post /\ tok_type t = TT_CharList /\
    (3 <> 2)%nat /\ 97 <> 34 /\ runs_ok 34 3 0 [34; 34; 98] = true /\
    tok_text t = repeat 34 3 ++ (97 :: [34; 34; 98]) ++ repeat 34 3.
Proof.
  intros. eexists _, _, _. split; [vm_compute; reflexivity|]. split; [reflexivity|].
  repeat split; try discriminate; vm_compute; reflexivity.
Qed.
Example C13_ex_byte_list_shape_instance : forall un ua,
  exists ts t post, lex un ua [39; 39; 39; 39; 32; 49; 32; 39; 39; 39; 39] = Ok ts /\
    ts = [] ++ t :: post /\ tok_type t = TT_ByteList /\
    (4 <> 2)%nat /\ 32 <> 39 /\ runs_ok 39 4 0 [49; 32] = true /\
    tok_text t = repeat 39 4 ++ (32 :: [49; 32]) ++ repeat 39 4.
Proof.
  intros. eexists _, _, _. split; [vm_compute; reflexivity|]. split; [reflexivity|].
  repeat split; try discriminate; vm_compute; reflexivity.
Qed.

(* The exclusion n <> 2 is real: the reading that a literal opened by n quotes extends to the next
   run of n quotes, for every n, is false of the lexer for n = 2.  With Q the double quote, QQaQQ is
   three tokens (empty literal, identifier, empty literal), not one literal with body a.  Likewise
   the closing run is not maximal: QQQaQQQQ is not one token: after the first three closing quotes
   the fourth opens a new literal, which is unterminated (error class 5). *)
Theorem C13_two_quote_literal_refuted : forall un ua,
  (exists s n x body, s = repeat 34 n ++ (x :: body) ++ repeat 34 n /\ (1 <= n)%nat /\ x <> 34 /\
      runs_ok 34 n 0 body = true /\
      lex un ua s = Ok [mkTok [34; 34] TT_CharList 0 0; mkTok [x] TT_Identifier 0 2; mkTok [34; 34] TT_CharList 0 3]) /\
  lex un ua [34; 34; 34; 97; 34; 34; 34; 34] = Err E_Unterminated.
Proof.
  intros un ua. split; [|vm_compute; reflexivity].
  exists [34; 34; 97; 34; 34], 2%nat, 97, []. repeat split; try discriminate; try (vm_compute; reflexivity).
  repeat constructor.
Qed.
Print Assumptions C13_two_quote_literal_refuted.
