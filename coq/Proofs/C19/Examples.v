(* C19 proofs, part 8: concrete stores (non-vacuity of the theorems' hypotheses, and the witness of
   finding C19-K1). *)
From Coq Require Import NArith ZArith List Bool Arith Lia.
From GV Require Import Base.Result Model.Optimize Spec.HeapIso Proofs.C19.Base Proofs.C19.StoreLemmas
  Proofs.C19.CloneStack Proofs.C19.CreateStack Proofs.C19.CloneData Proofs.C19.OptimizeProof Proofs.C19.Reader.
Import ListNotations.

(* a keyed list [(:k = (1 = 2))] on the register stack, a frame that saved that register, a value
   stack holding the pair, a named symbol, an extra number; nothing retained *)
Definition ex_store : store :=
  mkStore [CNumber (NInt 1); CNumber (NInt 2); CPair 0 1; CSymbol 5; CPair 3 2; CList 1 1; CListItem 4; CAssocItem 5 2;
           CCharList 1; CChar 97; CNumber (NInt 7); CRegisterRoot 5; CJumpPoint 3; CFrameRegister 11; CValueRoot 2]
          20 40 (Fixed 10) None 0 (Some 14) (Some 11) (Some 13) [(5%N, 8)].

Definition ex_list_tree : tree :=
  TNode (CList 1 1)
    [TNode (CListItem 0)
       [TNode (CPair 0 0) [TNode (CSymbol 5) []; TNode (CPair 0 0) [TNode (CNumber (NInt 1)) []; TNode (CNumber (NInt 2)) []]]];
     TNode (CAssocItem 5 0) [TNode (CPair 0 0) [TNode (CNumber (NInt 1)) []; TNode (CNumber (NInt 2)) []]]].

Lemma ex_store_reads : Reads (cells ex_store) 5 ex_list_tree /\
  Reads (cells ex_store) 13 (TNode (CFrameRegister 0) [TNode (CJumpPoint 3) []; TNode (CRegisterRoot 0) [ex_list_tree]]).
Proof. split; apply read_f_sound with (n := 10); vm_compute; reflexivity. Qed.

Lemma ex_store_optimize : exists s', optimize ex_store [2; 10] = Ok (s', [3; 0]) /\
  length (cells s') = 15 /\ cur_register s' = Some 9 /\ cur_frame s' = Some 11 /\ cur_value s' = Some 12 /\
  symtab s' = [(5%N, 13)] /\
  read_any (cells s') 6 = Some ex_list_tree /\
  read_any (cells s') 11 = read_any (cells ex_store) 13 /\
  read_any (cells s') 13 = read_any (cells ex_store) 8.
Proof. eexists. split; [vm_compute; reflexivity|]. vm_compute. repeat split; reflexivity. Qed.

Lemma ex_store_hyps : retention ex_store <= length (cells ex_store) /\ closed_prefix ex_store.
Proof. split; [cbn; lia|]. intros idx t Hi. cbn in Hi. lia. Qed.

Lemma ex_store_clone : exists s', clone_data ex_store 5 = Ok (s', 26) /\
  read_any (cells s') 26 = Some ex_list_tree /\ firstn 15 (cells s') = cells ex_store.
Proof. eexists. split; [vm_compute; reflexivity|]. vm_compute. split; reflexivity. Qed.

(* a retained prefix of three cells (a number and a one-character text), a new pair that points into it *)
Definition ex_ret : store :=
  mkStore [CNumber (NInt 1); CCharList 1; CChar 97; CPair 0 1; CNumber (NInt 9); CRegisterRoot 3]
          20 40 (Fixed 10) None 3 None (Some 5) None [].

Lemma ex_ret_hyps : retention ex_ret <= length (cells ex_ret) /\ closed_prefix ex_ret.
Proof.
  split; [cbn; lia|]. intros idx t Hi Ht. cbn in Hi.
  destruct (read_f_complete _ _ _ Ht) as [n Hn].
  apply read_f_sound with (n := S (S n)). rewrite <- (Hn (S (S n))) by lia.
  destruct idx as [|[|[|idx]]]; try lia; reflexivity.
Qed.

Lemma ex_ret_optimize : exists s', optimize ex_ret [3; 4] = Ok (s', [4; 3]) /\
  firstn 3 (cells s') = firstn 3 (cells ex_ret) /\ read_any (cells s') 4 = read_any (cells ex_ret) 3.
Proof. eexists. split; [vm_compute; reflexivity|]. vm_compute. split; reflexivity. Qed.

(* finding C19-K1: eight levels of a pair whose two halves are the same value *)
Definition k1_store : store :=
  mkStore [CNumber (NInt 1); CPair 0 0; CPair 1 1; CPair 2 2; CPair 3 3; CPair 4 4; CPair 5 5; CPair 6 6; CPair 7 7;
           CRegisterRoot 8]
          10 40 (Fixed 10) None 0 None (Some 9) None [].

Lemma k1_store_fails : (exists t, Reads (cells k1_store) 9 t) /\ closed_prefix k1_store /\
  optimize k1_store [] = Err E_CloneLimit /\ clone_data k1_store 8 = Err E_CloneLimit.
Proof.
  split; [|split; [|split]].
  - eexists. apply read_f_sound with (n := 12). vm_compute. reflexivity.
  - intros idx t Hi. cbn in Hi. lia.
  - vm_compute. reflexivity.
  - vm_compute. reflexivity.
Qed.
