(* C18, unbounded part: definitions only.
   - parser states modulo token indices ([n_tok] of the nodes, [last_token]) and modulo
     WHICH trivia token came last ([prev_sec] = whitespace or annotation);
   - the "finished side-effect block" adjustment of [last_left] that [step] performs
     first, as functions of their own, and the condition that it has settled;
   - trivia runs and the statements of the unbounded theorems. *)
From Coq Require Import List Arith Bool NArith.
From GV Require Import Base.Result Gen.TokenTypes Gen.Defs Model.Parser Spec.Layout.
Import ListNotations.

(* ---- states modulo token indices ---- *)
Definition strip_tok (n : pnode) : pnode :=
  mkNode (n_def n) (n_sec n) (n_parent n) (n_left n) (n_right n) None.

Definition norm_sec (s : secondary) : secondary :=
  match s with S_Annotation => S_Whitespace | _ => s end.

Definition erase (st : pstate) : pstate :=
  mkState (map strip_tok (nodes st)) (next_parent st) (last_left st) (check_for_list st) None
          (next_last_left st) (group_stack st) (current_group st) (norm_sec (prev_sec st)) (prev_sig st)
          (separated st) (se_prev st).

Definition eq_mod_tok (st st' : pstate) : Prop := erase st = erase st'.

(* outcomes modulo token indices: same error class / panic site / related states *)
Definition res_eq_mod_tok (r r' : res pstate) : Prop := rmap erase r = rmap erase r'.

(* ---- the prelude of [step] ---- *)
Definition under_group_of (st0 : pstate) : res (option nat) :=
  match current_group st0 with
  | None => Ok None
  | Some c => match nth_error (group_stack st0) c with
              | None => impl_err
              | Some (g, _) => Ok (Some g)
              end
  end.

Definition adjust3_of (st0 : pstate) (under_group : option nat) : res (option nat * secondary * secondary) :=
  match last_left st0 with
  | None => Ok (last_left st0, prev_sec st0, prev_sig st0)
  | Some li =>
    match nth_error (nodes st0) li with
    | None => impl_err
    | Some n =>
      if definition_eqb (n_def n) D_SideEffect
         && negb (opt_nat_eqb (last_left st0) under_group)
         && match n_parent n with Some _ => true | None => false end
         && match n_left n with None => true | Some _ => false end
      then
        Ok (n_parent n, prev_sec st0, prev_sig st0)
      else Ok (last_left st0, prev_sec st0, prev_sig st0)
    end
  end.

(* [l] is a closed side-effect block that hangs under a parent and took no left operand:
   the next token continues from its parent *)
Definition finished_block (ns : list pnode) (under_group l : option nat) : bool :=
  match l with
  | None => false
  | Some li =>
    match nth_error ns li with
    | None => false
    | Some n =>
      definition_eqb (n_def n) D_SideEffect
      && negb (opt_nat_eqb l under_group)
      && match n_parent n with Some _ => true | None => false end
      && match n_left n with None => true | Some _ => false end
    end
  end.

(* the adjustment has settled: doing it once more changes nothing (the parent of a
   finished block exists and is not itself a finished block), and last_left is only
   unset while there are no nodes *)
Definition adjust_settled (st : pstate) : bool :=
  match last_left st with
  | None => match nodes st with [] => true | _ => false end
  | Some li =>
    match under_group_of st, nth_error (nodes st) li with
    | Ok ug, Some n =>
      if finished_block (nodes st) ug (Some li)
      then match n_parent n with
           | Some p => match nth_error (nodes st) p with Some _ => true | None => false end
           | None => false
           end && negb (finished_block (nodes st) ug (n_parent n))
      else true
    | _, _ => true
    end
  end.

(* the parser state after a (trimmed) prefix that is followed by more tokens *)
Definition state_after (pre : list token_type) : res pstate :=
  run_steps (S (length pre)) 0 pre init_state.

Definition settled_after (pre : list token_type) : Prop :=
  match state_after pre with Ok st => adjust_settled st = true | _ => True end.

(* ---- trivia ---- *)
Definition is_trivia_tok (t : token_type) : bool :=
  match snd (get_definition t) with S_Whitespace | S_Annotation => true | _ => false end.
Definition is_ws_tok (t : token_type) : bool :=
  match snd (get_definition t) with S_Whitespace => true | _ => false end.

(* a non-empty run of whitespace / annotation / line-annotation tokens *)
Definition trivia_run (d : list token_type) : bool :=
  match d with [] => false | _ => forallb is_trivia_tok d end.
Definition has_ws (d : list token_type) : bool := existsb is_ws_tok d.

(* a token that trim_tokens does not cut *)
Definition has_sig (l : list token_type) : bool := existsb (fun t => negb (is_trim t)) l.

(* tokens after which last_left is the node just pushed, the group just opened, or is
   left as it was: everything except the end of a side-effect block *)
Definition is_pass_tok (t : token_type) : bool :=
  is_trivia_tok t || match t with TT_Subexpression | TT_ExpressionSeparator => true | _ => false end.
Fixpoint last_sig (l : list token_type) (acc : option token_type) : option token_type :=
  match l with
  | [] => acc
  | t :: r => last_sig r (if is_pass_tok t then acc else Some t)
  end.
Definition not_after_block_end (pre : list token_type) : bool :=
  match last_sig pre None with Some TT_EndSideEffect => false | _ => true end.

(* ---- statements ---- *)
(* two trivia runs of the same kind (both with whitespace, or both without) between the
   same tokens: same acceptance, same tree *)
Definition trivia_runs_equivalent_at (pre post : list token_type) : Prop :=
  forall d d' : list token_type,
    trivia_run d = true -> trivia_run d' = true -> has_ws d = has_ws d' ->
    opt_gtree_eqb (parse_tree (pre ++ d ++ post)) (parse_tree (pre ++ d' ++ post)) = true.

(* full statement for gaps that already hold trivia *)
Definition C18_trivia_runs_statement : Prop :=
  forall pre post : list token_type,
    has_sig pre = true -> has_sig post = true -> trivia_runs_equivalent_at pre post.
