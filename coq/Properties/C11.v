(* C11  Equality is structural and an equivalence relation.
   Only statements, [exact] and [Print Assumptions] live here.
   Model: Model/Equality.v (+ Gen/EqTable.v regenerated from equality.rs);
   spec: Spec/StructEq.v. *)
From Coq Require Import ZArith NArith List Bool Arith.
From GV Require Import Base.Result Gen.Instr Gen.EqTable Model.Num Model.Value Model.Equality Model.Compare Spec.StructEq
  Proofs.C11.Canon Proofs.C11.DataEqual Proofs.C11.Refine Proofs.C11.Equiv Proofs.C11.Link.
Import ListNotations.

(* C11_refines.  For every pair of operands the model covers (no range or
   slice inside, integers in the i32 range) and every content [base] of the
   registers below them: with fuel above the operands' sizes, Equal pops the
   two operands and pushes True iff they are structurally equal, NotEqual
   pushes the negation, and the registers below are exactly [base] - on the
   all-equal path and on every early mismatch alike. *)
Theorem C11_refines : forall fuel l r base, modelled l -> modelled r ->
  val_size l + val_size r < fuel ->
  equal_fuel fuel (r :: l :: base) = Ok ((if struct_eq l r then VTrue else VFalse) :: base) /\
  not_equal_fuel fuel (r :: l :: base) = Ok ((if struct_eq l r then VFalse else VTrue) :: base).
Proof. exact equal_refines. Qed.
Print Assumptions C11_refines.

(* the same for the instructions as extracted and run against the implementation
   (fuel computed from the operands: enough fuel always exists) *)
Theorem C11_refines_instr : forall l r base, modelled l -> modelled r ->
  equal (r :: l :: base) = Ok ((if struct_eq l r then VTrue else VFalse) :: base) /\
  not_equal (r :: l :: base) = Ok ((if struct_eq l r then VFalse else VTrue) :: base).
Proof. exact equal_instr_refines. Qed.
Print Assumptions C11_refines_instr.

(* the loop invariant behind it: any stack of pending pairs above [base] is
   consumed to exactly [base], answering the conjunction of their equalities *)
Theorem C11_worklist_invariant : forall fuel ps base,
  measure ps < fuel -> Forall pair_modelled ps ->
  eq_loop fuel (length base) (stack_of ps base) = Ok (base, forallb seqp ps).
Proof. exact eq_loop_correct. Qed.
Print Assumptions C11_worklist_invariant.

(* one step: data_equal decides, or pushes strictly smaller pending pairs whose
   joint equality is the operands' equality *)
Theorem C11_data_equal_step : forall l r regs, modelled l -> modelled r ->
  exists ps b, data_equal l r regs = Ok (stack_of ps regs, b)
    /\ struct_eq l r = b && forallb seqp ps
    /\ measure ps < val_size l + val_size r
    /\ Forall pair_modelled ps.
Proof. exact data_equal_ok. Qed.
Print Assumptions C11_data_equal_step.

(* an early mismatch with pairs still pending leaves nothing behind *)
Theorem C11_early_exit : forall fuel x y ps base, modelled x -> modelled y -> Forall pair_modelled ps ->
  struct_eq x y = false -> measure ((x, y) :: ps) < fuel ->
  eq_loop fuel (length base) (stack_of ((x, y) :: ps) base) = Ok (base, false).
Proof. exact early_exit_restores. Qed.
Print Assumptions C11_early_exit.

(* C11_equivalence *)
Theorem C11_reflexive : forall v, domain_nan_free v -> struct_eq v v = true.
Proof. exact struct_eq_refl. Qed.
Print Assumptions C11_reflexive.

Theorem C11_symmetric : forall a b, modelled a -> modelled b -> struct_eq a b = struct_eq b a.
Proof. exact struct_eq_sym. Qed.
Print Assumptions C11_symmetric.

Theorem C11_transitive : forall a b c, modelled a -> modelled b -> modelled c ->
  struct_eq a b = true -> struct_eq b c = true -> struct_eq a c = true.
Proof. exact struct_eq_trans. Qed.
Print Assumptions C11_transitive.

(* the property's domain (and the NaN-free part of it) is inside what the model covers *)
Theorem C11_domain_covered : forall v, (in_domain v -> modelled v) /\ (domain_nan_free v -> modelled v).
Proof. intros v. split; [apply in_domain_modelled | apply domain_nan_free_in_range]. Qed.
Print Assumptions C11_domain_covered.

(* what "structural" means for sequences: a list is its items, a concatenation
   the flattening of its operands *)
Theorem C11_canon_sequences : forall items a b,
  canon (VList items) = CSeq (map canon items) /\
  canon (VConcat a b) = CSeq (map canon (flat a ++ flat b)).
Proof. intros. split; [apply canon_list | apply canon_concat]. Qed.
Print Assumptions C11_canon_sequences.

(* `==` in C12's trichotomy is this equality *)
Theorem C11_agrees_with_C12_equal : forall l r b, prim_equal l r = Some b -> struct_eq l r = b.
Proof. exact prim_equal_struct_eq. Qed.
Print Assumptions C11_agrees_with_C12_equal.

(* non-vacuity *)
Example C11_ex_equal :
  let one := VNum (Int 1) in
  let onef := VNum (Flt (Flocq.IEEE754.Bits.b64_of_bits 0x3FF0000000000000)) in
  equal [VConcat (VList [one; VChar 97%N]) (VPair onef VUnit); VList [onef; VChars [97%N]; VPair one VUnit]; VSym 5%N]
    = Ok [VTrue; VSym 5%N] /\
  (* early mismatch deep inside, two pairs still pending: the stack is restored *)
  equal [VList [one; VPair one (VList [one; VUnit]); VTrue]; VList [one; VPair one (VList [onef; VFalse]); VTrue]; VSym 5%N]
    = Ok [VFalse; VSym 5%N] /\
  not_equal [VList []; VConcat (VList []) (VList []); VSym 5%N] = Ok [VFalse; VSym 5%N] /\
  equal [VList [one]; one] = Ok [VFalse] /\
  equal [VRange one one; VRange one one] = Err E_out_of_scope /\
  equal [one] = Err E_state.
Proof. vm_compute. repeat split; reflexivity. Qed.

Example C11_ex_hypotheses :
  modelled (VList [VNum (Int 1); VPair (VChar 97%N) (VConcat (VList []) VUnit)]) /\
  domain_nan_free (VList [VNum (Int 1); VPair (VChar 97%N) (VConcat (VList []) VUnit)]) /\
  ~ domain_nan_free (VNum (Flt (Flocq.IEEE754.Bits.b64_of_bits 0x7FF8000000000000))) /\
  struct_eq (VNum (Flt (Flocq.IEEE754.Bits.b64_of_bits 0x7FF8000000000000)))
            (VNum (Flt (Flocq.IEEE754.Bits.b64_of_bits 0x7FF8000000000000))) = false.
Proof.
  split; [cbn; repeat split; reflexivity|]. split; [cbn; repeat split; reflexivity|].
  split; [cbn; intros [_ H]; vm_compute in H; discriminate | vm_compute; reflexivity].
Qed.
