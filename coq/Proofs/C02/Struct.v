(* structural part of the loop invariant, independent of the scalar fields of the
   parser state: what appending a value / prefix / suffix / binary (or implicit list)
   node does to the spine of open frames. *)
From Coq Require Import List Arith Bool NArith Lia.
From GV Require Import Base.Result Gen.TokenTypes Gen.Defs Model.Parser Spec.RefTable Spec.Pratt Spec.Chains
  Proofs.C02.Spine Proofs.C02.Denote Proofs.C02.Invariant Proofs.C02.Steps.
Import ListNotations.

(* an operand is expected: the innermost frame waits for the node [length ns] *)
Record pstruct (ns : list pnode) (fs : list frame) : Prop := mkPS {
  ps_spine : spine ns fs (length ns);
  ps_ford : fordered fs (length ns);
  ps_cover : forall j, j < length ns -> frames_have fs j;
  ps_bottom : bottom_lo fs (length ns) = 0;
  ps_fok : frames_ok fs
}.

(* the operand [t] is complete below the frames [fs] *)
Record cstruct (ns : list pnode) (fs : list frame) (t : ntree) : Prop := mkCS {
  cs_linked : linked ns fs t;
  cs_closed : closed_operand t;
  cs_cover : forall j, j < length ns -> frames_have fs j \/ has_id t j;
  cs_bottom : bottom_lo fs (lo t) = 0;
  cs_fok : frames_ok fs
}.

Lemma pstruct_init : pstruct [] [].
Proof. constructor; simpl; auto; [intros j Hj; lia|intros f []]. Qed.

(* facts about an operator definition arriving after a completed operand *)
Record op_facts (d : definition) (rtl : bool) (my p : N) : Prop := mkOF {
  of_se : definition_eqb d D_SideEffect = false;
  of_prio : priority d = Some my;
  of_rank : ref_rank d = Some p;
  of_atom : walk_stop my 10 rtl = false;
  of_group : walk_stop my 20 rtl = false;
  of_inf : (p < INF)%N;
  of_cmp : forall d', frameable d' = true -> cmp_ok d my rtl d' = true
}.

Lemma binary_op_facts t sec my p : binary_facts t sec my p -> op_facts (ref_def t) (rtl_of sec) my p.
Proof. intros BF. constructor; apply BF. Qed.

Lemma compat_of_op d rtl my p fs : op_facts d rtl my p -> frames_ok fs -> compat d my rtl fs.
Proof.
  intros OF FO f Hf Hg. pose proof (of_cmp _ _ _ _ OF _ (FO f Hf Hg)) as C. unfold cmp_ok in C.
  destruct (frame_def_facts _ (FO f Hf Hg)) as (their0 & q0 & _ & _ & _ & _ & Hgl).
  destruct (priority (frame_def f)) as [their|]; [|discriminate].
  destruct (ref_rank (frame_def f)) as [q|] eqn:Eq; [|discriminate].
  exists their. split; [reflexivity|]. split; [|exact Hgl].
  destruct f; try discriminate Hg; unfold stays_below; simpl in Eq |- *; rewrite Eq; apply eqb_prop; exact C.
Qed.

(* S1: an operator after a completed operand; [parse_token] closes the frames [pop] closes *)
Lemma operator_on_complete ns fs t d rtl my p fs' t' :
  cstruct ns fs t -> op_facts d rtl my p -> pop d fs t = (fs', t') ->
  exists ns',
    parse_token (length ns) d (Some (nid t)) ns (first_group fs) rtl = Ok (ns', top_id fs', Some (nid t')) /\
    length ns' = length ns /\
    (* a binary / list node appended: a new frame *)
    (forall nd k, frameable d = true -> bin_shape nd d k -> n_parent nd = top_id fs' ->
                  n_left nd = Some (nid t') -> n_right nd = Some (S (length ns)) ->
                  pstruct (ns' ++ [nd]) (FBin (length ns) d k t' :: fs')) /\
    (* a suffix node appended: a completed operand again *)
    (forall nd k, plain_def d = true -> n_sec nd = S_UnarySuffix -> n_def nd = d -> n_parent nd = top_id fs' ->
                  n_left nd = Some (nid t') -> n_right nd = None -> n_tok nd = Some k ->
                  cstruct (ns' ++ [nd]) fs' (NSuf (length ns) d k t')).
Proof.
  intros [L Cl Cov Bot FO] OF Hpop.
  destruct (parse_token_linked ns fs t d my rtl fs' t' L Cl (of_prio _ _ _ _ OF) (of_se _ _ _ _ OF)
              (of_atom _ _ _ _ OF) (of_group _ _ _ _ OF) (compat_of_op _ _ _ _ fs OF FO) Hpop)
    as (ns' & Hpt & Hlen & Sp' & D' & _).
  exists ns'. split; [exact Hpt|]. split; [exact Hlen|].
  pose proof (pop_linked _ _ _ _ _ _ L Hpop) as L'. destruct L' as [_ D0 F' O'].
  set (len := length ns) in *.
  assert (Hhi : hi t' < len).
  { rewrite <- Hlen. eapply denotes_lt; [exact D'|apply has_id_hi]. }
  assert (SpA : forall nd, spine (ns' ++ [nd]) fs' len).
  { intros nd. eapply spine_ext; [|exact Sp']. intros j Hj. apply nth_error_app_old. rewrite Hlen.
    pose proof (frames_have_lt _ _ _ F' Hj) as R. pose proof (ordered_lo_hi t' O') as R2. lia. }
  assert (DA : forall nd, denotes (ns' ++ [nd]) (Some len) t').
  { intros nd. eapply denotes_ext; [|exact D']. intros j Hj. apply nth_error_app_old.
    eapply denotes_lt; eauto. }
  assert (CovA : forall j, j < len -> frames_have fs' j \/ has_id t' j).
  { intros j Hj. apply (proj2 (pop_has _ _ _ _ _ Hpop j)). apply Cov. exact Hj. }
  split.
  - intros nd k Hfr Hshape Hpar Hleft Hright.
    constructor; rewrite ?app_length, ?Hlen; cbn [length]; replace (len + 1) with (S len) by lia.
    + simpl. split; [|apply SpA].
      exists nd. split; [rewrite <- Hlen; apply nth_error_app_new|].
      split; [exact Hshape|]. split; [exact Hpar|]. split; [exact Hleft|]. split; [exact Hright|]. apply DA.
    + simpl. split; [lia|]. split; [split; [exact O'|exact Hhi]|exact F'].
    + intros j Hj. simpl. destruct (Nat.eq_dec j len) as [->|Hne]; [left; left; reflexivity|].
      destruct (CovA j ltac:(lia)) as [H|H]; [right; exact H|left; right; exact H].
    + simpl. rewrite (pop_bottom _ _ _ _ _ Hpop). exact Bot.
    + intros f [<-|Hf] Hg; [exact Hfr|]. eapply pop_frames_ok; eauto.
  - intros nd k Hplain Hsec Hdef Hpar Hleft Hright Htok.
    constructor.
    + constructor; cbn [nid lo].
      * apply SpA.
      * simpl. exists nd. split; [rewrite <- Hlen; apply nth_error_app_new|].
        split; [exact Hsec|]. split; [exact Hdef|]. split; [exact Hpar|]. split; [exact Hleft|].
        split; [exact Hright|]. split; [exact Htok|]. apply DA.
      * exact F'.
      * simpl. split; [exact Hhi|exact O'].
    + simpl. split; [exists my; exact (of_prio _ _ _ _ OF)|exact Hplain].
    + intros j Hj. rewrite app_length, Hlen in Hj. simpl in Hj.
      destruct (Nat.eq_dec j len) as [->|Hne]; [right; left; reflexivity|].
      destruct (CovA j ltac:(lia)) as [H|H]; [left; exact H|right; right; exact H].
    + simpl. rewrite (pop_bottom _ _ _ _ _ Hpop). exact Bot.
    + eapply pop_frames_ok; eauto.
Qed.

(* S2: a value node appended while an operand is expected *)
Lemma value_on_pending ns fs nd d k :
  pstruct ns fs -> atom_node nd d k (top_id fs) -> cstruct (ns ++ [nd]) fs (NAtom (length ns) d k).
Proof.
  intros [Sp F Cov Bot FO] Hat. constructor.
  - constructor; cbn [nid lo].
    + eapply spine_ext; [|exact Sp]. intros j Hj. apply nth_error_app_old. eapply frames_have_lt; eauto.
    + simpl. exists nd. split; [apply nth_error_app_new|exact Hat].
    + exact F.
    + exact I.
  - exact I.
  - intros j Hj. rewrite app_length in Hj. simpl in Hj.
    destruct (Nat.eq_dec j (length ns)) as [->|Hne]; [right; reflexivity|left; apply Cov; lia].
  - exact Bot.
  - exact FO.
Qed.

(* S3: a prefix node appended while an operand is expected *)
Lemma prefix_on_pending ns fs nd d k :
  pstruct ns fs -> frameable d = true ->
  n_sec nd = S_UnaryPrefix -> n_def nd = d -> n_parent nd = top_id fs -> n_left nd = None ->
  n_right nd = Some (S (length ns)) -> n_tok nd = Some k ->
  pstruct (ns ++ [nd]) (FPre (length ns) d k :: fs).
Proof.
  intros [Sp F Cov Bot FO] Hfr Hsec Hdef Hpar Hleft Hright Htok.
  constructor; rewrite ?app_length; cbn [length]; replace (length ns + 1) with (S (length ns)) by lia.
  - simpl. split.
    + exists nd. split; [apply nth_error_app_new|]. tauto.
    + eapply spine_ext; [|exact Sp]. intros j Hj. apply nth_error_app_old. eapply frames_have_lt; eauto.
  - simpl. split; [lia|]. split; [exact I|exact F].
  - intros j Hj. simpl. destruct (Nat.eq_dec j (length ns)) as [->|Hne]; [left; reflexivity|right; apply Cov; lia].
  - simpl. exact Bot.
  - intros f [<-|Hf] Hg; [exact Hfr|apply FO; assumption].
Qed.

(* S4: an opening bracket where an operand is expected *)
Lemma open_on_pending ns fs nd b k :
  pstruct ns fs ->
  n_sec nd = S_StartGrouping -> n_def nd = bdef b -> n_parent nd = top_id fs -> n_left nd = None ->
  n_right nd = Some (S (length ns)) -> n_tok nd = Some k ->
  pstruct (ns ++ [nd]) (FGroup b (length ns) k :: fs).
Proof.
  intros [Sp F Cov Bot FO] Hsec Hdef Hpar Hleft Hright Htok.
  constructor; rewrite ?app_length; cbn [length]; replace (length ns + 1) with (S (length ns)) by lia.
  - simpl. split.
    + exists nd. split; [apply nth_error_app_new|]. tauto.
    + eapply spine_ext; [|exact Sp]. intros j Hj. apply nth_error_app_old. eapply frames_have_lt; eauto.
  - simpl. split; [lia|]. split; [exact I|exact F].
  - intros j Hj. simpl. destruct (Nat.eq_dec j (length ns)) as [->|Hne]; [left; reflexivity|right; apply Cov; lia].
  - simpl. exact Bot.
  - intros f [<-|Hf] Hg; [discriminate Hg|apply FO; assumption].
Qed.

(* S5: a closing bracket after a completed operand: no node changes; the frames above the
   innermost open bracket and the bracket itself are closed *)
Lemma close_group_ind (Q : list frame -> ntree -> Prop) b :
  (forall f r t, Q (f :: r) t -> Q r (plug f t)) ->
  forall fs t fs' t', Q fs t -> close_group b fs t = Some (fs', t') -> Q fs' t'.
Proof.
  intros Hstep. induction fs as [|f r IH]; intros t fs' t' HQ H; [discriminate|].
  destruct f as [i d k l|i d k|b0 i k]; cbn [close_group] in H.
  - eapply IH; [|exact H]. apply (Hstep (FBin i d k l)). exact HQ.
  - eapply IH; [|exact H]. apply (Hstep (FPre i d k)). exact HQ.
  - destruct (bkind_eqb b0 b); [|discriminate H]. injection H as <- <-. apply (Hstep (FGroup b0 i k)). exact HQ.
Qed.

Lemma close_group_shape b : forall fs t fs' t', close_group b fs t = Some (fs', t') ->
  exists i k a, t' = NGroup b i k a /\ first_group fs = Some i.
Proof.
  induction fs as [|f r IH]; intros t fs' t' H; [discriminate|].
  destruct f as [i d k l|i d k|b0 i k]; cbn [close_group first_group] in *.
  - eapply IH; eauto.
  - eapply IH; eauto.
  - destruct (bkind_eqb b0 b) eqn:Eb; [|discriminate H]. apply bkind_eqb_eq in Eb. subst b0.
    injection H as <- <-. exists i, k, t. split; reflexivity.
Qed.

Lemma close_on_complete ns b fs t fs' t' :
  cstruct ns fs t -> close_group b fs t = Some (fs', t') -> cstruct ns fs' t'.
Proof.
  intros [L Cl Cov Bot FO] H. constructor.
  - revert L H. apply (close_group_ind (linked ns) b). intros f r t0. apply linked_plug.
  - destruct (close_group_shape _ _ _ _ _ H) as (i & k & a & -> & _). exact I.
  - assert (E : forall j, frames_have fs' j \/ has_id t' j <-> frames_have fs j \/ has_id t j).
    { revert H. apply (close_group_ind (fun a c => forall j, frames_have a j \/ has_id c j <-> frames_have fs j \/ has_id t j) b);
        [|tauto]. intros f r t0 H0 j. rewrite <- H0. simpl. rewrite plug_has. tauto. }
    intros j Hj. apply E. apply Cov. exact Hj.
  - revert H. apply (close_group_ind (fun a c => bottom_lo a (lo c) = 0) b); [|exact Bot].
    intros f r t0 H0. rewrite plug_lo. exact H0.
  - revert H. apply (close_group_ind (fun a _ => frames_ok a) b); [|exact FO].
    intros f r _ H0 f' Hf' Hg. apply H0; [right; exact Hf'|exact Hg].
Qed.

(* closing everything: the whole array is the tree *)
Lemma cstruct_tree ns fs t :
  cstruct ns fs t ->
  denotes ns None (close fs t) /\ ordered (close fs t) /\ lo (close fs t) = 0 /\
  (forall j, j < length ns -> has_id (close fs t) j).
Proof.
  intros [[Sp D F O] Cl Cov Bot FO]. split; [apply close_denotes; assumption|].
  split; [apply close_ordered; assumption|]. split; [rewrite close_lo; exact Bot|].
  intros j Hj. apply close_has. apply Cov. exact Hj.
Qed.
