(* Model of runtime/src/runtime/comparison.rs: less_than, less_than_or_equal,
   greater_than, greater_than_or_equal, perform_comparison, cmp_list.
   Operands are value trees ([val]); the data implementation is abstracted to
   "a getter applied to a value of another type is an error, a char/byte list
   is the sequence of its items, its length is their number" (tied to both
   implementations by the cmp correspondence run).
   The operator table and the type-pair arms come from Gen/CmpTable.v, which
   is regenerated from the Rust source on every check.
   No proofs in this file.

   Abstractions, stated once:
   * cmp_list's index loop `while li < len1 && ri < len2` with both start
     indices zero is modelled by structural recursion on the two remaining
     item sequences, carrying the index only for its `increment()` (which is an
     error when the i32 index would overflow);
   * list lengths are below 2^31 (size_to_number is `as i32`);
   * Slice x Slice (text slices compared from their range starts) is outside
     C12's domain and is the distinguished error [E_slice_out_of_scope]. *)
From Coq Require Import ZArith NArith List Bool.
From GV Require Import Base.Result Gen.Instr Gen.CmpTable Model.Num Model.Value.
Import ListNotations.

Definition E_wrong_type : N := 1%N.          (* a getter applied to another type: DataError *)
Definition E_number : N := 2%N.              (* or_num_err: index increment overflowed *)
Definition E_no_register : N := 3%N.         (* next_ref on an empty register stack *)
Definition E_slice_out_of_scope : N := 99%N. (* not modelled *)

(* std::cmp::Ordering::{is_lt, is_le, is_gt, is_ge, is_eq, is_ne} *)
Definition ord_holds (t : ord_test) (c : comparison) : bool :=
  match t, c with
  | Is_lt, Lt => true | Is_lt, _ => false
  | Is_le, Gt => false | Is_le, _ => true
  | Is_gt, Gt => true | Is_gt, _ => false
  | Is_ge, Lt => false | Is_ge, _ => true
  | Is_eq, Eq => true | Is_eq, _ => false
  | Is_ne, Eq => false | Is_ne, _ => true
  end.

(* first matching arm of perform_comparison's type-pair match *)
Definition find_arm (lt rt : data_type) : cmp_arm :=
  match find (fun row => match row with (a, b, _) => data_type_eqb a lt && data_type_eqb b rt end) cmp_arms with
  | Some (_, _, k) => k
  | None => cmp_default
  end.

Definition get_number (v : val) : res num := match v with VNum n => Ok n | _ => Err E_wrong_type end.
Definition get_char (v : val) : res N := match v with VChar c => Ok c | _ => Err E_wrong_type end.
Definition get_byte (v : val) : res N := match v with VByte b => Ok b | _ => Err E_wrong_type end.
Definition get_char_list (v : val) : res (list N) := match v with VChars l => Ok l | _ => Err E_wrong_type end.
Definition get_byte_list (v : val) : res (list N) := match v with VBytes l => Ok l | _ => Err E_wrong_type end.

(* char / u8 partial_cmp *)
Definition cmp_item (a b : N) : option comparison := Some (a ?= b)%N.

(* the loop of cmp_list: [l], [r] are the items from index [i] on *)
Fixpoint cmp_list_loop (l r : list N) (i : Z) (len1 len2 : Z) : res (option comparison) :=
  match l, r with
  | x :: l', y :: r' =>
      match cmp_item x y with
      | Some Eq | None =>
          match num_increment (Int i) with
          | Some (Int i') => cmp_list_loop l' r' i' len1 len2
          | _ => Err E_number
          end
      | Some c => Ok (Some c)
      end
  | _, _ => Ok (num_partial_cmp (Int len1) (Int len2))
  end.

Definition cmp_list (l r : list N) : res (option comparison) :=
  cmp_list_loop l r 0 (Z.of_nat (length l)) (Z.of_nat (length r)).

Definition perform_comparison (false_ord : comparison) (l r : val) : res (option comparison) :=
  match find_arm (type_of_val l) (type_of_val r) with
  | ArmNumber => do a <- get_number l; do b <- get_number r; Ok (num_partial_cmp a b)
  | ArmChar => do a <- get_char l; do b <- get_char r; Ok (cmp_item a b)
  | ArmByte => do a <- get_byte l; do b <- get_byte r; Ok (cmp_item a b)
  | ArmCharList => do a <- get_char_list l; do b <- get_char_list r; cmp_list a b
  | ArmByteList => do a <- get_byte_list l; do b <- get_byte_list r; cmp_list a b
  | ArmSlice => Err E_slice_out_of_scope
  | ArmFalseOrd => Ok (Some false_ord)
  end.

(* the value one of the four operators pushes *)
Definition compare_op (o : cmp_op) (l r : val) : res val :=
  do c <- perform_comparison (op_false_ord o) l r;
  Ok (match c with
      | Some c => if ord_holds (op_test o) c then VTrue else VFalse
      | None => VUnit
      end).

(* the instruction on a register stack (head = top): next_two_raw_ref pops the
   right operand, then the left; one result is pushed *)
Definition exec_compare (o : cmp_op) (regs : list val) : res (list val) :=
  match regs with
  | r :: l :: rest => do v <- compare_op o l r; Ok (v :: rest)
  | _ => Err E_no_register
  end.

(* `==` on C12's domain (the same-type arms of data_equal for numbers, chars,
   bytes, char lists, byte lists: `compare` with PartialEq, and the
   element-wise iterator comparison). [None]: not one of these five pairs.
   Model/Equality.v models data_equal in full; Proofs/C11 shows they agree. *)
Fixpoint items_equal (l r : list N) : bool :=
  match l, r with
  | [], [] => true
  | x :: l', y :: r' => if (x =? y)%N then items_equal l' r' else false
  | _, _ => false
  end.

Definition prim_equal (l r : val) : option bool :=
  match l, r with
  | VNum a, VNum b => Some (num_eq a b)
  | VChar a, VChar b => Some (a =? b)%N
  | VByte a, VByte b => Some (a =? b)%N
  | VChars a, VChars b => Some (items_equal a b)
  | VBytes a, VBytes b => Some (items_equal a b)
  | _, _ => None
  end.
