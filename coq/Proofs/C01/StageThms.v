(* Stage corollaries of Proofs/C01/Main.stage3_program. *)
From Coq Require Import ZArith NArith List Bool Arith.
From GV Require Import Base.Result Base.Host Gen.Instr Model.Num Model.Value Model.Machine
  Model.CompileExpr Spec.Ast Spec.Eval
  Proofs.C01.MachineFacts Proofs.C01.Fragment Proofs.C01.Stages Proofs.C01.Main.
Import ListNotations.

Lemma stage1_program : forall sym_hash hstate host, declines_defer hstate host ->
  forall e vin h n v h' t,
  stage1 e = true ->
  eval_prog sym_hash hstate host n e vin h = ODone v (h', t) ->
  exists s0 fuel steps sfin,
    initial hstate (compile_prog sym_hash e) 0 vin h = Some s0 /\
    run hstate host fuel (compile_prog sym_hash e) s0 = REnd hstate sfin steps /\
    current_value hstate sfin = Some v /\ hs sfin = h' /\ observable (tr sfin) = t.
Proof.
  intros sym_hash hstate host Hd e vin h n v h' t Hs He.
  destruct (stage1_frag e Hs) as (A & B & C).
  exact (stage3_program sym_hash hstate host Hd e vin h n v h' t A B (C true) He).
Qed.

Lemma stage2_program : forall sym_hash hstate host, declines_defer hstate host ->
  forall e vin h n v h' t,
  stage2 e = true -> shape_ok e = true -> seq_ok true e = true ->
  eval_prog sym_hash hstate host n e vin h = ODone v (h', t) ->
  exists s0 fuel steps sfin,
    initial hstate (compile_prog sym_hash e) 0 vin h = Some s0 /\
    run hstate host fuel (compile_prog sym_hash e) s0 = REnd hstate sfin steps /\
    current_value hstate sfin = Some v /\ hs sfin = h' /\ observable (tr sfin) = t.
Proof.
  intros sym_hash hstate host Hd e vin h n v h' t Hs Hsh Hsq He.
  exact (stage3_program sym_hash hstate host Hd e vin h n v h' t (stage2_frag e Hs) Hsh Hsq He).
Qed.
