(* OWNER: builder components C05 / C06 / C20 (the AST compiler of C01 lives in
   Model/CompileExpr.v).

   A structurally recursive compiler on proper binary trees that emits the same
   instructions, jump-table entries and metadata, in the same layout, as the
   two-stack worklist of compiler/src/build/build.rs (Model/BuilderWL.v is the
   transliteration of that worklist on the raw node array; this file is what
   the inductive proofs of C05 / C06 / C20 go over).

   Layout reproduced: the main body first; every body registers its pending
   bodies (conditional arms, right operands of && / ||, nested expressions) in
   the order the worklist pushes them on root_stack and they are emitted LIFO,
   each one completely (with its own pending bodies) before the next; the first
   body gets a fresh jump entry (the reported entry), every later body patches
   the placeholder recorded for it; placeholders are pushed as 0; after a body
   each of its end instructions is appended, except an EndExpression equal to
   the last instruction of the whole table as it was when the body finished,
   provided no jump entry of this build names the end of the stream.

   The context a node is compiled in is exactly what its BuildNode carries:
   the containing expression's jump index, the definition of the list it is a
   flattened child of, and whether it has a conditional parent.  A conditional
   under a conditional parent registers its arm with that parent instead of
   emitting it; only an else-chain head consumes registered arms (the operand
   of && / || hands its left child a conditional parent too and never consumes
   what is registered there -- reproduced literally).

   No proofs in this file. *)
From Coq Require Import List Arith Bool NArith.
From GV Require Import Base.Result Gen.TokenTypes Gen.Defs Gen.Instr Model.Parser Model.BuilderWL.
Import ListNotations.

(* ------------------------------------------------------------------ trees *)
Inductive tree : Type :=
| T (ix : nat) (d : definition) (l r : option tree).

Definition t_ix (t : tree) : nat := match t with T i _ _ _ => i end.
Definition t_def (t : tree) : definition := match t with T _ d _ _ => d end.
Definition t_left (t : tree) : option tree := match t with T _ _ l _ => l end.
Definition t_right (t : tree) : option tree := match t with T _ _ _ r => r end.

Fixpoint size (t : tree) : nat :=
  match t with
  | T _ _ l r =>
    S ((match l with Some a => size a | None => 0 end) + (match r with Some b => size b | None => 0 end))
  end.

Fixpoint indices (t : tree) : list nat :=
  match t with
  | T i _ l r =>
    i :: (match l with Some a => indices a | None => [] end) ++ (match r with Some b => indices b | None => [] end)
  end.

Fixpoint nodup_b (l : list nat) : bool :=
  match l with
  | [] => true
  | x :: r => negb (existsb (Nat.eqb x) r) && nodup_b r
  end.

(* the tree below node [i] of a node array; None when a link leaves the array
   or the links do not bottom out within [fuel] levels (a cycle) *)
Fixpoint tree_of_aux (fuel : nat) (nodes : list pnode) (i : nat) : option tree :=
  match fuel with
  | O => None
  | S f =>
    match nth_error nodes i with
    | None => None
    | Some n =>
      let sub (c : option nat) : option (option tree) :=
        match c with
        | None => Some None
        | Some k => match tree_of_aux f nodes k with Some t => Some (Some t) | None => None end
        end in
      match sub (n_left n), sub (n_right n) with
      | Some l, Some r => Some (T i (n_def n) l r)
      | _, _ => None
      end
    end
  end.

(* proper: every node index occurs once *)
Definition tree_of (nodes : list pnode) (root : nat) : option tree :=
  match tree_of_aux (length nodes) nodes root with
  | Some t => if nodup_b (indices t) then Some t else None
  | None => None
  end.

(* ------------------------------------------------ what a definition builds *)
Inductive bkind : Type :=
| KValue (i : instruction) (with_data : bool)   (* children allowed: left, self, right *)
| KUnary (i : instruction) (child_right : bool) (* prefix: child is right; suffix: child is left *)
| KBinary (i : instruction) (right_first : bool)
| KList
| KLogical (i : instruction)
| KGroup
| KSideEffect
| KNested
| KJumpIf (i : instruction)
| KElse
| KReapply
| KSubexpr
| KFixApply (child_right : bool)
| KInfix
| KErr.

Definition kind_of (d : definition) : bkind :=
  match d with
  | D_Unit | D_False | D_True | D_Number | D_CharList | D_ByteList | D_Symbol | D_Property => KValue I_Put true
  | D_Value => KValue I_PutValue false
  | D_Identifier => KValue I_Resolve true
  | D_ExpressionTerminator => KValue I_EndExpression false
  | D_AbsoluteValue => KUnary I_AbsoluteValue true
  | D_Opposite => KUnary I_Opposite true
  | D_BitwiseNot => KUnary I_BitwiseNot true
  | D_Not => KUnary I_Not true
  | D_Tis => KUnary I_Tis true
  | D_TypeOf => KUnary I_TypeOf true
  | D_AccessLeftInternal => KUnary I_AccessLeftInternal true
  | D_EmptyApply => KUnary I_EmptyApply false
  | D_AccessRightInternal => KUnary I_AccessRightInternal false
  | D_AccessLengthInternal => KUnary I_AccessLengthInternal false
  | D_CommaList | D_List => KList
  | D_Or => KLogical I_Or
  | D_And => KLogical I_And
  | D_Group => KGroup
  | D_SideEffect => KSideEffect
  | D_NestedExpression => KNested
  | D_JumpIfFalse => KJumpIf I_JumpIfFalse
  | D_JumpIfTrue => KJumpIf I_JumpIfTrue
  | D_ElseJump => KElse
  | D_Reapply => KReapply
  | D_Subexpression | D_ExpressionSeparator => KSubexpr
  | D_SuffixApply => KFixApply false
  | D_PrefixApply => KFixApply true
  | D_InfixApply => KInfix
  | D_Drop => KErr
  | _ => match binary_instruction d with
         | Some (i, lr) => KBinary i lr
         | None => KErr
         end
  end.

(* ------------------------------------------------------------------ state *)
Record cst : Type := mkC {
  ci : list instr;           (* instructions pushed by this build *)
  cm : list (option nat);    (* one metadata record per pushed instruction *)
  cj : list nat              (* jump entries pushed by this build *)
}.

Record ctx : Type := mkCx {
  cx_containing : nat;              (* containing_expression_jump *)
  cx_list : option definition;      (* definition of the list this node is a flattened child of *)
  cx_cond : bool                    (* has a conditional parent *)
}.
Definition plain (c : nat) : ctx := mkCx c None false.

(* a body waiting on root_stack *)
Record pend : Type := mkP {
  p_tree : tree;
  p_containing : nat;
  p_jump : nat;                     (* placeholder to patch *)
  p_end : list instr
}.

Definition default_end : list instr := [(I_EndExpression, ONone)].

(* number of contributions to the child count of a list head with definition
   [d]: same-definition lists are flattened, anything else counts once *)
Fixpoint count_items (d : definition) (t : tree) : nat :=
  match t with
  | T _ d' l r =>
    if definition_eqb d' d then
      (match l with Some a => count_items d a | None => 0 end) +
      (match r with Some b => count_items d b | None => 0 end)
    else 1
  end.
Definition list_count (t : tree) : nat :=
  match t with
  | T _ d l r =>
    (match l with Some a => count_items d a | None => 0 end) +
    (match r with Some b => count_items d b | None => 0 end)
  end.

Section Compile.
Variable init : binit.
Variable lit_ok : nat -> bool.

Definition il (s : cst) : nat := i_instr_len init + length (ci s).
Definition jl (s : cst) : nat := i_jump_len init + length (cj s).

Definition emit (s : cst) (i : instr) (m : option nat) : cst :=
  mkC (ci s ++ [i]) (cm s ++ [m]) (cj s).
Definition new_jump (s : cst) (target : nat) : cst :=
  mkC (ci s) (cm s) (cj s ++ [target]).
Definition patch (s : cst) (index target : nat) : res cst :=
  if Nat.ltb index (i_jump_len init) then Err E_foreign_jump else
  match upd (cj s) (index - i_jump_len init) (fun _ => target) with
  | Some l => Ok (mkC (ci s) (cm s) l)
  | None => Err E_build
  end.

Definition cerr {A} : res A := Err E_build.

(* result of compiling a subtree inline: state, bodies pushed on root_stack (in
   push order), arms registered with the conditional parent (in order) *)
Definition out : Type := (cst * list pend * list (tree * nat))%type.

Definition ret (s : cst) : res out := Ok (s, [], []).

(* sequencing of two inline results *)
Definition seq2 (a : res out) (f : cst -> res out) : res out :=
  do x <- a;
  let '(s1, p1, i1) := x in
  do y <- f s1;
  let '(s2, p2, i2) := y in
  Ok (s2, p1 ++ p2, i1 ++ i2).

Definition drop_items (a : res out) : res out :=
  do x <- a; let '(s, p, _) := x in Ok (s, p, []).

Definition present {A} (o : option A) : bool := match o with Some _ => true | None => false end.

(* [rj]: current_root_jump of the body being emitted (what build() passes to
   handle_parse_node; since fix 6b0d36b only a fallback there, unused here) *)
Fixpoint inl (rj : nat) (t : tree) (cx : ctx) (s : cst) {struct t} : res out :=
  match t with
  | T ix d l r =>
    let c := cx_containing cx in
    (* optional child *)
    let sub (o : option tree) (cx' : ctx) (s' : cst) : res out :=
      match o with
      | None => ret s'
      | Some t' => inl rj t' cx' s'
      end in
    (* required child: `.ok_or(CompilerError)` *)
    let req (o : option tree) (cx' : ctx) (s' : cst) : res out :=
      match o with
      | None => cerr
      | Some t' => inl rj t' cx' s'
      end in
    match kind_of d with
    | KValue i with_data =>
      seq2 (sub l (plain c) s) (fun s1 =>
      if with_data && negb (lit_ok ix) then Err E_literal else
      sub r (plain c) (emit s1 (i, if with_data then OData ix else ONone) (Some ix)))
    | KUnary i child_right =>
      (* a suffix operator may carry a right child (a side effect block after
         the suffix expression): it is built after the operation *)
      seq2 (req (if child_right then r else l) (plain c) s) (fun s1 =>
      let s2 := emit s1 (i, ONone) (Some ix) in
      if child_right then ret s2 else sub r (plain c) s2)
    | KBinary i right_first =>
      if negb (present r && present l) then cerr else
      seq2 (req (if right_first then r else l) (plain c) s) (fun s1 =>
      seq2 (req (if right_first then l else r) (plain c) s1) (fun s2 =>
      ret (emit s2 (i, ONone) (Some ix))))
    | KList =>
      let same := match cx_list cx with Some d' => definition_eqb d' d | None => false end in
      let cx' := mkCx c (Some d) false in
      seq2 (sub l cx' s) (fun s1 =>
      seq2 (sub r cx' s1) (fun s2 =>
      if same then ret s2
      else ret (emit s2 (I_MakeList, ONum (list_count t)) (Some ix))))
    | KLogical i =>
      seq2 (drop_items (req l (mkCx c None true) s)) (fun s1 =>
      let jump_index := jl s1 in
      let s2 := new_jump s1 0 in
      let s3 := emit s2 (i, ONum jump_index) (Some ix) in
      match r with
      | None => cerr
      | Some rt =>
        let jump_to := jl s3 in
        let s4 := new_jump s3 (il s3) in
        Ok (s4, [mkP rt c jump_index [(I_Tis, ONone); (I_JumpTo, ONum jump_to)]], [])
      end)
    | KGroup => sub r (plain c) s
    | KSideEffect =>
      (* the expression the block was attached to (its left child) is built first *)
      seq2 (sub l (plain c) s) (fun s0 =>
      seq2 (sub r (plain c) (emit s0 (I_StartSideEffect, ONone) (Some ix))) (fun s1 =>
      ret (emit s1 (I_EndSideEffect, ONone) (Some ix))))
    | KNested =>
      match r with
      | None => ret (emit s (I_Put, OExpr c) (Some ix))   (* `{}`: the expression it is written in *)
      | Some rt =>
        let jump_index := jl s in
        let s1 := new_jump s 0 in
        let s2 := emit s1 (I_Put, OExpr jump_index) (Some ix) in
        Ok (s2, [mkP rt jump_index jump_index default_end], [])
      end
    | KJumpIf i =>
      seq2 (req l (plain c) s) (fun s1 =>
      let jump_index := jl s1 in
      let s2 := new_jump s1 0 in
      match r with
      | None => cerr
      | Some rt =>
        if cx_cond cx then
          Ok (emit s2 (i, ONum jump_index) (Some ix), [], [(rt, jump_index)])
        else
          let s3 := emit s2 (i, ONum jump_index) (Some ix) in
          let s4 := emit s3 (I_PutValue, ONone) None in
          let jump_to := jl s4 in
          let s5 := new_jump s4 (il s4) in
          Ok (s5, [mkP rt c jump_index [(I_JumpTo, ONum jump_to)]], [])
      end)
    | KElse =>
      if negb (present r && present l) then cerr else
      do x <- seq2 (req l (mkCx c None true) s) (fun s1 => req r (mkCx c None true) s1);
      let '(s2, ps, items) := x in
      if cx_cond cx then Ok (s2, ps, items)
      else
        match items with
        | [] => Ok (s2, ps, [])
        | _ =>
          let jump_to := jl s2 in
          let s3 := new_jump s2 (il s2) in
          Ok (s3, ps ++ map (fun it => mkP (fst it) c (snd it) [(I_JumpTo, ONum jump_to)]) items, [])
        end
    | KReapply =>
      seq2 (req r (plain c) s) (fun s1 =>
      let s2 := emit s1 (I_UpdateValue, ONone) (Some ix) in
      ret (emit s2 (I_JumpTo, ONum c) (Some ix)))
    | KSubexpr =>
      if negb (present r && present l) then cerr else
      seq2 (req l (plain c) s) (fun s1 =>
      req r (plain c) (emit s1 (I_UpdateValue, ONone) (Some ix)))
    | KFixApply child_right =>
      if negb (lit_ok ix) then Err E_literal else
      let s1 := emit s (I_Resolve, OData ix) None in
      seq2 (req (if child_right then r else l) (plain c) s1) (fun s2 =>
      let s3 := emit s2 (I_Apply, ONone) (Some ix) in
      if child_right then ret s3 else sub r (plain c) s3)
    | KInfix =>
      if negb (lit_ok ix) then Err E_literal else
      let s1 := emit s (I_Resolve, OData ix) None in
      if negb (present r && present l) then cerr else
      seq2 (req l (plain c) s1) (fun s2 =>
      seq2 (req r (plain c) s2) (fun s3 =>
      let s4 := emit s3 (I_MakeList, ONum 2) None in
      ret (emit s4 (I_Apply, ONone) (Some ix))))
    | KErr => cerr
    end
  end.

(* ------------------------------------------------------------- the bodies *)
Definition last_instr (s : cst) : option instr :=
  match rev (ci s) with
  | i :: _ => Some i
  | [] => i_last_instr init
  end.

(* end instructions of a body: each is appended, except an EndExpression that
   equals the last instruction of the table as it was when the body finished
   (read once) -- and only if no jump entry of this build names the current end
   of the stream (a join after a chain that ends in `;;`, the entry of a body
   that emitted nothing) *)
Definition finish (s : cst) (ends : list instr) : cst :=
  let last := last_instr s in
  let end_is_jump_target := existsb (Nat.eqb (il s)) (cj s) in
  fold_left (fun acc e =>
               match last with
               | Some li => if instr_eqb li e && instruction_eqb (fst e) I_EndExpression && negb end_is_jump_target
                            then acc else emit acc e None
               | None => emit acc e None
               end) ends s.

(* one body popped from root_stack, then everything it pushed, LIFO.  [fuel]
   bounds the nesting depth of bodies (a pending body is a proper subtree of
   the body that registered it, so [size t] is always enough). *)
Fixpoint run_body (fuel : nat) (p : pend) (s : cst) : res cst :=
  match fuel with
  | O => OutOfFuel
  | S f =>
    do s1 <- patch s (p_jump p) (il s);
    do x <- inl (p_jump p) (p_tree p) (plain (p_containing p)) s1;
    let '(s2, ps, _) := x in
    let s3 := finish s2 (p_end p) in
    fold_left (fun (acc : res cst) (q : pend) => do a <- acc; run_body f q a) (rev ps) (Ok s3)
  end.

(* the whole build of a proper tree: instructions, metadata and jump entries
   added, and the reported entry (BuildData::jump_index) *)
Definition compile (t : tree) : res (cst * nat) :=
  let s0 := mkC [] [] [] in
  let entry := i_jump_len init in
  let s1 := new_jump s0 (il s0) in
  do x <- inl entry t (plain entry) s1;
  let '(s2, ps, _) := x in
  let s3 := finish s2 default_end in
  do s4 <- fold_left (fun (acc : res cst) (q : pend) => do a <- acc; run_body (size t) q a) (rev ps) (Ok s3);
  Ok (s4, entry).

End Compile.

Definition E_not_tree : N := 13%N.

(* build() on a node array through the tree compiler: the empty program is the
   special case of build() itself; an array that is not a proper tree below
   [root] is outside this model *)
Definition compile_nodes (nodes : list pnode) (init : binit) (lit_ok : nat -> bool) (root : nat) : res (cst * nat) :=
  match nodes with
  | [] => Ok (mkC [(I_EndExpression, ONone)] [None] [], 0)
  | _ =>
    match tree_of nodes root with
    | Some t => compile init lit_ok t
    | None => Err E_not_tree
    end
  end.

(* comparison with the worklist model's result *)
Definition same_code (c : cst * nat) (b : bstate * nat) : bool :=
  Nat.eqb (snd c) (snd b)
  && (length (ci (fst c)) =? length (instrs (fst b)))
  && forallb (fun p => instr_eqb (fst p) (snd p)) (combine (ci (fst c)) (instrs (fst b)))
  && (length (cm (fst c)) =? length (meta (fst b)))
  && forallb (fun p => opt_nat_eqb (fst p) (snd p)) (combine (cm (fst c)) (meta (fst b)))
  && (length (cj (fst c)) =? length (jumps (fst b)))
  && forallb (fun p => Nat.eqb (fst p) (snd p)) (combine (cj (fst c)) (jumps (fst b))).
