(* C02 for binary chains of any length:  v0 o1 v1 ... on vn  with every binary operator
   token of the table.  The loop of parse() is run through the chain by induction,
   carrying the spine invariant; the final node array is the tree spine insertion
   builds, which is the tree precedence climbing (Spec.Pratt) defines. *)
From Coq Require Import List Arith Bool NArith Lia.
From GV Require Import Base.Result Gen.TokenTypes Gen.Defs Model.Parser Spec.RefTable Spec.Pratt Spec.Chains
  Proofs.C02.Spine Proofs.C02.Denote Proofs.C02.Validate Proofs.C02.Invariant Proofs.C02.Steps.
Import ListNotations.

(* ---- the items of a chain ---- *)
Fixpoint chain_items (rest : list token_type) (i : nat) : list item :=
  match rest with
  | o :: v :: r => IBinary (ref_def o) (Some i) :: IValue (ref_def v) (S i) :: chain_items r (S (S i))
  | _ => []
  end.

Lemma items_of_chain_tail : forall n rest, length rest <= n -> forall i pk,
  chain_tail rest = true -> items_of rest i (Some pk) false = Some (chain_items rest i).
Proof.
  induction n as [|n IH]; intros rest Hn i pk H.
  - destruct rest; [reflexivity|simpl in Hn; lia].
  - destruct rest as [|o [|v r]]; [reflexivity|discriminate|].
    cbn [chain_tail] in H. apply andb_true_iff in H. destruct H as [H H3].
    apply andb_true_iff in H. destruct H as [H1 H2].
    unfold is_binary_tok in H1. unfold is_value_tok in H2.
    cbn [items_of chain_items].
    destruct (ref_kind o) eqn:Eo; try discriminate.
    destruct (ref_kind v) eqn:Ev; try discriminate.
    cbn [andb]. rewrite (IH r ltac:(simpl in Hn; lia) (S (S i)) KValue H3).
    destruct pk; reflexivity.
Qed.

(* ---- the loop over the chain ---- *)
Lemma run_chain ntoks : forall n rest, length rest <= n -> forall i st fs t,
  chain_tail rest = true -> compl st fs t -> length (nodes st) = i -> i + length rest = ntoks ->
  exists st' fs' t',
    run_steps ntoks i rest st = Ok st' /\ compl st' fs' t' /\
    spine_run (chain_items rest i) i (fs, Some t) = Some (fs', Some t').
Proof.
  induction n as [|n IH]; intros rest Hn i st fs t H C Hlen Hi.
  - destruct rest; [|simpl in Hn; lia]. exists st, fs, t. simpl. auto.
  - destruct rest as [|o [|v r]]; [exists st, fs, t; simpl; auto|discriminate|].
    cbn [chain_tail] in H. apply andb_true_iff in H. destruct H as [H H3].
    apply andb_true_iff in H. destruct H as [H1 H2]. simpl in Hi, Hn.
    destruct (step_binary ntoks i o st fs t C H1 ltac:(lia)) as (st1 & fs1 & t1 & Hpop & Hs1 & P1 & L1).
    destruct (step_value ntoks (S i) v st1 _ P1 H2) as (st2 & Hs2 & C2 & L2).
    destruct (IH r ltac:(lia) (S (S i)) st2 _ _ H3 C2 ltac:(lia) ltac:(lia)) as (st' & fs' & t' & R & C' & SR).
    exists st', fs', t'. split; [|split; [exact C'|]].
    + cbn [run_steps]. rewrite Hs1. cbn [bind]. rewrite Hs2. cbn [bind]. exact R.
    + cbn [chain_items spine_run spine_step].
      destruct (binary_tok_facts o H1) as (sec & my & p & BF). rewrite (bf_rank _ _ _ _ BF).
      rewrite Hpop. cbn [spine_run spine_step]. rewrite <- SR. rewrite L1, Hlen. reflexivity.
Qed.

Lemma chain_items_ranked : forall n rest, length rest <= n -> forall i,
  chain_tail rest = true -> Forall item_ranked (chain_items rest i).
Proof.
  induction n as [|n IH]; intros rest Hn i H.
  - destruct rest; [constructor|simpl in Hn; lia].
  - destruct rest as [|o [|v r]]; [constructor|discriminate|].
    cbn [chain_tail] in H. apply andb_true_iff in H. destruct H as [H H3].
    apply andb_true_iff in H. destruct H as [H1 H2]. simpl in Hn.
    cbn [chain_items]. constructor; [|constructor; [exact I|apply (IH r); [lia|exact H3]]].
    destruct (binary_tok_facts o H1) as (sec & my & p & BF).
    simpl. exists p. split; [exact (bf_rank _ _ _ _ BF)|exact (bf_inf _ _ _ _ BF)].
Qed.

(* ---- trimming leaves a chain alone ---- *)
Lemma value_not_trim t : is_value_tok t = true -> is_trim t = false.
Proof. destruct t; intros H; try discriminate H; reflexivity. Qed.

Lemma chain_tail_last : forall n rest, length rest <= n -> chain_tail rest = true ->
  rest = [] \/ exists r0 v, rest = r0 ++ [v] /\ is_value_tok v = true.
Proof.
  induction n as [|n IH]; intros rest Hn H.
  - destruct rest; [left; reflexivity|simpl in Hn; lia].
  - destruct rest as [|o [|v r]]; [left; reflexivity|discriminate|]. right.
    cbn [chain_tail] in H. apply andb_true_iff in H. destruct H as [H H3].
    apply andb_true_iff in H. destruct H as [H1 H2]. simpl in Hn.
    destruct (IH r ltac:(lia) H3) as [->|(r0 & v' & -> & Hv')].
    + exists [o], v. split; [reflexivity|exact H2].
    + exists (o :: v :: r0), v'. split; [reflexivity|exact Hv'].
Qed.

Lemma trim_tokens_chain toks : binary_chain toks = true -> trim_tokens toks = (0, toks).
Proof.
  destruct toks as [|v rest]; [discriminate|]. cbn [binary_chain]. intros H.
  apply andb_true_iff in H. destruct H as [Hv Ht].
  unfold trim_tokens. cbn [drop_while_trim]. rewrite (value_not_trim v Hv).
  rewrite Nat.sub_diag. f_equal.
  destruct (chain_tail_last (length rest) rest (le_n _) Ht) as [->|(r0 & v' & -> & Hv')].
  - cbn [rev app drop_while_trim]. rewrite (value_not_trim v Hv). reflexivity.
  - replace (rev (v :: r0 ++ [v'])) with (v' :: rev (v :: r0)).
    + cbn [drop_while_trim]. rewrite (value_not_trim v' Hv').
      change (v' :: rev (v :: r0)) with ([v'] ++ rev (v :: r0)).
      rewrite rev_app_distr, rev_involutive. reflexivity.
    + cbn [rev]. rewrite rev_app_distr. reflexivity.
Qed.

(* ---- the end of parse(): nothing left to fix up on a complete tree ---- *)
Lemma denotes_right_lt ns : forall t p j n r,
  denotes ns p t -> has_id t j -> nth_error ns j = Some n -> n_right n = Some r -> r < length ns.
Proof.
  induction t as [i d k|i d k a IH|i d k a IH|i d k l IHl r0 IHr]; intros p j n r D Hj Hn Hr; simpl in D, Hj;
    destruct D as (n0 & Hn0 & A).
  - subst j. rewrite Hn0 in Hn. injection Hn as <-. destruct A as (_ & _ & _ & _ & _ & A6 & _). congruence.
  - destruct A as (A1 & A2 & A3 & A4 & A5 & A6 & A7). destruct Hj as [->|Hj].
    + rewrite Hn0 in Hn. injection Hn as <-. rewrite A5 in Hr. injection Hr as <-.
      eapply denotes_lt; [exact A7|apply has_id_root].
    + eapply IH; eauto.
  - destruct A as (A1 & A2 & A3 & A4 & A5 & A6 & A7). destruct Hj as [->|Hj].
    + rewrite Hn0 in Hn. injection Hn as <-. congruence.
    + eapply IH; eauto.
  - destruct A as (A1 & A2 & A3 & A4 & A5 & A6). destruct Hj as [->|[Hj|Hj]].
    + rewrite Hn0 in Hn. injection Hn as <-. rewrite A4 in Hr. injection Hr as <-.
      eapply denotes_lt; [exact A6|apply has_id_root].
    + eapply IHl; eauto.
    + eapply IHr; eauto.
Qed.

Lemma map_fix_right_id ns t :
  denotes ns None t -> (forall j, j < length ns -> has_id t j) ->
  map (fun n => match n_right n with
                | Some r => if Nat.leb (length ns) r then set_right None n else n
                | None => n end) ns = ns.
Proof.
  intros D Cov. transitivity (map (fun x : pnode => x) ns); [|apply map_id]. apply map_ext_in. intros n Hin.
  destruct (In_nth_error _ _ Hin) as [j Hj].
  destruct (n_right n) as [r|] eqn:Er; [|reflexivity].
  pose proof (denotes_right_lt ns t None j n r D (Cov j (nth_error_lt _ _ _ Hj)) Hj Er) as L.
  destruct (Nat.leb_spec (length ns) r); [lia|reflexivity].
Qed.

Lemma definition_eqb_refl d : definition_eqb d d = true.
Proof. unfold definition_eqb. apply N.eqb_refl. Qed.

Lemma rtree_eqb_refl t : rtree_eqb t t = true.
Proof.
  induction t; simpl; rewrite ?definition_eqb_refl, ?Nat.eqb_refl, ?opt_nat_eqb_refl; auto.
  - rewrite IHt1, IHt2. reflexivity.
Qed.

(* what parse() returns once the loop has ended in a completed state *)
Lemma parse_trimmed_compl toks st fs t :
  toks <> [] -> run_steps (length toks) 0 toks init_state = Ok st -> compl st fs t ->
  parse_trimmed toks = Ok (nid (close fs t), nodes st) /\
  denotes (nodes st) None (close fs t) /\ ordered (close fs t).
Proof.
  intros Hne Hrun C. destruct C as [L Cl Hll Cov Bot FO [Hcg Hgs Hnll Hcfl Hsep] Hprev].
  destruct L as [Sp D F O].
  pose proof (close_denotes _ _ _ Sp D) as DT. pose proof (close_ordered _ _ F O) as OT.
  assert (CovT : forall j, j < length (nodes st) -> has_id (close fs t) j).
  { intros j Hj. apply close_has. apply Cov. exact Hj. }
  assert (LoT : lo (close fs t) = 0) by (rewrite close_lo; exact Bot).
  split; [|split; assumption].
  unfold parse_trimmed. destruct toks as [|t0 rest]; [congruence|]. rewrite Hrun. cbn [bind].
  rewrite Hcfl, Hsep, Hgs.
  assert (Hf : forbidden (prev_sec st) S_None false = false) by (destruct (prev_sec st); try discriminate; reflexivity).
  rewrite Hf. cbn [andb]. cbv zeta. rewrite (map_fix_right_id _ _ DT CovT).
  destruct (denotes_root _ _ _ DT) as (nr & Hnr & _).
  destruct (nodes st) as [|n0 ns'] eqn:En; [destruct (nid (close fs t)); discriminate|].
  rewrite <- En in *.
  assert (H0 : nth_error (nodes st) 0 = Some n0) by (rewrite En; reflexivity).
  rewrite (find_root_tree _ _ _ DT OT LoT H0). cbn [bind].
  rewrite (validate_tree_complete _ _ DT OT CovT). reflexivity.
Qed.

Theorem c02_binary_chains toks : binary_chain toks = true -> c02_agree toks = true.
Proof.
  intros H. pose proof (trim_tokens_chain toks H) as Htrim.
  destruct toks as [|v rest]; [discriminate|]. cbn [binary_chain] in H.
  apply andb_true_iff in H. destruct H as [Hv Ht].
  (* the loop *)
  destruct (step_value (length (v :: rest)) 0 v init_state [] init_pend Hv) as (st1 & Hs1 & C1 & L1).
  cbn [nodes init_state length] in C1, L1.
  destruct (run_chain (length (v :: rest)) (length rest) rest (le_n _) 1 st1 _ _ Ht C1 L1 ltac:(simpl; lia))
    as (st' & fs' & t' & R & C' & SR).
  assert (Hrun : run_steps (length (v :: rest)) 0 (v :: rest) init_state = Ok st').
  { cbn [run_steps]. rewrite Hs1. cbn [bind]. exact R. }
  destruct (parse_trimmed_compl (v :: rest) st' fs' t' ltac:(discriminate) Hrun C') as (Hp & DT & OT).
  (* the reference *)
  set (T := close fs' t') in *.
  assert (Hitems : items_of (v :: rest) 0 None false = Some (IValue (ref_def v) 0 :: chain_items rest 1)).
  { cbn [items_of]. unfold is_value_tok in Hv. destruct (ref_kind v) eqn:Ev; try discriminate.
    rewrite (items_of_chain_tail (length rest) rest (le_n _) 1 KValue Ht). reflexivity. }
  assert (Hins : spine_insert (IValue (ref_def v) 0 :: chain_items rest 1) = Some T).
  { unfold spine_insert. cbn [spine_run spine_step]. rewrite SR. reflexivity. }
  assert (Hranked : Forall item_ranked (IValue (ref_def v) 0 :: chain_items rest 1)).
  { constructor; [exact I|]. apply (chain_items_ranked (length rest)); [lia|exact Ht]. }
  unfold c02_agree, pratt. rewrite Hitems.
  rewrite (spine_insert_climb _ T _ Hranked Hins) by lia.
  unfold parse. rewrite Htrim. cbn [fst snd]. rewrite Hp.
  pose proof (ordered_size T OT) as Hsz.
  assert (Hhi : hi T < length (nodes st')).
  { assert (has_id T (hi T)) as Hh by (clear; induction T; simpl; auto).
    eapply denotes_lt; eauto. }
  rewrite (tree_of_denotes (nodes st') T None _ DT) by lia.
  apply rtree_eqb_refl.
Qed.
