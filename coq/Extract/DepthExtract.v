(* Extraction for the C06 correspondence: parser and worklist-builder models,
   the tree compiler, the depth typing checker / abstract interpreter and the
   abstract depth machine (ExtrOcamlBasic only). *)
Require Import ExtrOcamlBasic.
From Coq Require Import List NArith ZArith.
From GV Require Import Base.Result Gen.TokenTypes Gen.Defs Gen.Instr Model.Parser Model.BuilderWL
  Model.Compile Spec.Depth Proofs.C05.Known Proofs.C06.Known Proofs.C06.Balanced.
Cd "../build/ocaml".
Extraction "depth_model.ml" parse trim_tokens build build_fuel empty_init all_token_type all_instruction
  definition_index secondary_index instruction_index token_type_index Z.of_N N.of_nat N.to_nat
  compile_nodes same_code tree_of
  prog_of_build infer_depths check_typed asteps a_init pjump pinstr dmap_of total_regs total_values effect succs
  has_chain_no_else has_empty_value has_reapply_pending has_chain_early_else has_terminator balanced.
Cd "../../coq".
