(* Reference evaluator for the core language: big-step, on the AST, with fuel.
   Written from the property texts (C01, C10, C17) and the language documents;
   it knows nothing of tokens, parse nodes, instructions, jump tables or stacks.

   * values are structural trees ([val]); an expression value is the label of
     its body;
   * `$` is the current input value; a sub-expression separator makes the
     value of what precedes it the `$` of what follows;
   * an identifier is looked up first in `$` (a list of symbol-keyed pairs, or
     one such pair), then the host's resolve callback is asked, exactly once;
     if it declines the identifier is unit;
   * applying an external value asks the host's apply callback exactly once;
   * exactly unit and false are false; `&&` / `||` evaluate their right operand
     only when the left one does not decide, and produce a boolean; a
     conditional whose test fails yields `$`; an else-chain evaluates its
     conditions in order and the arm of the first that holds;
   * `^~ e` restarts the enclosing expression body with `$` = the value of e;
   * every host call is appended to the trace.

   Where the property texts leave the result open (two equal keys in one
   list, operations on value kinds outside the core language, float powers)
   the evaluator answers [OUnspec]: the checks skip such cases and the
   theorems exclude them. *)
From Coq Require Import ZArith NArith List Bool.
From Flocq Require Import IEEE754.Binary IEEE754.Bits.
From GV Require Import Gen.Instr Model.Num Model.Value Base.Host Spec.Ast.
Import ListNotations.

Inductive out (S A : Type) : Type :=
| ODone (a : A) (s : S)
| ORestart (v : val) (s : S)     (* `^~` : restart the enclosing body with this `$` *)
| OUnspec (why : N)
| OFuel.
Arguments ODone {S A} a s.
Arguments ORestart {S A} v s.
Arguments OUnspec {S A} why.
Arguments OFuel {S A}.

Definition obind {S A B} (o : out S A) (k : A -> S -> out S B) : out S B :=
  match o with
  | ODone a s => k a s
  | ORestart v s => ORestart v s
  | OUnspec w => OUnspec w
  | OFuel => OFuel
  end.

(* reasons for OUnspec *)
Definition U_dup_key : N := 1%N.        (* two items of one list carry the looked-up key *)
Definition U_kind : N := 2%N.           (* a value kind outside the core language (range, slice, ...) *)
Definition U_float : N := 3%N.          (* float power, float index *)
Definition U_symnum : N := 4%N.         (* symbol lists with numeric parts *)
Definition U_label : N := 5%N.          (* an expression value whose body is not in the program *)

(* ------------------------------------------------------------ truth (C10) *)
Definition truthy (v : val) : bool :=
  match v with VUnit | VFalse => false | _ => true end.
Definition vbool (b : bool) : val := if b then VTrue else VFalse.

(* --------------------------------------------------------------- literals *)
Definition float_of_decimal (m : N) (k : nat) : binary64 :=
  f64_div (f64_of_i32 (Z.of_N m)) (f64_of_i32 (Z.of_N (10 ^ N.of_nat k))).

Section Eval.
Variable sym_hash : list N -> N.

Definition lit_val (l : lit) : val :=
  match l with
  | LInt n => VNum (Int (Z.of_N n))
  | LFloat m k => VNum (Flt (float_of_decimal m k))
  | LStr cs => VChars cs
  | LSym name | LProp name => VSym (sym_hash name)
  | LUnit => VUnit | LTrue => VTrue | LFalse => VFalse
  end.

(* --------------------------------------------------- primitive operations *)
Definition is_core_kind (v : val) : bool :=
  match v with
  | VRange _ _ | VSlice _ _ | VConcat _ _ | VPartial _ _ | VBytes _ | VByte _ | VCustom | VType _ => false
  | _ => true
  end.

Definition no_powf (a _ : binary64) : binary64 := a.

Definition arith_op (o : binop) : option Num.binop :=
  match o with
  | BAdd => Some OpAdd | BSub => Some OpSub | BMul => Some OpMul | BDiv => Some OpDiv
  | BIntDiv => Some OpIntDiv | BPow => Some OpPow | BRem => Some OpRem
  | BBitAnd => Some OpAnd | BBitOr => Some OpOr | BBitXor => Some OpXor
  | BShl => Some OpShl | BShr => Some OpShr
  | _ => None
  end.

Definition of_num (r : option num) : val := match r with Some n => VNum n | None => VUnit end.

(* arithmetic and bitwise operators: defined on two numbers, unit otherwise *)
Definition prim_arith (o : Num.binop) (l r : val) : option val :=
  match l, r with
  | VNum a, VNum b =>
      match o, a, b with
      | OpPow, Int _, Int _ => Some (of_num (num_binop no_powf o a b))
      | OpPow, _, _ => None
      | _, _, _ => Some (of_num (num_binop no_powf o a b))
      end
  | _, _ => Some VUnit
  end.

(* ordering: numbers by value, characters by code, char lists lexicographically;
   any other combination is false for every operator *)
Fixpoint lex_cmp (l r : list N) : comparison :=
  match l, r with
  | [], [] => Eq
  | [], _ :: _ => Lt
  | _ :: _, [] => Gt
  | x :: l', y :: r' => match (x ?= y)%N with Eq => lex_cmp l' r' | c => c end
  end.
Definition rel_holds (o : binop) (c : comparison) : bool :=
  match o, c with
  | BLt, Lt => true | BLt, _ => false
  | BLe, Gt => false | BLe, _ => true
  | BGt, Gt => true | BGt, _ => false
  | BGe, Lt => false | BGe, _ => true
  | _, _ => false
  end.
Definition prim_compare (o : binop) (l r : val) : option val :=
  match l, r with
  | VNum a, VNum b =>
      Some (match num_partial_cmp a b with Some c => vbool (rel_holds o c) | None => VUnit end)
  | VChar a, VChar b | VByte a, VByte b => Some (vbool (rel_holds o (a ?= b)%N))
  | VChars a, VChars b | VBytes a, VBytes b => Some (vbool (rel_holds o (lex_cmp a b)))
  | VSlice _ _, VSlice _ _ => None            (* slices of text: outside the core language *)
  | _, _ => Some VFalse
  end.

(* structural equality *)
Definition sympart_eqb (a b : sympart) : bool :=
  match a, b with
  | SPSym x, SPSym y => (x =? y)%N
  | SPNum x, SPNum y => num_eq x y
  | _, _ => false
  end.
Fixpoint list_eqb {A} (eqA : A -> A -> bool) (l r : list A) : bool :=
  match l, r with
  | [], [] => true
  | x :: l', y :: r' => eqA x y && list_eqb eqA l' r'
  | _, _ => false
  end.
Fixpoint veq (a b : val) : bool :=
  match a, b with
  | VUnit, VUnit | VTrue, VTrue | VFalse, VFalse => true
  | VNum x, VNum y => num_eq x y
  | VChar x, VChar y => (x =? y)%N
  | VSym x, VSym y => (x =? y)%N
  | VSymList x, VSymList y => list_eqb sympart_eqb x y
  | VChars x, VChars y => list_eqb N.eqb x y
  | VChar c, VChars [c'] | VChars [c'], VChar c => (c =? c')%N
  | VPair a1 a2, VPair b1 b2 => veq a1 b1 && veq a2 b2
  | VList xs, VList ys =>
      (fix go (xs ys : list val) : bool :=
         match xs, ys with
         | [], [] => true
         | x :: xs', y :: ys' => veq x y && go xs' ys'
         | _, _ => false
         end) xs ys
  | VExpr x, VExpr y => (x =? y)%N
  | VExternal x, VExternal y => (x =? y)%N
  | _, _ => false
  end.
Fixpoint core_value (v : val) : bool :=
  is_core_kind v &&
  match v with
  | VPair a b => core_value a && core_value b
  | VList items => forallb core_value items
  | _ => true
  end.

(* items of a list keyed by the symbol s *)
Fixpoint keyed (items : list val) (s : N) : list val :=
  match items with
  | [] => []
  | VPair (VSym k) v :: r => if (k =? s)%N then v :: keyed r s else keyed r s
  | _ :: r => keyed r s
  end.

Inductive found : Type := Found (v : val) | NotFound | Open (why : N).

Definition by_symbol (v : val) (s : N) : found :=
  match v with
  | VList items =>
      match keyed items s with
      | [] => NotFound
      | [x] => Found x
      | _ => Open U_dup_key
      end
  | VPair (VSym k) x => if (k =? s)%N then Found x else NotFound
  | VConcat _ _ | VSlice _ _ => Open U_kind
  | _ => NotFound
  end.

Definition by_index (v : val) (i : num) : found :=
  match v, i with
  | VList items, Int z =>
      if (z <? 0)%Z then NotFound
      else match nth_z items z with Some x => Found x | None => Found VUnit end
  | VPair (VSym k) x, _ => if num_eq i (Int 0) then Found v else NotFound
  | VPair _ _, _ => NotFound
  | VChars cs, Int z =>
      if (z <? 0)%Z then NotFound
      else match nth_z cs z with Some c => Found (VChar c) | None => NotFound end
  | VList _, Flt _ | VChars _, Flt _ => Open U_float
  | VSymList _, _ => Open U_symnum
  | VConcat _ _, _ | VSlice _ _, _ | VRange _ _, _ | VBytes _, _ => Open U_kind
  | _, _ => NotFound
  end.

Definition of_found (f : found) : option val :=
  match f with Found v => Some v | NotFound => Some VUnit | Open _ => None end.
Definition why_of (f : found) : N := match f with Open w => w | _ => 0%N end.

Definition merge_symbols (l r : val) : option val :=
  match l, r with
  | VSym a, VSym b => Some (VSymList [SPSym a; SPSym b])
  | VSym a, VSymList y => Some (VSymList (SPSym a :: y))
  | VSymList x, VSym b => Some (VSymList (x ++ [SPSym b]))
  | VSymList x, VSymList y => Some (VSymList (x ++ y))
  | _, _ => None
  end.

(* l . r ; the answer and, when open, why *)
Definition prim_access (l r : val) : option val * N :=
  match l, r with
  | (VSym _ | VSymList _), (VSym _ | VSymList _) => (merge_symbols l r, 0%N)
  | (VSym _ | VSymList _), VNum _ | VNum _, (VSym _ | VSymList _) => (None, U_symnum)
  | _, VNum i => let f := by_index l i in (of_found f, why_of f)
  | (VPair _ _ | VList _ | VConcat _ _ | VSlice _ _), VSym s => let f := by_symbol l s in (of_found f, why_of f)
  | _, _ => if is_core_kind l && is_core_kind r then (Some VUnit, 0%N) else (None, U_kind)
  end.

(* f <~ x when f is data *)
Definition prim_apply_data (f x : val) : option val * N :=
  match f, x with
  | VSym _, VSymList _ | VSymList _, VSym _ | VSymList _, VSymList _ => (merge_symbols f x, 0%N)
  | (VList _ | VPair _ _ | VSymList _), VNum i => let r := by_index f i in (of_found r, why_of r)
  | (VPair _ _ | VList _), VSym s => let r := by_symbol f s in (of_found r, why_of r)
  | VList _, VSymList _ => (None, U_symnum)
  | (VList _ | VConcat _ _ | VChars _ | VBytes _ | VSymList _ | VRange _ _ | VSlice _ _), VRange _ _ => (None, U_kind)
  | VPartial _ _, _ => (None, U_kind)
  | _, _ => if is_core_kind f && is_core_kind x then (Some VUnit, 0%N) else (None, U_kind)
  end.

Definition prim_unop (o : unop) (v : val) : option val :=
  match o with
  | UAbs => Some (match v with VNum a => of_num (num_unop OpAbs a) | _ => VUnit end)
  | UNeg => Some (match v with VNum a => of_num (num_unop OpNeg a) | _ => VUnit end)
  | UBitNot => Some (match v with VNum a => of_num (num_unop OpNot a) | _ => VUnit end)
  | UNot => Some (vbool (negb (truthy v)))
  | UTis => Some (vbool (truthy v))
  | ULeft =>
      match v with
      | VPair a _ => Some a
      | VRange _ _ | VSlice _ _ | VConcat _ _ => None
      | _ => Some VUnit
      end
  | URight =>
      match v with
      | VPair _ b => Some b
      | VRange _ _ | VSlice _ _ | VConcat _ _ => None
      | _ => Some VUnit
      end
  | ULen =>
      match v with
      | VPair (VSym _) _ => Some (VNum (Int 1))
      | VList items => Some (VNum (Int (Z.of_nat (length items))))
      | VChars cs => Some (VNum (Int (Z.of_nat (length cs))))
      | VBytes bs => Some (VNum (Int (Z.of_nat (length bs))))
      | VRange _ _ | VSlice _ _ | VConcat _ _ => None
      | _ => Some VUnit
      end
  | UEmptyApply => None   (* handled by the evaluator *)
  end.

Definition prim_binop (o : binop) (l r : val) : option val * N :=
  match arith_op o with
  | Some a => (prim_arith a l r, U_float)
  | None =>
      match o with
      | BLt | BLe | BGt | BGe => (prim_compare o l r, U_kind)
      | BEq => if core_value l && core_value r then (Some (vbool (veq l r)), 0%N) else (None, U_kind)
      | BNe => if core_value l && core_value r then (Some (vbool (negb (veq l r))), 0%N) else (None, U_kind)
      | BXor => (Some (vbool (xorb (truthy l) (truthy r))), 0%N)
      | BPair => (Some (VPair l r), 0%N)
      | BAccess => prim_access l r
      | _ => (None, U_kind)
      end
  end.

(* --------------------------------------------------------------- the host *)
Variable hstate : Type.
Variable host : hstate -> host_call -> hstate * option val.
Variable prog_bodies : list (N * expr).

Definition st : Type := (hstate * trace)%type.
Definition call_host (c : host_call) (s : st) : st * option val :=
  let '(h', r) := host (fst s) c in ((h', snd s ++ [c]), r).

Definition lift (r : option val * N) (s : st) : out st val :=
  match r with (Some v, _) => ODone v s | (None, w) => OUnspec w end.

Definition resolve_ident (name : list N) (vin : val) (s : st) : out st val :=
  let sym := sym_hash name in
  match by_symbol vin sym with
  | Found v => ODone v s
  | Open w => OUnspec w
  | NotFound =>
      let '(s', r) := call_host (HResolve sym) s in
      ODone (match r with Some v => v | None => VUnit end) s'
  end.

Definition cond_holds (neg : bool) (v : val) : bool := xorb neg (truthy v).

(* -------------------------------------------------------------- evaluator *)
Fixpoint eval (n : nat) (e : expr) (vin : val) (s : st) {struct n} : out st val :=
  match n with
  | O => OFuel
  | S n' =>
    match e with
    | ELit l => ODone (lit_val l) s
    | EValue => ODone vin s
    | EIdent name => resolve_ident name vin s
    | EUn UEmptyApply f =>
        obind (eval n' f vin s) (fun vf s1 => apply_val n' vf VUnit s1)
    | EUn o x =>
        obind (eval n' x vin s) (fun v s1 =>
          match prim_unop o v with Some r => ODone r s1 | None => OUnspec U_kind end)
    | EBin BPair l r =>
        (* the right operand is evaluated first *)
        obind (eval n' r vin s) (fun vr s1 =>
        obind (eval n' l vin s1) (fun vl s2 => ODone (VPair vl vr) s2))
    | EBin BApply f x =>
        obind (eval n' f vin s) (fun vf s1 =>
        obind (eval n' x vin s1) (fun vx s2 => apply_val n' vf vx s2))
    | EBin BApplyTo x f =>
        (* the function is evaluated first *)
        obind (eval n' f vin s) (fun vf s1 =>
        obind (eval n' x vin s1) (fun vx s2 => apply_val n' vf vx s2))
    | EBin o l r =>
        obind (eval n' l vin s) (fun vl s1 =>
        obind (eval n' r vin s1) (fun vr s2 => lift (prim_binop o vl vr) s2))
    | EAnd l r =>
        obind (eval n' l vin s) (fun vl s1 =>
          if truthy vl
          then obind (eval n' r vin s1) (fun vr s2 => ODone (vbool (truthy vr)) s2)
          else ODone VFalse s1)
    | EOr l r =>
        obind (eval n' l vin s) (fun vl s1 =>
          if truthy vl
          then ODone VTrue s1
          else obind (eval n' r vin s1) (fun vr s2 => ODone (vbool (truthy vr)) s2))
    | EList k _ _ =>
        obind (eval_items n' k e vin s) (fun items s1 => ODone (VList items) s1)
    | EGroup x => eval n' x vin s
    | ECond neg c a =>
        obind (eval n' c vin s) (fun vc s1 =>
          if cond_holds neg vc then eval n' a vin s1 else ODone vin s1)
    | EElse _ _ =>
        obind (eval_chain n' e vin s) (fun o s1 =>
          match o with Some v => ODone v s1 | None => ODone vin s1 end)
    | ESeq _ l r =>
        obind (eval n' l vin s) (fun vl s1 => eval n' r vl s1)
    | ESide a sd =>
        obind (eval n' a vin s) (fun va s1 =>
        obind (eval n' sd vin s1) (fun _ s2 => ODone va s2))
    | ENested lbl _ => ODone (VExpr lbl) s
    | EReapply x =>
        obind (eval n' x vin s) (fun v s1 => ORestart v s1)
    end
  end

(* the items of a list: the left spine of lists of the same kind is one list *)
with eval_items (n : nat) (k : list_kind) (e : expr) (vin : val) (s : st) {struct n} : out st (list val) :=
  match n with
  | O => OFuel
  | S n' =>
    match e with
    | EList k' l r =>
        if match k, k' with Space, Space | Comma, Comma => true | _, _ => false end
        then
          obind (if is_list_of k l then eval_items n' k l vin s
                 else obind (eval n' l vin s) (fun v s1 => ODone [v] s1)) (fun ls s1 =>
          obind (eval n' r vin s1) (fun vr s2 => ODone (ls ++ [vr]) s2))
        else obind (eval n' e vin s) (fun v s1 => ODone [v] s1)
    | _ => obind (eval n' e vin s) (fun v s1 => ODone [v] s1)
    end
  end

(* an else-chain: Some v when an arm (or the final else) produced v, None when
   every condition failed and there is no final else *)
with eval_chain (n : nat) (e : expr) (vin : val) (s : st) {struct n} : out st (option val) :=
  match n with
  | O => OFuel
  | S n' =>
    match e with
    | EElse l r =>
        obind (eval_chain n' l vin s) (fun o s1 =>
          match o with
          | Some v => ODone (Some v) s1
          | None => eval_chain n' r vin s1
          end)
    | ECond neg c a =>
        obind (eval n' c vin s) (fun vc s1 =>
          if cond_holds neg vc
          then obind (eval n' a vin s1) (fun v s2 => ODone (Some v) s2)
          else ODone None s1)
    | _ => obind (eval n' e vin s) (fun v s1 => ODone (Some v) s1)
    end
  end

(* f <~ x *)
with apply_val (n : nat) (f x : val) (s : st) {struct n} : out st val :=
  match n with
  | O => OFuel
  | S n' =>
    match f with
    | VExpr lbl =>
        match find_body prog_bodies lbl with
        | Some b => run_body n' b x s
        | None => OUnspec U_label
        end
    | VExternal k =>
        let '(s', r) := call_host (HApply k x) s in
        ODone (match r with Some v => v | None => VUnit end) s'
    | _ => lift (prim_apply_data f x) s
    end
  end

(* an expression body: `^~` starts it again with a new `$` *)
with run_body (n : nat) (b : expr) (vin : val) (s : st) {struct n} : out st val :=
  match n with
  | O => OFuel
  | S n' =>
    match eval n' b vin s with
    | ORestart v s' => run_body n' b v s'
    | o => o
    end
  end.

End Eval.

(* a whole program: its own nested bodies, an empty trace *)
Definition eval_prog (sym_hash : list N -> N) (hstate : Type)
           (host : hstate -> host_call -> hstate * option val)
           (n : nat) (e : expr) (vin : val) (h : hstate) : out (hstate * trace) val :=
  run_body sym_hash hstate host (bodies e) n e vin (h, []).
