(* List lemmas for the store proofs: checked update, windows
   (firstn c (skipn st l)) read pointwise, the copy loop of reallocate_heap,
   the stable insertion sort. *)
From Coq Require Import NArith List Bool Arith Lia Permutation.
From GV Require Import Base.Result Model.StoreBase Model.BasicStore.
Import ListNotations.

Lemma set_ix_some : forall {A} (l : list A) i x, i < length l -> exists l', set_ix l i x = Some l'.
Proof.
  induction l as [|y r IH]; intros i x Hi; cbn in *; [lia|].
  destruct i as [|i]; [eauto|].
  destruct (IH i x) as [r' Hr]; [lia|]. rewrite Hr. eauto.
Qed.

Lemma set_ix_none : forall {A} (l : list A) i x, length l <= i -> set_ix l i x = None.
Proof.
  induction l as [|y r IH]; intros i x Hi; cbn in *; [reflexivity|].
  destruct i as [|i]; [lia|]. rewrite IH by lia. reflexivity.
Qed.

Lemma set_ix_length : forall {A} (l : list A) i x l', set_ix l i x = Some l' -> length l' = length l.
Proof.
  induction l as [|y r IH]; intros i x l' H; cbn in *; [discriminate|].
  destruct i as [|i]; [inversion H; reflexivity|].
  destruct (set_ix r i x) eqn:E; [|discriminate]. inversion H; subst. cbn. f_equal. eauto.
Qed.

Lemma set_ix_lt : forall {A} (l : list A) i x l', set_ix l i x = Some l' -> i < length l.
Proof.
  intros A l i x l' H. destruct (lt_dec i (length l)) as [|Hn]; [assumption|].
  rewrite set_ix_none in H by lia. discriminate.
Qed.

Lemma set_ix_nth : forall {A} (l : list A) i x l' j, set_ix l i x = Some l' ->
  nth_error l' j = if j =? i then Some x else nth_error l j.
Proof.
  induction l as [|y r IH]; intros i x l' j H; cbn in *; [discriminate|].
  destruct i as [|i].
  - inversion H; subst. destruct j; reflexivity.
  - destruct (set_ix r i x) eqn:E; [|discriminate]. inversion H; subst.
    destruct j as [|j]; [reflexivity|]. cbn. erewrite IH by eassumption. reflexivity.
Qed.

Lemma nth_error_firstn_lt : forall {A} (l : list A) n i, i < n -> nth_error (firstn n l) i = nth_error l i.
Proof.
  induction l as [|x r IH]; intros n i H; destruct n; cbn; try lia; try (destruct i; reflexivity).
  destruct i as [|i]; [reflexivity|]. cbn. apply IH. lia.
Qed.

Lemma nth_error_skipn_add : forall {A} (l : list A) n i, nth_error (skipn n l) i = nth_error l (n + i).
Proof.
  induction l as [|x r IH]; intros n i; destruct n; cbn; try reflexivity.
  - destruct i; reflexivity.
  - apply IH.
Qed.

(* a window of a list, read pointwise *)
Lemma nth_error_window : forall {A} (l : list A) st c i,
  nth_error (firstn c (skipn st l)) i = if i <? c then nth_error l (st + i) else None.
Proof.
  intros A l st c i. destruct (i <? c) eqn:E.
  - apply Nat.ltb_lt in E. rewrite nth_error_firstn_lt by assumption. apply nth_error_skipn_add.
  - apply Nat.ltb_ge in E. apply nth_error_None. rewrite firstn_length. lia.
Qed.

Lemma window_length : forall {A} (l : list A) st c, st + c <= length l -> length (firstn c (skipn st l)) = c.
Proof. intros. rewrite firstn_length, skipn_length. lia. Qed.

Lemma list_ext_nth : forall {A} (l1 l2 : list A), (forall i, nth_error l1 i = nth_error l2 i) -> l1 = l2.
Proof.
  induction l1 as [|x r IH]; intros l2 H.
  - destruct l2; [reflexivity|]. specialize (H 0). discriminate.
  - destruct l2 as [|y r2]; [specialize (H 0); discriminate|].
    pose proof (H 0) as H0. cbn in H0. inversion H0; subst. f_equal.
    apply IH. intro i. exact (H (S i)).
Qed.

Lemma nth_error_app_one : forall {A} (l : list A) x i,
  nth_error (l ++ [x]) i = if i <? length l then nth_error l i else if i =? length l then Some x else None.
Proof.
  intros A l x i. destruct (i <? length l) eqn:E.
  - apply Nat.ltb_lt in E. apply nth_error_app1; assumption.
  - apply Nat.ltb_ge in E. rewrite nth_error_app2 by assumption.
    destruct (i =? length l) eqn:E2.
    + apply Nat.eqb_eq in E2. subst. rewrite Nat.sub_diag. reflexivity.
    + apply Nat.eqb_neq in E2. destruct (i - length l) as [|k] eqn:Ek; [lia|]. cbn. destruct k; reflexivity.
Qed.

(* the copy loop of reallocate_heap *)
Lemma copy_loop_spec : forall k old src dst new,
  src + k <= length old -> dst + k <= length new ->
  exists new', copy_loop old src dst k new = Ok new' /\ length new' = length new /\
    forall j, nth_error new' j =
      if (dst <=? j) && (j <? dst + k) then nth_error old (src + (j - dst)) else nth_error new j.
Proof.
  induction k as [|k IH]; intros old src dst new Hs Hd.
  - exists new. split; [reflexivity|]. split; [reflexivity|]. intro j.
    destruct ((dst <=? j) && (j <? dst + 0)) eqn:E; [|reflexivity].
    apply andb_true_iff in E. destruct E as [E1 E2]. apply Nat.leb_le in E1. apply Nat.ltb_lt in E2. lia.
  - cbn [copy_loop].
    destruct (nth_error old src) as [c|] eqn:Ec; [|apply nth_error_None in Ec; lia].
    destruct (set_ix_some new dst c) as [new1 H1]; [lia|]. rewrite H1.
    pose proof (set_ix_length _ _ _ _ H1) as L1.
    destruct (IH old (S src) (S dst) new1) as [new' [Hc [Hl Hn]]]; [lia|lia|].
    exists new'. split; [exact Hc|]. split; [lia|]. intro j. rewrite Hn.
    rewrite (set_ix_nth _ _ _ _ j H1).
    destruct (S dst <=? j) eqn:A1; destruct (j <? S dst + k) eqn:A2; cbn [andb];
      destruct (dst <=? j) eqn:B1; destruct (j <? dst + S k) eqn:B2; cbn [andb];
      destruct (j =? dst) eqn:B3;
      repeat match goal with
             | H : (_ <=? _) = true |- _ => apply Nat.leb_le in H
             | H : (_ <=? _) = false |- _ => apply Nat.leb_gt in H
             | H : (_ <? _) = true |- _ => apply Nat.ltb_lt in H
             | H : (_ <? _) = false |- _ => apply Nat.ltb_ge in H
             | H : (_ =? _) = true |- _ => apply Nat.eqb_eq in H
             | H : (_ =? _) = false |- _ => apply Nat.eqb_neq in H
             end; try lia; try reflexivity.
    + f_equal. lia.
    + subst j. rewrite Nat.sub_diag, Nat.add_0_r. symmetry. exact Ec.
Qed.

Lemma nth_error_repeat : forall {A} (x : A) n i, nth_error (repeat x n) i = if i <? n then Some x else None.
Proof.
  intros A x n. induction n as [|n IH]; intro i.
  - destruct i; reflexivity.
  - destruct i as [|i]; [reflexivity|]. cbn [repeat nth_error]. rewrite IH.
    change (S i <? S n) with (i <? n). reflexivity.
Qed.

(* the stable insertion sort is a permutation *)
Lemma insert_sorted_perm : forall {A} (le : A -> A -> bool) x l, Permutation (x :: l) (insert_sorted le x l).
Proof.
  intros A le x l. induction l as [|y r IH]; cbn; [apply Permutation_refl|].
  destruct (le x y); [apply Permutation_refl|].
  eapply Permutation_trans; [apply perm_swap|]. apply perm_skip. exact IH.
Qed.

Lemma stable_sort_perm : forall {A} (le : A -> A -> bool) l, Permutation l (stable_sort le l).
Proof.
  intros A le l. induction l as [|x r IH]; cbn; [apply Permutation_refl|].
  eapply Permutation_trans; [apply perm_skip; exact IH|]. apply insert_sorted_perm.
Qed.

Lemma stable_sort_length : forall {A} (le : A -> A -> bool) l, length (stable_sort le l) = length l.
Proof. intros. symmetry. apply Permutation_length. apply stable_sort_perm. Qed.

Lemma slice_ix_some : forall {A} (l : list A) a b, a <= b -> b <= length l ->
  slice_ix l a b = Some (firstn (b - a) (skipn a l)).
Proof.
  intros A l a b H1 H2. unfold slice_ix.
  apply Nat.leb_le in H1. apply Nat.leb_le in H2. rewrite H1, H2. reflexivity.
Qed.

Lemma splice_ix_nth : forall {A} (l : list A) a b mid j, a <= b -> b <= length l -> length mid = b - a ->
  nth_error (splice_ix l a b mid) j =
    if (a <=? j) && (j <? b) then nth_error mid (j - a) else nth_error l j.
Proof.
  intros A l a b mid j Hab Hb Hm. unfold splice_ix.
  destruct (a <=? j) eqn:E1; cbn [andb].
  - apply Nat.leb_le in E1. rewrite nth_error_app2 by (rewrite firstn_length; lia).
    rewrite firstn_length, Nat.min_l by lia.
    destruct (j <? b) eqn:E2.
    + apply Nat.ltb_lt in E2. rewrite nth_error_app1 by lia. reflexivity.
    + apply Nat.ltb_ge in E2. rewrite nth_error_app2 by lia. rewrite nth_error_skipn_add. f_equal. lia.
  - apply Nat.leb_gt in E1. rewrite nth_error_app1 by (rewrite firstn_length; lia).
    rewrite nth_error_firstn_lt by lia. reflexivity.
Qed.

Lemma splice_ix_length : forall {A} (l : list A) a b mid, a <= b -> b <= length l -> length mid = b - a ->
  length (splice_ix l a b mid) = length l.
Proof.
  intros A l a b mid Hab Hb Hm. unfold splice_ix.
  rewrite !app_length, firstn_length, skipn_length. lia.
Qed.
