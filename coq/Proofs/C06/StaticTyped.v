(* Static half of C06, inductive, third part: from the ghost invariant of the
   finished build to the typing judgement of Spec/Depth.v, and the theorem:
   for every initial state of the data object and every proper tree that keeps
   the arity discipline of Proofs/C06/Balanced.v, the program the tree compiler
   builds is typable -- the same depth on every path, no underflow, every
   expression ends at depth one. *)
From Coq Require Import List Arith Bool NArith Lia.
From GV Require Import Base.Result Gen.TokenTypes Gen.Defs Gen.Instr Gen.Exec Model.Parser Model.BuilderWL Model.Compile
  Spec.Depth Proofs.C05.InlBase Proofs.C05.Known Proofs.C05.Operands Proofs.C05.Jumps Proofs.C05.Bodies
  Proofs.C06.Known Proofs.C06.Balanced Proofs.C06.Static Proofs.C06.StaticInl Proofs.C06.StaticBodies.
Import ListNotations.

Lemma succs_eff : forall p pc io r v e,
  effect io = Some e -> e_pop e <= r -> e_vdown e <= v ->
  succs p pc io (r, v) = Some [(S pc, (r - e_pop e + e_push e, v - e_vdown e + e_vup e))].
Proof.
  intros p pc [i o] r v e He Hp Hv. unfold succs. cbn [fst].
  destruct i; try (cbn in He; discriminate He);
    rewrite He; rewrite (leb_correct _ _ Hp), (leb_correct _ _ Hv); reflexivity.
Qed.

Section ST.
Variable init : binit.
Variable lit_ok : nat -> bool.
Notation ilo := (i_instr_len init).
Notation jlo := (i_jump_len init).
Notation IL := (il init).
Notation JL := (jl init).

Definition dmap_of_g (g : gst) : dmap :=
  fun pc => if pc <? ilo then None else nth_error (gd g) (pc - ilo).

Lemma dat_dmap : forall g a, a < ilo + length (gd g) -> dat init g a = dmap_of_g g a.
Proof.
  intros g a H. unfold dat, dmap_of_g. destruct (a <? ilo) eqn:E; [reflexivity|]. apply Nat.ltb_ge in E.
  destruct (a - ilo <? length (gd g)) eqn:E2; [reflexivity | apply Nat.ltb_ge in E2; lia].
Qed.

(* every placeholder has been patched *)
Definition nozero (s : cst) : Prop := forall k T, 0 < k -> nth_error (cj s) k = Some T -> T <> 0.

Lemma tgt_dmap : forall g s j y entry,
  ginv init g s -> strict init s -> nozero s -> tgt init g s j y ->
  exists T, pjump (prog_of init (ci s) (cj s) entry) j = Some T /\ dmap_of_g g T = Some y.
Proof.
  intros g s j y entry [[Hlen _] [Hob _]] Hst Hnz [Hj [T [HT H]]]. exists T. split.
  - unfold pjump, prog_of. cbn [pg_jbase pg_jumps]. destruct (j <? jlo) eqn:E; [apply Nat.ltb_lt in E; lia | exact HT].
  - pose proof (Hst _ _ HT) as Hlt.
    assert (Hdd : dat init g T = Some y -> dmap_of_g g T = Some y).
    { intros B. rewrite <- dat_dmap; [exact B | unfold il in Hlt; lia]. }
    destruct H as [[A [B|B]]|[A B]]; auto.
    exfalso. subst T. specialize (Hob _ _ A). apply (Hnz (j - jlo) 0); [lia | exact HT | reflexivity].
Qed.

(* the alternatives below are tried on every instruction; patterns that do not fit are expected *)
Local Set Warnings "-unused-intro-pattern".
Theorem ghost_typed : forall g s entry,
  ginv init g s -> sealed init s -> nozero s -> entry = jlo ->
  typed (prog_of init (ci s) (cj s) entry) (dmap_of_g g).
Proof.
  intros g s entry Hg [Hst [Hlt Hil]] Hnz He. subst entry.
  pose proof Hg as [[Hlen [Hne [Hbd [Hs [Hjn H0]]]]] [Hob Hof]].
  set (p := prog_of init (ci s) (cj s) jlo).
  split.
  - intros j Hj. unfold entry_refs in Hj. cbn [pg_entry p prog_of] in Hj. destruct Hj as [Hj|Hj].
    + subst j. apply (tgt_dmap g s jlo (0, 0) jlo Hg Hst Hnz H0).
    + unfold expr_refs in Hj. cbn [pg_instrs p prog_of] in Hj. apply in_flat_map in Hj.
      destruct Hj as [io [Hio Hj]]. change (In io (ci s)) in Hio. destruct io as [i o].
      destruct i; try contradiction. destruct o; try contradiction. destruct Hj as [Hj|[]]. subst j.
      apply In_nth_error in Hio. destruct Hio as [k Hk].
      assert (Hkl : k < length (gd g)).
      { rewrite Hlen. apply nth_error_Some. intros Hc0. pose proof (eq_trans (eq_sym Hk) Hc0) as Hc1. discriminate Hc1. }
      destruct (nth_error (gd g) k) as [x|] eqn:Hd; [|apply nth_error_None in Hd; lia].
      pose proof (Hs k _ x Hk Hd) as Hstep. destruct x as [r v]. unfold step_ok in Hstep. cbn [fst] in Hstep.
      destruct Hstep as [e [_ [_ [_ [_ Hx]]]]].
      match type of Hk with _ = Some (_, OExpr ?n) => apply (tgt_dmap g s n (0, 0) jlo Hg Hst Hnz) end.
      apply Hx. reflexivity.
  - intros pc x Hd. unfold dmap_of_g in Hd. destruct (pc <? ilo) eqn:E; [discriminate|].
    pose proof E as E'. apply Nat.ltb_ge in E'.
    assert (Hkl : pc - ilo < length (gd g)) by (apply nth_error_Some; rewrite Hd; discriminate).
    destruct (nth_error (ci s) (pc - ilo)) as [io|] eqn:Hio; [|apply nth_error_None in Hio; lia].
    pose proof (Hs _ io x Hio Hd) as Hstep. replace (ilo + (pc - ilo)) with pc in Hstep by lia.
    assert (Hpi : pinstr p pc = Some io).
    { unfold pinstr, p, prog_of. cbn [pg_ibase pg_instrs]. rewrite E. exact Hio. }
    assert (Hnext : fst io <> I_JumpTo -> fst io <> I_EndExpression -> S pc < ilo + length (gd g)).
    { intros N1 N2. destruct (Nat.eq_dec (pc - ilo) (length (ci s) - 1)) as [Heq|Hneq]; [|lia].
      rewrite Heq in Hio. destruct (Hlt io Hio); contradiction. }
    exists io. destruct x as [r v]. destruct io as [i o]. cbn [fst snd] in *.
    unfold step_ok in Hstep. cbn [fst snd] in Hstep.
    destruct i;
      first [ (* Reapply is never emitted *)
              (exfalso; exact Hstep)
            | (* straight-line *)
              (destruct Hstep as [e [Hef [Hp [Hv [Hdn _]]]]]; eexists; split; [exact Hpi|];
               split; [apply (succs_eff p pc _ r v e Hef Hp Hv)|];
               intros pc' x' [Ein|[]]; inversion Ein; subst;
               rewrite <- dat_dmap; [exact Hdn | apply Hnext; discriminate])
            | (* JumpTo *)
              (destruct Hstep as [j [Ho Ht]]; subst o;
               destruct (tgt_dmap g s j (r, v) jlo Hg Hst Hnz Ht) as [T [HpT HdT]]; fold p in HpT;
               exists [(T, (r, v))]; split; [exact Hpi|];
               split; [unfold succs; cbn [fst snd jump_operand]; rewrite HpT; reflexivity|];
               intros pc' x' [Ein|[]]; inversion Ein; subst; exact HdT)
            | (* JumpIfTrue / JumpIfFalse *)
              (destruct Hstep as [j [Ho [Hr [Hdn Ht]]]]; subst o;
               destruct (tgt_dmap g s j (r - 1, v) jlo Hg Hst Hnz Ht) as [T [HpT HdT]]; fold p in HpT;
               exists [(S pc, (r - 1, v)); (T, (r - 1, v))]; split; [exact Hpi|];
               split; [unfold succs; cbn [fst snd jump_operand]; rewrite HpT, (leb_correct _ _ Hr); reflexivity|];
               intros pc' x' [Ein|[Ein|[]]]; inversion Ein; subst;
               [rewrite <- dat_dmap; [exact Hdn | apply Hnext; discriminate] | exact HdT])
            | (* And / Or *)
              (destruct Hstep as [j [Ho [Hr [Hdn Ht]]]]; subst o;
               destruct (tgt_dmap g s j (r - 1, v) jlo Hg Hst Hnz Ht) as [T [HpT HdT]]; fold p in HpT;
               exists [(S pc, (r, v)); (T, (r - 1, v))]; split; [exact Hpi|];
               split; [unfold succs; cbn [fst snd jump_operand]; rewrite HpT, (leb_correct _ _ Hr); reflexivity|];
               intros pc' x' [Ein|[Ein|[]]]; inversion Ein; subst;
               [rewrite <- dat_dmap; [exact Hdn | apply Hnext; discriminate] | exact HdT])
            | (* EndExpression *)
              (inversion Hstep; subst; exists []; split; [exact Hpi|]; split; [reflexivity | intros pc' x' []]) ].
Qed.

End ST.
