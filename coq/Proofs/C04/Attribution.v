(* C04, the attribution clause, for EVERY proper tree (no bound): every node of
   the tree that is not a purely structural one (a Group, an ElseJump, a List /
   CommaList directly below a list of the same kind -- flattened into it) is
   named by the metadata record of at least one instruction the tree compiler
   emits, provided the tree is outside class C05-K2 (a conditional directly in
   the left operand of && / ||, whose arm the builder registers and never
   emits -- not produced by the parser; on that class the clause is false, see
   [attribution_K2_refuted]).

   Invariant (induction over Model/Compile.v, following Proofs/C05/Operands.v):
   after compiling a subtree inline, every owed node of it is attributed in the
   state reached, or lies in a body pushed on the pending list, or in an arm
   registered with the conditional parent; every pending body is compiled by
   run_body (fuel suffices whenever the result is Ok), arms are turned into
   pending bodies by the else-chain head, and outside C05-K2 no arm is dropped. *)
From Coq Require Import List Arith Bool NArith Lia.
From GV Require Import Base.Result Gen.TokenTypes Gen.Defs Gen.Instr Model.Parser Model.BuilderWL Model.Compile
  Proofs.C05.InlBase Proofs.C05.Known Proofs.C05.Operands Proofs.C05.Jumps.
Import ListNotations.

(* ---- which nodes are owed an instruction, on the tree ---- *)
Definition is_list_def (d : definition) : bool := definition_eqb d D_List || definition_eqb d D_CommaList.

(* [pl]: the definition of the list this node is a direct child of, if any *)
Definition exempt_t (pl : option definition) (d : definition) : bool :=
  definition_eqb d D_Group || definition_eqb d D_ElseJump ||
  (is_list_def d && match pl with Some p => definition_eqb p d | None => false end).

Definition child_pl (d : definition) : option definition := if is_list_def d then Some d else None.

Fixpoint owed (pl : option definition) (t : tree) : list nat :=
  match t with
  | T ix d l r =>
    (if exempt_t pl d then [] else [ix]) ++
    (match l with Some a => owed (child_pl d) a | None => [] end) ++
    (match r with Some b => owed (child_pl d) b | None => [] end)
  end.

Definition att (s : cst) (i : nat) : Prop := In (Some i) (cm s).

Lemma att_ext : forall s s' i, ext s s' -> att s i -> att s' i.
Proof. intros s s' i [a [b [c [_ [Hb _]]]]] H. unfold att in *. rewrite Hb. apply in_or_app. left. exact H. Qed.

Lemma att_emit : forall s io i, att (emit s io (Some i)) i.
Proof. intros. unfold att, emit. cbn [cm]. apply in_or_app. right. left. reflexivity. Qed.

Lemma att_emit_r : forall s io m i, att s i -> att (emit s io m) i.
Proof. intros. eapply att_ext; [apply ext_emit | assumption]. Qed.
Lemma att_new_jump_r : forall s x i, att s i -> att (new_jump s x) i.
Proof. intros s x i H. exact H. Qed.

(* ---- kinds and exemption ---- *)
Lemma kind_list_def : forall d, kind_of d = KList -> is_list_def d = true.
Proof. intros d H. destruct d; cbn in H; try discriminate; reflexivity. Qed.

Lemma kind_not_list : forall d, kind_of d <> KList -> is_list_def d = false.
Proof. intros d H. destruct d; try reflexivity; exfalso; apply H; reflexivity. Qed.

Lemma exempt_kinds : forall pl d, exempt_t pl d = true ->
  kind_of d = KGroup \/ kind_of d = KElse \/ kind_of d = KList.
Proof.
  intros pl d H. unfold exempt_t in H.
  destruct d; cbn in H; try discriminate; auto.
Qed.

Lemma exempt_list : forall pl d, kind_of d = KList ->
  exempt_t pl d = match pl with Some p => definition_eqb p d | None => false end.
Proof. intros pl d H. unfold exempt_t. destruct d; cbn in H; try discriminate; reflexivity. Qed.

(* ---- children the builder never looks at ----
   a prefix operator, a group, a nested expression, a reapply and a prefix
   apply build their right child only: a LEFT child of such a node would be
   ignored (the parser never links one there) *)
Definition ignores_left (d : definition) : bool :=
  match kind_of d with
  | KUnary _ true | KGroup | KNested | KReapply | KFixApply true => true
  | _ => false
  end.

Fixpoint all_children_used (t : tree) : bool :=
  match t with
  | T _ d l r =>
    negb (ignores_left d && present l) &&
    (match l with Some a => all_children_used a | None => true end) &&
    (match r with Some b => all_children_used b | None => true end)
  end.

Lemma used_children : forall ix d l r, all_children_used (T ix d l r) = true ->
  (forall a, l = Some a -> all_children_used a = true) /\
  (forall b, r = Some b -> all_children_used b = true) /\
  (ignores_left d = true -> l = None).
Proof.
  intros ix d l r H. cbn [all_children_used] in H.
  apply andb_true_iff in H. destruct H as [H Hr]. apply andb_true_iff in H. destruct H as [Hi Hl].
  repeat split.
  - intros a Ha. subst. exact Hl.
  - intros b Hb. subst. exact Hr.
  - intros Hd. rewrite Hd in Hi. destruct l; [discriminate | reflexivity].
Qed.

Ltac att_solve :=
  match goal with
  | |- att (emit _ _ (Some ?i)) ?i => apply att_emit
  | |- att (emit _ _ _) _ => apply att_emit_r; att_solve
  | |- att (new_jump _ _) _ => apply att_new_jump_r; att_solve
  | E : ext ?m ?s' |- att ?s' _ => apply (att_ext m s' _ E); att_solve
  end.

Lemma exempt_group : forall pl d, kind_of d = KGroup -> exempt_t pl d = true.
Proof. intros pl d H. destruct d; cbn in H; try discriminate; reflexivity. Qed.
Lemma exempt_else : forall pl d, kind_of d = KElse -> exempt_t pl d = true.
Proof. intros pl d H. destruct d; cbn in H; try discriminate; reflexivity. Qed.

Section Attr.
Variable init : binit.
Variable lit_ok : nat -> bool.

(* where an owed node may be after compiling a subtree inline *)
Definition covered (s' : cst) (ps : list pend) (items : list (tree * nat)) (i : nat) : Prop :=
  att s' i \/ (exists p, In p ps /\ In i (owed None (p_tree p))) \/
  (exists it, In it items /\ In i (owed None (fst it))).

Lemma covered_mono : forall s s' ps ps' items items' i,
  ext s s' -> incl ps ps' -> incl items items' -> covered s ps items i -> covered s' ps' items' i.
Proof.
  intros s s' ps ps' items items' i He Hp Hi [H|[[p [H1 H2]]|[it [H1 H2]]]].
  - left. eapply att_ext; eauto.
  - right. left. exists p. split; [apply Hp; exact H1 | exact H2].
  - right. right. exists it. split; [apply Hi; exact H1 | exact H2].
Qed.

Lemma incl_nil_any : forall A (l : list A), incl [] l.
Proof. intros A l x []. Qed.

Ltac incl_s :=
  first [ apply incl_refl | apply incl_nil_any
        | solve [ unfold incl; intros ?z; rewrite ?in_app_iff; cbn [In]; rewrite ?in_app_iff; tauto ] ].

(* arms of an else-chain head become pending bodies *)
Lemma covered_items_pends : forall s ps items c e i,
  covered s ps items i ->
  covered s (ps ++ map (fun it : tree * nat => mkP (fst it) c (snd it) e) items) [] i.
Proof.
  intros s ps items c e i [H|[[p [H1 H2]]|[it [H1 H2]]]].
  - left. exact H.
  - right. left. exists p. split; [apply in_or_app; left; exact H1 | exact H2].
  - right. left. exists (mkP (fst it) c (snd it) e). split.
    + apply in_or_app. right. apply in_map_iff. exists it. auto.
    + cbn [p_tree]. exact H2.
Qed.

Lemma inl_no_items : forall a, registers a = false -> forall rj cx s s' ps items,
  inl init lit_ok rj a cx s = Ok (s', ps, items) -> items = [].
Proof.
  intros a Hr rj cx s s' ps items H. destruct items as [|it its]; [reflexivity|]. exfalso.
  pose proof (proj2 (inl_items init lit_ok _ _ _ _ _ _ _ H)) as Q.
  rewrite Hr in Q. assert (it :: its <> []) as N by discriminate. specialize (Q N). discriminate.
Qed.

Theorem inl_att : forall t, drops_arms t = false -> all_children_used t = true -> forall rj cx s s' ps items,
  inl init lit_ok rj t cx s = Ok (s', ps, items) ->
  forall i, In i (owed (cx_list cx) t) -> covered s' ps items i.
Proof.
  induction t as [ix d l r IHl IHr] using tree_ind'.
  intros Hgood Hused rj cx s s' ps items H i Hi.
  destruct (drops_children _ _ _ _ Hgood) as [Hgl [Hgr Hreg]].
  destruct (used_children _ _ _ _ Hused) as [Hul [Hur Hign]].
  cbn [owed] in Hi.
  cbn [inl] in H. cbv zeta in H.
  destruct (kind_of d) eqn:Hk.
  all: try match goal with Hk : kind_of _ = KUnary _ ?b |- _ => destruct b end.
  all: try match goal with Hk : kind_of _ = KFixApply ?b |- _ => destruct b end.
  all: try (assert (Hl0 : l = None) by (apply Hign; unfold ignores_left; rewrite Hk; reflexivity); subst l).
  all: try (rewrite (kind_not_list d) in Hi by (rewrite Hk; discriminate)).
  all: try (rewrite (kind_list_def d Hk) in Hi).
  all: unfold child_pl in Hi.
  all: try (rewrite (kind_not_list d) in Hi by (rewrite Hk; discriminate)).
  all: try (rewrite (kind_list_def d Hk) in Hi).
  all: repeat inv_ok.
  (* a logical operator outside C05-K2: its left operand registers no arm *)
  all: try match goal with
           | Hl : inl _ _ _ ?a (mkCx _ None true) _ = Ok (_, _, ?i0), Hkk : kind_of _ = KLogical ?ii |- _ =>
             let Q := fresh "Q" in
             pose proof (inl_no_items a (Hreg ii a eq_refl eq_refl) _ _ _ _ _ _ Hl) as Q; subst i0
           end.
  all: repeat match goal with
              | H : inl _ _ ?rj ?a ?cx ?sA = Ok (?sB, ?pB, ?iB) |- _ =>
                let E := fresh "E" in
                let F := fresh "F" in
                pose proof (inl_ext init lit_ok _ _ _ _ _ _ _ H) as E;
                first [ pose proof (IHl _ eq_refl (Hgl _ eq_refl) (Hul _ eq_refl) _ _ _ _ _ _ H) as F
                      | pose proof (IHr _ eq_refl (Hgr _ eq_refl) (Hur _ eq_refl) _ _ _ _ _ _ H) as F ];
                cbn [cx_list plain] in F;
                clear H
              end.
  all: rewrite ?app_nil_r, ?app_nil_l in *.
  all: repeat match goal with
              | H : In _ (_ ++ _) |- _ => apply in_app_or in H; destruct H as [H|H]
              end.
  all: try contradiction.
  (* the node itself *)
  all: try match goal with
           | H : In ?ii (if exempt_t ?pl ?dd then [] else [_]) |- _ =>
             destruct (exempt_t pl dd) eqn:Hex;
               [ contradiction
               | destruct H as [H|[]]; subst ii ]
           end.
  (* else-chain head: no arm registered / the arms become pending bodies *)
  all: try match goal with Hi0 : [] = _ ++ _ |- _ => symmetry in Hi0; apply app_nil_both in Hi0; destruct Hi0; subst end.
  all: try match goal with Hi0 : ?p0 :: ?l1 = _ ++ _ |- covered ?s (?ps ++ _) [] ?i =>
             apply (covered_items_pends s ps (p0 :: l1) _ _ i); rewrite Hi0 end.
  (* an owed child: carried by the induction hypothesis, through the later steps *)
  all: try solve [ match goal with
                   | F : forall i0, In i0 (owed _ ?a) -> covered _ _ _ i0, H : In ?ii (owed _ ?a) |- _ =>
                     specialize (F ii H); clear - F E E0 E1;
                     eapply covered_mono; [ | | | exact F ]; [ ext_solve_g | incl_s | incl_s ]
                   end ].
  all: try solve [ match goal with
                   | F : forall i0, In i0 (owed _ ?a) -> covered _ _ _ i0, H : In ?ii (owed _ ?a) |- _ =>
                     specialize (F ii H);
                     eapply covered_mono; [ | | | exact F ]; [ ext_solve_g | incl_s | incl_s ]
                   end ].
  all: try solve [ left; att_solve ].
  all: try solve [ rewrite (exempt_list _ _ Hk) in Hex; congruence ].
  all: try solve [ rewrite (exempt_group _ _ Hk) in Hex; discriminate ].
  all: try solve [ rewrite (exempt_else _ _ Hk) in Hex; discriminate ].
  (* an owed node of a body pushed on the pending list / an arm registered *)
  all: try solve [ right; left; eexists; split; [ apply in_or_app; right; left; reflexivity | cbn [p_tree]; assumption ] ].
  all: try solve [ right; left; eexists; split; [ left; reflexivity | cbn [p_tree]; assumption ] ].
  all: try solve [ right; right; eexists; split; [ apply in_or_app; right; left; reflexivity | cbn [fst]; assumption ] ].
Qed.


(* ---- the bodies and arms registered by a tree all of whose children are used
   are such trees ---- *)
Definition used_p (p : pend) : Prop := all_children_used (p_tree p) = true.
Definition used_i (it : tree * nat) : Prop := all_children_used (fst it) = true.

Lemma items_to_pends_used : forall c e its, Forall used_i its ->
  Forall used_p (map (fun it : tree * nat => mkP (fst it) c (snd it) e) its).
Proof.
  intros c e its H. induction H as [|it its Hit _ IH]; cbn [map]; constructor; [exact Hit | exact IH].
Qed.

Lemma inl_used : forall t, all_children_used t = true -> forall rj cx s s' ps items,
  inl init lit_ok rj t cx s = Ok (s', ps, items) ->
  Forall used_p ps /\ Forall used_i items.
Proof.
  induction t as [ix d l r IHl IHr] using tree_ind'.
  intros Hused rj cx s s' ps items H.
  destruct (used_children _ _ _ _ Hused) as [Hul [Hur _]].
  cbn [inl] in H. cbv zeta in H.
  destruct (kind_of d) eqn:Hk.
  all: repeat inv_ok.
  all: repeat match goal with
              | H : inl _ _ _ _ _ _ = Ok (_, _, _) |- _ =>
                let F := fresh "F" in
                first [ pose proof (IHl _ eq_refl (Hul _ eq_refl) _ _ _ _ _ _ H) as F
                      | pose proof (IHr _ eq_refl (Hur _ eq_refl) _ _ _ _ _ _ H) as F ];
                clear H; destruct F as [? ?]
              end.
  all: rewrite ?app_nil_r, ?app_nil_l.
  all: split.
  all: repeat rewrite Forall_app.
  all: repeat split; auto.
  all: try solve [ constructor ].
  all: try solve [ constructor; [| constructor ]; unfold used_p, used_i; cbn [p_tree fst];
                   first [ apply Hul; reflexivity | apply Hur; reflexivity ] ].
  match goal with
  | Hi : ?p0 :: ?l1 = ?i1 ++ ?i2, H1 : Forall used_i ?i1, H2 : Forall used_i ?i2 |- _ =>
    assert (Hits : Forall used_i (p0 :: l1))
      by (rewrite Hi; apply Forall_app; split; assumption);
    exact (items_to_pends_used _ _ (p0 :: l1) Hits)
  end.
Qed.

(* ---- the bodies ---- *)
Definition mono (s s' : cst) : Prop := forall i, att s i -> att s' i.

Lemma mono_refl : forall s, mono s s. Proof. intros s i H. exact H. Qed.
Lemma mono_trans : forall a b c, mono a b -> mono b c -> mono a c.
Proof. intros a b c H1 H2 i H. apply H2, H1, H. Qed.
Lemma mono_cm : forall s s' b, cm s' = cm s ++ b -> mono s s'.
Proof. intros s s' b H i Hi. unfold att in *. rewrite H. apply in_or_app. left. exact Hi. Qed.

Lemma finish_mono : forall ends s, mono s (finish init s ends).
Proof.
  intros ends s. unfold finish. generalize (last_instr init s). intros last.
  generalize (existsb (Nat.eqb (il init s)) (cj s)). intros tg.
  assert (G : forall acc, mono s acc ->
              mono s (fold_left (fun acc e => match last with
                                         | Some li => if instr_eqb li e && instruction_eqb (fst e) I_EndExpression && negb tg then acc else emit acc e None
                                         | None => emit acc e None end) ends acc)).
  { induction ends as [|e ends IH]; intros acc Ha; cbn [fold_left]; [exact Ha|].
    apply IH. destruct last as [li|].
    - destruct (instr_eqb li e && instruction_eqb (fst e) I_EndExpression && negb tg); [exact Ha|].
      intros i Hi. apply att_emit_r. apply Ha. exact Hi.
    - intros i Hi. apply att_emit_r. apply Ha. exact Hi. }
  apply G. apply mono_refl.
Qed.

Definition good_p (p : pend) : Prop := drops_arms (p_tree p) = false /\ all_children_used (p_tree p) = true.

(* running a list of pending bodies, given what one body does at this fuel *)
Lemma fold_att : forall f,
  (forall p s s', run_body init lit_ok f p s = Ok s' -> good_p p ->
                  mono s s' /\ forall i, In i (owed None (p_tree p)) -> att s' i) ->
  forall l s0 s', Forall good_p l -> fold_bodies init lit_ok f l (Ok s0) = Ok s' ->
    mono s0 s' /\ forall p i, In p l -> In i (owed None (p_tree p)) -> att s' i.
Proof.
  intros f IH. induction l as [|q l IHl]; intros s0 s' Hl Hf.
  - cbn in Hf. inversion Hf; subst. split; [apply mono_refl | intros p i []].
  - unfold fold_bodies in Hf. cbn [fold_left bind] in Hf.
    destruct (run_body init lit_ok f q s0) as [sq| | |] eqn:Eq.
    + inversion Hl as [|? ? Hq Hl']; subst.
      destruct (IH _ _ _ Eq Hq) as [Hm Hq'].
      destruct (IHl sq s' Hl' Hf) as [Hm' Hl''].
      split; [eapply mono_trans; eauto|].
      intros p i [Hp|Hp] Hi; [subst p; apply Hm'; apply Hq'; exact Hi | eapply Hl''; eauto].
    + destruct (fold_bodies_err init lit_ok f l) as [_ [He' _]]. unfold fold_bodies in He'. rewrite He' in Hf. discriminate.
    + destruct (fold_bodies_err init lit_ok f l) as [_ [_ Hp']]. unfold fold_bodies in Hp'. rewrite Hp' in Hf. discriminate.
    + destruct (fold_bodies_err init lit_ok f l) as [Ho' _]. unfold fold_bodies in Ho'. rewrite Ho' in Hf. discriminate.
Qed.

Lemma pends_good : forall t rj cx s s' ps items,
  drops_arms t = false -> all_children_used t = true ->
  inl init lit_ok rj t cx s = Ok (s', ps, items) -> Forall good_p ps.
Proof.
  intros t rj cx s s' ps items Hg Hu H.
  destruct (inl_live init lit_ok t Hg _ _ _ _ _ _ H) as [Hl _].
  destruct (inl_used t Hu _ _ _ _ _ _ H) as [Hu' _].
  rewrite Forall_forall in *. intros p Hp. split; [exact (proj1 (Hl p Hp)) | exact (Hu' p Hp)].
Qed.

(* a body that is run to completion attributes every owed node of its tree,
   including those in the bodies it registers in turn *)
Lemma body_att : forall f t rj c s1 s2 ps its ends s',
  (forall p s s', run_body init lit_ok f p s = Ok s' -> good_p p ->
                  mono s s' /\ forall i, In i (owed None (p_tree p)) -> att s' i) ->
  drops_arms t = false -> all_children_used t = true ->
  inl init lit_ok rj t (plain c) s1 = Ok (s2, ps, its) ->
  fold_bodies init lit_ok f (rev ps) (Ok (finish init s2 ends)) = Ok s' ->
  mono s1 s' /\ forall i, In i (owed None t) -> att s' i.
Proof.
  intros f t rj c s1 s2 ps its ends s' IH Hg Hu Hinl Hfold.
  assert (Hits : its = []) by (exact (proj1 (inl_items init lit_ok _ _ _ _ _ _ _ Hinl) eq_refl)).
  subst its.
  pose proof (inl_att t Hg Hu _ _ _ _ _ _ Hinl) as Hcov. cbn [cx_list plain] in Hcov.
  pose proof (pends_good _ _ _ _ _ _ _ Hg Hu Hinl) as Hps.
  destruct (fold_att f IH (rev ps) _ _ (Forall_rev Hps) Hfold) as [Hm Hall].
  assert (Hm12 : mono s1 s2).
  { intros i Hi. eapply att_ext; [exact (inl_ext init lit_ok _ _ _ _ _ _ _ Hinl) | exact Hi]. }
  pose proof (finish_mono ends s2) as Hm23.
  split; [eapply mono_trans; [exact Hm12 | eapply mono_trans; [exact Hm23 | exact Hm]]|].
  intros i Hi. destruct (Hcov i Hi) as [Ha|[[p [Hp Hip]]|[it [[] _]]]].
  - apply Hm, Hm23, Ha.
  - apply (Hall p i); [apply in_rev in Hp; exact Hp | exact Hip].
Qed.

Lemma run_body_att : forall fuel p s s',
  run_body init lit_ok fuel p s = Ok s' -> good_p p ->
  mono s s' /\ forall i, In i (owed None (p_tree p)) -> att s' i.
Proof.
  induction fuel as [|f IH]; intros p s s' H [Hg Hu]; [discriminate|].
  cbn [run_body] in H.
  apply bind_ok in H. destruct H as [s1 [Hpatch H]].
  apply bind_ok in H. destruct H as [[[s2 ps] its] [Hinl H]].
  destruct (patch_ok init _ _ _ _ Hpatch) as [_ [_ [Hcm _]]].
  destruct (body_att f _ _ _ _ _ _ _ _ _ IH Hg Hu Hinl H) as [Hm Hall].
  split; [|exact Hall].
  eapply mono_trans; [|exact Hm]. apply (mono_cm s s1 []). rewrite app_nil_r. exact Hcm.
Qed.

(* C04, the attribution clause on the tree compiler *)
Theorem compile_att : forall t r,
  drops_arms t = false -> all_children_used t = true ->
  compile init lit_ok t = Ok r ->
  forall i, In i (owed None t) -> In (Some i) (cm (fst r)).
Proof.
  intros t r Hg Hu H i Hi. unfold compile in H.
  apply bind_ok in H. destruct H as [[[s2 ps] its] [Hinl H]].
  apply bind_ok in H. destruct H as [s4 [Hfold H]]. inversion H; subst. clear H. cbn [fst].
  destruct (body_att (size t) _ _ _ _ _ _ _ _ _ (run_body_att (size t)) Hg Hu Hinl Hfold) as [_ Hall].
  exact (Hall i Hi).
Qed.

End Attr.
