(* Executable model of compiler/src/lex/lexer.rs (Lexer::start_token,
   can_create_valid_token, process_char, internal_next, lex), transliterated arm
   by arm.  No proofs in this file.

   Conventions
   * characters are code points (N); strings are [list N]; [String::len()] is
     the UTF-8 byte length ([byte_len]) because the Rust compares it with small
     constants while pushing [char]s;
   * ASCII classification is concrete; [char::is_numeric] / [char::is_alphanumeric]
     on code points >= 128 are the Section variables [uni_numeric] / [uni_alnum]
     ([is_ascii_whitespace] is false there by definition);
   * the operator trie built by [create_operator_tree] is represented by its two
     observable functions on a path: "is there a node" (the path is a prefix of
     some spelling) and "the node's token type" (the last spelling in the list
     equal to the path) -- computed from Gen.Tokens.operator_spellings;
   * [Lexer::result] is [result : option lex_error] ([None] = Ok(()));
   * the one place where the Rust can panic ([text_column - 1], debug overflow
     check) is an explicit [Panic]; [characters_lexed] is write-only in the Rust
     and is not modelled; [trace!] calls are not modelled. *)
From Coq Require Import NArith List Bool.
From GV Require Import Base.Result Gen.TokenTypes Gen.Tokens.
Import ListNotations.
Local Open Scope N_scope.

(* ------------------------------------------------------------ characters *)
Definition ch_nul : N := 0.
Definition ch_tab : N := 9.
Definition ch_lf : N := 10.
Definition ch_ff : N := 12.
Definition ch_cr : N := 13.
Definition ch_space : N := 32.
Definition ch_dquote : N := 34.
Definition ch_squote : N := 39.
Definition ch_period : N := 46.
Definition ch_colon : N := 58.
Definition ch_at : N := 64.
Definition ch_underscore : N := 95.
Definition ch_backtick : N := 96.

Definition utf8_len (c : N) : N :=
  if c <? 128 then 1 else if c <? 2048 then 2 else if c <? 65536 then 3 else 4.

Fixpoint byte_len (s : list N) : N :=
  match s with
  | [] => 0
  | c :: r => utf8_len c + byte_len r
  end.

Fixpoint list_N_eqb (a b : list N) : bool :=
  match a, b with
  | [], [] => true
  | x :: a', y :: b' => (x =? y) && list_N_eqb a' b'
  | _, _ => false
  end.

Fixpoint is_prefix (p s : list N) : bool :=
  match p, s with
  | [], _ => true
  | a :: p', b :: s' => (a =? b) && is_prefix p' s'
  | _ :: _, [] => false
  end.

Definition starts_with (c : N) (s : list N) : bool :=
  match s with
  | x :: _ => x =? c
  | [] => false
  end.

Definition ends_with (c : N) (s : list N) : bool := starts_with c (rev s).

Fixpoint trim_start (c : N) (s : list N) : list N :=
  match s with
  | x :: r => if x =? c then trim_start c r else s
  | [] => []
  end.

(* str::trim_matches(c): strip c from both ends *)
Definition trim_matches (c : N) (s : list N) : list N :=
  rev (trim_start c (rev (trim_start c s))).

Definition ascii_digit (c : N) : bool := (48 <=? c) && (c <=? 57).
Definition ascii_alpha (c : N) : bool :=
  ((65 <=? c) && (c <=? 90)) || ((97 <=? c) && (c <=? 122)).
Definition is_ascii_whitespace (c : N) : bool :=
  (c =? ch_space) || (c =? ch_tab) || (c =? ch_lf) || (c =? ch_ff) || (c =? ch_cr).

(* ---------------------------------------------------------- operator trie *)
Section Trie.
  Variable tbl : list (list N * token_type).

  (* a node exists for [path] iff [path] is a prefix of some spelling (the root for []) *)
  Definition op_node_exists (path : list N) : bool :=
    match path with
    | [] => true
    | _ => existsb (fun e => is_prefix path (fst e)) tbl
    end.

  (* its token type: the last entry spelled exactly [path] (a later insert overrides) *)
  Definition op_node_type (path : list N) : option token_type :=
    fold_left (fun acc e => if list_N_eqb (fst e) path then Some (snd e) else acc) tbl None.

  (* Lexer::current_operator: None = no node; Some ty = node with token_type ty *)
  Definition trie_lookup (path : list N) : option (option token_type) :=
    if op_node_exists path then Some (op_node_type path) else None.
End Trie.

Definition current_operator : list N -> option (option token_type) :=
  trie_lookup operator_spellings.

(* ------------------------------------------------------------------ state *)
Inductive lstate : Type :=
| SNoToken | SOperator | SSpaces | SSubexpression | SNumber | SFloat | SIdentifier
| SAnnotation | SLineAnnotation | SCharList | SStartCharList | SByteList | SStartByteList.

Definition lstate_eqb (a b : lstate) : bool :=
  match a, b with
  | SNoToken, SNoToken | SOperator, SOperator | SSpaces, SSpaces
  | SSubexpression, SSubexpression | SNumber, SNumber | SFloat, SFloat
  | SIdentifier, SIdentifier | SAnnotation, SAnnotation | SLineAnnotation, SLineAnnotation
  | SCharList, SCharList | SStartCharList, SStartCharList | SByteList, SByteList
  | SStartByteList, SStartByteList => true
  | _, _ => false
  end.

(* error classes (the harness maps the message prefix to the same names) *)
Definition E_InvalidStart : N := 1.   (* "Invalid start to token" *)
Definition E_Identifier : N := 2.     (* "Identifiers must contain more than 1 character ..." *)
Definition E_Range : N := 3.          (* "Could not setup range token." *)
Definition E_NoToken : N := 4.        (* "No token" *)
Definition E_Unterminated : N := 5.   (* "Unterminated token. ..." *)

Record lex_error : Type := mkErr { e_class : N; e_row : N; e_col : N }.

Record token : Type := mkTok { tok_text : list N; tok_type : token_type; tok_row : N; tok_col : N }.

Record lexer : Type := mkLexer {
  cur : list N;                      (* current_characters *)
  cur_ty : option token_type;        (* current_token_type *)
  text_row : N;
  text_col : N;
  start_col : N;                     (* token_start_column *)
  start_row : N;                     (* token_start_row *)
  should_create : bool;
  st : lstate;
  can_float : bool;
  sqc : N;                            (* start_quote_count *)
  eqc : N;                            (* end_quote_count *)
  could_sub : bool;                  (* could_be_sub_expression *)
  result : option lex_error;         (* None = Ok(()) *)
  at_end : bool
}.

Definition init_lexer : lexer :=
  mkLexer [] None 0 0 0 0 true SNoToken true 0 0 false None false.

Definition set_cur l v := mkLexer v (cur_ty l) (text_row l) (text_col l) (start_col l) (start_row l) (should_create l) (st l) (can_float l) (sqc l) (eqc l) (could_sub l) (result l) (at_end l).
Definition set_cur_ty l v := mkLexer (cur l) v (text_row l) (text_col l) (start_col l) (start_row l) (should_create l) (st l) (can_float l) (sqc l) (eqc l) (could_sub l) (result l) (at_end l).
Definition set_text_row l v := mkLexer (cur l) (cur_ty l) v (text_col l) (start_col l) (start_row l) (should_create l) (st l) (can_float l) (sqc l) (eqc l) (could_sub l) (result l) (at_end l).
Definition set_text_col l v := mkLexer (cur l) (cur_ty l) (text_row l) v (start_col l) (start_row l) (should_create l) (st l) (can_float l) (sqc l) (eqc l) (could_sub l) (result l) (at_end l).
Definition set_start_col l v := mkLexer (cur l) (cur_ty l) (text_row l) (text_col l) v (start_row l) (should_create l) (st l) (can_float l) (sqc l) (eqc l) (could_sub l) (result l) (at_end l).
Definition set_start_row l v := mkLexer (cur l) (cur_ty l) (text_row l) (text_col l) (start_col l) v (should_create l) (st l) (can_float l) (sqc l) (eqc l) (could_sub l) (result l) (at_end l).
Definition set_should_create l v := mkLexer (cur l) (cur_ty l) (text_row l) (text_col l) (start_col l) (start_row l) v (st l) (can_float l) (sqc l) (eqc l) (could_sub l) (result l) (at_end l).
Definition set_st l v := mkLexer (cur l) (cur_ty l) (text_row l) (text_col l) (start_col l) (start_row l) (should_create l) v (can_float l) (sqc l) (eqc l) (could_sub l) (result l) (at_end l).
Definition set_can_float l v := mkLexer (cur l) (cur_ty l) (text_row l) (text_col l) (start_col l) (start_row l) (should_create l) (st l) v (sqc l) (eqc l) (could_sub l) (result l) (at_end l).
Definition set_sq l v := mkLexer (cur l) (cur_ty l) (text_row l) (text_col l) (start_col l) (start_row l) (should_create l) (st l) (can_float l) v (eqc l) (could_sub l) (result l) (at_end l).
Definition set_eq l v := mkLexer (cur l) (cur_ty l) (text_row l) (text_col l) (start_col l) (start_row l) (should_create l) (st l) (can_float l) (sqc l) v (could_sub l) (result l) (at_end l).
Definition set_could_sub l v := mkLexer (cur l) (cur_ty l) (text_row l) (text_col l) (start_col l) (start_row l) (should_create l) (st l) (can_float l) (sqc l) (eqc l) v (result l) (at_end l).
Definition set_result l v := mkLexer (cur l) (cur_ty l) (text_row l) (text_col l) (start_col l) (start_row l) (should_create l) (st l) (can_float l) (sqc l) (eqc l) (could_sub l) v (at_end l).
Definition set_at_end l v := mkLexer (cur l) (cur_ty l) (text_row l) (text_col l) (start_col l) (start_row l) (should_create l) (st l) (can_float l) (sqc l) (eqc l) (could_sub l) (result l) v.

Definition push (l : lexer) (c : N) : lexer := set_cur l (cur l ++ [c]).
(* text_column = 0; text_row += 1 *)
Definition wrap_line (l : lexer) : lexer := set_text_row (set_text_col l 0) (text_row l + 1).

Definition opt_tt_eqb (a b : option token_type) : bool :=
  match a, b with
  | Some x, Some y => token_type_eqb x y
  | None, None => true
  | _, _ => false
  end.

(* what a state arm of process_char hands to the common tail *)
Inductive arm_result : Type :=
| Arm (l : lexer) (next_token : option token) (start_new : bool)
| Early (l : lexer)          (* `return None;` from inside the arm *)
| ArmPanic (site : N).

Definition PANIC_text_column_minus_1 : N := 1.

Section WithUnicode.
  Variables uni_numeric uni_alnum : N -> bool.

  Definition is_numeric (c : N) : bool :=
    if c <? 128 then ascii_digit c else uni_numeric c.
  Definition is_alphanumeric (c : N) : bool :=
    if c <? 128 then ascii_alpha c || ascii_digit c else uni_alnum c.
  Definition is_identifier_char (c : N) : bool :=
    is_alphanumeric c || (c =? ch_underscore) || (c =? ch_colon).
  (* c.is_numeric() || c == '_' || c.is_alphanumeric() *)
  Definition is_number_char (c : N) : bool :=
    is_numeric c || (c =? ch_underscore) || is_alphanumeric c.

  (* ------------------------------------------------------------ start_token *)
  Definition start_token (l0 : lexer) (c : N) : lexer :=
    let l := set_start_col (set_start_row (set_cur_ty (set_cur l0 [c]) None) (text_row l0)) (text_col l0) in
    match current_operator (cur l) with
    | Some ty => set_cur_ty (set_st l SOperator) ty
    | None =>
      if (c =? ch_space) || (c =? ch_tab) || (c =? ch_cr) then
        set_cur_ty (set_st l SSpaces) (Some TT_Whitespace)
      else if is_ascii_whitespace c then
        wrap_line (set_cur_ty (set_st l SSubexpression) (Some TT_Subexpression))
      else if is_numeric c then
        set_cur_ty (set_st l SNumber) (Some TT_Number)
      else if is_identifier_char c then
        set_cur_ty (set_st l SIdentifier) (Some TT_Identifier)
      else if c =? ch_backtick then
        set_cur_ty (set_st l SIdentifier) (Some TT_SuffixIdentifier)
      else if c =? ch_at then
        set_cur_ty (set_st l SAnnotation) (Some TT_Annotation)
      else if c =? ch_dquote then
        set_cur_ty (set_st l SStartCharList) (Some TT_CharList)
      else if c =? ch_squote then
        set_cur_ty (set_st l SStartByteList) (Some TT_ByteList)
      else if (c =? ch_nul) && at_end l then
        set_cur (set_cur_ty (set_st l SNoToken) None) []
      else
        set_result l (Some (mkErr E_InvalidStart (text_row l) (text_col l)))
    end.

  (* ------------------------------------------------- can_create_valid_token *)
  Definition can_create_valid_token (l : lexer) : option lex_error :=
    match cur_ty l with
    | Some TT_Identifier =>
      if list_N_eqb (cur l) [ch_underscore] || list_N_eqb (cur l) [ch_colon]
      then Some (mkErr E_Identifier (start_row l) (start_col l))
      else None
    | _ => None
    end.

  (* ----------------------------------------------------- process_char arms *)
  Definition arm_operator (l : lexer) (c : N) : arm_result :=
    let l1 := push l c in
    match current_operator (cur l1) with
    | Some ty => Arm (set_cur_ty l1 ty) None false
    | None =>
      if starts_with ch_underscore (cur l1) && forallb is_identifier_char (cur l1) then
        Arm (set_st (set_cur_ty l1 (Some TT_Identifier)) SIdentifier) None false
      else if starts_with ch_period (cur l1) && (byte_len (cur l1) =? 2) && is_numeric c && can_float l1 then
        Arm (set_st (set_cur_ty l1 (Some TT_Number)) SFloat) None false
      else
        (* current_characters.pop() *)
        Arm l None true
    end.

  Definition arm_number (l : lexer) (c : N) : arm_result :=
    if is_number_char c then Arm (push l c) None false
    else if (c =? ch_period) && can_float l then
      Arm (set_st (set_cur_ty (push l c) (Some TT_Number)) SFloat) None false
    else Arm l None true.

  Definition arm_float (l : lexer) (c : N) : arm_result :=
    if is_number_char c then Arm (push l c) None false
    else if (c =? ch_period) && ends_with ch_period (cur l) then
      let tok := mkTok (trim_matches ch_period (cur l)) TT_Number (start_row l) (start_col l) in
      let l1 := set_start_row l (text_row l) in
      if text_col l1 =? 0 then ArmPanic PANIC_text_column_minus_1
      else
        let correct_start_column := text_col l1 - 1 in
        let l2 := start_token l1 ch_period in
        let l3 := push (set_start_col l2 correct_start_column) c in
        match current_operator (cur l3) with
        | Some ty => Arm (set_cur_ty l3 ty) (Some tok) false
        | None => Early (set_result l3 (Some (mkErr E_Range (start_row l3) (start_col l3))))
        end
    else Arm l None true.

  Definition arm_identifier (l : lexer) (c : N) : arm_result :=
    if is_identifier_char c then Arm (push l c) None false
    else if c =? ch_backtick then
      let l1 := set_should_create (push l c) false in
      Arm (set_cur_ty l1 (Some (if opt_tt_eqb (cur_ty l1) (Some TT_SuffixIdentifier)
                                then TT_InfixIdentifier else TT_PrefixIdentifier))) None true
    else
      let is_symbol :=
        starts_with ch_colon (cur l) &&
        negb (match nth_error (cur l) 1 with Some x => x =? ch_colon | None => false end) in
      Arm (if is_symbol then set_cur_ty l (Some TT_Symbol) else l) None true.

  (* StartCharList / StartByteList share their shape: [q] is the quote, [body] the state
     entered after a single (or 3+) opening quotes *)
  Definition arm_start_list (q : N) (body : lstate) (l : lexer) (c : N) : arm_result :=
    let '(l1, fin) :=
      if negb (c =? q) then
        if byte_len (cur l) =? 2 then (l, true)
        else (set_st (set_sq l (byte_len (cur l))) body, false)
      else (l, false) in
    let l2 := if negb fin && negb ((c =? ch_nul) && at_end l1) then push l1 c else l1 in
    Arm l2 None fin.

  Definition arm_list (q : N) (l : lexer) (c : N) : arm_result :=
    if c =? q then
      let l1 := push (set_eq l (eqc l + 1)) c in
      if sqc l1 =? eqc l1 then Arm (set_should_create l1 false) None true
      else Arm l1 None false
    else Arm (push (set_eq l 0) c) None false.

  Definition arm_spaces (l : lexer) (c : N) : arm_result :=
    if c =? ch_lf then
      let l1 := wrap_line l in
      if could_sub l1 then
        Arm (set_should_create (push (set_cur_ty l1 (Some TT_Subexpression)) c) false) None true
      else
        Arm (set_st (push l1 c) SSubexpression) None false
    else if negb (c =? ch_space) && negb (c =? ch_tab) then Arm l None true
    else Arm (push l c) None false.

  Definition arm_subexpression (l : lexer) (c : N) : arm_result :=
    if is_ascii_whitespace c && negb ((c =? ch_tab) || (c =? ch_space)) then
      let l1 := set_cur_ty (push l c) (Some TT_Subexpression) in
      Arm (set_should_create (wrap_line l1) false) None true
    else
      let l1 := set_could_sub (set_cur_ty l (Some TT_Whitespace)) true in
      if (c =? ch_tab) || (c =? ch_space) then Arm (set_st (push l1 c) SSpaces) None false
      else Arm l1 None true.

  Definition arm_annotation (l : lexer) (c : N) : arm_result :=
    if (c =? ch_at) && (byte_len (cur l) =? 1) then
      Arm (set_cur_ty (set_st (push l c) SLineAnnotation) (Some TT_LineAnnotation)) None false
    else if is_alphanumeric c || (c =? ch_underscore) then Arm (push l c) None false
    else Arm l None true.

  Definition arm_line_annotation (l : lexer) (c : N) : arm_result :=
    if c =? ch_lf then Arm (wrap_line (set_should_create (push l c) false)) None true
    else if c =? ch_nul then Arm l None true
    else Arm (push l c) None false.

  Definition run_arm (l : lexer) (c : N) : arm_result :=
    match st l with
    | SNoToken => Arm (start_token l c) None false
    | SOperator => arm_operator l c
    | SNumber => arm_number l c
    | SFloat => arm_float l c
    | SIdentifier => arm_identifier l c
    | SStartCharList => arm_start_list ch_dquote SCharList l c
    | SCharList => arm_list ch_dquote l c
    | SStartByteList => arm_start_list ch_squote SByteList l c
    | SByteList => arm_list ch_squote l c
    | SSpaces => arm_spaces l c
    | SSubexpression => arm_subexpression l c
    | SAnnotation => arm_annotation l c
    | SLineAnnotation => arm_line_annotation l c
    end.

  (* the token types after which a period cannot start a float *)
  Definition blocks_float (t : option token_type) : bool :=
    match t with
    | Some TT_Value | Some TT_CharList | Some TT_ByteList | Some TT_Identifier
    | Some TT_Period | Some TT_Number => true
    | _ => false
    end.

  (* the final column/row update of process_char *)
  Definition advance (l : lexer) (c : N) : lexer :=
    if negb (c =? ch_lf) then set_text_col l (text_col l + 1)
    else match st l with
         | SCharList | SByteList => wrap_line l
         | _ => l
         end.

  (* `if start_new { ... }` *)
  Inductive tail_result : Type :=
  | Tail (l : lexer) (next_token : option token)
  | TailEarly (l : lexer).

  Definition start_new_tail (l0 : lexer) (nt : option token) (c : N) : tail_result :=
    let l1 := set_can_float l0 (negb (blocks_float (cur_ty l0))) in
    let emitted :=
      if negb (lstate_eqb (st l1) SNoToken) then
        let l2 := set_result l1 (can_create_valid_token l1) in
        match result l2 with
        | None =>
          match cur_ty l2 with
          | Some t => Tail l2 (Some (mkTok (cur l2) t (start_row l2) (start_col l2)))
          | None => TailEarly (set_result l2 (Some (mkErr E_NoToken (start_row l2) (start_col l2))))
          end
        | Some _ => Tail l2 nt
        end
      else Tail l1 nt in
    match emitted with
    | TailEarly l => TailEarly l
    | Tail l2 nt2 =>
      let l3 := set_could_sub (set_eq (set_sq (set_cur_ty (set_cur (set_st l2 SNoToken) []) None) 0) 0) false in
      let l4 := if should_create l3 then start_token l3 c else set_should_create l3 true in
      Tail l4 nt2
    end.

  (* ------------------------------------------------------------ process_char *)
  Definition process_char (l : lexer) (c : N) : res (lexer * option token) :=
    match run_arm l c with
    | ArmPanic site => Panic site
    | Early l1 => Ok (l1, None)
    | Arm l1 nt false => Ok (advance l1 c, nt)
    | Arm l1 nt true =>
      match start_new_tail l1 nt c with
      | TailEarly l2 => Ok (l2, None)
      | Tail l2 nt2 => Ok (advance l2 c, nt2)
      end
    end.

  (* ----------------------------------------------------------- internal_next *)
  Definition is_err (r : option lex_error) : bool := match r with Some _ => true | None => false end.

  (* the `loop { match self.input_iter.next() ... }`; the remaining input is threaded *)
  Fixpoint internal_next_loop (l : lexer) (s : list N) : res (lexer * list N * option token) :=
    match s with
    | c :: rest =>
      match process_char l c with
      | Ok (l1, Some t) => Ok (l1, rest, Some t)
      | Ok (l1, None) =>
        if is_err (result l1) then Ok (l1, rest, None) else internal_next_loop l1 rest
      | Err e => Err e
      | Panic site => Panic site
      | OutOfFuel => OutOfFuel
      end
    | [] =>
      let l0 := set_at_end l true in
      match process_char l0 ch_nul with
      | Ok (l1, Some t) => Ok (l1, [], Some t)
      | Ok (l1, None) =>
        let l2 :=
          if (0 <? byte_len (cur l1)) && negb (is_err (result l1))
          then set_result l1 (Some (mkErr E_Unterminated (start_row l1) (start_col l1)))
          else l1 in
        Ok (l2, [], None)
      | Err e => Err e
      | Panic site => Panic site
      | OutOfFuel => OutOfFuel
      end
    end.

  Definition internal_next (l : lexer) (s : list N) : res (lexer * list N * option token) :=
    if is_err (result l) then Ok (l, s, None) else internal_next_loop l s.

  (* --------------------------------------------------------------------- lex *)
  Inductive lex_outcome : Type :=
  | LOk (ts : list token)
  | LErr (e : lex_error)
  | LPanic (site : N)
  | LOutOfFuel.

  (* `while let Some(token) = lexer.next() { match lexer.result { Ok => push, Err(e) => return Err(e) } }`
     followed by `match lexer.result`; every call of next() either consumes input or
     is one of the (at most two) end-of-input flushes, hence the fuel in [lex_run] *)
  Fixpoint lex_loop (fuel : nat) (l : lexer) (s : list N) (acc : list token) : lex_outcome :=
    match fuel with
    | O => LOutOfFuel
    | S f =>
      match internal_next l s with
      | Ok (l1, s1, Some t) =>
        match result l1 with
        | None => lex_loop f l1 s1 (acc ++ [t])
        | Some e => LErr e
        end
      | Ok (l1, _, None) =>
        match result l1 with
        | None => LOk acc
        | Some e => LErr e
        end
      | Err e => LErr (mkErr e 0 0)
      | Panic site => LPanic site
      | OutOfFuel => LOutOfFuel
      end
    end.

  Definition lex_fuel (s : list N) : nat := S (S (S (length s))).

  Definition lex_run (s : list N) : lex_outcome := lex_loop (lex_fuel s) init_lexer s [].

  (* the shared outcome type: Err carries the error class *)
  Definition lex (s : list N) : res (list token) :=
    match lex_run s with
    | LOk ts => Ok ts
    | LErr e => Err (e_class e)
    | LPanic site => Panic site
    | LOutOfFuel => OutOfFuel
    end.
End WithUnicode.
