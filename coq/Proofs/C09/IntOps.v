From Coq Require Import ZArith Bool Lia.
From Flocq Require Import IEEE754.Binary IEEE754.Bits.
From GV Require Import Model.Num Spec.ExactArith Proofs.C09.IntArith Proofs.C09.Promote.
Local Open Scope Z_scope.

Ltac i32_cases :=
  repeat match goal with
  | |- context [in_i32 ?z] => let E := fresh "E" in destruct (in_i32 z) eqn:E
  end.

Lemma wrap_or_none z :
  (let '(v, o) := (wrap32 z, negb (in_i32 z)) in if o then None else Some (Int v))
  = representable (Some z).
Proof.
  simpl. destruct (in_i32 z) eqn:E; simpl; [rewrite wrap32_id by assumption|]; reflexivity.
Qed.

Lemma int_add a b : num_plus (Int a) (Int b) = spec_int_binop OpAdd a b.
Proof. apply (wrap_or_none (a + b)). Qed.
Lemma int_sub a b : num_subtract (Int a) (Int b) = spec_int_binop OpSub a b.
Proof. apply (wrap_or_none (a - b)). Qed.
Lemma int_mul a b : num_multiply (Int a) (Int b) = spec_int_binop OpMul a b.
Proof. apply (wrap_or_none (a * b)). Qed.

Lemma div_core a b : in_i32 a = true -> in_i32 b = true -> b <> 0 ->
  (let '(v, o) := overflowing_div a b in if o then None else Some (Int v))
  = representable (Some (Z.quot a b)).
Proof.
  intros Ha Hb Hnz. unfold overflowing_div.
  destruct ((a =? i32_min) && (b =? -1)) eqn:E.
  - assert (a = i32_min /\ b = -1) as [-> ->] by lia. reflexivity.
  - simpl. rewrite quot_range; auto. lia.
Qed.

Lemma int_div a b : in_i32 a = true -> in_i32 b = true ->
  num_divide (Int a) (Int b) = spec_int_binop OpDiv a b.
Proof.
  intros Ha Hb. unfold num_divide, spec_int_binop, exact_binop.
  rewrite is_zero_int by assumption.
  destruct (b =? 0) eqn:E; [reflexivity|].
  apply div_core; auto; lia.
Qed.

Lemma int_intdiv a b : in_i32 a = true -> in_i32 b = true ->
  num_integer_divide (Int a) (Int b) = spec_int_binop OpIntDiv a b.
Proof.
  intros Ha Hb. unfold num_integer_divide, spec_int_binop, exact_binop.
  rewrite is_zero_int by assumption.
  destruct (b =? 0) eqn:E; [reflexivity|].
  apply div_core; auto; lia.
Qed.

Lemma int_rem a b : in_i32 a = true -> in_i32 b = true ->
  num_remainder (Int a) (Int b) = spec_int_binop OpRem a b.
Proof.
  intros Ha Hb. unfold num_remainder, spec_int_binop, exact_binop.
  rewrite is_zero_int by assumption.
  destruct (b =? 0) eqn:E; [reflexivity|].
  unfold do_op, overflowing_rem.
  destruct ((a =? i32_min) && (b =? -1)) eqn:E2.
  - assert (a = i32_min /\ b = -1) as [-> ->] by lia. reflexivity.
  - rewrite quot_range by (auto; lia). simpl.
    rewrite rem_range by (auto; lia). reflexivity.
Qed.

Lemma int_pow powf a b : in_i32 a = true -> in_i32 b = true ->
  num_power powf (Int a) (Int b) = spec_int_binop OpPow a b.
Proof.
  intros Ha Hb. unfold num_power, spec_int_binop, exact_binop.
  destruct (b <? 0) eqn:Eb; [reflexivity|].
  assert (Hb0 : 0 <= b) by lia.
  unfold overflowing_pow.
  destruct (a =? 0) eqn:E0.
  { assert (a = 0) as -> by lia. destruct (b =? 0) eqn:Eb0.
    - assert (b = 0) as -> by lia. reflexivity.
    - rewrite Z.pow_0_l by lia. reflexivity. }
  destruct (a =? 1) eqn:E1.
  { assert (a = 1) as -> by lia. rewrite Z.pow_1_l by lia. reflexivity. }
  destruct (a =? -1) eqn:Em1.
  { assert (a = -1) as -> by lia. rewrite pow_m1 by lia. destruct (Z.even b); reflexivity. }
  destruct (31 <? b) eqn:E31.
  { simpl. rewrite pow_overflows by lia. reflexivity. }
  apply (wrap_or_none (a ^ b)).
Qed.

Lemma int_and a b : in_i32 a = true -> in_i32 b = true ->
  num_bitwise_and (Int a) (Int b) = spec_int_binop OpAnd a b.
Proof. intros Ha Hb. unfold spec_int_binop; simpl. rewrite land_range by assumption. reflexivity. Qed.
Lemma int_or a b : in_i32 a = true -> in_i32 b = true ->
  num_bitwise_or (Int a) (Int b) = spec_int_binop OpOr a b.
Proof. intros Ha Hb. unfold spec_int_binop; simpl. rewrite lor_range by assumption. reflexivity. Qed.
Lemma int_xor a b : in_i32 a = true -> in_i32 b = true ->
  num_bitwise_xor (Int a) (Int b) = spec_int_binop OpXor a b.
Proof. intros Ha Hb. unfold spec_int_binop; simpl. rewrite lxor_range by assumption. reflexivity. Qed.

Lemma int_shl a b : num_shift_left (Int a) (Int b) = spec_int_binop OpShl a b.
Proof.
  unfold spec_int_binop, exact_binop, num_shift_left, int_only, checked_shl, shift_count_ok.
  destruct ((0 <=? b) && (b <=? 31)); [|reflexivity].
  simpl. rewrite wrap32_range. reflexivity.
Qed.

Lemma int_shr a b : in_i32 a = true -> num_shift_right (Int a) (Int b) = spec_int_binop OpShr a b.
Proof.
  intros Ha.
  unfold spec_int_binop, exact_binop, num_shift_right, int_only, checked_shr, shift_count_ok.
  destruct ((0 <=? b) && (b <=? 31)) eqn:E; [|reflexivity].
  rewrite <- Z.shiftr_div_pow2 by lia. simpl.
  rewrite shiftr_range by (auto; lia). reflexivity.
Qed.

Theorem int_binop_exact powf o a b : in_i32 a = true -> in_i32 b = true ->
  num_binop powf o (Int a) (Int b) = spec_int_binop o a b.
Proof.
  intros Ha Hb. destruct o; simpl num_binop.
  - apply int_add. - apply int_sub. - apply int_mul.
  - apply int_div; assumption. - apply int_intdiv; assumption.
  - apply (int_pow powf); assumption. - apply int_rem; assumption.
  - apply int_and; assumption. - apply int_or; assumption. - apply int_xor; assumption.
  - apply int_shl. - apply int_shr; assumption.
Qed.

Theorem int_unop_exact o a : in_i32 a = true ->
  num_unop o (Int a) = spec_int_unop o a.
Proof.
  intros Ha. destruct o; simpl num_unop; unfold spec_int_unop, exact_unop, representable.
  - unfold num_absolute_value, overflowing_abs. destruct (a =? i32_min) eqn:E.
    + assert (a = i32_min) as -> by lia. reflexivity.
    + replace (in_i32 (Z.abs a)) with true; [reflexivity|].
      symmetry. apply in_i32_iff. apply in_i32_iff in Ha. unfold i32_min in E. lia.
  - unfold num_opposite, overflowing_neg. destruct (a =? i32_min) eqn:E.
    + assert (a = i32_min) as -> by lia. reflexivity.
    + replace (in_i32 (- a)) with true; [reflexivity|].
      symmetry. apply in_i32_iff. apply in_i32_iff in Ha. unfold i32_min in E. lia.
  - apply (wrap_or_none (a + 1)).
  - apply (wrap_or_none (a - 1)).
  - unfold num_bitwise_not. replace (- a - 1) with (Z.lnot a) by (unfold Z.lnot; lia).
    rewrite lnot_range by assumption. reflexivity.
Qed.

(* every integer result is in range: nothing wraps *)
Theorem int_results_in_range powf o a b z : in_i32 a = true -> in_i32 b = true ->
  num_binop powf o (Int a) (Int b) = Some (Int z) -> in_i32 z = true.
Proof.
  intros Ha Hb. rewrite int_binop_exact by assumption.
  unfold spec_int_binop, representable.
  destruct (exact_binop o a b) as [e|]; [|discriminate].
  destruct (in_i32 e) eqn:E; [|discriminate]. intros [= <-]. exact E.
Qed.

(* an int-int operation never produces a float *)
Theorem int_binop_int powf o a b f : in_i32 a = true -> in_i32 b = true ->
  num_binop powf o (Int a) (Int b) <> Some (Flt f).
Proof.
  intros Ha Hb. rewrite int_binop_exact by assumption.
  unfold spec_int_binop, representable.
  destruct (exact_binop o a b) as [e|]; [|discriminate].
  destruct (in_i32 e); discriminate.
Qed.

Lemma spec_exec_eq o a b : spec_int_binop_exec o a b = spec_int_binop o a b.
Proof.
  destruct o; try reflexivity. unfold spec_int_binop_exec, spec_int_binop, exact_binop.
  destruct (b <? 0) eqn:Eb; [reflexivity|].
  destruct (a =? 0) eqn:E0.
  { assert (a = 0) as -> by lia. destruct (b =? 0) eqn:Eb0.
    - assert (b = 0) as -> by lia. reflexivity.
    - rewrite Z.pow_0_l by lia. reflexivity. }
  destruct (a =? 1) eqn:E1.
  { assert (a = 1) as -> by lia. rewrite Z.pow_1_l by lia. reflexivity. }
  destruct (a =? -1) eqn:Em1.
  { assert (a = -1) as -> by lia. rewrite pow_m1 by lia. destruct (Z.even b); reflexivity. }
  destruct (31 <? b) eqn:E31; [|reflexivity].
  simpl. rewrite pow_overflows by lia. reflexivity.
Qed.
