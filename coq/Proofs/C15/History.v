(* C15 lifted to histories: a fresh store with progressing settings satisfies
   [G]; every history runs to completion; what a state holds in frozen cells
   reads back the same after any continuation. *)
From Coq Require Import NArith List Bool Arith Lia.
From GV Require Import Base.Result Gen.Instr Model.StoreBase Model.BasicStore Model.StoreOps Spec.AbsTables
  Proofs.C15.ListFacts Proofs.C15.Layout Proofs.C15.Stable Proofs.C15.Steps.
Import ListNotations.

(* growth settings that can make progress, without an item limit *)
Definition progressing (x : settings) : Prop :=
  max_items x = None /\
  match strat x with
  | FixedSize k => 1 <= k
  | Multiplicative m => 2 <= m /\ 1 <= initial_size x
  end.

Lemma copy_loop_zero : forall old src dst new, copy_loop old src dst 0 new = Ok new.
Proof. reflexivity. Qed.

Theorem fresh_store_ok : forall si sj ss se sd sc,
  progressing si -> progressing sj -> progressing ss -> progressing se -> progressing sd -> progressing sc ->
  exists s0, new_with_settings si sj ss se sd sc = Ok (s0, Done tt) /\ G s0 /\ (forall b, window s0 b = []).
Proof.
  intros si sj ss se sd sc [Mi Pi] [Mj Pj] [Ms Ps] [Me Pe] [Md Pd] [Mc Pc].
  unfold new_with_settings, reallocate_heap.
  cbn [existsb all_blk get_block blk_instr blk_jump blk_sym blk_expr blk_data blk_custom new_block b_settings].
  rewrite Mi, Mj, Ms, Me, Md, Mc. cbn [exceeds orb].
  cbn [realloc_blocks all_blk get_block blk_instr blk_jump blk_sym blk_expr blk_data blk_custom new_block b_cursor copy_loop bind].
  eexists. split; [reflexivity|].
  split.
  - constructor.
    + constructor.
      * constructor.
        -- intro b. unfold st, sz. destruct b; cbn; lia.
        -- intro b. unfold cur, sz. destruct b; cbn; lia.
        -- cbn [heap set_heap]. rewrite repeat_length. unfold total_size, sz. cbn. lia.
      * intro b. unfold can_progress. destruct b; cbn; assumption.
      * intro b. unfold sett. destruct b; cbn; assumption.
    + intros p c len Hp _. unfold data, window in Hp. cbn in Hp. destruct p; discriminate.
    + intros p c Hp. unfold data, window in Hp. cbn in Hp. destruct p; discriminate.
    + intros i Hi. cbn in Hi. discriminate.
  - intro b. unfold window. destruct b; reflexivity.
Qed.

(* every history runs to completion *)
Theorem run_ok : forall ops s, G s ->
  exists s' rs, run bstep ops s = Ok (s', rs) /\ G s' /\ Stable s s' /\ length rs = length ops.
Proof.
  induction ops as [|o rest IH]; intros s Gs.
  - exists s, []. split; [reflexivity|]. split; [exact Gs|]. split; [apply Stable_refl|reflexivity].
  - destruct (bstep_ok o s Gs) as (s1 & r & H1 & G1 & S1).
    destruct (IH s1 G1) as (s2 & rs & H2 & G2 & S2 & L2).
    exists s2, (r :: rs). cbn [run]. rewrite H1. cbn [bind fst snd]. rewrite H2. cbn [bind fst snd].
    split; [reflexivity|]. split; [exact G2|]. split; [eapply Stable_trans; eassumption|cbn; lia].
Qed.

Lemma run_stable : forall ops s s' rs, G s -> run bstep ops s = Ok (s', rs) -> G s' /\ Stable s s'.
Proof.
  intros ops s s' rs Gs H. destruct (run_ok ops s Gs) as (s2 & rs2 & H2 & G2 & S2 & _).
  rewrite H in H2. inversion H2; subst. auto.
Qed.

(* reading a frozen cell gives the same cell after any continuation *)
Theorem readback_cell : forall ops s s' rs a, G s -> run bstep ops s = Ok (s', rs) -> frozen (data s) a ->
  get_from_block BData a s' = get_from_block BData a s.
Proof.
  intros ops s s' rs a Gs H F. destruct (run_stable ops s s' rs Gs H) as [G' S'].
  rewrite (get_from_block_ok s' BData a (good_inv s' (g_good s' G'))),
          (get_from_block_ok s BData a (good_inv s (g_good s Gs))).
  fold (data s') (data s). rewrite (sb_data s s' S' a F). reflexivity.
Qed.

Theorem readback_instruction : forall ops s s' rs i x, G s -> run bstep ops s = Ok (s', rs) ->
  get_instruction i s = Ok (Some x) -> get_instruction i s' = Ok (Some x).
Proof.
  intros ops s s' rs i x Gs H Hi. destruct (run_stable ops s s' rs Gs H) as [G' S'].
  unfold get_instruction, get_from_instruction_block_ensure_index in *.
  rewrite (get_from_block_ok s' BInstr i (good_inv s' (g_good s' G'))).
  rewrite (get_from_block_ok s BInstr i (good_inv s (g_good s Gs))) in Hi.
  destruct (nth_error (window s BInstr) i) as [c|] eqn:Hc; [|discriminate].
  rewrite (sb_instr s s' S' i c Hc). exact Hi.
Qed.

(* a stored value: the operation returns the address of a frozen cell holding it *)
Lemma stored_cell : forall s c, G s -> plain c -> stable_kind c = true ->
  exists s', push_to_data_block c s = Ok (s', Done (length (data s))) /\ G s' /\
    nth_error (data s') (length (data s)) = Some c /\ frozen (data s') (length (data s)).
Proof.
  intros s c Gs Hp Hk. destruct (push_data_ok s c Gs Hp) as (s' & Hr & G' & _ & (_ & D & _)).
  exists s'. split; [exact Hr|]. split; [exact G'|].
  assert (Hn : nth_error (data s') (length (data s)) = Some c).
  { rewrite D, nth_error_app2, Nat.sub_diag by lia. reflexivity. }
  split; [exact Hn|]. exists c. split; [exact Hn|left; exact Hk].
Qed.

(* the cells of a finished list are frozen *)
Lemma list_cells_frozen : forall T p len ac k, RegionOk T -> nth_error T p = Some (CList len ac) -> k <= 2 * len -> frozen T (p + k).
Proof.
  intros T p len ac k R Hp Hk. destruct k as [|k].
  - rewrite Nat.add_0_r. exists (CList len ac). split; [exact Hp|left; reflexivity].
  - destruct (R p _ len Hp eq_refl) as [_ Hreg]. destruct (Hreg (S k)) as (c & Hc & _); [lia|].
    exists c. split; [exact Hc|]. right. exists p, len, ac. split; [exact Hp|lia].
Qed.
