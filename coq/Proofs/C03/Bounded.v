(* Bounded-exhaustive clause of C03/C04 over the models: every sequence of at most
   three token types, over ALL token types.  The bound is in the theorem names. *)
From Coq Require Import List Arith Bool NArith Lia.
From GV Require Import Base.Result Gen.TokenTypes Gen.Defs Gen.Instr Model.Parser Model.BuilderWL.
Import ListNotations.

Definition pipe_ok (toks : list token_type) : bool :=
  match parse toks with
  | Ok (root, nodes) =>
    match build nodes empty_init (fun _ => true) (build_fuel nodes) root with
    | Panic _ | OutOfFuel => false
    | _ => true
    end
  | Panic _ | OutOfFuel => false
  | Err _ => true
  end.

(* all lists of length exactly n / at most n over an alphabet *)
Fixpoint seqs_exact {A} (alphabet : list A) (n : nat) : list (list A) :=
  match n with
  | O => [[]]
  | S m => flat_map (fun a => map (cons a) (seqs_exact alphabet m)) alphabet
  end.
Fixpoint seqs_upto {A} (alphabet : list A) (n : nat) : list (list A) :=
  match n with
  | O => [[]]
  | S m => seqs_upto alphabet m ++ seqs_exact alphabet (S m)
  end.

Lemma seqs_exact_complete {A} (alphabet : list A) (l : list A) :
  (forall a, In a l -> In a alphabet) -> In l (seqs_exact alphabet (length l)).
Proof.
  induction l as [|x r IH]; intros H; simpl; [auto|].
  apply in_flat_map. exists x. split; [apply H; simpl; auto|].
  apply in_map. apply IH. intros a Ha. apply H. simpl; auto.
Qed.

Lemma seqs_upto_complete {A} (alphabet : list A) (n : nat) (l : list A) :
  (forall a, In a l -> In a alphabet) -> length l <= n -> In l (seqs_upto alphabet n).
Proof.
  intros H. induction n as [|n IH]; intros Hl.
  - destruct l; [simpl; auto|simpl in Hl; lia].
  - cbn [seqs_upto]. apply in_or_app. destruct (Nat.eq_dec (length l) (S n)) as [E|E].
    + right. rewrite <- E. apply seqs_exact_complete, H.
    + left. apply IH. lia.
Qed.

Lemma all_token_type_complete (t : token_type) : In t all_token_type.
Proof. destruct t; vm_compute; tauto. Qed.

Lemma pipe_ok_all_3 : forallb pipe_ok (seqs_upto all_token_type 3) = true.
Proof. vm_compute. reflexivity. Qed.

Theorem pipeline_total_bounded_3 (toks : list token_type) :
  length toks <= 3 -> pipe_ok toks = true.
Proof.
  intros H. pose proof pipe_ok_all_3 as F. rewrite forallb_forall in F. apply F.
  apply seqs_upto_complete; [intros a _; apply all_token_type_complete|exact H].
Qed.
