(* Inductive part of C05, second half: jump entries, body starts and the last
   instruction, for every proper tree outside the classes C05-K1 / C05-K2 and
   every initial state.  The invariant tracks the placeholders (jump entries
   pushed as 0) that are still to be patched: every one of them belongs to a
   body waiting on root_stack or to an arm registered with an else-chain head,
   and every such body is eventually emitted. *)
From Coq Require Import List Arith Bool NArith Lia.
From GV Require Import Base.Result Gen.TokenTypes Gen.Defs Gen.Instr Gen.Exec Model.Parser Model.BuilderWL Model.Compile
  Spec.WfCode Proofs.C05.InlBase Proofs.C05.Known Proofs.C05.Operands.
Import ListNotations.

Section Jumps.
Variable init : binit.
Variable lit_ok : nat -> bool.
Notation ilo := (i_instr_len init).
Notation jlo := (i_jump_len init).
Notation IL := (il init).
Notation JL := (jl init).

(* instruction of this build at absolute index [a] *)
Definition iat (s : cst) (a : nat) : option instr :=
  if Nat.ltb a ilo then None else nth_error (ci s) (a - ilo).
Definition term_at (s : cst) (a : nat) : Prop := exists p, iat s a = Some p /\ is_terminator p = true.

(* jump entries: the first is the entry point; the others point strictly after
   the first instruction and not beyond the next one to be emitted, or are
   placeholders that a body in [H] will patch *)
Definition jinv (H : list nat) (s : cst) : Prop :=
  cj s <> [] /\
  forall k x, nth_error (cj s) k = Some x ->
    (k = 0 /\ x = ilo) \/ (0 < k /\ ilo < x <= IL s) \/ (0 < k /\ x = 0 /\ In (jlo + k) H).

(* the target of jump entry [j] is a body start: still a placeholder, the first
   instruction, or an instruction that follows a terminator *)
Definition jref_ok (s : cst) (j : nat) : Prop :=
  jlo <= j < JL s /\
  forall x, nth_error (cj s) (j - jlo) = Some x -> x = 0 \/ x = ilo \/ (ilo < x /\ term_at s (x - 1)).

Definition bsinv (s : cst) : Prop :=
  (forall k io j, nth_error (ci s) k = Some io -> body_ref io = Some j -> jref_ok s j) /\
  jref_ok s jlo.

(* the containing expression of the code being emitted: the program's entry or
   the entry of a nested expression whose `Put` is already in the stream *)
Definition cont_ok (s : cst) (c : nat) : Prop :=
  c = jlo \/ exists k, nth_error (ci s) k = Some (I_Put, OExpr c).

Lemma jinv_mono : forall H H' s, incl H H' -> jinv H s -> jinv H' s.
Proof.
  intros H H' s Hi [Hn Hj]. split; [exact Hn|]. intros k x Hk.
  destruct (Hj k x Hk) as [A|[A|[A [B C]]]]; auto. right. right. auto.
Qed.

Lemma jinv_emit : forall H s io m, jinv H s -> jinv H (emit s io m).
Proof.
  intros H s io m [Hn Hj]. split; [exact Hn|]. intros k x Hk. cbn [emit cj] in Hk.
  destruct (Hj k x Hk) as [A|[[A B]|A]]; auto. right. left. rewrite il_emit. split; [exact A | lia].
Qed.

Lemma nth_error_snoc : forall A (l : list A) a k x,
  nth_error (l ++ [a]) k = Some x -> (k < length l /\ nth_error l k = Some x) \/ (k = length l /\ x = a).
Proof.
  intros A l a k x H. destruct (Nat.lt_ge_cases k (length l)) as [Hlt|Hge].
  - left. split; [exact Hlt|]. rewrite nth_error_app1 in H; auto.
  - right. rewrite nth_error_app2 in H; [|exact Hge].
    destruct (k - length l) as [|n] eqn:E; cbn in H.
    + inversion H. split; [lia | reflexivity].
    + destruct n; discriminate.
Qed.

Lemma jinv_new_hole : forall H s, jinv H s -> jinv (JL s :: H) (new_jump s 0).
Proof.
  intros H s [Hn Hj]. split; [cbn; destruct (cj s); discriminate|]. intros k x Hk. cbn [new_jump cj] in Hk.
  apply nth_error_snoc in Hk. destruct Hk as [[Hlt Hk]|[Hk Hx]].
  - destruct (Hj k x Hk) as [A|[A|[A [B C]]]]; auto. right. right. repeat split; auto. right. exact C.
  - subst. right. right. assert (0 < length (cj s)) by (destruct (cj s); [congruence | cbn; lia]).
    repeat split; auto. left. unfold jl. reflexivity.
Qed.

Lemma jinv_new_join : forall H s, jinv H s -> ilo < IL s -> jinv H (new_jump s (IL s)).
Proof.
  intros H s [Hn Hj] Hlt. split; [cbn; destruct (cj s); discriminate|]. intros k x Hk. cbn [new_jump cj] in Hk.
  apply nth_error_snoc in Hk. destruct Hk as [[Hl Hk]|[Hk Hx]].
  - destruct (Hj k x Hk) as [A|[A|A]]; auto.
  - subst. right. left. assert (0 < length (cj s)) by (destruct (cj s); [congruence | cbn; lia]).
    rewrite il_new_jump. split; [auto | lia].
Qed.

(* facts preserved by appending *)
Lemma iat_ext : forall s s' a p, ext s s' -> iat s a = Some p -> iat s' a = Some p.
Proof.
  intros s s' a p [x [y [z [Hc _]]]] H. unfold iat in *. destruct (Nat.ltb a ilo); [discriminate|].
  rewrite Hc. rewrite nth_error_app1; [exact H|]. apply nth_error_Some. rewrite H. discriminate.
Qed.
Lemma term_at_ext : forall s s' a, ext s s' -> term_at s a -> term_at s' a.
Proof. intros s s' a He [p [Hp Ht]]. exists p. split; [eapply iat_ext; eauto | exact Ht]. Qed.

Lemma jref_ok_ext : forall s s' j, ext s s' -> jref_ok s j -> jref_ok s' j.
Proof.
  intros s s' j He [Hr Hx]. pose proof (ext_jl init _ _ He) as Hjl. split; [lia|].
  intros x Hn. destruct He as [a [b [c [Hci [Hcm [Hcj Hl]]]]]].
  assert (Hold : nth_error (cj s) (j - jlo) = Some x).
  { rewrite Hcj in Hn. rewrite nth_error_app1 in Hn; [exact Hn|]. unfold jl in Hr. lia. }
  destruct (Hx x Hold) as [A|[A|[A B]]]; auto. right. right. split; [exact A|].
  eapply term_at_ext; [|exact B]. exists a, b, c. auto.
Qed.

Lemma bsinv_ext_emit : forall s io m, bsinv s ->
  (forall j, body_ref io = Some j -> jref_ok s j) -> bsinv (emit s io m).
Proof.
  intros s io m [Hb H0] Hio. split.
  - intros k io' j Hk Hr. cbn [emit ci] in Hk.
    apply nth_error_snoc in Hk. destruct Hk as [[Hlt Hk]|[Hk Hx]].
    + eapply jref_ok_ext; [apply ext_emit | eapply Hb; eauto].
    + subst. eapply jref_ok_ext; [apply ext_emit | apply Hio; exact Hr].
  - eapply jref_ok_ext; [apply ext_emit | exact H0].
Qed.

Lemma bsinv_new_jump : forall s x, bsinv s -> bsinv (new_jump s x).
Proof.
  intros s x [Hb H0]. split.
  - intros k io j Hk Hr. cbn [new_jump ci] in Hk.
    eapply jref_ok_ext; [apply ext_new_jump | eapply Hb; eauto].
  - eapply jref_ok_ext; [apply ext_new_jump | exact H0].
Qed.

Lemma cont_ok_ext : forall s s' c, ext s s' -> cont_ok s c -> cont_ok s' c.
Proof.
  intros s s' c [a [b [d [Ha _]]]] [Hc|[k Hk]]; [left; exact Hc|]. right. exists k.
  rewrite Ha. rewrite nth_error_app1; [exact Hk|]. apply nth_error_Some. rewrite Hk. discriminate.
Qed.

Lemma cont_jref : forall s c, bsinv s -> cont_ok s c -> jref_ok s c.
Proof. intros s c [Hb H0] [Hc|[k Hk]]; [subst; exact H0 | eapply Hb; [exact Hk | reflexivity]]. Qed.

Lemma cont_ok_emit_put : forall s j m, cont_ok (emit s (I_Put, OExpr j) m) j.
Proof.
  intros s j m. right. exists (length (ci s)). cbn [emit ci]. rewrite nth_error_app2 by lia.
  rewrite Nat.sub_diag. reflexivity.
Qed.

(* a fresh placeholder is a legitimate body reference *)
Lemma jref_new_hole : forall s, jref_ok (new_jump s 0) (JL s).
Proof.
  intros s. split; [rewrite jl_new_jump; unfold jl; lia|]. intros x Hn. cbn [new_jump cj] in Hn.
  replace (JL s - jlo) with (length (cj s)) in Hn by (unfold jl; lia).
  rewrite nth_error_app2 in Hn; [|lia]. rewrite Nat.sub_diag in Hn. cbn in Hn. inversion Hn. auto.
Qed.


(* ---- P1: arms are registered only under a conditional parent ---- *)
Lemma app_nil_both : forall A (a b : list A), a ++ b = [] -> a = [] /\ b = [].
Proof. intros A a b H. destruct a; [auto | discriminate]. Qed.

Lemma inl_items : forall t rj cx s s' ps items,
  inl init lit_ok rj t cx s = Ok (s', ps, items) ->
  (cx_cond cx = false -> items = []) /\ (items <> [] -> registers t = true).
Proof.
  induction t as [ix d l r IHl IHr] using tree_ind'.
  intros rj cx s s' ps items H. cbn [inl] in H. cbv zeta in H.
  cbn [registers].
  destruct (kind_of d) eqn:Hk.
  all: repeat inv_ok.
  all: repeat match goal with
              | H : inl _ _ _ _ ?cx _ = Ok (_, _, ?its) |- _ =>
                let F := fresh "F" in
                first [ pose proof (IHl _ eq_refl _ _ _ _ _ _ H) as F | pose proof (IHr _ eq_refl _ _ _ _ _ _ H) as F ];
                clear H; destruct F as [? ?]
              end.
  all: cbn [cx_cond plain opt_b] in *.
  all: split; intros; try congruence; try reflexivity.
  all: repeat match goal with
              | H : false = false -> ?x = [] |- _ => specialize (H eq_refl); subst x
              end.
  all: rewrite ?app_nil_l, ?app_nil_r in *; try congruence; try reflexivity; auto.
  all: try (apply orb_true_iff).
  all: try match goal with
           | Hn : ?a ++ ?b <> [] |- _ =>
             destruct a; [ right | left ]; auto; rewrite ?app_nil_l in Hn; auto
           end.
  all: try (match goal with H : _ -> ?g |- ?g => apply H; discriminate end).
Qed.


(* ---- P2: registering a body or an arm, and compiling a non-silent tree,
   emits at least one instruction ---- *)
Lemma app_not_nil : forall A (a b : list A), a ++ b <> [] -> a <> [] \/ b <> [].
Proof. intros A a b H. destruct a; [right; exact H | left; discriminate]. Qed.

Lemma inl_grow : forall t rj cx s s' ps items,
  inl init lit_ok rj t cx s = Ok (s', ps, items) ->
  ((ps <> [] \/ items <> []) -> IL s < IL s') /\
  (cx_list cx = None -> silent t = false -> IL s < IL s').
Proof.
  induction t as [ix d l r IHl IHr] using tree_ind'.
  intros rj cx s s' ps items H. cbn [inl] in H. cbv zeta in H.
  cbn [silent].
  destruct (kind_of d) eqn:Hk.
  all: repeat inv_ok.
  all: repeat match goal with
              | H : inl _ _ _ _ _ ?sA = Ok (?sB, _, _) |- _ =>
                let E := fresh "E" in let F := fresh "F" in
                pose proof (ext_il init _ _ (inl_ext init lit_ok _ _ _ _ _ _ _ H)) as E;
                first [ pose proof (IHl _ eq_refl _ _ _ _ _ _ H) as F | pose proof (IHr _ eq_refl _ _ _ _ _ _ H) as F ];
                clear H; destruct F as [? ?]
              end.
  all: cbn [cx_list cx_cond plain] in *.
  all: repeat first [ rewrite il_emit in * | rewrite il_new_jump in * ].
  all: try solve [ split; intros; lia ].
  all: split; intros.
  all: try match goal with
           | Hc : cx_list ?cx = None, Hm : context [match cx_list ?cx with _ => _ end] |- _ =>
             rewrite Hc in Hm; discriminate
           end.
  all: try match goal with
           | Hi : ?p0 :: ?l1 = ?i1 ++ ?i2 |- _ =>
             assert (i1 ++ i2 <> []) by (rewrite <- Hi; discriminate)
           end.
  all: repeat match goal with
              | H : _ ++ _ <> [] |- _ => apply app_not_nil in H; destruct H
              | H : _ \/ _ |- _ => destruct H
              | H : [] <> [] |- _ => congruence
              | H : ?a && ?b = false |- _ => apply andb_false_iff in H; destruct H
              end.
  all: repeat match goal with
              | Hi : ?A \/ ?B -> _, Ha : ?A |- _ => specialize (Hi (or_introl Ha))
              | Hi : ?A \/ ?B -> _, Hb : ?B |- _ => specialize (Hi (or_intror Hb))
              | Hi : None = None -> ?X = false -> _, Hx : ?X = false |- _ => specialize (Hi eq_refl Hx)
              end.
  all: try lia; try congruence.
Qed.


(* ---- P3: the bodies and arms a good tree registers are good ---- *)
Definition tree_good (t : tree) : Prop := drops_arms t = false.

Definition ends_shape (e : list instr) : Prop :=
  e = default_end \/ (exists j, e = [(I_JumpTo, ONum j)]) \/ (exists j, e = [(I_Tis, ONone); (I_JumpTo, ONum j)]).

Definition pend_live (p : pend) : Prop := tree_good (p_tree p) /\ ends_shape (p_end p).

Lemma tree_good_children : forall ix d l r, tree_good (T ix d l r) ->
  (forall a, l = Some a -> tree_good a) /\ (forall b, r = Some b -> tree_good b).
Proof.
  intros ix d l r Hd. unfold tree_good in *. cbn [drops_arms] in *.
  apply orb_false_iff in Hd. destruct Hd as [Hd Hdr]. apply orb_false_iff in Hd. destruct Hd as [_ Hdl].
  split; intros x Hx; subst; cbn [opt_b] in *; assumption.
Qed.

Lemma items_to_pends_live : forall c jt its, Forall (fun it => tree_good (fst it)) its ->
  Forall pend_live (map (fun it => mkP (fst it) c (snd it) [(I_JumpTo, ONum jt)]) its).
Proof.
  intros c jt its H. induction H as [|it its Hit _ IH]; cbn [map]; constructor; [|exact IH].
  unfold pend_live. cbn [p_tree p_end]. split; [exact Hit | right; left; eexists; reflexivity].
Qed.

Lemma inl_live : forall t, tree_good t -> forall rj cx s s' ps items,
  inl init lit_ok rj t cx s = Ok (s', ps, items) ->
  Forall pend_live ps /\ Forall (fun it => tree_good (fst it)) items.
Proof.
  induction t as [ix d l r IHl IHr] using tree_ind'.
  intros Hg rj cx s s' ps items H.
  destruct (tree_good_children _ _ _ _ Hg) as [Hgl Hgr].
  cbn [inl] in H. cbv zeta in H.
  destruct (kind_of d) eqn:Hk.
  all: repeat inv_ok.
  all: repeat match goal with
              | H : inl _ _ _ _ _ _ = Ok (_, _, _) |- _ =>
                let F := fresh "F" in
                first [ pose proof (IHl _ eq_refl (Hgl _ eq_refl) _ _ _ _ _ _ H) as F
                      | pose proof (IHr _ eq_refl (Hgr _ eq_refl) _ _ _ _ _ _ H) as F ];
                clear H; destruct F as [? ?]
              end.
  all: rewrite ?app_nil_r, ?app_nil_l.
  all: split.
  all: repeat rewrite Forall_app.
  all: repeat split; auto.
  all: try solve [ constructor ].
  all: try solve [ constructor; [| constructor ]; unfold pend_live; cbn [p_tree p_end fst];
                   split; [ first [ apply Hgl; reflexivity | apply Hgr; reflexivity ]
                          | first [ left; reflexivity | right; left; eexists; reflexivity | right; right; eexists; reflexivity ] ] ].
  all: try solve [ constructor; [ cbn [fst]; first [ apply Hgl; reflexivity | apply Hgr; reflexivity ] | constructor ] ].
  (* else-chain head: the arms become bodies ending in JumpTo *)
  match goal with
  | Hi : ?p0 :: ?l1 = ?i1 ++ ?i2, H1 : Forall _ ?i1, H2 : Forall _ ?i2 |- _ =>
    assert (Hits : Forall (fun it => tree_good (fst it)) (p0 :: l1))
      by (rewrite Hi; apply Forall_app; split; assumption)
  end.
  exact (items_to_pends_live (cx_containing cx) (JL c) (p0 :: l1) Hits).
Qed.


(* ---- P4: placeholders are owned by the registered bodies and arms ---- *)
Definition holes (ps : list pend) (items : list (tree * nat)) : list nat := map p_jump ps ++ map snd items.

Lemma il_ge : forall s, ilo <= IL s.
Proof. intros s. unfold il. lia. Qed.

Lemma drops_children : forall ix d l r, drops_arms (T ix d l r) = false ->
  (forall a, l = Some a -> drops_arms a = false) /\ (forall b, r = Some b -> drops_arms b = false) /\
  (forall i a, kind_of d = KLogical i -> l = Some a -> registers a = false).
Proof.
  intros ix d l r Hd. cbn [drops_arms] in Hd.
  apply orb_false_iff in Hd. destruct Hd as [Hd Hdr]. apply orb_false_iff in Hd. destruct Hd as [Hk Hdl].
  repeat split.
  - intros a Ha. subst. exact Hdl.
  - intros b Hb. subst. exact Hdr.
  - intros i a Hki Ha. subst. rewrite Hki in Hk. exact Hk.
Qed.

Ltac incl_solve :=
  repeat match goal with H : _ |- _ => clear H end;
  unfold incl, holes; intros ?z; rewrite ?map_app, ?map_map; cbn [map p_jump snd fst];
  rewrite ?in_app_iff; cbn [In]; rewrite ?in_app_iff; tauto.

Ltac jchain :=
  lazymatch goal with
  | |- jinv _ (emit _ _ _) => apply jinv_emit; jchain
  | |- jinv _ (new_jump _ 0) => apply jinv_new_hole; jchain
  | |- jinv _ (new_jump ?s (il _ ?s)) => apply jinv_new_join; [ jchain | ]
  | H : jinv _ ?s |- jinv _ ?s => exact H
  | F : forall H, jinv H ?sA -> jinv (_ ++ H) ?sB |- jinv _ ?sB => apply F; jchain
  end.

Lemma holes_of_items : forall c e its,
  map p_jump (map (fun it : tree * nat => mkP (fst it) c (snd it) e) its) = map snd its.
Proof. intros c e its. induction its as [|it its IH]; cbn; [reflexivity | f_equal; exact IH]. Qed.

Ltac jfin := eapply jinv_mono; [| jchain ];
             [ incl_solve | repeat first [ rewrite il_emit | rewrite il_new_jump ]; try lia .. ].

Lemma inl_jinv : forall t, drops_arms t = false -> forall rj cx s s' ps items,
  inl init lit_ok rj t cx s = Ok (s', ps, items) ->
  forall H, jinv H s -> jinv (holes ps items ++ H) s'.
Proof.
  induction t as [ix d l r IHl IHr] using tree_ind'.
  intros Hd rj cx s s' ps items H H0 Hj.
  destruct (drops_children _ _ _ _ Hd) as [Hdl [Hdr Hreg]].
  cbn [inl] in H. cbv zeta in H.
  destruct (kind_of d) eqn:Hk.
  all: repeat inv_ok.
  all: repeat match goal with
              | H : inl _ _ _ ?a _ ?sA = Ok (?sB, ?pB, ?iB) |- _ =>
                let E := fresh "E" in let G := fresh "G" in let R := fresh "R" in let F := fresh "F" in
                pose proof (ext_il init _ _ (inl_ext init lit_ok _ _ _ _ _ _ _ H)) as E;
                pose proof (proj1 (inl_grow _ _ _ _ _ _ _ H)) as G;
                pose proof (proj2 (inl_items _ _ _ _ _ _ _ H)) as R;
                first [ pose proof (IHl _ eq_refl (Hdl _ eq_refl) _ _ _ _ _ _ H) as F
                      | pose proof (IHr _ eq_refl (Hdr _ eq_refl) _ _ _ _ _ _ H) as F ];
                clear H
              end.
  all: pose proof (il_ge s) as Hge.
  all: try solve [ jfin ].
  - (* && / ||: nothing is registered by the left operand of a good tree *)
    assert (i0 = []).
    { destruct i0 as [|x xs]; [reflexivity|]. exfalso.
      assert (Hr : registers t0 = true) by (apply R; discriminate).
      rewrite (Hreg i t0 eq_refl eq_refl) in Hr. discriminate. }
    subst i0. jfin.
  - (* else-chain head without arms *)
    match goal with Hi : [] = ?a ++ ?b |- _ => symmetry in Hi; apply app_nil_both in Hi; destruct Hi; subst a b end.
    jfin.
  - (* else-chain head: the arms become bodies, and a join entry is pushed *)
    match goal with
    | Hi : ?p0 :: ?l1 = ?i1 ++ ?i2 |- _ =>
      assert (Hne : i1 ++ i2 <> []) by (rewrite <- Hi; discriminate);
      change (mkP (fst p0) (cx_containing cx) (snd p0) [(I_JumpTo, ONum (JL c))]
              :: map (fun it : tree * nat => mkP (fst it) (cx_containing cx) (snd it) [(I_JumpTo, ONum (JL c))]) l1)
        with (map (fun it : tree * nat => mkP (fst it) (cx_containing cx) (snd it) [(I_JumpTo, ONum (JL c))]) (p0 :: l1));
      rewrite Hi
    end.
    apply app_not_nil in Hne.
    assert (Hgrow : IL s < IL c) by (destruct Hne; [ assert (IL s < IL s1) by auto | assert (IL s1 < IL c) by auto ]; lia).
    unfold holes. rewrite !map_app, holes_of_items.
    eapply jinv_mono; [| jchain ]; [ incl_solve | lia ].
Qed.


(* ---- P5: every body reference names a placeholder, the first instruction or
   an instruction that follows a terminator ---- *)
Lemma body_ref_plain : forall i j, body_ref (i, ONone) = Some j -> False.
Proof. intros i j H. destruct i; discriminate. Qed.
Lemma body_ref_data : forall i n j, body_ref (i, OData n) = Some j -> False.
Proof. intros i n j H. destruct i; discriminate. Qed.
Lemma body_ref_num : forall i x j, body_ref (i, ONum x) = Some j -> j = x.
Proof. intros i x j H. destruct i; try discriminate; inversion H; reflexivity. Qed.
Lemma body_ref_expr : forall i x j, body_ref (i, OExpr x) = Some j -> j = x.
Proof. intros i x j H. destruct i; try discriminate; inversion H; reflexivity. Qed.

Ltac bref Hb Hc :=
  let j := fresh "j" in let Hj := fresh "Hj" in
  intros j Hj;
  first [ exfalso; exact (body_ref_plain _ _ Hj)
        | exfalso; exact (body_ref_data _ _ _ Hj)
        | discriminate Hj
        | apply body_ref_num in Hj; subst j; apply jref_new_hole
        | apply body_ref_expr in Hj; subst j; first [ apply jref_new_hole | exact (cont_jref _ _ Hb Hc) ] ].

Lemma inl_bsinv : forall t rj cx s s' ps items,
  inl init lit_ok rj t cx s = Ok (s', ps, items) ->
  bsinv s -> cont_ok s (cx_containing cx) -> bsinv s'.
Proof.
  induction t as [ix d l r IHl IHr] using tree_ind'.
  intros rj cx s s' ps items H Hb Hc.
  cbn [inl] in H. cbv zeta in H.
  destruct (kind_of d) eqn:Hk.
  all: repeat inv_ok.
  all: repeat match goal with
              | H : inl _ _ _ ?a _ ?sA = Ok (?sB, ?pB, ?iB) |- _ =>
                let E := fresh "E" in let F := fresh "F" in
                pose proof (inl_ext init lit_ok _ _ _ _ _ _ _ H) as E;
                first [ pose proof (IHl _ eq_refl _ _ _ _ _ _ H) as F
                      | pose proof (IHr _ eq_refl _ _ _ _ _ _ H) as F ];
                clear H
              end.
  all: cbn [cx_containing plain] in *.
  all: repeat lazymatch goal with
              | |- bsinv (emit _ _ _) => apply bsinv_ext_emit; [| bref Hb Hc ]
              | |- bsinv (new_jump _ _) => apply bsinv_new_jump
              | F : bsinv ?sA -> cont_ok ?sA _ -> bsinv ?sB |- bsinv ?sB =>
                apply F; [| eapply cont_ok_ext; [| exact Hc ]; ext_solve_g ]
              end.
  all: try assumption.
Qed.

(* the containing expression of every registered body is in the stream *)
Lemma inl_pend_cont : forall t rj cx s s' ps items,
  inl init lit_ok rj t cx s = Ok (s', ps, items) -> cont_ok s (cx_containing cx) ->
  Forall (fun p => cont_ok s' (p_containing p)) ps.
Proof.
  induction t as [ix d l r IHl IHr] using tree_ind'.
  intros rj cx s s' ps items H Hc.
  cbn [inl] in H. cbv zeta in H.
  destruct (kind_of d) eqn:Hk.
  all: repeat inv_ok.
  all: repeat match goal with
              | H : inl _ _ _ ?a ?cxa ?sA = Ok (?sB, ?pB, ?iB) |- _ =>
                let E := fresh "E" in let F := fresh "F" in
                pose proof (inl_ext init lit_ok _ _ _ _ _ _ _ H) as E;
                assert (F : Forall (fun p => cont_ok sB (p_containing p)) pB)
                  by (first [ eapply IHl; [ reflexivity | exact H | ] | eapply IHr; [ reflexivity | exact H | ] ];
                      cbn [cx_containing plain]; eapply cont_ok_ext; [| exact Hc ]; ext_solve_g);
                clear H
              end.
  all: rewrite ?app_nil_r, ?app_nil_l.
  all: repeat rewrite Forall_app.
  all: repeat split.
  all: try solve [ constructor ].
  all: try solve [ eapply Forall_impl; [| eassumption ]; cbv beta; intros ? ?;
                   eapply cont_ok_ext; [| eassumption ]; ext_solve_g ].
  all: try solve [ constructor; [| constructor ]; cbn [p_containing];
                   first [ solve [ apply cont_ok_emit_put ]
                         | solve [ eapply cont_ok_ext; [| exact Hc ]; ext_solve_g ]
                         | solve [ eapply cont_ok_ext; [| apply cont_ok_emit_put ]; ext_solve_g ] ] ].
  (* else-chain head *)
  match goal with
  | Hi : ?p0 :: ?l1 = ?i1 ++ ?i2 |- _ =>
    change (Forall (fun p => cont_ok (new_jump c (IL c)) (p_containing p))
              (map (fun it : tree * nat => mkP (fst it) (cx_containing cx) (snd it) [(I_JumpTo, ONum (JL c))]) (p0 :: l1)))
  end.
  apply Forall_map. apply Forall_forall. intros x _. cbn [p_containing].
  eapply cont_ok_ext; [| exact Hc ]. ext_solve_g.
Qed.

(* ---- P6: placeholders and joins come with a registered body or arm ---- *)
Lemma inl_no_pends_no_jumps : forall t, drops_arms t = false -> forall rj cx s s' ps items,
  inl init lit_ok rj t cx s = Ok (s', ps, items) -> ps = [] -> items = [] -> cj s' = cj s.
Proof.
  induction t as [ix d l r IHl IHr] using tree_ind'.
  intros Hd rj cx s s' ps items H Hp Hi.
  destruct (drops_children _ _ _ _ Hd) as [Hdl [Hdr Hreg]].
  cbn [inl] in H. cbv zeta in H.
  destruct (kind_of d) eqn:Hk.
  all: repeat inv_ok.
  all: try discriminate.
  all: repeat match goal with
              | H : _ ++ _ = [] |- _ => apply app_nil_both in H; destruct H; subst
              | H : [] = _ ++ _ |- _ => symmetry in H
              end.
  all: try discriminate.
  all: try match goal with
           | Hr : kind_of ?d = KLogical ?i, H : inl _ _ _ ?a _ _ = Ok (_, _, ?i0) |- _ =>
             assert (i0 = []) by
                 (destruct i0 as [|x xs]; [reflexivity|]; exfalso;
                  pose proof (proj2 (inl_items _ _ _ _ _ _ _ H)) as R;
                  assert (Hr' : registers a = true) by (apply R; discriminate);
                  rewrite (Hreg i a eq_refl eq_refl) in Hr'; discriminate); subst i0
           end.
  all: repeat match goal with
              | H : inl _ _ _ ?a _ ?sA = Ok (?sB, [], []) |- _ =>
                let F := fresh "F" in
                first [ pose proof (IHl _ eq_refl (Hdl _ eq_refl) _ _ _ _ _ _ H eq_refl eq_refl) as F
                      | pose proof (IHr _ eq_refl (Hdr _ eq_refl) _ _ _ _ _ _ H eq_refl eq_refl) as F ];
                clear H
              end.
  all: cbn [emit new_jump cj] in *.
  all: try congruence.
  subst ps items. eapply IHr; [reflexivity | apply Hdr; reflexivity | exact H | reflexivity | reflexivity].
Qed.

(* ---- the jump indices of registered bodies and arms are fresh ---- *)
Lemma inl_pend_range : forall t rj cx s s' ps items,
  inl init lit_ok rj t cx s = Ok (s', ps, items) ->
  Forall (fun p => JL s <= p_jump p < JL s') ps /\ Forall (fun it => JL s <= snd it < JL s') items.
Proof.
  induction t as [ix d l r IHl IHr] using tree_ind'.
  intros rj cx s s' ps items H.
  cbn [inl] in H. cbv zeta in H.
  destruct (kind_of d) eqn:Hk.
  all: repeat inv_ok.
  all: repeat match goal with
              | H : inl _ _ _ ?a _ ?sA = Ok (?sB, ?pB, ?iB) |- _ =>
                let E := fresh "E" in let F := fresh "F" in
                pose proof (ext_jl init _ _ (inl_ext init lit_ok _ _ _ _ _ _ _ H)) as E;
                first [ pose proof (IHl _ eq_refl _ _ _ _ _ _ H) as F
                      | pose proof (IHr _ eq_refl _ _ _ _ _ _ H) as F ];
                clear H; destruct F as [? ?]
              end.
  all: repeat first [ rewrite jl_emit in * | rewrite jl_new_jump in * ].
  all: rewrite ?app_nil_r, ?app_nil_l.
  all: split.
  all: repeat rewrite Forall_app.
  all: repeat split.
  all: try solve [ constructor ].
  all: try solve [ eapply Forall_impl; [| eassumption ]; cbv beta; intros; lia ].
  all: try solve [ constructor; [ cbn [p_jump snd]; repeat first [ rewrite jl_emit | rewrite jl_new_jump ]; lia | constructor ] ].
  (* else-chain head *)
  match goal with
  | Hi : ?p0 :: ?l1 = ?i1 ++ ?i2 |- _ =>
    change (mkP (fst p0) (cx_containing cx) (snd p0) [(I_JumpTo, ONum (JL c))]
            :: map (fun it : tree * nat => mkP (fst it) (cx_containing cx) (snd it) [(I_JumpTo, ONum (JL c))]) l1)
      with (map (fun it : tree * nat => mkP (fst it) (cx_containing cx) (snd it) [(I_JumpTo, ONum (JL c))]) (p0 :: l1));
    rewrite Hi
  end.
  apply Forall_map. cbn [p_jump]. apply Forall_app. split.
  - eapply Forall_impl; [| exact H2 ]. cbv beta. intros. lia.
  - eapply Forall_impl; [| exact H0 ]. cbv beta. intros. lia.
Qed.

End Jumps.
