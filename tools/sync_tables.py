#!/usr/bin/env python3
"""Translator (tie 1): regenerate coq/Gen/*.v from /repo's current working tree.

Each module tools/sync/<name>.py defines  generate() -> {relative path under
coq/Gen: text}.  Files are rewritten only when their content changes, so
`make` re-checks exactly what depends on a changed table.  An extractor that no
longer recognises its Rust item raises; that is reported as a broken tie.

  sync_tables.py [name ...]     (default: all modules)
prints a JSON object {"changed": [...], "errors": {...}} on stdout."""
import importlib, json, os, pkgutil, sys
HERE = os.path.dirname(os.path.abspath(__file__))
sys.path.insert(0, HERE)
GEN = "/verif/coq/Gen"


def run(names=None):
    import sync
    mods = sorted(m.name for m in pkgutil.iter_modules(sync.__path__) if m.name != "rustsrc")
    if names:
        mods = [m for m in mods if m in names]
    changed, errors = [], {}
    os.makedirs(GEN, exist_ok=True)
    for name in mods:
        try:
            mod = importlib.import_module("sync." + name)
            for rel, text in mod.generate().items():
                p = os.path.join(GEN, rel)
                old = open(p).read() if os.path.exists(p) else None
                if old != text:
                    with open(p, "w") as f:
                        f.write(text)
                    changed.append(rel)
        except Exception as e:  # extractor no longer recognises the source
            errors[name] = "%s: %s" % (type(e).__name__, e)
    return {"changed": changed, "errors": errors}


if __name__ == "__main__":
    r = run(sys.argv[1:] or None)
    print(json.dumps(r))
    sys.exit(1 if r["errors"] else 0)
