//! depth (C06): build a program on both data implementations and execute it one
//! instruction at a time, reporting the stack depths after every step.
//!   T <tt> <tt> ...        token-type indices
//!   S <cp>,<cp>,...        source text as hex code points ("-" = empty); input value: unit
//!   R <n> <cp>,<cp>,...    source text, input value: the integer n (loop counts)
//! Output: <case>\t<result>\t<oracle>
//!   result:  L=<ok|ERR|PANIC> P=<ERRn|PANIC|OK:root:[nodes]> B=<ERRn|PANIC|OK:entry:I[..]:J[..]:M[..]>
//!            X=<END|ERROR|PANIC|LIMIT|NOENTRY>:<steps>:<result value>:[pc.rel.values.frames.total;...]:[instr;...]
//!            BB=<same|..> XB=<same|..>   (BasicGarnishData, `same` when equal to the Simple text)
//!            trace: the state before the first step and after every step; rel = operands above the
//!            innermost frame's base, values / frames = depth of the value stack / frame chain
//!            (measured by popping a clone), total = operands in all frames
//!   oracle:  toks=<token-type indices seen by parse>
#[path = "../codekit.rs"]
mod codekit;
use codekit::*;
use garnish_verif_harness::*;

const STEP_LIMIT: usize = 600;

fn build_and_run<D: Kit>(p: &Parsed, input: Option<i32>) -> (String, String) {
    let mut data = D::fresh();
    match build_into(&mut data, p) {
        Err(c) => (c, "-".to_string()),
        Ok(b) => {
            let listing = show_built(&data, &b);
            let run = run_from(&mut data, b.entry, input, STEP_LIMIT, STEP_LIMIT, b.jump_from);
            let x = format!(
                "{}:{}:{}:[{}]:[{}]",
                run.end_name(),
                run.steps,
                run.result,
                run.trace.join(";"),
                run.executed.iter().map(|i| i.to_string()).collect::<Vec<_>>().join(";")
            );
            (listing, x)
        }
    }
}

fn main() {
    supervised(5000, |line| {
        let (kind, rest) = line.split_at(1);
        let rest = rest.trim_start();
        let (kind, input, payload) = if kind == "R" {
            let mut it = rest.splitn(2, ' ');
            let n: i32 = it.next().unwrap_or("0").parse().unwrap_or(0);
            ("S", Some(n), it.next().unwrap_or("-"))
        } else {
            (kind, None, rest)
        };
        match tokens_of(kind, payload) {
            Lexed::Fail(c) => {
                if c == "BADCASE" {
                    format!("{}\tBADCASE\t-", line)
                } else {
                    format!("{}\tL={}\t-", line, c)
                }
            }
            Lexed::Tokens(tokens, idx) => {
                let res = match parse_tokens(&tokens) {
                    Err(c) => format!("P={} B=- X=- BB=same XB=same", c),
                    Ok(p) => {
                        let (b, x) = build_and_run::<Simple>(&p, input);
                        let (bb, xb) = build_and_run::<Basic>(&p, input);
                        format!(
                            "P=OK:{}:[{}] B={} X={} BB={} XB={}",
                            p.root,
                            show_nodes(&p.nodes),
                            b,
                            x,
                            if bb == b { "same".to_string() } else { bb },
                            if xb == x { "same".to_string() } else { xb }
                        )
                    }
                };
                format!("{}\tL=ok {}\t{}", line, res, toks_field(&idx))
            }
        }
    });
}
