(* C16, the concatenation clause: indexing and symbol lookup of a concatenation
   tree whose leaves are lists (or single items), i.e. the worklist of
   traits/src/helpers/concatenation.rs iterate_concatenation_mut_with_method
   (model: Lists.iter_loop / iterate_concatenation) that borrows the register
   stack, and its two users runtime/src/runtime/list.rs index_concatenation_for
   and access_with_symbol (Concatenation arm).

   The statements are generic in the data implementation: a [DataOps] record
   together with a [RegLaws] record (the register stack is a stack; push and
   pop leave the value getters alone).  [simple_laws] shows that the
   SimpleGarnishData model satisfies the laws, so nothing here is vacuous. *)
From Coq Require Import NArith ZArith List Bool Arith Lia.
From GV Require Import Base.Result Gen.Instr Model.StoreBase Model.BasicStore Model.SimpleStore Model.Lists
  Spec.AssocSpec Proofs.C16.SimpleLookup.
Import ListNotations.

(* ---- what a concatenation denotes ---- *)
Inductive ctree : Type :=
| LeafList (items : list nat)      (* a List value: its items in insertion order *)
| LeafItem (a : nat)               (* any other value standing directly in a concatenation *)
| Cat (l r : ctree).

(* the order in which the worklist reaches the items: children left to right,
   or ([rev = true], get_rev_concatentation) right to left; the items of one
   list leaf are always walked from its first to its last *)
Fixpoint order (rev : bool) (t : ctree) : list nat :=
  match t with
  | LeafList items => items
  | LeafItem a => [a]
  | Cat l r => if rev then order rev r ++ order rev l else order rev l ++ order rev r
  end.

Definition flatten (t : ctree) : list nat := order false t.
Definition lookup_order (t : ctree) : list nat := order true t.

Fixpoint nodes (t : ctree) : nat :=
  match t with
  | Cat l r => S (nodes l + nodes r)
  | _ => 1
  end.

(* fuel that suffices: one unit per node of the tree (the root included) *)
Definition concat_fuel (t : ctree) : nat := nodes t.

Lemma nodes_pos : forall t, 1 <= nodes t.
Proof. destruct t; cbn; lia. Qed.

(* the first hit of a pure check along a sequence, indices counted from [index] *)
Fixpoint scan (chk : nat -> nat -> option nat) (index : nat) (xs : list nat) : option nat :=
  match xs with
  | [] => None
  | x :: r => match chk index x with Some v => Some v | None => scan chk (S index) r end
  end.

Lemma scan_app : forall chk xs ys index,
  scan chk index (xs ++ ys) =
    match scan chk index xs with Some v => Some v | None => scan chk (index + length xs) ys end.
Proof.
  intros chk xs ys. induction xs as [|x xs IH]; intro index; cbn [app scan length].
  - rewrite Nat.add_0_r. reflexivity.
  - destruct (chk index x); [reflexivity|]. rewrite IH. replace (S index + length xs) with (index + S (length xs)) by lia. reflexivity.
Qed.

Definition chk_index (z : Z) (i a : nat) : option nat := if Z.eqb (Z.of_nat i) z then Some a else None.

Lemma scan_index : forall xs i k, scan (chk_index (Z.of_nat (i + k))) i xs = nth_error xs k.
Proof.
  induction xs as [|x xs IH]; intros i k; cbn [scan]; [destruct k; reflexivity|].
  unfold chk_index at 1. destruct k as [|k].
  - rewrite Nat.add_0_r, Z.eqb_refl. reflexivity.
  - assert (E : Z.eqb (Z.of_nat i) (Z.of_nat (i + S k)) = false) by (apply Z.eqb_neq; lia). rewrite E.
    replace (i + S k) with (S i + k) by lia. rewrite IH. reflexivity.
Qed.

Lemma scan_index_negative : forall z xs i, (z < 0)%Z -> scan (chk_index z) i xs = None.
Proof.
  intros z xs. induction xs as [|x xs IH]; intros i Hz; cbn [scan]; [reflexivity|].
  unfold chk_index at 1. assert (E : Z.eqb (Z.of_nat i) z = false) by (apply Z.eqb_neq; lia). rewrite E. apply IH. exact Hz.
Qed.

Definition chk_sym (view : nat -> assoc_view) (sym : N) (_ a : nat) : option nat :=
  match view a with Some (k, v) => if N.eqb k sym then Some v else None | None => None end.

Lemma scan_sym : forall view sym xs i, scan (chk_sym view sym) i xs = assoc_lookup sym (map view xs).
Proof.
  intros view sym. induction xs as [|x xs IH]; intro i; cbn [scan map assoc_lookup]; [reflexivity|].
  unfold chk_sym at 1. destruct (view x) as [[k v]|]; [destruct (N.eqb k sym); [reflexivity|apply IH]|apply IH].
Qed.

Section Generic.
Context {St : Type} (D : DataOps St).

(* the value getters the traversal uses answer the same in both states *)
Record same_data (s s' : St) : Prop := mkSame {
  sd_type : forall a, d_get_data_type D a s' = d_get_data_type D a s;
  sd_symbol : forall a, d_get_symbol D a s' = d_get_symbol D a s;
  sd_pair : forall a, d_get_pair D a s' = d_get_pair D a s;
  sd_concat : forall a, d_get_concatenation D a s' = d_get_concatenation D a s;
  sd_len : forall a, d_get_list_len D a s' = d_get_list_len D a s;
  sd_item : forall a z, d_get_list_item D a z s' = d_get_list_item D a z s }.

(* the laws of the register stack needed here.  [regs] lists the register
   stack newest first; [frame s s'] says that s' differs from s at most in the
   register stack.  pop_register of SimpleGarnishData refuses a StackFrame
   (data type Custom), hence the side condition of [law_pop]. *)
Record RegLaws : Type := mkRegLaws {
  regs : St -> list nat;
  frame : St -> St -> Prop;
  frame_refl : forall s, frame s s;
  frame_trans : forall a b c, frame a b -> frame b c -> frame a c;
  frame_data : forall s s', frame s s' -> same_data s s';
  law_len : forall s, d_get_register_len D s = Ok (length (regs s));
  law_push : forall a s, exists s', d_push_register D a s = Ok (s', Done tt) /\ regs s' = a :: regs s /\ frame s s';
  law_pop : forall a r t s, regs s = a :: r -> d_get_data_type D a s = Ok t -> t <> T_Custom ->
    exists s', d_pop_register D s = Ok (s', Done (Some a)) /\ regs s' = r /\ frame s s' }.

(* [addr] holds the concatenation tree [t] in store [s], read through the getters *)
Inductive denotes (s : St) : nat -> ctree -> Prop :=
| den_list : forall a items,
    d_get_data_type D a s = Ok T_List ->
    d_get_list_len D a s = Ok (length items) ->
    (forall i x, nth_error items i = Some x -> d_get_list_item D a (Z.of_nat i) s = Ok (Some x)) ->
    denotes s a (LeafList items)
| den_item : forall a t,
    d_get_data_type D a s = Ok t -> t <> T_List -> t <> T_Concatenation -> t <> T_Custom ->
    denotes s a (LeafItem a)
| den_cat : forall a l r tl tr,
    d_get_data_type D a s = Ok T_Concatenation ->
    d_get_concatenation D a s = Ok (l, r) ->
    denotes s l tl -> denotes s r tr ->
    denotes s a (Cat tl tr).

(* an item as the symbol lookup sees it *)
Inductive viewed (s : St) (a : nat) : assoc_view -> Prop :=
| view_assoc : forall l v k,
    d_get_data_type D a s = Ok T_Pair -> d_get_pair D a s = Ok (l, v) ->
    d_get_data_type D l s = Ok T_Symbol -> d_get_symbol D l s = Ok k -> viewed s a (Some (k, v))
| view_pair_other : forall l v lt,
    d_get_data_type D a s = Ok T_Pair -> d_get_pair D a s = Ok (l, v) ->
    d_get_data_type D l s = Ok lt -> lt <> T_Symbol -> viewed s a None
| view_other : forall t, d_get_data_type D a s = Ok t -> t <> T_Pair -> viewed s a None.

Lemma denotes_type : forall s a t, denotes s a t -> exists ty, d_get_data_type D a s = Ok ty /\ ty <> T_Custom.
Proof.
  intros s a t H. inversion H; subst.
  - exists T_List. split; [assumption|discriminate].
  - eexists. split; eassumption.
  - exists T_Concatenation. split; [assumption|discriminate].
Qed.

(* ---- monad plumbing ---- *)
Lemma sbind_done : forall A B (m : SM St A) (f : A -> SM St B) s s' a,
  m s = Ok (s', Done a) -> sbind m f s = f a s'.
Proof. intros A B m f s s' a H. unfold sbind. rewrite H. reflexivity. Qed.

Lemma sread_ok : forall A (f : St -> res A) s a, f s = Ok a -> sread f s = Ok (s, Done a).
Proof. intros A f s a H. unfold sread. rewrite H. reflexivity. Qed.

(* the part of the loop body after the pop *)
Definition iter_body (f : nat) (rev : bool) (check : nat -> nat -> St -> res (option nat))
           (sr index r : nat) : SM St (option nat * nat) :=
  sdo t <- sread (d_get_data_type D r) ;
  match t with
  | T_Concatenation =>
      sdo cn <- sread (concat_children D rev r) ;
      sdo _ <- d_push_register D (snd cn) ;
      sdo _ <- d_push_register D (fst cn) ;
      iter_loop D f rev check sr index
  | T_List =>
      sdo len <- sread (d_get_list_len D r) ;
      sdo tr <- sread (iter_items D check len r 0 index) ;
      match tr with
      | Some x => sret (Some x, index + len)
      | None => iter_loop D f rev check sr (index + len)
      end
  | _ =>
      sdo tr <- sread (check index r) ;
      match tr with
      | Some x => sret (Some x, S index)
      | None => iter_loop D f rev check sr (S index)
      end
  end.

Lemma iter_loop_unfold : forall f rev check sr index,
  iter_loop D (S f) rev check sr index =
    (sdo rl <- sread (d_get_register_len D) ;
     if rl <=? sr then sret (None, index)
     else
       sdo ro <- d_pop_register D ;
       match ro with
       | None => sfail E_runtime
       | Some r => iter_body f rev check sr index r
       end).
Proof. reflexivity. Qed.

Lemma iter_body_other : forall f rev check sr index r s t,
  d_get_data_type D r s = Ok t -> t <> T_List -> t <> T_Concatenation ->
  iter_body f rev check sr index r s =
    (sdo tr <- sread (check index r) ;
     match tr with
     | Some x => sret (Some x, S index)
     | None => iter_loop D f rev check sr (S index)
     end) s.
Proof.
  intros f rev check sr index r s t Ht Hl Hc. unfold iter_body.
  erewrite sbind_done by (apply sread_ok; exact Ht).
  destruct t; try reflexivity; congruence.
Qed.

Lemma iter_items_spec : forall check chk s r index items2 i,
  (forall j x, nth_error items2 j = Some x -> d_get_list_item D r (Z.of_nat (i + j)) s = Ok (Some x)) ->
  (forall x, In x items2 -> forall k, check k x s = Ok (chk k x)) ->
  iter_items D check (length items2) r i index s = Ok (scan chk (index + i) items2).
Proof.
  intros check chk s r index. induction items2 as [|x xs IH]; intros i Hget Hchk; cbn [length iter_items scan]; [reflexivity|].
  pose proof (Hget 0 x eq_refl) as H0. rewrite Nat.add_0_r in H0. rewrite H0. cbn [bind].
  rewrite (Hchk x (or_introl eq_refl)). cbn [bind].
  destruct (chk (index + i) x); [reflexivity|].
  rewrite IH.
  - replace (index + S i) with (S (index + i)) by lia. reflexivity.
  - intros j y Hj. replace (S i + j) with (i + S j) by lia. apply Hget. exact Hj.
  - intros y Hy. apply Hchk. right. exact Hy.
Qed.

Section Traverse.
Variable L : RegLaws.
Variable check : nat -> nat -> St -> res (option nat).
Variable chk : nat -> nat -> option nat.
Variable s0 : St.
Variable base : list nat.
(* the check only reads the value getters *)
Hypothesis Hinv : forall s, same_data s0 s -> forall i a, check i a s = check i a s0.

Definition wseq (rev : bool) (work : list (nat * ctree)) : list nat := flat_map (fun p => order rev (snd p)) work.
Fixpoint wnodes (work : list (nat * ctree)) : nat :=
  match work with
  | [] => 0
  | p :: w => nodes (snd p) + wnodes w
  end.

Lemma wnodes_length : forall work, length work <= wnodes work.
Proof.
  induction work as [|[a t] w IH]; [apply Nat.le_refl|].
  cbn [wnodes length snd]. pose proof (nodes_pos t). lia.
Qed.

Lemma iter_loop_spec : forall rev fuel work index s,
  frame L s0 s -> regs L s = map fst work ++ base ->
  Forall (fun p => denotes s0 (fst p) (snd p)) work ->
  (forall a, In a (wseq rev work) -> forall i, check i a s0 = Ok (chk i a)) ->
  wnodes work < fuel ->
  exists s' idx' work',
    iter_loop D fuel rev check (length base) index s = Ok (s', Done (scan chk index (wseq rev work), idx')) /\
    frame L s0 s' /\ regs L s' = map fst work' ++ base /\
    Forall (fun p => denotes s0 (fst p) (snd p)) work' /\ wnodes work' <= wnodes work.
Proof.
  intro rev. induction fuel as [|f IH]; intros work index s Hfr Hregs Hden Hchk Hfuel; [lia|].
  rewrite iter_loop_unfold.
  erewrite sbind_done by (apply sread_ok; apply (law_len L)).
  rewrite Hregs.
  destruct work as [|[a t] w].
  - cbn [map app]. rewrite Nat.leb_refl. exists s, index, []. cbn [wseq flat_map scan map app].
    repeat split; try assumption; apply Nat.le_refl.
  - cbn [map fst app length].
    assert (E : (S (length (map fst w ++ base)) <=? length base) = false)
      by (apply Nat.leb_gt; rewrite app_length; lia).
    rewrite E. clear E.
    inversion Hden as [|? ? Ha Hw]; subst. cbn [fst snd] in Ha.
    pose proof (frame_data L _ _ Hfr) as Hsd.
    destruct (denotes_type _ _ _ Ha) as (ty & Hty & Hnc).
    cbn [map fst app] in Hregs.
    assert (Htys : d_get_data_type D a s = Ok ty) by (rewrite (sd_type _ _ Hsd); exact Hty).
    destruct (law_pop L a (map fst w ++ base) ty s Hregs Htys Hnc) as (s1 & Hpop & Hregs1 & Hfr1).
    erewrite sbind_done by exact Hpop. cbv beta iota.
    assert (Hfr01 : frame L s0 s1) by (eapply frame_trans; eassumption).
    pose proof (frame_data L _ _ Hfr01) as Hsd1.
    cbn [wnodes snd] in Hfuel.
    assert (Hwn : forall x, wnodes ((a, x) :: w) = nodes x + wnodes w) by reflexivity.
    assert (Hws : forall x, wseq rev ((a, x) :: w) = order rev x ++ wseq rev w) by reflexivity.
    rewrite Hws in Hchk. rewrite Hws.
    inversion Ha as [a' items Htype Hlen Hitems | a' t' Htype Hnl Hncat Hncus | a' l r tl tr Htype Hcat Hl Hr]; subst.
    + (* a list leaf *)
      unfold iter_body.
      erewrite sbind_done by (apply sread_ok; rewrite (sd_type _ _ Hsd1); exact Htype). cbv beta iota.
      erewrite sbind_done by (apply sread_ok; rewrite (sd_len _ _ Hsd1); exact Hlen).
      erewrite sbind_done.
      2:{ apply sread_ok. apply iter_items_spec with (chk := chk).
          - intros j x Hj. cbn [plus]. rewrite (sd_item _ _ Hsd1). apply Hitems. exact Hj.
          - intros x Hx k. rewrite (Hinv _ Hsd1). apply Hchk. cbn [order]. apply in_or_app. left. exact Hx. }
      rewrite Nat.add_0_r. cbn [order]. rewrite scan_app.
      destruct (scan chk index items) as [v|] eqn:Esc.
      * exists s1, (index + length items), w. repeat split; try assumption.
        rewrite Hwn. lia.
      * destruct (IH w (index + length items) s1 Hfr01 Hregs1 Hw) as (s' & idx' & work' & Hrun & Hfr' & Hregs' & Hden' & Hle).
        { intros x Hx i. apply Hchk. apply in_or_app. right. exact Hx. }
        { cbn [nodes] in Hfuel. lia. }
        exists s', idx', work'. repeat split; try assumption. rewrite Hwn. lia.
    + (* a single item *)
      erewrite iter_body_other by (try rewrite (sd_type _ _ Hsd1); eassumption).
      erewrite sbind_done.
      2:{ apply sread_ok. rewrite (Hinv _ Hsd1). apply Hchk. cbn [order]. left. reflexivity. }
      cbn [order app scan].
      destruct (chk index a) as [v|] eqn:Esc.
      * exists s1, (S index), w. repeat split; try assumption. rewrite Hwn. lia.
      * destruct (IH w (S index) s1 Hfr01 Hregs1 Hw) as (s' & idx' & work' & Hrun & Hfr' & Hregs' & Hden' & Hle).
        { intros x Hx i. apply Hchk. apply in_or_app. right. exact Hx. }
        { cbn [nodes] in Hfuel. lia. }
        exists s', idx', work'. repeat split; try assumption. rewrite Hwn. lia.
    + (* a nested concatenation: its two children go back on the stack *)
      unfold iter_body.
      erewrite sbind_done by (apply sread_ok; rewrite (sd_type _ _ Hsd1); exact Htype). cbv beta iota.
      assert (Hcc : concat_children D rev a s1 = Ok (if rev then (r, l) else (l, r))).
      { unfold concat_children. rewrite (sd_concat _ _ Hsd1), Hcat. cbn [bind fst snd]. destruct rev; reflexivity. }
      erewrite sbind_done by (apply sread_ok; exact Hcc).
      set (cn := if rev then (r, l) else (l, r)).
      set (tfst := if rev then tr else tl). set (tsnd := if rev then tl else tr).
      assert (Hdf : denotes s0 (fst cn) tfst) by (unfold cn, tfst; destruct rev; assumption).
      assert (Hds : denotes s0 (snd cn) tsnd) by (unfold cn, tsnd; destruct rev; assumption).
      destruct (law_push L (snd cn) s1) as (s2 & Hpush2 & Hregs2 & Hfr2).
      erewrite sbind_done by exact Hpush2.
      destruct (law_push L (fst cn) s2) as (s3 & Hpush3 & Hregs3 & Hfr3).
      erewrite sbind_done by exact Hpush3.
      assert (Hfr03 : frame L s0 s3) by (eapply frame_trans; [eapply frame_trans; eassumption|eassumption]).
      destruct (IH ((fst cn, tfst) :: (snd cn, tsnd) :: w) index s3 Hfr03) as (s' & idx' & work' & Hrun & Hfr' & Hregs' & Hden' & Hle).
      { rewrite Hregs3, Hregs2, Hregs1. reflexivity. }
      { constructor; [exact Hdf|constructor; [exact Hds|exact Hw]]. }
      { intros x Hx i. apply Hchk. unfold wseq in Hx. cbn [flat_map snd] in Hx. fold (wseq rev w) in Hx.
        rewrite app_assoc in Hx. apply in_app_or in Hx. apply in_or_app. destruct Hx as [Hx|Hx]; [left|right; exact Hx].
        cbn [order]. unfold tfst, tsnd in Hx. destruct rev; exact Hx. }
      { cbn [wnodes snd]. cbn [nodes] in Hfuel.
        assert (nodes tfst + nodes tsnd = nodes tl + nodes tr) by (unfold tfst, tsnd; destruct rev; lia). lia. }
      exists s', idx', work'.
      assert (Hseq : wseq rev ((fst cn, tfst) :: (snd cn, tsnd) :: w) = order rev (Cat tl tr) ++ wseq rev w).
      { unfold wseq. cbn [flat_map snd]. rewrite app_assoc. f_equal. cbn [order]. unfold tfst, tsnd. destruct rev; reflexivity. }
      rewrite Hseq in Hrun. repeat split; try assumption.
      rewrite Hwn. cbn [nodes]. cbn [wnodes snd] in Hle.
      assert (nodes tfst + nodes tsnd = nodes tl + nodes tr) by (unfold tfst, tsnd; destruct rev; lia). lia.
Qed.

(* the borrowed registers are handed back *)
Lemma clear_spec : forall fuel work s,
  frame L s0 s -> regs L s = map fst work ++ base ->
  Forall (fun p => denotes s0 (fst p) (snd p)) work ->
  length work < fuel ->
  exists s', clear_registers D fuel (length base) s = Ok (s', Done tt) /\ frame L s0 s' /\ regs L s' = base.
Proof.
  induction fuel as [|f IH]; intros work s Hfr Hregs Hden Hfuel; [lia|].
  cbn [clear_registers].
  erewrite sbind_done by (apply sread_ok; apply (law_len L)).
  rewrite Hregs.
  destruct work as [|[a t] w].
  - cbn [map app]. rewrite Nat.leb_refl. exists s. repeat split; assumption.
  - cbn [map fst app length].
    assert (E : (S (length (map fst w ++ base)) <=? length base) = false)
      by (apply Nat.leb_gt; rewrite app_length; lia).
    rewrite E. clear E.
    inversion Hden as [|? ? Ha Hw]; subst. cbn [fst snd] in Ha.
    pose proof (frame_data L _ _ Hfr) as Hsd.
    destruct (denotes_type _ _ _ Ha) as (ty & Hty & Hnc).
    cbn [map fst app] in Hregs.
    assert (Htys : d_get_data_type D a s = Ok ty) by (rewrite (sd_type _ _ Hsd); exact Hty).
    destruct (law_pop L a (map fst w ++ base) ty s Hregs Htys Hnc) as (s1 & Hpop & Hregs1 & Hfr1).
    erewrite sbind_done by exact Hpop.
    apply (IH w s1); [eapply frame_trans; eassumption|exact Hregs1|exact Hw|cbn [length] in Hfuel; lia].
Qed.
End Traverse.

(* ---- iterate_concatenation ---- *)
Lemma iterate_spec : forall (L : RegLaws) rev check chk fuel addr tl tr s,
  denotes s addr (Cat tl tr) ->
  (forall s', same_data s s' -> forall i a, check i a s' = check i a s) ->
  (forall a, In a (order rev (Cat tl tr)) -> forall i, check i a s = Ok (chk i a)) ->
  concat_fuel (Cat tl tr) <= fuel ->
  exists s' idx,
    iterate_concatenation D fuel rev check addr s = Ok (s', Done (scan chk 0 (order rev (Cat tl tr)), idx)) /\
    regs L s' = regs L s /\ frame L s s'.
Proof.
  intros L rev check chk fuel addr tl tr s Hden Hinv Hchk Hfuel.
  inversion Hden as [| | a' l r tl' tr' Htype Hcat Hl Hr]; subst.
  unfold iterate_concatenation.
  assert (Hcc : concat_children D rev addr s = Ok (if rev then (r, l) else (l, r))).
  { unfold concat_children. rewrite Hcat. cbn [bind fst snd]. destruct rev; reflexivity. }
  erewrite sbind_done by (apply sread_ok; exact Hcc).
  erewrite sbind_done by (apply sread_ok; apply (law_len L)).
  set (cn := if rev then (r, l) else (l, r)).
  set (tfst := if rev then tr else tl). set (tsnd := if rev then tl else tr).
  assert (Hdf : denotes s (fst cn) tfst) by (unfold cn, tfst; destruct rev; assumption).
  assert (Hds : denotes s (snd cn) tsnd) by (unfold cn, tsnd; destruct rev; assumption).
  destruct (law_push L (snd cn) s) as (s2 & Hpush2 & Hregs2 & Hfr2).
  erewrite sbind_done by exact Hpush2.
  destruct (law_push L (fst cn) s2) as (s3 & Hpush3 & Hregs3 & Hfr3).
  erewrite sbind_done by exact Hpush3.
  assert (Hfr03 : frame L s s3) by (eapply frame_trans; eassumption).
  assert (Hnodes : nodes tfst + nodes tsnd = nodes tl + nodes tr) by (unfold tfst, tsnd; destruct rev; lia).
  assert (Hseq : wseq rev [(fst cn, tfst); (snd cn, tsnd)] = order rev (Cat tl tr)).
  { unfold wseq. cbn [flat_map snd]. rewrite app_nil_r. cbn [order]. unfold tfst, tsnd. destruct rev; reflexivity. }
  unfold concat_fuel in Hfuel. cbn [nodes] in Hfuel.
  destruct (iter_loop_spec L check chk s (regs L s) Hinv rev fuel [(fst cn, tfst); (snd cn, tsnd)] 0 s3 Hfr03)
    as (s4 & idx & work' & Hrun & Hfr4 & Hregs4 & Hden4 & Hle).
  { rewrite Hregs3, Hregs2. reflexivity. }
  { constructor; [exact Hdf|constructor; [exact Hds|constructor]]. }
  { rewrite Hseq. exact Hchk. }
  { cbn [wnodes snd]. lia. }
  rewrite Hseq in Hrun.
  erewrite sbind_done by exact Hrun.
  destruct (clear_spec L s (regs L s) fuel work' s4 Hfr4 Hregs4 Hden4) as (s5 & Hclr & Hfr5 & Hregs5).
  { pose proof (wnodes_length work'). cbn [wnodes snd] in Hle. lia. }
  erewrite sbind_done by exact Hclr.
  exists s5, idx. repeat split; assumption.
Qed.

(* ---- 1. indexing ---- *)
Lemma index_concat_gen : forall (L : RegLaws) fuel addr tl tr s z,
  denotes s addr (Cat tl tr) -> concat_fuel (Cat tl tr) <= fuel ->
  exists s', index_concatenation_for D fuel addr z s = Ok (s', Done (scan (chk_index z) 0 (flatten (Cat tl tr)))) /\
             regs L s' = regs L s /\ frame L s s'.
Proof.
  intros L fuel addr tl tr s z Hden Hfuel. unfold index_concatenation_for.
  destruct (iterate_spec L false
              (fun current_index a (_ : St) => if Z.eqb (Z.of_nat current_index) z then Ok (Some a) else Ok None)
              (chk_index z) fuel addr tl tr s Hden) as (s' & idx & Hrun & Hregs & Hfr).
  - reflexivity.
  - intros a _ i. unfold chk_index. destruct (Z.eqb (Z.of_nat i) z); reflexivity.
  - exact Hfuel.
  - erewrite sbind_done by exact Hrun. exists s'. repeat split; assumption.
Qed.

Theorem concat_index : forall (L : RegLaws) fuel addr tl tr s k,
  denotes s addr (Cat tl tr) -> concat_fuel (Cat tl tr) <= fuel ->
  exists s', index_concatenation_for D fuel addr (Z.of_nat k) s = Ok (s', Done (nth_error (flatten (Cat tl tr)) k)) /\
             regs L s' = regs L s /\ frame L s s'.
Proof.
  intros L fuel addr tl tr s k Hden Hfuel.
  destruct (index_concat_gen L fuel addr tl tr s (Z.of_nat k) Hden Hfuel) as (s' & Hrun & H).
  exists s'. split; [|exact H]. rewrite Hrun. pose proof (scan_index (flatten (Cat tl tr)) 0 k) as E. cbn [plus] in E. rewrite E. reflexivity.
Qed.

Theorem concat_index_negative : forall (L : RegLaws) fuel addr tl tr s z,
  denotes s addr (Cat tl tr) -> concat_fuel (Cat tl tr) <= fuel -> (z < 0)%Z ->
  exists s', index_concatenation_for D fuel addr z s = Ok (s', Done None) /\
             regs L s' = regs L s /\ frame L s s'.
Proof.
  intros L fuel addr tl tr s z Hden Hfuel Hz.
  destruct (index_concat_gen L fuel addr tl tr s z Hden Hfuel) as (s' & Hrun & H).
  exists s'. split; [|exact H]. rewrite Hrun. rewrite scan_index_negative by exact Hz. reflexivity.
Qed.

(* the same through the public entry point access_with_integer *)
Lemma access_with_integer_concat : forall fuel z addr s, d_get_data_type D addr s = Ok T_Concatenation ->
  access_with_integer D fuel z addr s = index_concatenation_for D fuel addr z s.
Proof.
  intros fuel z addr s Ht. unfold access_with_integer.
  erewrite sbind_done by (apply sread_ok; exact Ht). reflexivity.
Qed.

(* ---- 2. symbol lookup ---- *)
Lemma gvia_same : forall sym s s', same_data s s' -> forall a,
  get_value_if_association D sym a s' = get_value_if_association D sym a s.
Proof.
  intros sym s s' H a. unfold get_value_if_association.
  rewrite (sd_type _ _ H a). destruct (d_get_data_type D a s) as [t| | |]; cbn [bind]; try reflexivity.
  destruct t; try reflexivity.
  rewrite (sd_pair _ _ H a). destruct (d_get_pair D a s) as [lr| | |]; cbn [bind]; try reflexivity.
  rewrite (sd_type _ _ H (fst lr)). destruct (d_get_data_type D (fst lr) s) as [lt| | |]; cbn [bind]; try reflexivity.
  destruct lt; try reflexivity.
  rewrite (sd_symbol _ _ H (fst lr)). reflexivity.
Qed.

Lemma gvia_viewed : forall sym s a v i, viewed s a v ->
  get_value_if_association D sym a s = Ok (chk_sym (fun _ => v) sym i a).
Proof.
  intros sym s a v i H. unfold get_value_if_association, chk_sym.
  inversion H as [l x k Ht Hp Hlt Hs | l x lt Ht Hp Hlt Hns | t Ht Hnp]; subst.
  - rewrite Ht. cbn [bind]. rewrite Hp. cbn [bind fst snd]. rewrite Hlt. cbn [bind]. rewrite Hs. cbn [bind].
    destruct (N.eqb k sym); reflexivity.
  - rewrite Ht. cbn [bind]. rewrite Hp. cbn [bind fst snd]. rewrite Hlt. cbn [bind].
    destruct lt; try reflexivity; congruence.
  - rewrite Ht. cbn [bind]. destruct t; try reflexivity; congruence.
Qed.

Theorem concat_lookup : forall (L : RegLaws) fuel sym addr tl tr s (view : nat -> assoc_view),
  denotes s addr (Cat tl tr) -> concat_fuel (Cat tl tr) <= fuel ->
  (forall a, In a (lookup_order (Cat tl tr)) -> viewed s a (view a)) ->
  exists s', access_with_symbol D fuel sym addr s =
               Ok (s', Done (assoc_lookup sym (map view (lookup_order (Cat tl tr))))) /\
             regs L s' = regs L s /\ frame L s s'.
Proof.
  intros L fuel sym addr tl tr s view Hden Hfuel Hview.
  assert (Ht : d_get_data_type D addr s = Ok T_Concatenation) by (inversion Hden; assumption).
  unfold access_with_symbol.
  erewrite sbind_done by (apply sread_ok; exact Ht). cbv beta iota.
  destruct (iterate_spec L true (fun (_ : nat) a s => get_value_if_association D sym a s)
              (chk_sym view sym) fuel addr tl tr s Hden) as (s' & idx & Hrun & Hregs & Hfr).
  - intros s' Hs' i a. apply gvia_same. exact Hs'.
  - intros a Ha i. rewrite (gvia_viewed sym s a (view a) i (Hview a Ha)). reflexivity.
  - exact Hfuel.
  - erewrite sbind_done by exact Hrun. exists s'. cbn [fst]. rewrite scan_sym. repeat split; assumption.
Qed.

(* what the first hit means when no key occurs twice among the leaves *)
Corollary concat_lookup_found : forall (L : RegLaws) fuel sym addr tl tr s (view : nat -> assoc_view) a v,
  denotes s addr (Cat tl tr) -> concat_fuel (Cat tl tr) <= fuel ->
  (forall a, In a (lookup_order (Cat tl tr)) -> viewed s a (view a)) ->
  NoDup (keys_of (map view (lookup_order (Cat tl tr)))) ->
  In a (flatten (Cat tl tr)) -> view a = Some (sym, v) ->
  exists s', access_with_symbol D fuel sym addr s = Ok (s', Done (Some v)) /\ regs L s' = regs L s /\ frame L s s'.
Proof.
  intros L fuel sym addr tl tr s view a v Hden Hfuel Hview Hnd Hin Hva.
  destruct (concat_lookup L fuel sym addr tl tr s view Hden Hfuel Hview) as (s' & Hrun & H).
  exists s'. split; [|exact H]. rewrite Hrun.
  assert (Hperm : forall t x, In x (order false t) -> In x (order true t)).
  { induction t as [items|b|l IHl r IHr]; intros x Hx; cbn [order] in *; try exact Hx.
    apply in_app_or in Hx. apply in_or_app. destruct Hx as [Hx|Hx]; [right; apply IHl|left; apply IHr]; exact Hx. }
  assert (Hin' : In (Some (sym, v)) (map view (lookup_order (Cat tl tr)))).
  { rewrite <- Hva. apply in_map. apply Hperm. exact Hin. }
  rewrite (assoc_lookup_some sym _ v Hin'); [reflexivity|]. apply nodup_unique; assumption.
Qed.
End Generic.

Arguments regs {St D} _ _.
Arguments frame {St D} _ _ _.

(* ---- the SimpleGarnishData model satisfies the laws ---- *)
Section Simple.
Variable h : sdata -> N.

Definition simple_frame (s s' : simple) : Prop := exists r, s' = with_register s r.

Lemma with_register_id : forall s, with_register s (s_register s) = s.
Proof. destruct s; reflexivity. Qed.

Lemma with_register_twice : forall s r r', with_register (with_register s r) r' = with_register s r'.
Proof. reflexivity. Qed.

Lemma simple_frame_same : forall s s', simple_frame s s' -> same_data (simple_ops h) s s'.
Proof. intros s s' [r ->]. constructor; reflexivity. Qed.

Lemma vec_pop_snoc : forall A (l : list A) x, vec_pop (l ++ [x]) = Some (x, l).
Proof. intros A l x. unfold vec_pop. rewrite rev_app_distr. cbn [rev app]. rewrite rev_involutive. reflexivity. Qed.

Definition simple_laws : RegLaws (simple_ops h).
Proof.
  refine (mkRegLaws (simple_ops h) (fun s => rev (s_register s)) simple_frame _ _ simple_frame_same _ _ _).
  - intro s. exists (s_register s). symmetry. apply with_register_id.
  - intros a b c [r ->] [r' ->]. exists r'. reflexivity.
  - intro s. cbn. unfold s_get_register_len. rewrite rev_length. reflexivity.
  - intros a s. eexists. split; [reflexivity|]. split; [|eexists; reflexivity].
    cbn [s_register with_register]. rewrite rev_app_distr. reflexivity.
  - intros a r t s Hregs Ht Hnc.
    assert (Hreg : s_register s = rev r ++ [a]).
    { rewrite <- (rev_involutive (s_register s)), Hregs. reflexivity. }
    cbn [d_pop_register simple_ops]. unfold s_pop_register. rewrite Hreg, vec_pop_snoc.
    cbn [d_get_data_type simple_ops] in Ht. unfold s_get_data_type, sget_data in Ht.
    destruct (nth_error (s_data s) a) as [d|]; [|discriminate]. cbn [bind] in Ht.
    exists (with_register s (rev r)).
    split; [|split; [cbn [s_register with_register]; apply rev_involutive|eexists; reflexivity]].
    destruct d; try reflexivity; cbn [sdata_type] in Ht; congruence.
Defined.

(* on this store "registers restored, nothing else touched" is equality of states *)
Lemma simple_restored : forall s s', regs simple_laws s' = regs simple_laws s -> frame simple_laws s s' -> s' = s.
Proof.
  intros s s' Hregs [r ->]. cbn in Hregs.
  assert (r = s_register s) by (rewrite <- (rev_involutive r), Hregs; apply rev_involutive).
  subst r. apply with_register_id.
Qed.

(* reading a concatenation tree off the data table *)
Lemma simple_den_list : forall s a items ordered, nth_error (s_data s) a = Some (SList items ordered) ->
  denotes (simple_ops h) s a (LeafList items).
Proof.
  intros s a items ordered H. constructor; cbn.
  - unfold s_get_data_type, sget_data. rewrite H. reflexivity.
  - unfold s_get_list_len, sget_data. rewrite H. reflexivity.
  - intros i x Hi. unfold s_get_list_item, sget_data. rewrite H. cbn [bind s_as_list fst].
    assert (E : (Z.of_nat i <? 0)%Z = false) by (apply Z.ltb_ge; lia). rewrite E, Nat2Z.id, Hi. reflexivity.
Qed.

Lemma simple_den_cat : forall s a l r tl tr, nth_error (s_data s) a = Some (SConcatenation l r) ->
  denotes (simple_ops h) s l tl -> denotes (simple_ops h) s r tr -> denotes (simple_ops h) s a (Cat tl tr).
Proof.
  intros s a l r tl tr H Hl Hr. apply den_cat with (l := l) (r := r); try assumption; cbn.
  - unfold s_get_data_type, sget_data. rewrite H. reflexivity.
  - unfold s_get_concatenation, sget_data. rewrite H. reflexivity.
Qed.

Lemma simple_den_item : forall s a d, nth_error (s_data s) a = Some d ->
  sdata_type d <> T_List -> sdata_type d <> T_Concatenation -> sdata_type d <> T_Custom ->
  denotes (simple_ops h) s a (LeafItem a).
Proof.
  intros s a d H H1 H2 H3. apply den_item with (t := sdata_type d); try assumption.
  cbn. unfold s_get_data_type, sget_data. rewrite H. reflexivity.
Qed.

Lemma simple_viewed : forall s a, svalid s a -> viewed (simple_ops h) s a (sview s a).
Proof.
  intros s a Hv. unfold svalid in Hv. unfold sview.
  destruct (nth_error (s_data s) a) as [d|] eqn:Ea; [|destruct Hv].
  assert (Ht : d_get_data_type (simple_ops h) a s = Ok (sdata_type d))
    by (cbn; unfold s_get_data_type, sget_data; rewrite Ea; reflexivity).
  destruct d as [ | | |?|?|?|?|?|?|?|?|?|?| l v |? ?|? ?|? ?|? ?|? ?|?| ];
    try (eapply view_other; [exact Ht|cbn; discriminate]).
  assert (Hp : d_get_pair (simple_ops h) a s = Ok (l, v))
    by (cbn; unfold s_get_pair, sget_data; rewrite Ea; reflexivity).
  destruct (nth_error (s_data s) l) as [dl|] eqn:El; [|congruence].
  assert (Hlt : d_get_data_type (simple_ops h) l s = Ok (sdata_type dl))
    by (cbn; unfold s_get_data_type, sget_data; rewrite El; reflexivity).
  destruct dl; try (eapply view_pair_other; [exact Ht|exact Hp|exact Hlt|cbn; discriminate]).
  apply view_assoc with (l := l); try assumption.
  cbn. unfold s_get_symbol, sget_data. rewrite El. reflexivity.
Qed.
End Simple.

(* ---- the two theorems on the SimpleGarnishData model: the final state is the initial one ---- *)
Theorem simple_concat_index : forall h fuel addr tl tr s k,
  denotes (simple_ops h) s addr (Cat tl tr) -> concat_fuel (Cat tl tr) <= fuel ->
  index_concatenation_for (simple_ops h) fuel addr (Z.of_nat k) s = Ok (s, Done (nth_error (flatten (Cat tl tr)) k)).
Proof.
  intros h fuel addr tl tr s k Hden Hfuel.
  destruct (concat_index (simple_ops h) (simple_laws h) fuel addr tl tr s k Hden Hfuel) as (s' & Hrun & Hregs & Hfr).
  rewrite Hrun. rewrite (simple_restored h s s' Hregs Hfr). reflexivity.
Qed.

Theorem simple_concat_index_negative : forall h fuel addr tl tr s z,
  denotes (simple_ops h) s addr (Cat tl tr) -> concat_fuel (Cat tl tr) <= fuel -> (z < 0)%Z ->
  index_concatenation_for (simple_ops h) fuel addr z s = Ok (s, Done None).
Proof.
  intros h fuel addr tl tr s z Hden Hfuel Hz.
  destruct (concat_index_negative (simple_ops h) (simple_laws h) fuel addr tl tr s z Hden Hfuel Hz) as (s' & Hrun & Hregs & Hfr).
  rewrite Hrun. rewrite (simple_restored h s s' Hregs Hfr). reflexivity.
Qed.

Theorem simple_concat_lookup : forall h fuel sym addr tl tr s,
  denotes (simple_ops h) s addr (Cat tl tr) -> concat_fuel (Cat tl tr) <= fuel ->
  (forall a, In a (lookup_order (Cat tl tr)) -> svalid s a) ->
  access_with_symbol (simple_ops h) fuel sym addr s =
    Ok (s, Done (assoc_lookup sym (map (sview s) (lookup_order (Cat tl tr))))).
Proof.
  intros h fuel sym addr tl tr s Hden Hfuel Hv.
  destruct (concat_lookup (simple_ops h) (simple_laws h) fuel sym addr tl tr s (sview s) Hden Hfuel) as (s' & Hrun & Hregs & Hfr).
  - intros a Ha. apply simple_viewed. apply Hv. exact Ha.
  - rewrite Hrun. rewrite (simple_restored h s s' Hregs Hfr). reflexivity.
Qed.

(* ---- 3. the fuel [concat_fuel] is enough: no OutOfFuel ---- *)
Theorem concat_fuel_suffices : forall St (D : DataOps St) (L : RegLaws D) fuel addr tl tr s,
  denotes D s addr (Cat tl tr) -> concat_fuel (Cat tl tr) <= fuel ->
  (forall z, index_concatenation_for D fuel addr z s <> OutOfFuel) /\
  (forall sym view, (forall a, In a (lookup_order (Cat tl tr)) -> viewed D s a (view a)) ->
     access_with_symbol D fuel sym addr s <> OutOfFuel).
Proof.
  intros St D L fuel addr tl tr s Hden Hfuel. split.
  - intro z. destruct (index_concat_gen D L fuel addr tl tr s z Hden Hfuel) as (s' & Hrun & _). rewrite Hrun. discriminate.
  - intros sym view Hview.
    destruct (concat_lookup D L fuel sym addr tl tr s view Hden Hfuel Hview) as (s' & Hrun & _). rewrite Hrun. discriminate.
Qed.

(* ---- a store with two keyed lists, their concatenation, and a nested concatenation ---- *)
Definition ex_concat_store : simple :=
  with_data simple_new
    [SUnit; SFalse; STrue;
     SSymbol 5; SNumber (SInt 7); SPair 3 4;        (* 5: :5 = 7 *)
     SSymbol 12; SNumber (SInt 9); SPair 6 7;       (* 8: :12 = 9 *)
     SList [5; 4] [5];                              (* 9: (:5 = 7, 7) *)
     SSymbol 20; SPair 10 4;                        (* 11: :20 = 7 *)
     SList [8; 11] [8; 11];                         (* 12: (:12 = 9, :20 = 7) *)
     SConcatenation 9 12;                           (* 13: list 9 <> list 12 *)
     SPair 3 7;                                     (* 14: :5 = 9, the key 5 a second time *)
     SConcatenation 13 14].                         (* 15: (9 <> 12) <> pair 14 *)

Definition ex_tree13 : ctree := Cat (LeafList [5; 4]) (LeafList [8; 11]).
Definition ex_tree15 : ctree := Cat ex_tree13 (LeafItem 14).

Lemma ex_denotes13 : forall h, denotes (simple_ops h) ex_concat_store 13 ex_tree13.
Proof.
  intro h. eapply simple_den_cat; [reflexivity| |]; eapply simple_den_list; reflexivity.
Qed.

Lemma ex_denotes15 : forall h, denotes (simple_ops h) ex_concat_store 15 ex_tree15.
Proof.
  intro h. eapply simple_den_cat; [reflexivity|apply ex_denotes13|].
  eapply simple_den_item; [reflexivity|cbn; discriminate..].
Qed.

Lemma ex_valid15 : forall a, In a (lookup_order ex_tree15) -> svalid ex_concat_store a.
Proof.
  intros a Ha. cbn in Ha.
  repeat (destruct Ha as [<-|Ha]; [vm_compute; try exact I; discriminate|]). destruct Ha.
Qed.
