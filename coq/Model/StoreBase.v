(* Pieces shared by the two data-store models (Model/BasicStore.v,
   Model/SimpleStore.v) and the list models: the opaque number payload,
   checked list indexing, error and panic-site codes.  No proofs here.

   usize values (addresses, sizes, cursors, counts) are [nat]: unbounded, so
   usize overflow is not modelled (2^64 cells are unreachable; recorded as an
   assumption).  u64 symbols, code points and bytes are [N]. *)
From Coq Require Import NArith ZArith List Bool Arith.
From GV Require Import Base.Result.
Import ListNotations.

(* payload of a Number cell: the i32 value or the bit pattern of the f64.
   The stores never compute with it; they store it and hand it back. *)
Inductive snum : Type := SInt (z : Z) | SFlt (bits : N).

Definition snum_eqb (a b : snum) : bool :=
  match a, b with
  | SInt x, SInt y => Z.eqb x y
  | SFlt x, SFlt y => N.eqb x y
  | _, _ => false
  end.

(* usize::from(SimpleNumber::Integer(v)) = v.max(0) as usize *)
Definition usize_of_int (z : Z) : nat := Z.to_nat (Z.max z 0).

(* error classes (the checks canonicalise every [Err] to "err"; the codes
   only document which Rust error is meant) *)
Definition E_index : N := 1%N.        (* Invalid*Index *)
Definition E_not_type : N := 2%N.     (* NotType(expected, got) *)
Definition E_not_basic : N := 3%N.    (* NotBasicType *)
Definition E_max_items : N := 4%N.    (* *BlockExceededMaxItems *)
Definition E_list : N := 5%N.         (* ExceededInitialListLength / NotFullyInitializedList / InvalidListItemIndex *)
Definition E_simple : N := 6%N.       (* SimpleGarnishData's string errors *)

(* panic sites *)
Definition P_push_index : N := 1%N.      (* heap[block.start + index] = data *)
Definition P_copy_read : N := 2%N.       (* self.data()[start + i] in reallocate_heap *)
Definition P_copy_write : N := 3%N.      (* new_heap[current_block_start + i] *)
Definition P_slice : N := 4%N.           (* &data[a..b] out of range or a > b *)
Definition P_get_index : N := 5%N.       (* self.data()[true_index] *)
Definition P_sub_underflow : N := 6%N.   (* index - 1 on usize *)
Definition P_unwrap : N := 7%N.          (* as_char().unwrap() *)
Definition P_search_index : N := 8%N.    (* items[mid] in search.rs *)

(* v[i] = x *)
Fixpoint set_ix {A} (l : list A) (i : nat) (x : A) : option (list A) :=
  match l, i with
  | [], _ => None
  | _ :: r, O => Some (x :: r)
  | y :: r, S i' => match set_ix r i' x with Some r' => Some (y :: r') | None => None end
  end.

(* &v[a..b] *)
Definition slice_ix {A} (l : list A) (a b : nat) : option (list A) :=
  if (a <=? b) && (b <=? length l) then Some (firstn (b - a) (skipn a l)) else None.

(* v[a..b].copy_from(new) for length new = b - a, a <= b <= len *)
Definition splice_ix {A} (l : list A) (a b : nat) (mid : list A) : list A :=
  firstn a l ++ mid ++ skipn b l.

(* slice::sort_by with comparator [le x y := cmp x y <> Greater]: a stable
   sort (std documents stability; which stable algorithm is irrelevant for a
   comparator that is a total preorder) *)
Fixpoint insert_sorted {A} (le : A -> A -> bool) (x : A) (l : list A) : list A :=
  match l with
  | [] => [x]
  | y :: r => if le x y then x :: y :: r else y :: insert_sorted le x r
  end.
Definition stable_sort {A} (le : A -> A -> bool) (l : list A) : list A :=
  fold_right (insert_sorted le) [] l.

Definition opt_eqb (a b : option nat) : bool :=
  match a, b with
  | Some x, Some y => Nat.eqb x y
  | None, None => true
  | _, _ => false
  end.

(* State-and-error monad of the store models.  A handled error ([Fail e],
   Rust's [Err]) keeps the state reached so far, because several Rust
   operations have already modified the store when they return [Err]
   (start_list after some pushes, add_to_list after the count was
   incremented, pop_register after the pop).  [Panic] / [OutOfFuel] come
   from [res] and end the history. *)
Inductive outcome (A : Type) : Type := Done (a : A) | Fail (e : N).
Arguments Done {A} a.
Arguments Fail {A} e.

Definition SM (S A : Type) : Type := S -> res (S * outcome A).

Definition sret {S A} (a : A) : SM S A := fun s => Ok (s, Done a).
Definition sfail {S A} (e : N) : SM S A := fun s => Ok (s, Fail e).
Definition spanic {S A} (p : N) : SM S A := fun _ => Panic p.
Definition sbind {S A B} (m : SM S A) (f : A -> SM S B) : SM S B :=
  fun s =>
    match m s with
    | Ok (s', Done a) => f a s'
    | Ok (s', Fail e) => Ok (s', Fail e)
    | Err e => Err e
    | Panic p => Panic p
    | OutOfFuel => OutOfFuel
    end.
Definition sget {S} : SM S S := fun s => Ok (s, Done s).
Definition sput {S} (s' : S) : SM S unit := fun _ => Ok (s', Done tt).
(* a read-only computation: [Err] becomes [Fail] with the state unchanged *)
Definition sread {S A} (f : S -> res A) : SM S A :=
  fun s =>
    match f s with
    | Ok a => Ok (s, Done a)
    | Err e => Ok (s, Fail e)
    | Panic p => Panic p
    | OutOfFuel => OutOfFuel
    end.
(* Result::ok() *)
Definition stry {S A} (m : SM S A) : SM S (option A) :=
  fun s =>
    match m s with
    | Ok (s', Done a) => Ok (s', Done (Some a))
    | Ok (s', Fail _) => Ok (s', Done None)
    | Err e => Err e
    | Panic p => Panic p
    | OutOfFuel => OutOfFuel
    end.

Notation "'sdo' x <- m ; k" := (sbind m (fun x => k)) (at level 200, x pattern, m at level 100, k at level 200, right associativity).

(* repeat a step n times (for _ in 0..n) *)
Fixpoint srepeat {S} (n : nat) (m : SM S unit) : SM S unit :=
  match n with
  | O => sret tt
  | S n' => sdo _ <- m ; srepeat n' m
  end.
(* for x in l *)
Fixpoint sfor {S A} (l : list A) (f : A -> SM S unit) : SM S unit :=
  match l with
  | [] => sret tt
  | x :: r => sdo _ <- f x ; sfor r f
  end.
