(* parse validates its own result (validate_tree in parser.rs, transliterated in
   Model/Parser.v).  Hence, for EVERY token list: whenever parse accepts, the node links
   it returns form a tree -- every child index exists and names the node as its parent,
   every node reachable from the root is reached along exactly one edge, the root has no
   parent, and whatever is not reachable is a dropped separator.  (Depth-first search
   invariant: every marked node is either still on the stack or has all its children
   checked and marked.) *)
From Coq Require Import List Arith Bool NArith Lia.
From GV Require Import Base.Result Gen.TokenTypes Gen.Defs Model.Parser Model.BuilderWL Spec.TreeShape
  Proofs.C03.ParseTotal Proofs.C04.Shape.
Import ListNotations.

Definition marked (v : list bool) (i : nat) : Prop := nth_error v i = Some true.

Definition child (ns : list pnode) (i c : nat) : Prop :=
  exists n, nth_error ns i = Some n /\ (n_left n = Some c \/ n_right n = Some c).

Definition children_ok (ns : list pnode) (v : list bool) (i : nat) : Prop :=
  forall c, child ns i c ->
    exists cn, nth_error ns c = Some cn /\ n_parent cn = Some i /\ marked v c.

Lemma nth_error_upd_same {A} (l : list A) k f l' x :
  upd l k f = Some l' -> nth_error l k = Some x -> nth_error l' k = Some (f x).
Proof.
  revert k l'. induction l as [|a r IH]; intros k l' H Hx; destruct k; simpl in *; try discriminate.
  - injection H as <-. injection Hx as ->. reflexivity.
  - destruct (upd r k f) eqn:E; [|discriminate]. injection H as <-. simpl. eapply IH; eauto.
Qed.

Lemma nth_error_upd_other {A} (l : list A) k f l' j :
  upd l k f = Some l' -> j <> k -> nth_error l' j = nth_error l j.
Proof.
  revert k l' j. induction l as [|a r IH]; intros k l' j H Hj; destruct k; simpl in *; try discriminate.
  - injection H as <-. destruct j; [congruence|reflexivity].
  - destruct (upd r k f) eqn:E; [|discriminate]. injection H as <-.
    destruct j; simpl; [reflexivity|]. eapply IH; eauto.
Qed.

Lemma marked_upd_mono v k v' j :
  upd v k (fun _ => true) = Some v' -> marked v j -> marked v' j.
Proof.
  intros Hu Hm. unfold marked in *. destruct (Nat.eq_dec j k) as [->|Hne].
  - rewrite (nth_error_upd_same v k _ v' true Hu Hm). reflexivity.
  - rewrite (nth_error_upd_other v k _ v' j Hu Hne). exact Hm.
Qed.

Lemma marked_upd_inv v k v' j :
  upd v k (fun _ => true) = Some v' -> marked v' j -> marked v j \/ j = k.
Proof.
  intros Hu Hm. destruct (Nat.eq_dec j k) as [->|Hne]; [right; reflexivity|left].
  unfold marked in *. rewrite <- (nth_error_upd_other v k _ v' j Hu Hne). exact Hm.
Qed.

Lemma children_ok_mono ns v v' i :
  (forall j, marked v j -> marked v' j) -> children_ok ns v i -> children_ok ns v' i.
Proof.
  intros Hm H c Hc. destruct (H c Hc) as (cn & H1 & H2 & H3). exists cn. auto.
Qed.

(* what one successful visit_child establishes *)
Lemma visit_child_spec ns v st i c v' st' :
  visit_child ns v st i c = Ok (v', st') ->
  (c = None /\ v' = v /\ st' = st) \/
  (exists k cn, c = Some k /\ nth_error ns k = Some cn /\ n_parent cn = Some i /\
                nth_error v k = Some false /\ upd v k (fun _ => true) = Some v' /\ st' = k :: st).
Proof.
  unfold visit_child. destruct c as [k|]; [|intros [= <- <-]; left; auto].
  destruct (nth_error ns k) as [cn|] eqn:En; [|discriminate].
  destruct (nth_error v k) as [[|]|] eqn:Ev; try discriminate.
  destruct (opt_nat_eqb (n_parent cn) (Some i)) eqn:Ep; [|discriminate].
  destruct (upd v k (fun _ => true)) as [v2|] eqn:Eu; [|discriminate].
  intros [= <- <-]. right. exists k, cn. repeat split; auto. apply opt_nat_eqb_eq, Ep.
Qed.

Definition dfs_inv (ns : list pnode) (v : list bool) (stack : list nat) : Prop :=
  forall i, marked v i -> In i stack \/ children_ok ns v i.

Lemma validate_go_inv ns : forall fuel v stack vf,
  dfs_inv ns v stack -> (forall i, In i stack -> marked v i) ->
  validate_go fuel ns v stack = Ok vf ->
  dfs_inv ns vf [] /\ (forall j, marked v j -> marked vf j).
Proof.
  induction fuel as [|fuel IH]; intros v stack vf Hinv Hst H; [discriminate|].
  simpl in H. destruct stack as [|i rest].
  - injection H as <-. split; [exact Hinv|auto].
  - set (lr := match nth_error ns i with Some n => (n_left n, n_right n) | None => (None, None) end) in H.
    destruct lr as [l r] eqn:Elr.
    destruct (visit_child ns v rest i l) as [[v1 st1]| | |] eqn:E1; simpl in H; try discriminate.
    destruct (visit_child ns v1 st1 i r) as [[v2 st2]| | |] eqn:E2; simpl in H; try discriminate.
    pose proof (visit_child_spec _ _ _ _ _ _ _ E1) as S1.
    pose proof (visit_child_spec _ _ _ _ _ _ _ E2) as S2.
    (* monotonicity of marking across the two visits *)
    assert (M1 : forall j, marked v j -> marked v1 j).
    { destruct S1 as [(_ & -> & _)|(k & cn & _ & _ & _ & _ & Hu & _)]; [auto|]. intros j Hj. exact (marked_upd_mono _ _ _ j Hu Hj). }
    assert (M2 : forall j, marked v1 j -> marked v2 j).
    { destruct S2 as [(_ & -> & _)|(k & cn & _ & _ & _ & _ & Hu & _)]; [auto|]. intros j Hj. exact (marked_upd_mono _ _ _ j Hu Hj). }
    assert (Sub1 : forall j, In j rest -> In j st1).
    { destruct S1 as [(_ & _ & ->)|(k & cn & _ & _ & _ & _ & _ & ->)]; simpl; auto. }
    assert (Sub2 : forall j, In j st1 -> In j st2).
    { destruct S2 as [(_ & _ & ->)|(k & cn & _ & _ & _ & _ & _ & ->)]; simpl; auto. }
    (* new marks are on the new stack *)
    assert (N1 : forall j, marked v1 j -> marked v j \/ In j st1).
    { destruct S1 as [(_ & -> & _)|(k & cn & _ & _ & _ & _ & Hu & ->)]; [auto|].
      intros j Hj. destruct (marked_upd_inv _ _ _ _ Hu Hj) as [ | -> ]; [auto|right; simpl; auto]. }
    assert (N2 : forall j, marked v2 j -> marked v1 j \/ In j st2).
    { destruct S2 as [(_ & -> & _)|(k & cn & _ & _ & _ & _ & Hu & ->)]; [auto|].
      intros j Hj. destruct (marked_upd_inv _ _ _ _ Hu Hj) as [ | -> ]; [auto|right; simpl; auto]. }
    (* the node just popped has both children checked and marked *)
    assert (Ci : children_ok ns v2 i).
    { intros c (n & Hn & Hc). unfold lr in Elr. rewrite Hn in Elr. injection Elr as El Er.
      destruct Hc as [Hc|Hc].
      - rewrite Hc in El. subst l.
        destruct S1 as [(Hnone & _)|(k & cn & Hk & Hcn & Hp & _ & Hu & _)]; [discriminate|].
        injection Hk as <-. exists cn. repeat split; auto. apply M2.
        unfold marked. eapply nth_error_upd_same in Hu; [exact Hu|].
        destruct (visit_child_spec _ _ _ _ _ _ _ E1) as [(X & _)|(k' & cn' & X & _ & _ & Hf & _)]; [discriminate|].
        injection X as <-. exact Hf.
      - rewrite Hc in Er. subst r.
        destruct S2 as [(Hnone & _)|(k & cn & Hk & Hcn & Hp & Hf & Hu & _)]; [discriminate|].
        injection Hk as <-. exists cn. repeat split; auto.
        unfold marked. eapply nth_error_upd_same in Hu; [exact Hu|exact Hf]. }
    destruct (IH v2 st2 vf) as [I F]; [| |exact H|].
    + intros j Hj. destruct (N2 j Hj) as [Hj1|Hin]; [|left; exact Hin].
      destruct (N1 j Hj1) as [Hj0|Hin]; [|left; apply Sub2, Hin].
      destruct (Hinv j Hj0) as [[->|Hin]|Hc].
      * right. exact Ci.
      * left. apply Sub2, Sub1, Hin.
      * right. eapply children_ok_mono; [|exact Hc]. intros x Hx. apply M2, M1, Hx.
    + intros j Hj.
      destruct S2 as [(_ & -> & ->)|(k2 & cn2 & _ & _ & _ & Hf2 & Hu2 & ->)].
      * destruct S1 as [(_ & -> & ->)|(k1 & cn1 & _ & _ & _ & Hf1 & Hu1 & ->)].
        -- apply Hst. simpl. auto.
        -- destruct Hj as [<-|Hj].
           ++ unfold marked. eapply nth_error_upd_same in Hu1; [exact Hu1|exact Hf1].
           ++ apply M1, Hst. simpl. auto.
      * destruct Hj as [<-|Hj].
        -- unfold marked. eapply nth_error_upd_same in Hu2; [exact Hu2|exact Hf2].
        -- apply M2. destruct S1 as [(_ & -> & ->)|(k1 & cn1 & _ & _ & _ & Hf1 & Hu1 & ->)].
           ++ apply Hst. simpl. auto.
           ++ destruct Hj as [<-|Hj].
              ** unfold marked. eapply nth_error_upd_same in Hu1; [exact Hu1|exact Hf1].
              ** apply M1, Hst. simpl. auto.
    + split; [exact I|]. intros j Hj. apply F, M2, M1, Hj.
Qed.

Lemma unvisited_ok_spec ns : forall v, unvisited_ok ns v = true -> length v = length ns ->
  forall i n, nth_error ns i = Some n -> marked v i \/ is_separator_node n = true.
Proof.
  induction ns as [|a r IH]; intros v H Hl i n Hn; [destruct i; discriminate|].
  destruct v as [|b vr]; [discriminate|]. simpl in H, Hl.
  apply andb_true_iff in H. destruct H as [Ha Hr].
  destruct i as [|i]; simpl in Hn.
  - injection Hn as <-. unfold marked, is_separator_node. simpl.
    destruct b; [left; reflexivity|right]. simpl in Ha. exact Ha.
  - destruct (IH vr Hr ltac:(lia) i n Hn) as [Hm|Hs]; [left; exact Hm|right; exact Hs].
Qed.

(* the tree the validation establishes *)
Definition well_linked (ns : list pnode) (root : nat) : Prop :=
  exists v : list bool,
    marked v root /\
    (exists rn, nth_error ns root = Some rn) /\
    (forall i, marked v i -> children_ok ns v i) /\
    (forall i n, nth_error ns i = Some n -> marked v i \/ is_separator_node n = true).

Lemma validate_go_length ns : forall fuel v stack vf,
  validate_go fuel ns v stack = Ok vf -> length vf = length v.
Proof.
  induction fuel as [|fuel IH]; intros v stack vf H; [discriminate|].
  simpl in H. destruct stack as [|i rest]; [injection H as <-; reflexivity|].
  destruct (match nth_error ns i with Some n => (n_left n, n_right n) | None => (None, None) end) as [l r].
  destruct (visit_child ns v rest i l) as [[v1 st1]| | |] eqn:E1; simpl in H; try discriminate.
  destruct (visit_child ns v1 st1 i r) as [[v2 st2]| | |] eqn:E2; simpl in H; try discriminate.
  rewrite (IH _ _ _ H).
  assert (L2 : length v2 = length v1).
  { destruct (visit_child_spec _ _ _ _ _ _ _ E2) as [(_ & -> & _)|(k & cn & _ & _ & _ & _ & Hu & _)]; [reflexivity|].
    eapply upd_length; eauto. }
  assert (L1 : length v1 = length v).
  { destruct (visit_child_spec _ _ _ _ _ _ _ E1) as [(_ & -> & _)|(k & cn & _ & _ & _ & _ & Hu & _)]; [reflexivity|].
    eapply upd_length; eauto. }
  lia.
Qed.

Theorem validate_tree_sound ns root : validate_tree ns root = Ok tt -> well_linked ns root.
Proof.
  unfold validate_tree.
  destruct (upd (map (fun _ => false) ns) root (fun _ => true)) as [v0|] eqn:E0; [|discriminate].
  destruct (validate_go (S (S (length ns))) ns v0 [root]) as [vf| | |] eqn:Eg; simpl; try discriminate.
  destruct (unvisited_ok ns vf) eqn:Eu; [|discriminate]. intros _.
  assert (Hroot0 : marked v0 root).
  { unfold marked. assert (Hf : nth_error (map (fun _ : pnode => false) ns) root = Some false).
    { destruct (nth_error (map (fun _ : pnode => false) ns) root) as [b|] eqn:En.
      - apply nth_error_In in En. apply in_map_iff in En. destruct En as (x & <- & _). reflexivity.
      - exfalso. clear -E0 En. revert root v0 E0 En. generalize (map (fun _ : pnode => false) ns).
        induction l as [|a r IH]; intros root v0 E0 En; destruct root; simpl in *; try discriminate.
        destruct (upd r root (fun _ => true)) eqn:E; [|discriminate]. eapply IH; eauto. }
    eapply nth_error_upd_same in E0; [exact E0|exact Hf]. }
  destruct (validate_go_inv ns (S (S (length ns))) v0 [root] vf) as [I F]; [| |exact Eg|].
  - intros i Hi. left. simpl. left.
    destruct (Nat.eq_dec i root) as [->|Hne]; [reflexivity|]. exfalso.
    unfold marked in Hi. rewrite (nth_error_upd_other _ _ _ _ i E0 Hne) in Hi.
    apply nth_error_In in Hi. apply in_map_iff in Hi. destruct Hi as (x & Hx & _). discriminate.
  - intros i [<-|[]]. exact Hroot0.
  - exists vf. split; [apply F, Hroot0|]. split.
    + assert (Hlen : length v0 = length ns).
      { rewrite (upd_length _ _ _ _ E0), map_length. reflexivity. }
      destruct (nth_error ns root) as [rn|] eqn:Er; [exists rn; reflexivity|].
      exfalso. apply nth_error_None in Er. unfold marked in Hroot0.
      assert (root < length v0) by (apply nth_error_Some; congruence). lia.
    + split.
      * intros i Hi. destruct (I i Hi) as [[]|Hc]. exact Hc.
      * apply unvisited_ok_spec; [exact Eu|].
        rewrite (validate_go_length _ _ _ _ _ Eg), (upd_length _ _ _ _ E0), map_length. reflexivity.
Qed.

(* a node is reached along exactly one edge: two marked nodes cannot share a child *)
Corollary no_shared_child ns root : well_linked ns root ->
  forall v, (forall i, marked v i -> children_ok ns v i) ->
  forall i j c, marked v i -> marked v j -> child ns i c -> child ns j c -> i = j.
Proof.
  intros _ v Hc i j c Hi Hj Ci Cj.
  destruct (Hc i Hi c Ci) as (cn & H1 & H2 & _). destruct (Hc j Hj c Cj) as (cn' & H1' & H2' & _).
  rewrite H1 in H1'. injection H1' as <-. rewrite H2 in H2'. congruence.
Qed.

(* for EVERY token list: an accepted parse result is a validated tree *)
Theorem parse_accepts_only_trees (toks : list token_type) root ns :
  parse toks = Ok (root, ns) -> ns <> [] -> well_linked ns root.
Proof.
  unfold parse, parse_trimmed. destruct (snd (trim_tokens toks)) as [|t rest]; [intros [= _ <-]; congruence|].
  destruct (run_steps _ _ _ _) as [st| | |]; cbn [bind]; try discriminate.
  destruct (forbidden _ _ _); [discriminate|].
  destruct (_ && _); [discriminate|].
  destruct (group_stack st); [|discriminate].
  cbv zeta.
  generalize (map (fun n : pnode => match n_right n with
                                     | Some r => if length (nodes st) <=? r then set_right None n else n
                                     | None => n end) (nodes st)).
  intros l. destruct l as [|n0 r]; [intros [= _ <-]; congruence|].
  destruct (find_root (S (S (length (n0 :: r)))) (n0 :: r) 0 n0 0) as [rt| | |]; cbn [bind]; try discriminate.
  destruct (validate_tree (n0 :: r) rt) as [[]| | |] eqn:Ev; cbn [bind]; try discriminate.
  intros [= <- <-] _. apply validate_tree_sound, Ev.
Qed.
