"""C04 An accepted program accounts for every token, in order."""
import collections, os
import vplib
from vplib import Verdict
from props import pipefmt, pipecheck

PID = "C04"
MANIFEST_ENTRY = {
 "level_claimed": {"category": "proof", "text": "Theorems in coq/Properties/C04.v over the transliterated parser/builder models: UNBOUNDED, for every token list, whenever parse accepts the returned node links form a tree - every child exists and names its parent, nothing is shared, everything unreachable is a dropped separator (C04_accepted_parse_is_tree, C04_no_shared_child; by the depth-first-search invariant of the validate_tree pass that parse() runs on its own result); also UNBOUNDED, the token accounting: the nodes' (definition, class, token index) labels are, token by token and in token order, an optional implicit-list node followed by nothing (only for Drop-defined tokens - closing brackets, whitespace, annotations - and droppable separators) or exactly one node with the token's index, class and table definition, so token indices increase strictly along the node array, every token has at most one node and every token that must have one has it (C04_tokens_accounted, C04_accounted_in_order; invariant of the main loop: a step never changes the label of an existing node), and that node is in the validated tree (C04_every_token_in_the_tree); bounded: a boolean checker for 'proper binary tree + in-order walk visits every significant token once in source order + every value/operator node is attributed an instruction' with its Prop reading proved (C04_checker_sound), and the checker holds for every accepted token sequence of length <= 3 over all token types and of length 4 over the representative alphabet (vm_compute enumeration, bounds in the names); parse validates its result as a tree (validate_tree), so malformed node graphs are rejected rather than built. What stays bounded is the ORDER in which the tree is walked (in-order walk = source order) and the instruction attribution: C04_full_statement is stated, not proved. Tie to /repo: parser tables regenerated into Gen/Defs.v; model and implementation compared node-for-node / instruction-for-instruction on all short sequences, soups, generated and mutated programs; the same three tests are evaluated natively on the real ParseResult nodes and BuildData::instruction_metadata. UNBOUNDED on the operator fragment (C04_in_order_operator_expressions, from C02_full's token-ordered-tree invariant): whenever the C02 reference parser is defined on a token list -- every operator expression of any length and bracket depth -- parse accepts, the in-order walk of the tree visits the nodes 0,1,2,... and the checker clause tokens_in_order_b holds (token indices strictly increasing along the walk, every non-trivia token met).", "design_ref": "DESIGN.md section 8 C04"},
 "level_note": "Attribution clause, proved unbounded (round 6, Proofs/C04/Attribution*.v, ParserLeft.v): for every proper tree the tree compiler attributes an instruction to every node other than a Group, an ElseJump and a same-kind nested List/CommaList (C04_every_node_attributed_all_trees: induction over the compiler with the pending-bodies invariant - every owed node is attributed already, lies in a pending body or in a registered arm; every pending body is run; Ok means the fuel sufficed), carried to the worklist model of build() by compile_agrees_full (C04_every_node_attributed_builder) and to the checker clause covered_tree_b by C04_inorder_is_the_tree (the in-order walk visits exactly the nodes of the tree); for EVERY token list the parser accepts (C04_attribution_parsed) it holds with class C05-K2 (a conditional directly as left operand of && / ||, decidable on the tree, not produced by any accepted list up to length 4 over the reduced alphabet) as the only exclusion; the second necessary condition - no left child under a node whose left child build() ignores - is an unbounded invariant of the parser loop (C04_parser_links_no_ignored_child); both conditions are shown necessary by computed witnesses on hand-built node arrays (C04_attribution_K2_refuted, C04_attribution_ignored_child_refuted); on the whole operator fragment the exclusion is discharged (C04_attribution_full_on_operator_expressions, via C05_operator_expressions_not_K2); the statement without exclusion for every token list stays a Definition (C04_attribution_full_statement) and is proved equivalent to the open parser invariant C05_parser_links_no_K2_statement (C04_attribution_full_from_no_K2). Trusted: Coq kernel (vm_compute), translator, extraction, harness. Structural nodes exempt from attribution (resolved toward the code): Group, ElseJump, a list node nested directly in a list of the same kind; dropped separator nodes may stay in the node array unreachable from the root. No axioms.",
 "technique": "Coq proof (induction over the parser loop and the tree compiler, checker soundness; vm_compute finite enumeration for the walk order outside the operator fragment) + differential correspondence + native evaluation of the statement"}

TRUSTED = vplib.BASE_TRUSTED + ["tools/sync/defs.py (parser tables)", "tools/props/pipefmt.py: native C04 checker (Python)"]


def run(tier, seed):
    v = Verdict(PID, tier, seed)
    v.assumptions = ["significant tokens = all but whitespace, annotations, group-closing tokens and separators (a separator may be dropped when redundant)",
                     "Group, ElseJump and same-kind nested list nodes carry no instruction of their own"]
    sy = vplib.sync(["tokentypes", "defs", "instr"])
    for k, e in sy["errors"].items():
        v.tie_failure("sync %s: %s" % (k, e))
    pr = vplib.prove(PID, ["Proofs/C04", "Spec/TreeShape.v"], extra_targets=["Extract/PipeExtract.vo"])
    for f in pr["failures"]:
        v.tie_failure("prove: " + f)
    v.coverage.update(vplib.proof_coverage(pr, "make -C coq Properties/C04.vo Extract/PipeExtract.vo; coqc Properties/C04.v; tools/props/c04.py", TRUSTED))
    names = pipefmt.load_names()
    listed = {f["id"] for f in vplib.findings_for(PID)}
    exe, drv = pipecheck.build_runners(v)
    stats = collections.Counter()
    samples, evaluations, distinct = [], 0, set()
    if exe:
        broken = bool(v.tie_failures)
        for sname, cases in pipecheck.corpus("thorough" if (broken and tier == "quick") else tier, seed, names, "C04"):
            impl, model, err = pipecheck.run(exe, drv, cases)
            if err:
                v.tie_failure("correspondence run (%s): %s" % (sname, err))
            if impl is None:
                continue
            evaluations += len(impl)
            ndiff = 0
            for i, line in enumerate(impl):
                case, res, orc = line.split("\t")
                p = pipefmt.parse_result(res)
                if p.get("class") != "ok":
                    stats[sname + ":" + str(p.get("class"))] += 1
                    continue
                if model is not None:
                    mres = model[i].split("\t")[1]
                    if not pipecheck.same_modulo_literals(res, mres):
                        ndiff += 1
                        if ndiff <= 3:
                            v.tie_failure("correspondence %s: %s impl=%s model=%s" % (sname, pipecheck.describe(case, names), res[:200], mres[:200]))
                if "nodes" in p and "instrs" in p:
                    stats[sname + ":accepted"] += 1
                    distinct.add(case)
                    toks = [int(x) for x in orc.split(";")[0][5:].split(",") if x] if orc.startswith("toks=") else []
                    why = pipefmt.c04_verdict(p, toks, names)
                    if why:
                        fid = pipefmt.known_c04(p, toks, names)
                        if fid and fid in listed:
                            v.known_hit(fid, "%s: %s" % (pipecheck.describe(case, names), why))
                            stats[sname + ":known"] += 1
                        else:
                            v.violation(component="pipeline", stream=sname, input=case, readable=pipecheck.describe(case, names),
                                        impl=res[:400], what=why)
                    if len(samples) < 8 and stats[sname + ":accepted"] == 50:
                        samples.append({"stream": sname, "case": pipecheck.describe(case, names), "impl": res[:200]})
                else:
                    stats[sname + ":rejected"] += 1
            stats[sname + ":model_disagreements"] += ndiff
        pipecheck.cleanup(exe, drv)
    v.coverage.update({
        "evaluations": evaluations,
        "distinct_nontrivial": len(distinct),
        "rule": "the C03 corpus restricted to inputs lex, parse and build accept (short token sequences exhaustively, representative soups, "
                "generated programs, single-edit mutants, character soups); non-trivial = accepted and checked against the three clauses",
        "samples": samples, "histogram": dict(stats),
    })
    return v.finish("proof")


def replay(obj):
    names = pipefmt.load_names()
    v = Verdict(PID, "quick", obj.get("seed", 0))
    exe, drv = pipecheck.build_runners(v, need_model=False)
    cases = [x["input"] for x in obj.get("violations", []) if x.get("input", "").startswith(("T ", "S "))]
    if not cases:
        print("replay names a broken tie, not an input:", obj.get("no_longer_checks"))
        return run("quick", obj.get("seed", 0))
    impl, _, err = pipecheck.run(exe, None, cases)
    rc = 0
    for line in impl or []:
        case, res, orc = line.split("\t")
        p = pipefmt.parse_result(res)
        why = None
        if "nodes" in p and "instrs" in p:
            toks = [int(x) for x in orc.split(";")[0][5:].split(",") if x]
            why = pipefmt.c04_verdict(p, toks, names)
        rc |= 1 if why else 0
        print("%s: %s -> %s" % ("FAILS (" + why + ")" if why else "ok", pipecheck.describe(case, names), res[:200]))
    pipecheck.cleanup(exe)
    return rc
