(* What "programs built into a shared data object do not disturb each other"
   (C20) means for the builder: the code a build adds to a data object that
   already holds [il] instructions and [jl] jump entries is the code it adds to
   an empty data object, relocated -- instruction indices (the targets stored
   in jump entries) moved by [il], jump-table indices (the operands of the
   jumping instructions, expression values, the reported entry) moved by [jl];
   everything else (opcodes, list lengths, data operands, metadata) unchanged.

   [own_code]: every reference of the new code stays inside the new ranges
   (the frame half of C20; it is what makes the earlier programs' tables
   irrelevant to the new program and the new program irrelevant to them). *)
From Coq Require Import List Arith Bool NArith.
From GV Require Import Base.Result Gen.Instr Model.Parser Model.BuilderWL Spec.WfCode.
Import ListNotations.

Definition shift_operand (dj : nat) (i : instruction) (o : operand) : operand :=
  match o with
  | ONum n => if jumping i then ONum (n + dj) else ONum n
  | OExpr j => OExpr (j + dj)
  | _ => o
  end.
Definition shift_instr (dj : nat) (io : instr) : instr := (fst io, shift_operand dj (fst io) (snd io)).

Definition shift_code (di dj : nat) (c : code) : code :=
  mkCode (map (shift_instr dj) (k_instrs c)) (k_meta c) (map (fun t => t + di) (k_jumps c)) (k_entry c + dj).

Definition code_eqb (a b : code) : bool :=
  Nat.eqb (k_entry a) (k_entry b)
  && Nat.eqb (length (k_instrs a)) (length (k_instrs b))
  && forallb (fun p => instr_eqb (fst p) (snd p)) (combine (k_instrs a) (k_instrs b))
  && Nat.eqb (length (k_meta a)) (length (k_meta b))
  && forallb (fun p => opt_nat_eqb (fst p) (snd p)) (combine (k_meta a) (k_meta b))
  && Nat.eqb (length (k_jumps a)) (length (k_jumps b))
  && forallb (fun p => Nat.eqb (fst p) (snd p)) (combine (k_jumps a) (k_jumps b)).

(* the relocation of the alone build equals the shared build *)
Definition relocated (init : binit) (alone shared : code) : bool :=
  code_eqb (shift_code (i_instr_len init) (i_jump_len init) alone) shared.

(* frame: the new code refers to its own jump entries and instructions only,
   and the reported entry is one of its own jump entries *)
Definition own_ref (jlo jhi : nat) (io : instr) : bool :=
  match snd io with
  | ONum n => if jumping (fst io) then in_range jlo jhi n else true
  | OExpr j => in_range jlo jhi j
  | _ => true
  end.

Definition own_code (init : binit) (c : code) : bool :=
  let il0 := i_instr_len init in let il1 := il0 + length (k_instrs c) in
  let jl0 := i_jump_len init in let jl1 := jl0 + length (k_jumps c) in
  forallb (own_ref jl0 jl1) (k_instrs c)
  && forallb (fun t => in_range il0 il1 t) (k_jumps c)
  && in_range jl0 jl1 (k_entry c).

(* the one place the builder looks at what the data object already holds: the
   end instruction of a body is elided when it equals the last instruction of
   the table, and a first body that emits nothing sees the previous program's
   last instruction *)
Definition elides_across (init : binit) (alone shared : code) : bool :=
  match i_last_instr init, k_instrs alone, k_instrs shared with
  | Some li, [e], [] => instr_eqb li e && instr_eqb e (I_EndExpression, ONone)
  | _, _, _ => false
  end.
