(* C15: the side condition "growth settings that can make progress" is
   necessary.  With FixedSize 0 a push into a full block overwrites the first
   cell of the neighbouring block; with Multiplicative on an empty block the
   push indexes past the heap (a Rust panic). Witnesses by computation. *)
From Coq Require Import NArith ZArith List Bool Arith.
From GV Require Import Base.Result Gen.Instr Model.StoreBase Model.BasicStore Model.StoreOps
  Proofs.C15.History.
Import ListNotations.

Definition stuck_fixed : settings := mkSettings 1 None (FixedSize 0).
Definition stuck_mult : settings := mkSettings 0 None (Multiplicative 2).

Lemma stuck_fixed_not_progressing : ~ progressing stuck_fixed.
Proof. intros [_ H]. cbn in H. inversion H. Qed.

Lemma stuck_mult_not_progressing : ~ progressing stuck_mult.
Proof. intros [_ [_ H]]. cbn in H. inversion H. Qed.

(* the jump-table entry stored first no longer reads back after two instruction pushes *)
Theorem no_progress_overwrites :
  exists s0 s1 s2 r1 r2,
    new_with_settings stuck_fixed stuck_fixed stuck_fixed stuck_fixed stuck_fixed stuck_fixed = Ok (s0, Done tt) /\
    run bstep [OJump 5] s0 = Ok (s1, r1) /\
    get_from_jump_table 0 s1 = Ok (Some 5) /\
    run bstep [OInstr I_Add None; OInstr I_Put None] s1 = Ok (s2, r2) /\
    get_from_jump_table 0 s2 = Ok None.
Proof.
  do 5 eexists.
  split; [vm_compute; reflexivity|].
  split; [vm_compute; reflexivity|].
  split; [vm_compute; reflexivity|].
  split; [vm_compute; reflexivity|].
  vm_compute; reflexivity.
Qed.

Theorem no_progress_panics :
  exists s0,
    new_with_settings stuck_mult stuck_mult stuck_mult stuck_mult stuck_mult stuck_mult = Ok (s0, Done tt) /\
    run bstep [ONumber (SInt 1%Z)] s0 = Panic P_push_index.
Proof. eexists. split; [vm_compute; reflexivity|]. vm_compute; reflexivity. Qed.
