"""C13 Lexing is lossless, positions are exact, nothing is skipped."""
import itertools, os, sys, time
import vplib
from vplib import Verdict, log

sys.path.insert(0, os.path.join(vplib.VERIF, "tools"))
from sync import rustsrc as R
from sync import tokens as tokens_sync

PID = "C13"
MANIFEST_ENTRY = {
 "level_claimed": {
  "category": "proof",
  "text": "Theorems in coq/Properties/C13.v about the executable model coq/Model/Lexer.v of compiler/src/lex/lexer.rs, "
          "for all input strings and all Unicode classifications of non-ASCII characters, proved by an invariant over the "
          "character fold: whenever lex succeeds the token texts concatenated reproduce the input (C13_lossless; hence a "
          "character that cannot start or continue a token makes lex fail), no token is empty (C13_no_empty_token), lex never "
          "panics and never runs out of fuel (C13_lex_no_panic, C13_lex_terminates), every token carries the line/column of "
          "its first character for inputs without carriage return and form feed (C13_positions_exact; form feed is known "
          "finding C13-K1 with witness theorem C13_K1_refuted), a token of an operator type is spelled as the generated "
          "operator table says and no longer spelling is a prefix of the remaining input (C13_longest_match), and the first "
          "line feed of every blank line lies in a Subexpression token unless it belongs to a char/byte list literal or ends "
          "a line annotation, whatever precedes it (C13_blank_lines_separate, C13_blank_line_separates); in particular if x "
          "lexes on its own and does not end in a line annotation then x ++ pad ++ LF LF ++ y has a Subexpression token over "
          "the first line feed for every run pad of spaces/tabs (C13_blank_line_after_trailing_spaces, "
          "C13_blank_line_full_statement_holds). Not proved: maximal-run classification of identifier/number/whitespace "
          "tokens (Spec.LexSpec.right_maximal is stated only). The model is tied to the Rust lexer by token-for-token correspondence (type, text, line, column, error "
          "class and position) on all strings up to a length bound over a reduced alphabet, all pairs of operator spellings "
          "and seeded random strings; an independent Python oracle and the extracted Coq spec check the implementation's "
          "tokens directly.",
  "design_ref": "DESIGN.md section 8 C13"
 },
 "level_note": "Clause (d), maximal runs, is machine-checked for all inputs and all Unicode classifications (C13_identifier_maximal, "
               "C13_whitespace_maximal, C13_annotation_maximal, C13_line_annotation_maximal, C13_number_maximal, C13_number_period_rule; "
               "Proofs/C13/LexMax*.v): every Identifier, Whitespace, Annotation, LineAnnotation and Number token of a successful lex "
               "consists of exactly the character class the lexer uses and the input character after it cannot continue it; the one "
               "place where a digits-like number stops before a character it could take - a period - is characterised exactly "
               "(`..` follows, or the previous token's type blocks floats). Likewise (C13_symbol_maximal, C13_backtick_identifier_forms, C13_subexpression_text / _whitespace): a Symbol token is `:` plus identifier characters not starting with `:` and cannot be continued; the three backtick identifier forms have exactly their shapes; a Subexpression token consists only of ASCII whitespace, has the exact shape head / blanks / closing break character and two (three after a leading CR) line-break characters - it need not contain two line feeds (`\\f\\r`: C13_subexpression_two_line_feeds_refuted, a clarification, confirmed on the Rust lexer). Quoted literals (C13_char_list_shape, C13_byte_list_shape, C13_literal_one_token_iff): every CharList / ByteList token of a successful lex is exactly two quotes (the empty literal) or q^n x body q^n with n >= 1, n <> 2, x not a quote, every quote run inside body shorter than n and body not ending in a quote - the opening run is maximal and the literal ends at the FIRST run of n quotes after it; such a text is one literal token iff that run condition holds; the n = 2 reading and 'closing run maximal' are refuted by witnesses (C13_two_quote_literal_refuted). The direct oracle of the check evaluates these statements on the implementation's tokens too (clauses maximal-run and literal-shape, ASCII classification). Trusted: Coq kernel; the operator table translator tools/sync/tokens.py; extraction (ExtrOcamlBasic only); "
               "the Rust harness bin lex, ocaml/lex_driver.ml and the Python oracle; char::is_numeric / is_alphanumeric on "
               "non-ASCII code points are parameters of the model (theorems hold for every classification; the harness "
               "reports the real classification per case). Five defects were repaired in /repo (fix: commits, see "
               "known_findings.json 'fixed'); form-feed positions are known finding C13-K1.",
 "technique": "Coq proof (invariant over the character fold of an executable transliteration) + bounded-exhaustive and random "
              "differential correspondence with the Rust lexer + direct property oracle"
}

LF, CR, FF, TAB, SP = 10, 13, 12, 9, 32

# ------------------------------------------------------------------ alphabets
# one representative per character class of the lexer
CORE = [ord(c) for c in "5a_:. \t\n\r\f\"'\\@`+<>~?"] + [0xE9, 0x663, 0x20AC]
#            2-byte letter (alnum), 2-byte digit (numeric), 3-byte symbol (neither)
EXTRA = [0, 0x0B] + [ord(c) for c in "()=!$;,|#-*/%&^{}[]0Z"] + [0xBD, 0x4E2D, 0x1F600, 0x1D400, 0x1D7D8, 0x85, 0xA0, 0x2028]
#   NUL, VT; more operator characters; 1/2 (numeric, 2-byte), CJK letter (3-byte), emoji (4-byte, neither),
#   math bold A (4-byte letter), math double-struck 0 (4-byte digit), NEL, NBSP, LINE SEPARATOR
SMALL = [ord(c) for c in "5a_:. \n\"'@<\\"]


def enc(cps):
    return "L " + (",".join("%x" % c for c in cps) if cps else "-")


def dec_case(case):
    b = case[2:]
    return [] if b in ("-", "") else [int(x, 16) for x in b.split(",")]


def show(cps):
    return "".join(chr(c) for c in cps).encode("unicode_escape").decode()


def gen_cases(tier, seed):
    """Returns list of (family, code point list)."""
    rng = vplib.rng_for(seed, "C13")
    out = []
    spell = [cps for cps, _ in tokens_sync.spellings()]
    # every pair of adjacent operator spellings, bare and between operands / after a blank
    for a in spell:
        for b in spell:
            out.append(("op-pair", a + b))
            out.append(("op-pair", [ord("5")] + a + b + [ord("a")]))
    for a in spell:
        out.append(("op-single", a))
        for c in CORE + EXTRA:
            out.append(("op-next", a + [c]))
            out.append(("op-next", a + [c, ord("5")]))
    core_bound = 4   # the thorough tier streams length 5 (and length 6 over SMALL) separately, see big_families
    for n in range(0, core_bound + 1):
        for t in itertools.product(CORE, repeat=n):
            out.append(("core<=%d" % core_bound, list(t)))
    full = CORE + EXTRA
    full_bound = 3 if tier == "thorough" else 2
    for n in range(1, full_bound + 1):
        for t in itertools.product(full, repeat=n):
            out.append(("full<=%d" % full_bound, list(t)))
    # extra characters in every position of short core contexts
    for e in EXTRA:
        for t in itertools.product(CORE, repeat=2):
            out.append(("extra-ctx", [t[0], e, t[1]]))
            out.append(("extra-ctx", [e, t[0], t[1]]))
            out.append(("extra-ctx", [t[0], t[1], e]))
    # blank-line clause: x ++ pad ++ LF LF ++ y
    xs = ["", "5", "a", "5.", "a.5", "\"s\"", "''", "\"\"", "'b'", "@x", "@@ c", "+", "<", ":s", "a`", " ", "\n", "5\n", "5 \n ", "$",
          "\"a\nb\"", "'''q'''", ")", "5..", "_.", "é", "٣"]
    pads = ["", " ", "\t", "  ", " \t", "\t \t  "]
    ys = ["", "6", " 6", "\n6", "\n\n6", "\"t\"", "+"]
    for x in xs:
        for p in pads:
            for y in ys:
                out.append(("blank-line", [ord(c) for c in x + p + "\n\n" + y]))
    # multi-line literals and annotations followed by tokens
    for lit in ["\"a\nb\"", "'a\nb'", "\"\n\"", "'''\n\n'''", "\"\"\"a\"\n\"\"\"", "@@ x\n", "@@\n", "\"\n\n\n\"", "'\n'"]:
        for tail in ["", " 5", "5", "\n5", " \n 5", "+ a", "\n\n5", ".5", "\"x\""]:
            out.append(("multiline", [ord(c) for c in lit + tail]))
            out.append(("multiline", [ord(c) for c in "a " + lit + tail]))
    # quoted literals: q^n body q^n (+ tail) for both quote kinds, n = 1..4, every body of length <= 4 over
    # {a, the quote, backslash, space}: where the closing run is found (C13_char_list_shape / C13_byte_list_shape)
    for q in ('"', "'"):
        alpha = ["a", q, "\\", " "]
        bodies = [""]
        for L in (1, 2, 3, 4):
            bodies += ["".join(t) for t in itertools.product(alpha, repeat=L)]
        for n in (1, 2, 3, 4):
            for b in bodies:
                for tail in ("", "a", q):
                    out.append(("literal-shapes", [ord(c) for c in q * n + b + q * n + tail]))
    # seeded random longer strings: character soup, and mostly-valid token sequences
    n_rand = 200000 if tier == "thorough" else 20000
    weights_alpha = full
    for _ in range(n_rand):
        n = rng.randint(5, 40)
        if rng.random() < 0.5:
            out.append(("random-soup", [rng.choice(CORE) if rng.random() < 0.8 else rng.choice(weights_alpha) for _ in range(n)]))
        else:
            parts = []
            for _ in range(rng.randint(2, 12)):
                k = rng.random()
                if k < 0.25:
                    parts.append(rng.choice(spell))
                elif k < 0.40:
                    parts.append([ord(c) for c in rng.choice(["5", "12", "5.5", ".5", "5.", "1_000", "0xff", "3..4", "3.."])])
                elif k < 0.55:
                    parts.append([ord(c) for c in rng.choice(["a", "abc", "_x", ":sym", "::i", "a`", "`a", "`a`", "x_1", "été"])])
                elif k < 0.80:
                    parts.append([ord(c) for c in rng.choice([" ", "  ", "\t", "\n", "\n\n", " \n", "\n ", " \n\n", "\n \n", "\r\n", "\f", " \n \n "])])
                elif k < 0.90:
                    parts.append([ord(c) for c in rng.choice(["\"s\"", "\"\"", "''", "'b'", "\"a\nb\"", "\"\"\"x\"y\"\"\"", "'''z'''", "\"\\\"", "'\n'"])])
                else:
                    parts.append([ord(c) for c in rng.choice(["@a", "@@ note\n", "@", "@@", "@@x"])])
            out.append(("random-tokens", [c for p in parts for c in p]))
    return out


def big_families(chunk=300000):
    """thorough tier only: all strings of length 5 over CORE and of length 6 over SMALL, streamed in chunks"""
    buf = []
    for fam, alpha, n in (("core=5", CORE, 5), ("small=6", SMALL, 6)):
        for t in itertools.product(alpha, repeat=n):
            buf.append((fam, list(t)))
            if len(buf) >= chunk:
                yield buf
                buf = []
    if buf:
        yield buf


# ---------------------------------------------------- independent property oracle
def parse_impl(res):
    """'OK tok;tok' -> list of (type name, [cps], line, col); None if not OK."""
    if not res.startswith("OK"):
        return None
    if res == "OK":
        return []
    toks = []
    for t in res[3:].split(";"):
        ty, text, line, col = t.split(":")
        toks.append((ty, [] if text == "-" else [int(x, 16) for x in text.split(",")], int(line, 16), int(col, 16)))
    return toks


_SPELL = None


def spell_table():
    global _SPELL
    if _SPELL is None:
        _SPELL = [(tuple(cps), ty) for cps, ty in tokens_sync.spellings()]
    return _SPELL


def oracle(cps, toks):
    """Direct check of the property on a token list. Returns list of (clause, detail)."""
    bad = []
    flat = [c for t in toks for c in t[1]]
    if flat != cps:
        bad.append(("lossless", "texts concatenate to %r, input is %r" % (show(flat), show(cps))))
    if any(len(t[1]) == 0 for t in toks):
        bad.append(("non-empty", "a token has empty text"))
    if CR not in cps:
        line, col = 0, 0
        off = 0
        for i, t in enumerate(toks):
            if (t[2], t[3]) != (line, col):
                bad.append(("positions", "token %d %s %r reported at (%d,%d), its first character is at (%d,%d)" % (
                    i, t[0], show(t[1]), t[2], t[3], line, col), off))
                break
            for c in t[1]:
                if c == LF:
                    line, col = line + 1, 0
                else:
                    col += 1
            off += len(t[1])
    tbl = spell_table()
    op_types = {ty for _, ty in tbl}
    rest_after = []
    acc = []
    for t in reversed(toks):
        rest_after.append(list(acc))
        acc = t[1] + acc
    rest_after.reverse()
    for i, t in enumerate(toks):
        if t[0] in op_types:
            if (tuple(t[1]), t[0]) not in tbl:
                bad.append(("longest-match", "token %d %s %r is not a spelling of its type" % (i, t[0], show(t[1]))))
                continue
            ctx = t[1] + rest_after[i]
            for sp, ty in tbl:
                if len(sp) > len(t[1]) and tuple(ctx[:len(sp)]) == sp:
                    bad.append(("longest-match", "token %d %r but the longer spelling %r is a prefix of the input there" % (
                        i, show(t[1]), show(list(sp)))))
                    break
    # maximal runs (the statements of C13_identifier_maximal, C13_whitespace_maximal, C13_annotation_maximal,
    # C13_number_maximal, C13_symbol_maximal evaluated on the implementation's tokens; ASCII only - the classification
    # of other characters is a parameter of the theorems): the input character after such a token cannot continue it
    def _alnum(c):
        return 48 <= c <= 57 or 65 <= c <= 90 or 97 <= c <= 122
    for i, t in enumerate(toks):
        nxt = rest_after[i][0] if rest_after[i] else None
        if nxt is None or nxt >= 128 or any(c >= 128 for c in t[1]):
            continue
        cont = None
        if t[0] in ("Identifier", "Symbol"):
            cont = _alnum(nxt) or nxt in (95, 58, 96)
        elif t[0] == "Whitespace":
            cont = nxt in (32, 9, 10)
        elif t[0] == "Annotation":
            cont = _alnum(nxt) or nxt == 95 or (t[1] == [64] and nxt == 64)
        elif t[0] == "Number":
            cont = _alnum(nxt) or nxt == 95 or (t[1][-1:] == [46] and nxt == 46)
        if cont:
            bad.append(("maximal-run", "token %d %s %r is followed by %r, which continues it" % (i, t[0], show(t[1]), show([nxt]))))
    # quoted literals end at the FIRST closing run of the opening length (the shape C13_char_list_shape proves of
    # the model): exactly two quotes, or q^n x body q^n with n != 2, x not a quote, every quote run inside body
    # shorter than n and body not ending in a quote
    for i, t in enumerate(toks):
        if t[0] in ("CharList", "ByteList"):
            q = 34 if t[0] == "CharList" else 39
            tx = t[1]
            ok_shape = tx == [q, q]
            if not ok_shape:
                n = 0
                while n < len(tx) and tx[n] == q:
                    n += 1
                if 1 <= n != 2 and len(tx) >= 2 * n + 1 and tx[-n:] == [q] * n:
                    body = tx[n + 1:len(tx) - n]
                    run, longest = 0, 0
                    for c in body:
                        run = run + 1 if c == q else 0
                        longest = max(longest, run)
                    ok_shape = longest < n and (not body or body[-1] != q)
            if not ok_shape:
                bad.append(("literal-shape", "token %d %s %r does not end at the first closing run of its opening quote count" % (i, t[0], show(tx))))
    # blank line: the token containing the first LF of LF LF must be a Subexpression token,
    # unless that LF belongs to a literal or a line annotation
    off = 0
    cover = []
    for i, t in enumerate(toks):
        cover += [i] * len(t[1])
    if flat == cps:
        for i in range(len(cps) - 1):
            if cps[i] == LF and cps[i + 1] == LF:
                ty = toks[cover[i]][0]
                if ty in ("CharList", "ByteList", "LineAnnotation"):
                    continue
                if ty != "Subexpression":
                    bad.append(("blank-line", "the blank line at offset %d lies in a %s token, not in a Subexpression token" % (i, ty)))
                    break
    # ... and conversely a Subexpression token is a separator only because it holds a blank line:
    # at least two line-break characters (LF / FF / CR as the lexer's Subexpression state counts them)
    for i, t in enumerate(toks):
        if t[0] == "Subexpression" and sum(1 for c in t[1] if c in (LF, FF, CR)) < 2:
            bad.append(("blank-line", "token %d is a Subexpression token %r but holds no blank line" % (i, show(t[1]))))
            break
    return bad


# --------------------------------------------------------- known findings
def classify(cps, clause, detail_off):
    """C13-K1: positions after a form feed. Exactly: the positions clause fails, the input has a
    form feed and no carriage return, and the first mispositioned token starts after the first form feed."""
    if clause == "positions" and FF in cps and CR not in cps:
        if detail_off is not None and detail_off > cps.index(FF):
            return "C13-K1"
    return None


# ----------------------------------------------------------------- running
TRUSTED = vplib.BASE_TRUSTED + [
    "tools/sync/tokens.py extracts the operator spelling list of Lexer::new (also exercised by the correspondence)",
    "char::is_numeric / char::is_alphanumeric on non-ASCII code points are parameters of the model; the theorems hold for "
    "every classification, the harness reports the real one per case for the correspondence",
    "operator spellings are ASCII (checked by the translator); the model represents the trie by its lookup function",
    "tools/props/c13.py: independent oracle for losslessness, non-empty tokens, positions, longest match, blank line",
]


def tt_index():
    names = R.enum_variants(R.read("compiler/src/lex/lexer.rs"), "TokenType")
    return {n: i for i, n in enumerate(names)}


def translate_impl(res, idx):
    """replace TokenType names by #index so that the model output can be compared textually"""
    if not res.startswith("OK ") or res == "OK":
        return res
    out = []
    for t in res[3:].split(";"):
        ty, rest = t.split(":", 1)
        out.append("#%d:%s" % (idx.get(ty, 9999), rest))
    return "OK " + ";".join(out)


def run_pair(cases_cps, profile="debug"):
    """cases_cps: list of code point lists. Returns (impl_lines, model_lines, error)."""
    text = "\n".join(enc(c) for c in cases_cps) + "\n"
    exe = vplib.private_copy(vplib.harness_bin("lex", profile))
    try:
        rc, impl = vplib.run_lines([exe], text, timeout=1800)
    finally:
        try:
            os.remove(exe)
        except OSError:
            pass
    if rc != 0 or len(impl) != len(cases_cps):
        return None, None, "lex harness rc=%s lines=%d/%d" % (rc, len(impl), len(cases_cps))
    idx = tt_index()
    fed = []
    for line in impl:
        case, res, orc = line.split("\t")
        fed.append("%s\t%s\t%s" % (case, translate_impl(res, idx), orc))
    drv = os.path.join(vplib.OCAML_BUILD, "lex_driver")
    if not os.path.exists(drv):
        return impl, None, "model driver missing"
    rc, model = vplib.run_lines([drv], "\n".join(fed) + "\n", timeout=3600)
    if rc != 0 or len(model) != len(cases_cps):
        return impl, None, "lex_driver rc=%s lines=%d/%d %s" % (rc, len(model), len(cases_cps), model[-1:] if model else "")
    return impl, model, None


CLAUSE_NAMES = {"1": "lossless", "2": "non-empty", "3": "positions", "4": "longest-match", "5": "blank-line"}


def evaluate(v, cases, impl, model, stats, profile, samples, distinct):
    idx = tt_index()
    listed = {f["id"] for f in vplib.findings_for(PID)}
    n_model_dis = 0
    for i, line in enumerate(impl):
        case, res, orc = line.split("\t")
        fam, cps = cases[i]
        mres = cspec = None
        if model is not None:
            _, mres, cspec = model[i].split("\t")
        cls = res.split(" ")[0] if not res.startswith("ERR") else "ERR " + res[4:].split(":")[0]
        stats["outcomes"][cls] = stats["outcomes"].get(cls, 0) + 1
        stats["families"][fam] = stats["families"].get(fam, 0) + 1
        problems = []   # (clause, detail, offset or None)
        if res == "PANIC":
            problems.append(("no-panic", "lex panicked", None))
        toks = parse_impl(res)
        if toks is not None:
            if len(toks) >= 2:
                distinct.add(tuple(cps))
            for t in toks:
                stats["token_types"][t[0]] = stats["token_types"].get(t[0], 0) + 1
            for b in oracle(cps, toks):
                problems.append((b[0], b[1], b[2] if len(b) > 2 else None))
            # the extracted Coq spec on the implementation's tokens
            if cspec is not None and cspec.startswith("viol:"):
                for k in cspec[5:].split(","):
                    name = CLAUSE_NAMES.get(k, k)
                    if not any(p[0] == name for p in problems):
                        # the Coq checker also skips positions for inputs with FF (K1) - the Python one does not
                        problems.append((name, "extracted Coq spec checker rejects the implementation's tokens (clause %s)" % name, None))
        if len(samples) < 8 and i % max(1, len(impl) // 8) == 0:
            samples.append({"input": show(cps), "impl": res[:200], "model": (mres or "")[:200], "coq_spec": cspec})
        reported = False
        for clause, detail, off in problems:
            fid = classify(cps, clause, off)
            if fid and fid in listed:
                v.known_hit(fid, "%r: %s" % (show(cps), detail))
                stats["known_hits"] += 1
            else:
                stats["property_failures"] += 1
                if not reported and len(v.violations) < 40:
                    v.violation(component="lex", profile=profile, input=enc(cps), shown=show(cps), clause=clause, what=detail,
                                impl=res[:400], model=(mres or "")[:400], family=fam)
                reported = True
        if mres is not None and mres != translate_impl(res, idx):
            stats["model_disagreements"] += 1
            n_model_dis += 1
            if n_model_dis <= 5:
                v.tie_failure("correspondence lex (%s): input %r impl=%s model=%s" % (profile, show(cps), res[:300], mres[:300]))


def run(tier, seed):
    v = Verdict(PID, tier, seed)
    v.assumptions = [
        "a line is ended by a line feed only; the column is the number of code points since the last line feed",
        "positions are claimed for inputs without carriage return (property text) and without form feed (known finding C13-K1)",
        "the blank-line clause is stated for a prefix x that lexes on its own and does not end in a line annotation (whose token "
        "includes its terminating line feed by design)",
    ]
    sy = vplib.sync_cone(["Properties/C13.vo"])
    for name, err in sy.get("errors", {}).items():
        if name in ("tokens", "tokentypes"):
            v.tie_failure("translator %s: %s" % (name, err))
    pr = vplib.prove(PID, ["Proofs/C13"], extra_targets=["Extract/LexExtract.vo"])
    for f in pr["failures"]:
        v.tie_failure("prove: " + f)
    v.coverage.update(vplib.proof_coverage(
        pr, "make -C coq Properties/C13.vo && coqc Properties/C13.v (Print Assumptions) && tools/props/c13.py correspondence + oracle", TRUSTED))
    v.coverage["tables_regenerated"] = sy.get("changed", [])
    v.coverage["theorem_status"] = {
        "full": ["C13_lossless", "C13_no_empty_token", "C13_lex_no_panic", "C13_lex_terminates", "C13_longest_match",
                 "C13_blank_lines_separate", "C13_blank_line_separates", "C13_blank_line_after_trailing_spaces",
                 "C13_blank_line_full_statement_holds"],
        "full_outside_known_finding": ["C13_positions_exact (forall s, ~ Known_C13_K1 s -> no CR -> ...)"],
        "refuted_witness": ["C13_K1_refuted (5 FF 6)"],
        "stated_not_proved": ["right_maximal (Spec/LexSpec.v): identifier/number/annotation/whitespace tokens are maximal runs"],
        "fixed_in_repo": ["8363728 sticky error", "21813e8 blank line after trailing spaces", "6e3a1f8 '' swallows next char",
                          "ae66e80 NUL after opening quote", "0f8acb2 positions after multi-line literal"],
    }
    ok, out = vplib.cargo_build("debug", bins=["lex"])
    if not ok:
        v.tie_failure("harness build failed: " + out[-400:])
    profiles = ["debug"]
    if tier == "thorough":
        okr, outr = vplib.cargo_build("release", bins=["lex"])
        if okr:
            profiles.append("release")
        else:
            v.tie_failure("harness release build failed: " + outr[-300:])
    have_model = os.path.exists(os.path.join(vplib.OCAML_BUILD, "lex_model.ml"))
    okm, outm = vplib.ocaml_build("lex") if have_model else (False, "no extracted model")
    if not okm:
        v.tie_failure("model driver build failed: " + outm[-300:])
    cases = gen_cases(tier, seed)
    # de-duplicate, keep first family
    seen, uniq = set(), []
    for fam, cps in cases:
        k = tuple(cps)
        if k not in seen:
            seen.add(k)
            uniq.append((fam, cps))
    cases = uniq
    stats = {"cases": len(cases), "outcomes": {}, "families": {}, "token_types": {}, "model_disagreements": 0,
             "property_failures": 0, "known_hits": 0}
    distinct, samples = set(), []
    n_eval = 0
    if ok:
        for profile in profiles:
            impl, model, err = run_pair([c for _, c in cases], profile)
            if err:
                v.tie_failure("correspondence run (%s): %s" % (profile, err))
            if impl is None:
                continue
            n_eval += len(cases)
            if profile != "debug":
                st2 = {"outcomes": {}, "families": {}, "token_types": {}, "model_disagreements": 0, "property_failures": 0, "known_hits": 0}
                evaluate(v, cases, impl, model, st2, profile, [], set())
                stats["release"] = {k: st2[k] for k in ("model_disagreements", "property_failures", "known_hits")}
            else:
                evaluate(v, cases, impl, model, stats, profile, samples, distinct)
        if tier == "thorough":
            nd = len(distinct)
            for chunk in big_families():
                impl, model, err = run_pair([c for _, c in chunk], "debug")
                if err:
                    v.tie_failure("correspondence run (debug, streamed): %s" % err)
                if impl is None:
                    break
                d2 = set()
                evaluate(v, chunk, impl, model, stats, "debug", samples, d2)
                nd += len(d2)
                n_eval += len(chunk)
                stats["cases"] += len(chunk)
                if len(v.violations) >= 40 or len(v.tie_failures) > 20:
                    break
            stats["distinct_nontrivial_total"] = nd
    v.coverage.update({
        "evaluations": n_eval,
        "distinct_nontrivial": stats.get("distinct_nontrivial_total", len(distinct)),
        "rule": "all strings up to the stated length over the reduced alphabet (one representative per lexer character class: "
                "digit, letter, _, :, ., space, tab, LF, CR, FF, both quotes, backslash, @, backtick, operator characters, "
                "2-byte letter, 2-byte digit, 3-byte symbol), shorter strings over the extended alphabet (NUL, VT, more operators, "
                "1/2, CJK, 4-byte letter/digit/emoji, NEL, NBSP, LS), every ordered pair of operator spellings (bare and between "
                "operands), every spelling followed by every character, blank-line and multi-line-literal families, seeded random "
                "soups and mostly-valid token sequences of length 5..40; a case is non-trivial when lex returns at least two tokens",
        "samples": samples,
        "histogram": stats,
        "profiles": profiles,
    })
    return v.finish("proof")


def replay(obj):
    cases = [dec_case(x["input"]) for x in obj.get("violations", []) if x.get("input", "").startswith("L ")]
    if not cases:
        print("replay names a broken tie, not an input:", obj.get("no_longer_checks"))
        return run("quick", obj.get("seed", 0))
    ok, out = vplib.cargo_build("debug", bins=["lex"])
    if not ok:
        print("harness build failed")
        return 2
    impl, model, err = run_pair(cases)
    rc = 0
    listed = {f["id"] for f in vplib.findings_for(PID)}
    for i, line in enumerate(impl or []):
        case, res, orc = line.split("\t")
        cps = cases[i]
        if res == "PANIC":
            print("FAILS: %r lex panicked" % show(cps))
            rc = 1
            continue
        toks = parse_impl(res)
        bad = oracle(cps, toks) if toks is not None else []
        bad = [b for b in bad if not (classify(cps, b[0], b[2] if len(b) > 2 else None) in listed)]
        if bad:
            rc = 1
            print("FAILS: %r %s: %s (impl=%s)" % (show(cps), bad[0][0], bad[0][1], res[:300]))
        else:
            print("ok: %r impl=%s" % (show(cps), res[:200]))
    return rc
