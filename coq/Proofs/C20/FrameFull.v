(* C20 frame, full: outside C05-K2 the code a build adds refers to its
   own jump entries and instructions only (from C05_full and the own-reference
   theorem of Proofs/C20/Frame.v). *)
From Coq Require Import List Arith Bool NArith Lia.
From GV Require Import Base.Result Gen.TokenTypes Gen.Defs Gen.Instr Model.Parser Model.BuilderWL Model.Compile
  Spec.WfCode Spec.Reloc Proofs.C05.InlBase Proofs.C05.Known Proofs.C05.Operands Proofs.C05.Jumps Proofs.C05.Bodies
  Proofs.C20.Frame.
Import ListNotations.

Theorem compile_own_code : forall nodes init lit t r,
  tree_in nodes t -> tree_good t ->
  compile init lit t = Ok r -> own_code init (code_of_compile r) = true.
Proof.
  intros nodes init lit t r Htin Hg Hc.
  destruct (compile_own_refs nodes init lit t r Htin Hc) as [Hrefs Hentry].
  destruct (compile_wf init lit nodes t r Htin Hg Hc) as [_ [Hjumps _]].
  unfold own_code, code_of_compile. cbn [k_instrs k_jumps k_entry].
  rewrite Hrefs, Hentry, andb_true_r, andb_true_l.
  apply forallb_forall. intros x Hx. apply In_nth_error in Hx. destruct Hx as [k Hk].
  specialize (Hjumps k x Hk). unfold jump_ok, WfCode.ilo, WfCode.ihi, code_of_compile in Hjumps. cbn [k_instrs fst] in Hjumps.
  unfold in_range. destruct k.
  - apply andb_true_iff in Hjumps. destruct Hjumps as [A B]. apply Nat.eqb_eq in A. subst.
    apply andb_true_iff. split; [apply Nat.leb_refl | exact B].
  - apply andb_true_iff in Hjumps. destruct Hjumps as [A B]. apply Nat.ltb_lt in A.
    apply andb_true_iff. split; [apply Nat.leb_le; lia | exact B].
Qed.
