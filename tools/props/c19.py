"""C19 Compaction and cloning preserve everything reachable (BasicGarnishData::optimize / clone_data)."""
import itertools, os, re, time
import vplib
from vplib import Verdict, log

PID = "C19"
MANIFEST_ENTRY = {
 "level_claimed": {
  "category": "proof",
  "text": "Theorems in coq/Properties/C19.v about an executable Gallina model (coq/Model/Optimize.v) of create_index_stack, clone_index_stack, lookup_in_data_slice(_optional), optimize_data_block_and_retain and clone_data on the data block as a list of cells, for every store and every cell kind: whenever clone_data returns Ok, the returned address reads (Spec/HeapIso.v: the tree of labels with all addresses erased, covering values, list item/association slots, text cells and the Register/Value/Frame cells of the stacks) exactly as the argument did, no cell below the old cursor changed and heads/symbol table/retention are untouched (C19_clone); whenever optimize returns Ok on a store whose retained prefix is closed, every extra root reads the same through the returned mapping, the register, value and frame heads read the same (hence the three stacks read back equal), every symbol-table entry keeps its symbol and its name reads the same, the retention count and the retained cells are unchanged and retained addresses are fixed points (C19_optimize); the worklist-closure lemma for create_index_stack (C19_worklist_closed); the executable reader is sound and complete for the relational spec. The model is tied to data/src/basic/{optimize,clone,ordering}.rs on every run: both are run on the same raw data blocks (value-graph scripts built through the public API: fixed, small-exhaustive, seeded random with sharing, keyed lists, text, symbol lists, stacks, frames, retention, extra roots, repeated optimize/clone, malformed raw blocks; and the blocks met while optimize is injected at every step boundary of generated programs) and results, resulting blocks and read-backs are compared; an independent oracle compares the getter-level read-back before and after on the implementation and the final result of every program with and without injected compaction.",
  "design_ref": "DESIGN.md section 8 C19"
 },
 "level_note": "The theorems are conditional on the call returning Ok; that it does so on well-formed stores is not proved (C19_success_statement is kept as an unproved Definition) and is false in general: known finding C19-K1 (CloneLimitReached on shared sub-values; C19_K1_refuted), re-confirmed on every run. 'Execution continues as if nothing had happened' is checked by program injection only (no runtime model in this component). Reads is a relation; read_f is its executable form (sound, complete for some fuel); the fuel = address+1 reader of DESIGN.md (HeapIso.read_tree/read) is defined but its adequacy on children-below-parents heaps is not proved. Trusted: Coq kernel (no axioms: every Print Assumptions is 'Closed under the global context'), extraction (ExtrOcamlBasic only), ocaml/opt_driver.ml, harness/src/bin/optimize.rs (+ the cfg(garnish_core_verif) accessors of /repo commit 3d6658d), this file's oracle; symbols are their u64 values; growth settings that make no progress are outside the model (C15).",
 "technique": "Coq proof (copying-collector invariant over an executable model) + differential correspondence with the Rust implementation + direct read-back oracle + program injection"
}

# --------------------------------------------------------------------------- record parsing
def parse_raw(s):
    """raw state string -> dict"""
    parts = dict(p.split("=", 1) for p in s.split(";"))
    st = parts["st"].split(":")
    cells = parts["d"][1:-1]
    sy = parts["sy"][1:-1]
    return {
        "start": int(st[0]), "cursor": int(st[1]), "size": int(st[2]), "ret": int(st[3]),
        "hv": None if st[4] == "-" else int(st[4]), "hr": None if st[5] == "-" else int(st[5]),
        "hf": None if st[6] == "-" else int(st[6]), "junk": int(st[7]), "maps_before": int(st[8]),
        "cfg": parts["cfg"], "sy": sy.split(",") if sy else [], "d": cells.split(",") if cells else [],
    }


def parse_record(rec):
    f = rec.split(" | ")
    out = {"kind": f[0].strip()}
    for x in f[1:]:
        k, v = x.split("=", 1)
        out[k] = v
    return out


def snap_fields(s):
    """snapshot -> {R:..,V:..,F:..,Y:..,K:{label:tree}}"""
    m = re.match(r"^(R\[.*\]) (V\[.*\]) (F\[.*\]) (Y\[.*\]) K\[(.*)\]$", s)
    if not m:
        return None
    ks = {}
    if m.group(5):
        for e in m.group(5).split(";"):
            l, t = e.split(":", 1)
            ks[l.split("@")[0]] = t
    return {"R": m.group(1), "V": m.group(2), "F": m.group(3), "Y": m.group(4), "K": ks}


CELL_KIND = re.compile(r"^([A-Z_][a-zA-Z]?)")


def cell_kind(c):
    if c.startswith("N"):
        return "N"
    return c[:2] if len(c) >= 2 and c[:2].isalpha() else c[:1]


# ------------------------------------------------------- independent helpers on raw blocks
def two(c):
    a, b = c[2:].split(".")
    return int(a), int(b)


def children(d, i):
    """addresses the worklist of create_index_stack pushes for the cell at i (for the path count)"""
    c = d[i]
    k = cell_kind(c)
    if k in ("Pr", "Rg", "Sc", "Pa", "Cc"):
        a, b = two(c)
        return [b, a]
    if k == "Li":
        n, _ = two(c)
        out = []
        for j in range(i + 1, i + 1 + n):
            if j < len(d) and d[j].startswith("It"):
                out.append(int(d[j][2:]))
            else:
                return None
        return out
    if k == "UL":
        _, cnt = two(c)
        out = []
        for j in range(i + 1, i + 1 + cnt):
            if j < len(d) and d[j].startswith("It"):
                out.append(int(d[j][2:]))
            elif j < len(d) and d[j] == "_":
                pass
            else:
                return None
        return out
    if k in ("Va", "Re", "Fr"):
        a, b = two(c)
        return [a, b]
    if k in ("VR", "RR", "FI", "FG"):
        return [int(c[2:])]
    if k == "ID":
        return [two(c)[1]]
    return []


def clone_items_needed(raw, roots, cap=200000):
    """Number of CloneItem cells optimize's worklists would create (paths from the roots), or None if
    the block is malformed for the worklist / cap exceeded."""
    d = raw["d"]
    rs = [int(x.split(".")[1]) for x in raw["sy"] if not x.startswith("?")]
    for h in (raw["hr"], raw["hv"], raw["hf"]):
        if h is not None:
            rs.append(h)
    rs += roots
    total = 0
    memo = {}

    def paths(i, depth=0):
        if i in memo:
            return memo[i]
        if i >= len(d) or depth > 5000:
            raise ValueError
        ch = children(d, i)
        if ch is None:
            raise ValueError
        n = 1
        for c in ch:
            n += paths(c, depth + 1)
            if n > cap:
                break
        memo[i] = n
        return n
    try:
        import sys
        sys.setrecursionlimit(20000)
        for r in rs:
            total += paths(r)
            if total > cap:
                return cap
    except (ValueError, RecursionError):
        return None
    return total


# --------------------------------------------------------------------------- direct oracle
def check_opt(rec):
    """Direct oracle for one optimize record. Returns list of (what, detail)."""
    bad = []
    pre, post = parse_raw(rec["pre"]), parse_raw(rec["post"])
    res = rec["res"]
    if res == "PANIC":
        return [("optimize panicked", rec["pre"])]
    if rec["spost"] == "SNAPPANIC":
        return [("read-back after optimize panicked", rec["pre"])]
    a, b = snap_fields(rec["spre"]), snap_fields(rec["spost"])
    if a is None or b is None:
        return [("unparsable snapshot", rec["spre"][:200])]
    for k, name in (("R", "register stack"), ("V", "value stack"), ("F", "frame chain"), ("Y", "symbol names")):
        if a[k] != b[k]:
            bad.append(("%s reads back differently after optimize (%s)" % (name, res.split(":")[0]),
                        "before %s after %s" % (a[k], b[k])))
    for l, t in a["K"].items():
        if b["K"].get(l) != t:
            what = "retained value" if l.startswith("s") else "extra root"
            bad.append(("%s %s reads back differently at the address the store reports" % (what, l),
                        "before %s after %s" % (t, b["K"].get(l))))
    if res.startswith("Ok"):
        r = pre["ret"]
        if post["d"][:r] != pre["d"][:r]:
            bad.append(("retained prefix cells changed", "ret=%d" % r))
        if post["ret"] != pre["ret"]:
            bad.append(("retention count changed", ""))
        if post["junk"] != 0:
            bad.append(("cells beyond the cursor are not Empty after optimize", str(post["junk"])))
        nroots = 0 if rec["roots"] == "-" else len(rec["roots"].split("."))
        nm = 0 if res == "Ok:-" else len(res[3:].split("."))
        if nm != nroots:
            bad.append(("mapping has the wrong length", res))
    return bad


def check_clone(rec):
    bad = []
    res = rec["res"]
    if res == "PANIC":
        return [("clone_data panicked", rec["pre"])]
    if rec["spost"] == "SNAPPANIC":
        return [("read-back after clone_data panicked", rec["pre"])]
    pre, post = parse_raw(rec["pre"]), parse_raw(rec["post"])
    a, b = snap_fields(rec["spre"]), snap_fields(rec["spost"])
    for k, name in (("R", "register stack"), ("V", "value stack"), ("F", "frame chain"), ("Y", "symbol names")):
        if a[k] != b[k]:
            bad.append(("%s reads back differently after clone_data" % name, "before %s after %s" % (a[k], b[k])))
    for l, t in a["K"].items():
        if b["K"].get(l) != t:
            bad.append(("original value %s is not intact after clone_data" % l, "before %s after %s" % (t, b["K"].get(l))))
    cur = int(rec["cur"])
    if post["d"][:cur] != pre["d"][:cur]:
        bad.append(("cells below the old cursor changed during clone_data", ""))
    if res.startswith("Ok"):
        if b["K"].get("B") != a["K"].get("A"):
            bad.append(("clone is not structurally identical to its argument",
                        "argument %s clone %s" % (a["K"].get("A"), b["K"].get("B"))))
    return bad


def expected_error(rec, pre):
    """Errors the property does not rule out: the configured max_items of the data block is reached, or the
    caller passed something that is not a value address (beyond the cursor / inside a list)."""
    res = rec["res"]
    if res == "Err:MaxItems" and not pre["cfg"].endswith(":-"):
        return True
    return False


X_FIELD = re.compile(r"^(.*)@(\d+)c(\d+)\[(.*)\]$")


def check_program(head):
    """head record of an X case: base=.. | every=.. | twice=.. | rooted=.. | singles=a/b:first"""
    f = {}
    for x in head.split(" | "):
        k, v = x.split("=", 1)
        f[k.strip()] = v
    bad = []
    mb = X_FIELD.match(f["base"])
    base_end = mb.group(1)
    info = {"end": base_end.split(":")[0], "steps": int(mb.group(2))}
    for mode in ("every", "twice", "rooted"):
        m = X_FIELD.match(f[mode])
        if m.group(4):
            bad.append(("optimize injected at a step boundary (%s) changed a read-back or failed" % mode, m.group(4)[:600]))
        if m.group(1) != base_end:
            bad.append(("program result differs when optimize is injected (%s)" % mode,
                        "uninterrupted %s interrupted %s" % (base_end, m.group(1))))
        elif int(m.group(2)) != info["steps"]:
            bad.append(("program takes a different number of steps when optimize is injected (%s)" % mode,
                        "uninterrupted %d interrupted %s" % (info["steps"], m.group(2))))
        info[mode + "_calls"] = int(m.group(3))
    s = f["singles"]
    frac, first = s.split(":", 1)
    a, b = frac.split("/")
    info["singles"] = int(b)
    if a != b:
        bad.append(("program result differs when optimize is injected once",
                    "at step " + (first if len(first) < 500 else first[:250] + " ... " + first[-200:])))
    return bad, info


# known findings ------------------------------------------------------------------------
def classify(kind, rec, what):
    """Return a finding id for a failing record, or None."""
    if kind == "O" and rec["res"].startswith("Err:CloneLimit"):
        pre = parse_raw(rec["pre"])
        roots = [] if rec["roots"] == "-" else [int(x) for x in rec["roots"].split(".")]
        need = clone_items_needed(pre, roots)
        # the limit is computed from the block size at the first push of each worklist; a lower bound is enough
        if need is not None and need > (pre["size"] // 2) ** 2:
            return "C19-K1"
    if kind == "C" and rec["res"].startswith("Err:CloneLimit"):
        pre = parse_raw(rec["pre"])
        pre2 = dict(pre, sy=[], hr=None, hv=None, hf=None)
        need = clone_items_needed(pre2, [int(rec["arg"])])
        if need is not None and need > (pre["size"] // 2) ** 2:
            return "C19-K1"
    return None


# --------------------------------------------------------------------------- generators
def hexs(s):
    return ".".join("%x" % ord(c) for c in s) if s else "-"


LEAVES = ["U", "T", "F", "i0", "i1", "i-5", "i7fffffff", "f3ff8000000000000", "c61", "c1f600", "b7", "bff",
          "s1a2b", "sdeadbeefcafe", "Y2", "Y15", "E0", "E3", "X1"]
NAMES = ["a", "b", "key", "val", "x1", "été"]
TEXTS = ["", "a", "hello", "hé", "\U0001f600x"]


class GraphGen:
    """Random value-graph scripts for the `G` case kind. Tracks slot liveness the way the harness does."""

    def __init__(self, rng, size, p_share=0.5, settings=None):
        self.rng, self.size = rng, size
        self.toks = [settings] if settings else []
        self.slots = []          # dict(kind, live, retained, depth)
        self.nreg = self.nval = self.nframe = 0
        self.p_share = p_share

    def live(self, pred=lambda s: True):
        return [i for i, s in enumerate(self.slots) if s["live"] and pred(s)]

    def add(self, tok, kind, depth=0):
        self.toks.append(tok)
        self.slots.append({"kind": kind, "live": True, "retained": False, "depth": depth})
        return len(self.slots) - 1

    def pick(self, maxdepth=6, pred=lambda s: True):
        c = self.live(lambda s: s["depth"] <= maxdepth and s["kind"] != "partial_list" and pred(s))
        if not c or self.rng.random() > self.p_share and len(c) < 3:
            return self.leaf()
        # prefer recent slots a little, so that graphs are connected
        if self.rng.random() < 0.5:
            return self.rng.choice(c[-6:])
        return self.rng.choice(c)

    def leaf(self):
        r = self.rng
        x = r.random()
        if x < 0.55:
            return self.add(r.choice(LEAVES), "leaf")
        if x < 0.7:
            return self.add("C" + hexs(r.choice(TEXTS)), "text")
        if x < 0.78:
            return self.add("B" + (".".join("%x" % r.randrange(256) for _ in range(r.randrange(4))) or "-"), "text")
        if x < 0.9:
            return self.add("N" + hexs(r.choice(NAMES)), "sym")
        return self.add("i%x" % r.randrange(1000), "num")

    def depth(self, *ix):
        return 1 + max([self.slots[i]["depth"] for i in ix] or [0])

    def step(self):
        r = self.rng
        x = r.random()
        if x < 0.16:
            self.leaf()
        elif x < 0.34:
            a, b = self.pick(), self.pick()
            self.add("P%d.%d" % (a, b), "pair", self.depth(a, b))
        elif x < 0.40:
            # keyed pair
            k = self.pick(pred=lambda s: s["kind"] == "sym")
            if self.slots[k]["kind"] != "sym":
                k = self.add("N" + hexs(r.choice(NAMES)), "sym")
            v = self.pick()
            self.add("P%d.%d" % (k, v), "kpair", self.depth(k, v))
        elif x < 0.55:
            n = r.choice([0, 1, 2, 2, 3, 3, 4, 6])
            items = []
            for _ in range(n):
                if r.random() < 0.4:
                    kp = self.live(lambda s: s["kind"] == "kpair" and s["depth"] <= 5)
                    if kp:
                        items.append(r.choice(kp))
                        continue
                items.append(self.pick(5))
            self.add("L" + (".".join(map(str, items)) or "-"), "list", self.depth(*items))
        elif x < 0.62:
            a, b = self.pick(), self.pick()
            self.add(r.choice("KRZA") + "%d.%d" % (a, b), "pair", self.depth(a, b))
        elif x < 0.66:
            c = self.live(lambda s: s["kind"] in ("sym", "num", "symlist"))
            if len(c) >= 2:
                a, b = r.choice(c), r.choice(c)
                ka, kb = self.slots[a]["kind"], self.slots[b]["kind"]
                if not (ka == "symlist" and kb == "symlist"):
                    self.add("M%d.%d" % (a, b), "symlist")
        elif x < 0.76:
            a = self.pick()
            self.toks.append("+r%d" % a)
            self.nreg += 1
        elif x < 0.83:
            a = self.pick()
            self.toks.append("+v%d" % a)
            self.nval += 1
        elif x < 0.88:
            self.toks.append("+f%d" % r.randrange(50))
            self.nframe += 1
        elif x < 0.90 and self.nreg:
            self.toks.append("-r")
            self.nreg -= 1
        elif x < 0.91 and self.nval:
            self.toks.append("-v")
            self.nval -= 1
        elif x < 0.92 and self.nframe:
            # pop_frame restores the register head saved in the frame; the count is then unknown to us
            self.toks.append("-f")
            self.nframe -= 1
            self.nreg = 0
        elif x < 0.94 and self.nval:
            a = self.pick()
            self.toks.append("=v%d" % a)
        elif x < 0.965:
            self.retain()
        elif x < 0.98:
            # a list under construction (start_list + some add_to_list, no end_list yet), kept alive from a register
            n = r.choice([1, 2, 3])
            items = [self.pick(4) for _ in range(r.randrange(0, n + 1))]
            l = self.add("sl%d" % n, "partial_list", self.depth(*items))
            for it in items:
                self.toks.append("al%d.%d" % (l, it))
            self.toks.append("+r%d" % l)
            self.nreg += 1
        else:
            self.leaf()

    def retain(self):
        # a retained prefix must be closed: no value stack cell whose slot may later be redirected
        # (register and frame cells are immutable, so they may be retained)
        if self.nval:
            return
        self.toks.append("ret")
        for s in self.slots:
            if s["live"]:
                s["retained"] = True

    def optimize(self, nroots=None):
        r = self.rng
        c = self.live(lambda s: s["kind"] != "partial_list")
        if nroots is None:
            nroots = r.choice([0, 0, 1, 1, 2, 3])
        roots = [r.choice(c) for _ in range(nroots)] if c else []
        self.toks.append("opt" + (".".join(map(str, roots)) or "-"))
        for i, s in enumerate(self.slots):
            if s["live"] and not s["retained"] and i not in roots:
                s["live"] = False

    def clone(self):
        c = self.live(lambda s: s["kind"] != "partial_list")
        if not c:
            return
        a = self.rng.choice(c)
        self.toks.append("cl%d" % a)
        s = self.slots[a]
        self.slots.append({"kind": s["kind"], "live": True, "retained": False, "depth": s["depth"]})

    def script(self, actions):
        r = self.rng
        per = max(1, self.size // max(1, len(actions)))
        for act in actions:
            for _ in range(r.randrange(per // 2, per + 1)):
                self.step()
            if act == "o":
                self.optimize()
            elif act == "c":
                self.clone()
        return "G " + " ".join(self.toks)


def gen_graphs(tier, seed):
    rng = vplib.rng_for(seed, "C19/graphs")
    n = 6000 if tier == "thorough" else 1500
    cases = []
    plans = ["o", "o", "oo", "ooo", "c", "co", "oc", "coco", "occo", "ccoo"]
    for i in range(n):
        size = rng.choice([4, 8, 12, 20, 30, 45])
        settings = None
        x = rng.random()
        if x < 0.08:
            settings = "@%d:F%d:-" % (rng.choice([1, 2, 3, 5]), rng.choice([1, 2, 3, 7]))
        elif x < 0.14:
            settings = "@%d:M%d:-" % (rng.choice([1, 2, 4]), rng.choice([2, 3]))
        elif x < 0.18:
            settings = "@10:F10:%d" % rng.choice([20, 30, 40, 60])
        g = GraphGen(rng, size, p_share=rng.choice([0.2, 0.5, 0.8]), settings=settings)
        cases.append(g.script(rng.choice(plans)))
    return cases


def gen_small_exhaustive(tier):
    """Every graph over at most N nodes of the kinds {number, pair, keyed list}, every choice of one node on the
    register stack / value stack, every single extra root, retention before or after the first node."""
    cases = []
    nmax = 4 if tier == "thorough" else 3

    def shapes(k):
        # node i is a leaf, a pair of earlier nodes or a list of two earlier nodes
        if k == 0:
            yield []
            return
        for prev in shapes(k - 1):
            i = k - 1
            yield prev + ["i%x" % i]
            for a in range(i):
                for b in range(i):
                    yield prev + ["P%d.%d" % (a, b)]
                    if tier == "thorough" or a <= b:
                        yield prev + ["L%d.%d" % (a, b)]
    for k in range(1, nmax + 1):
        for sh in shapes(k):
            for reg in [None] + list(range(k)):
                for root in [None] + list(range(k)):
                    if reg is None and root is None:
                        continue
                    for ret in (False, True):
                        toks = list(sh)
                        if ret:
                            toks.insert(1, "ret")
                        if reg is not None:
                            toks.append("+r%d" % reg)
                            toks.append("+v%d" % reg)
                        toks.append("opt%s" % ("-" if root is None else root))
                        cases.append("G " + " ".join(toks))
    return cases


FIXED_GRAPHS = [
    # the layouts of the repository's own optimize tests, through the public API
    "G U i64 C68.65.6c.6c.6f B1.2.3 N6d.79 P3.4 L0.1.2.5 opt-",
    "G U i64 C68.65.6c.6c.6f ret i4d2 C77.6f.72.6c.64 opt-",
    "G i64 +r0 i4d2 C77 i4d2 c61 P3.4 +r5 opt-",
    "G i64 +v0 i4d2 C77 i4d2 c61 P3.4 +v5 opt-",
    "G +f10 i4d2 C77 i4d2 c61 P2.3 +r4 +f20 opt-",
    # clone then compact with the cloned value as extra root / on a stack
    "G i1 i2 P0.1 cl2 opt2",
    "G i1 i2 P0.1 cl2 +r2 opt2",
    "G i1 i2 P0.1 cl2 opt3",
    "G Na i1 P0.1 L2 cl3 +v3 opt3.4",
    # shared sub-values, root also on a stack, retained value referenced from a new one
    "G i1 P0.0 P1.1 +r2 opt2 opt2 opt2",
    "G i1 ret i2 P0.1 +r2 +v2 opt2.0 opt2",
    "G Na i1 P0.1 Nb i2 P3.4 L2.5 ret L6.6 P7.2 +r8 opt8.6",
    "G i1 i2 +r0 +f3 +r1 +f4 +r0 opt- -f opt- -f opt-",
    "G i1 +v0 i2 =v1 opt-",
    "G C- B- L- opt0.1.2",
    "G sl2 i1 al0.1 +r0 opt0",
    "G i1 i2 M0.1 Na M2.3 +r4 opt4",
    # nested sharing deep enough to hit the clone limit
    "G i1 P0.0 P1.1 P2.2 P3.3 P4.4 P5.5 P6.6 P7.7 +r8 opt-",
    "G i1 P0.0 P1.1 P2.2 P3.3 P4.4 P5.5 P6.6 P7.7 cl8",
]


FIXED_MALFORMED = [
    "M rawFR oraw0", "M rawCL5 i1 oraw0", "M rawLi2.0 rawIt0 oraw0", "M i1 rawIt0 oraw1", "M i1 oraw7",
    "M rawPr5.6 oraw0", "M rawPr0.0 oraw0", "M i1 ret9 opt-", "M rawUL2.1 rawIt0 raw_ raw_ raw_ oraw0",
    "M i1 rawCM0.0 +r0 oraw0", "M rawJP3 rawFI1 craw1", "M rawRe0.0 +r0 opt-", "M i1 rawCI0 oraw1",
    "M rawSL3 s1 oraw0", "M rawBL1 craw0", "M i1 rawCM0.7 rawCM0.8 craw0 oraw0", "M rawVR0 craw0",
]


def gen_malformed(tier, seed):
    """Blocks made of arbitrary raw cells with small addresses: only the model/implementation correspondence is
    checked on them (error class, panic, resulting block), never the property."""
    r = vplib.rng_for(seed, "C19/malformed")
    n = 1500 if tier == "thorough" else 500
    kinds2 = ["Pr", "Rg", "Sc", "Pa", "Cc", "Li", "UL", "Va", "Re", "Fr", "CM"]
    kinds1 = ["It", "VR", "RR", "FI", "FG", "CI", "JP", "SL", "CL", "BL", "Ex"]
    kinds0 = ["U", "T", "_", "FR", "Cu", "Ni5", "Ch61", "By7", "Sy9", "As9.0", "As9.2"]
    out = list(FIXED_MALFORMED)
    for _ in range(n):
        m = r.randrange(1, 9)
        toks = []
        if r.random() < 0.15:
            toks.append("@%d:F%d:-" % (r.choice([1, 2, 4]), r.choice([1, 3])))
        for i in range(m):
            x = r.random()
            a, b = r.randrange(0, m + 1), r.randrange(0, m + 1)
            if x < 0.45:
                toks.append("raw%s%d.%d" % (r.choice(kinds2), a, b % 4 if r.random() < 0.5 else b))
            elif x < 0.75:
                toks.append("raw%s%d" % (r.choice(kinds1), a if r.random() < 0.7 else a % 3))
            else:
                toks.append("raw" + r.choice(kinds0))
        if r.random() < 0.3:
            toks.append("ret%d" % r.randrange(0, m + 2))
        if r.random() < 0.3:
            toks.append("+r%d" % r.randrange(0, m))
        if r.random() < 0.2:
            toks.append("+f%d" % r.randrange(0, 9))
        if r.random() < 0.25:
            toks.append("craw%d" % r.randrange(0, m + 1))
        toks.append("oraw" + (".".join(str(r.randrange(0, m + 1)) for _ in range(r.randrange(0, 3))) or "-"))
        out.append("M " + " ".join(toks))
    return out


# programs --------------------------------------------------------------------------------
def gen_expr(r, depth):
    if depth <= 0 or r.random() < 0.25:
        x = r.random()
        if x < 0.5:
            return str(r.randrange(0, 60))
        if x < 0.62:
            return '"%s"' % r.choice(["a", "bc", "hello"])
        if x < 0.72:
            return ":" + r.choice(["a", "b", "c"])
        if x < 0.8:
            return "$"
        if x < 0.9:
            return "%d..%d" % (r.randrange(0, 3), r.randrange(3, 6))
        return "()"
    e = lambda: gen_expr(r, depth - 1)
    x = r.random()
    if x < 0.2:
        return "(%s %s %s)" % (e(), r.choice(["+", "-", "*", "<", "==", "<>"]), e())
    if x < 0.38:
        return "(%s)" % ", ".join(e() for _ in range(r.randrange(1, 5)))
    if x < 0.5:
        return "(:%s = %s, :%s = %s)" % (r.choice("ab"), e(), r.choice("bc"), e())
    if x < 0.58:
        return "((:a = %s, :b = %s).%s)" % (e(), e(), r.choice("abc"))
    if x < 0.68:
        return "(%s ?> %s |> %s)" % (e(), e(), e())
    if x < 0.74:
        return "({ %s } %s %s)" % (gen_expr(r, depth - 1), r.choice(["<~", "<~", "<~", "~"]), e())
    if x < 0.8:
        return "({ (%s, { ($, %s) } <~ %s, %s) } <~ %s)" % (e(), e(), e(), e(), e())
    if x < 0.86:
        return "((%s) <~ %d)" % (", ".join(e() for _ in range(r.randrange(2, 4))), r.randrange(0, 3))
    if x < 0.92:
        return "(%s = %s)" % (e(), e())
    return "({ $.n < %d ?> ^~ :n = $.n + 1 :acc = ($.acc, $.n) } <~ :n = 0 :acc = %s)" % (r.randrange(1, 5), e())


def nested_self_pairs(n):
    src = "1"
    for _ in range(n):
        src = "({ $ = $ } <~ %s)" % src
    return src


FIXED_PROGRAMS = [
    "5 + 6",
    "{ $.count < 3 ?> ^~ :count = $.count + 1 :result = $.result * 2 } <~ :count = 0 :result = 1\n\n$.result = 8",
    "10 20 30 40 == 10 20 30 40",
    "(20 <> 30 <> 40) = (10 <> 20 <> 30 <> 40 <> 50 <~ 1..3)",
    "{ $.3 } ~ 10 20 30 40 50\n\n$~~ = 40",
    ":value = 50\n60\n70\n\n(\n    $ <~ 1,\n    $ <~ :value\n) = (\n    60\n    50\n)",
    "\"abc\" <> \"def\"",
    "(:nested = (:still = (:value = 5,),),) <~ :nested.still.value",
    "{ { { $ + 1 } <~ $ * 2 } <~ $ + 3 } <~ 4",
    "{ $.n < 12 ?> ^~ :n = $.n + 1 :l = ($.l, $.n) } <~ :n = 0 :l = ()",
    "{ ($ + 1, { ($ * 2, { ($, \"ab\" <> \"cd\", :k = $) } <~ $ + 7) } <~ $ + 3, $) } <~ 4",
    "{ (:a = $, :b = { (:c = $, :d = ($, $)) } <~ ($, 1)).b.d } <~ (1, 2, 3)",
    "{ $ + 1 } ~ 5\n\n$ ~~",
    # finding C19-K1 in a running program: eleven levels of `x = x`; one compaction at the last step boundary fails
    (nested_self_pairs(11), 2),
]


def gen_programs(tier, seed):
    r = vplib.rng_for(seed, "C19/programs")
    out = list(FIXED_PROGRAMS)
    n = 1500 if tier == "thorough" else 150
    for _ in range(n):
        out.append(gen_expr(r, r.choice([2, 3, 3, 4])))
    k = 40 if tier == "thorough" else 10
    lines = []
    for p in out:
        kk = k
        if isinstance(p, tuple):
            p, kk = p
        lines.append("X " + ",".join("%x" % ord(c) for c in p) + " k=%d" % kk)
    return lines


# --------------------------------------------------------------------------- running
def run_harness(cases, exe, chunk=50, max_stuck=6, deadline_ms=3000, budget_s=240):
    """Runs the cases in chunks under a short per-case deadline; gives up early when many cases hang or crash
    (each costs its full deadline, and one is already a violation) or when the time budget is used up.
    Returns (rc, lines, cases actually run)."""
    lines, stuck, rc = [], 0, 0
    t0 = time.time()
    env_cmd = ["env", "VERIF_OPT_DEADLINE_MS=%d" % deadline_ms, exe]
    for i in range(0, len(cases), chunk):
        part = cases[i:i + chunk]
        r, out = vplib.run_lines(env_cmd, "\n".join(part) + "\n", timeout=600)
        rc = rc or r
        lines += out
        stuck += sum(1 for l in out if l.endswith("\tHANG\t-") or l.endswith("\tCRASH\t-"))
        if r != 0 or len(out) != len(part) or stuck > max_stuck or time.time() - t0 > budget_s:
            return rc, lines, cases[:i + len(part)]
    return rc, lines, cases


def evaluate(lines, v, stats, listed, samples):
    """Direct oracle over harness output lines. Returns list of (case, record index) that failed (unlisted)."""
    for line in lines:
        try:
            case, result, oracle = line.split("\t")
        except ValueError:
            v.tie_failure("optimize harness: unparsable line " + line[:200])
            continue
        if result in ("HANG", "CRASH", "HARNESSPANIC", "BADCASE"):
            v.violation(component="optimize", input=case, impl=result, what="harness case did not complete: " + result)
            continue
        recs = result.split(" ## ")
        if case.startswith("M"):
            stats["malformed_cases"] = stats.get("malformed_cases", 0) + 1
            for rs in recs[1:]:
                if rs != "NOREC":
                    rec = parse_record(rs)
                    key = "malformed_res:" + rec["res"].split(":")[0] + (":" + rec["res"].split(":")[1] if rec["res"].startswith("Err") else "")
                    stats[key] = stats.get(key, 0) + 1
            continue
        if case.startswith("G"):
            status = recs[0]
            stats["graph_cases"] += 1
            if status != "done":
                stats["graph_stopped"] += 1
                stats["stop:" + status.split(":")[-1]] = stats.get("stop:" + status.split(":")[-1], 0) + 1
            for ri, rs in enumerate(recs[1:]):
                if rs == "NOREC":
                    continue
                rec = parse_record(rs)
                if rec["kind"] == "O":
                    bad = check_opt(rec)
                    stats["optimize_calls"] += 1
                else:
                    bad = check_clone(rec)
                    stats["clone_calls"] += 1
                cls = rec["res"].split(":")[0] + (":" + rec["res"].split(":")[1] if rec["res"].startswith("Err") else "")
                stats["res:" + rec["kind"] + ":" + cls] = stats.get("res:" + rec["kind"] + ":" + cls, 0) + 1
                pre = parse_raw(rec["pre"])
                post = parse_raw(rec["post"])
                for c in pre["d"]:
                    k = cell_kind(c)
                    stats["cells"][k] = stats["cells"].get(k, 0) + 1
                if rec["res"].startswith("Ok") and rec["kind"] == "O" and post["d"] != pre["d"]:
                    stats["optimize_moved_something"] += 1
                if rec["res"].startswith("Err") and not expected_error(rec, pre):
                    bad.append(("%s failed: %s" % ("optimize" if rec["kind"] == "O" else "clone_data", rec["res"]), ""))
                if len(samples) < 5 and ri == 0 and stats["graph_cases"] % 97 == 1:
                    samples.append({"case": case, "res": rec["res"], "spre": rec["spre"][:300], "spost": rec["spost"][:300]})
                for what, detail in bad:
                    fid = classify(rec["kind"], rec, what)
                    if fid and fid in listed:
                        v.known_hit(fid, "%s -> %s" % (case, rec["res"]))
                    else:
                        stats["violations"] += 1
                        v.violation(component="optimize", input=case, record=ri, what=what, detail=detail[:1500],
                                    impl=rec["res"], pre=rec["pre"][:1500])
        elif case.startswith("X"):
            stats["program_cases"] += 1
            if recs[0].startswith("NOBUILD"):
                stats["program_nobuild"] += 1
                continue
            bad, info = check_program(recs[0])
            stats["prog_end:" + info["end"]] = stats.get("prog_end:" + info["end"], 0) + 1
            stats["program_steps"] += info["steps"]
            stats["program_injections"] += info["every_calls"] + info["twice_calls"] + info["rooted_calls"] + info["singles"]
            k1 = 0
            for rs in recs[1:]:
                rec = parse_record(rs)
                for c in parse_raw(rec["pre"])["d"]:
                    k = cell_kind(c)
                    stats["cells"][k] = stats["cells"].get(k, 0) + 1
                if rec["res"].startswith("Err"):
                    fid = classify("O", rec, "")
                    if fid and fid in listed:
                        k1 += 1
                        v.known_hit(fid, "%s -> %s at a step boundary" % (case[:200], rec["res"]))
                    continue
                for what, detail in check_opt(rec):
                    bad.append((what, detail))
            if k1:
                # failures of the injected call that are instances of the listed finding
                bad = [(w, d) for (w, d) in bad if "OPTERR:CloneLimit" not in d and not d.rstrip().endswith("OPTERR:CloneLimit")]
            for what, detail in bad:
                stats["violations"] += 1
                v.violation(component="optimize", input=case, what=what, detail=detail[:1500],
                            source="".join(chr(int(x, 16)) for x in case.split(" ")[1].split(",")) if len(case) > 2 else "")


def correspond(lines, mlines, v, stats):
    """Model (extracted, run on the raw pre-states the harness printed) vs implementation, record by record."""
    if len(mlines) != len(lines):
        v.tie_failure("opt_driver produced %d lines for %d cases: %s" % (len(mlines), len(lines), mlines[-1:] ))
        return
    shown = 0
    for line, mline in zip(lines, mlines):
        try:
            case, result, _ = line.split("\t")
            mcase, mresult, mverdict = mline.split("\t")
        except ValueError:
            v.tie_failure("correspondence: unparsable line pair")
            continue
        if result in ("HANG", "CRASH", "HARNESSPANIC", "BADCASE"):
            continue
        recs = [r for r in result.split(" ## ") if r.startswith("O | ") or r.startswith("C | ")]
        mrecs = [] if mresult == "NOREC" else mresult.split(" ## ")
        if len(recs) != len(mrecs):
            v.tie_failure("correspondence: %s: %d records vs %d model records" % (case[:120], len(recs), len(mrecs)))
            continue
        if mverdict == "FAIL" and not case.startswith("M"):
            # the model's own read-back changed on a well-formed case: the theorems' hypotheses are not met by
            # what the generators build, or the model is wrong
            stats["model_spec_fail"] = stats.get("model_spec_fail", 0) + 1
            if stats["model_spec_fail"] <= 3:
                v.tie_failure("model read-back before/after differs (spec verdict FAIL): " + case[:300])
        for ri, (r, m) in enumerate(zip(recs, mrecs)):
            rec, mrec = parse_record(r), parse_record("M | " + m)
            stats["model_records"] = stats.get("model_records", 0) + 1
            diffs = []
            if rec["res"] != mrec["res"]:
                diffs.append("result impl=%s model=%s" % (rec["res"], mrec["res"]))
            elif rec["res"].startswith("Ok"):
                if rec["post"] != mrec["post"]:
                    diffs.append("data block after the call differs: impl=%s model=%s" % (rec["post"][:700], mrec["post"][:700]))
                if rec["spost"] != "-" and "~" not in rec["spost"] and "?" not in mrec["spost"] and rec["spost"] != mrec["spost"]:
                    diffs.append("read-back after: getters=%s spec reader=%s" % (rec["spost"][:500], mrec["spost"][:500]))
            if rec["spre"] != "-" and "~" not in rec["spre"] and "?" not in mrec["spre"] and rec["spre"] != mrec["spre"]:
                diffs.append("read-back before: getters=%s spec reader=%s" % (rec["spre"][:500], mrec["spre"][:500]))
            if "~" in rec["spre"] or "?" in mrec["spre"]:
                stats["readback_not_compared"] = stats.get("readback_not_compared", 0) + 1
            if diffs:
                stats["model_disagreements"] += 1
                shown += 1
                if shown <= 5:
                    v.tie_failure("correspondence optimize: %s record %d: %s" % (case[:300], ri, "; ".join(diffs)))


TRUSTED = vplib.BASE_TRUSTED + [
    "harness/src/bin/optimize.rs builds the graphs through the public API and reads them back through the GarnishData getters",
    "tools/props/c19.py: read-back comparison oracle and the path-count classifier of C19-K1",
]


def new_stats():
    return {"graph_cases": 0, "graph_stopped": 0, "optimize_calls": 0, "clone_calls": 0, "optimize_moved_something": 0,
            "program_cases": 0, "program_nobuild": 0, "program_steps": 0, "program_injections": 0, "violations": 0,
            "model_disagreements": 0, "cells": {}}


def run(tier, seed):
    v = Verdict(PID, tier, seed)
    v.assumptions = [
        "well-formed heaps: children below parents, retained prefix closed, stack chains well-founded (what the public API builds)",
        "programs: everything the build added is retained (retain_all_current_data after build), as instructions hold data addresses",
    ]
    listed = {f["id"] for f in vplib.findings_for(PID)}
    if os.environ.get("VERIF_C19_NOPROVE"):
        # used only by the author's mutation script: keeps the window in which /repo is mutated short
        pr = {"ok": True, "failures": [], "props": [], "lemmas": [], "axioms": [], "wall_s": 0}
        v.notes.append("prove step skipped (VERIF_C19_NOPROVE)")
    else:
        pr = vplib.prove(PID, ["Proofs/C19"], extra_targets=["Extract/OptExtract.vo"])
    for f in pr["failures"]:
        v.tie_failure("prove: " + f)
    v.coverage.update(vplib.proof_coverage(
        pr, "make -C coq Properties/C19.vo && coqc Properties/C19.v (Print Assumptions) && tools/props/c19.py correspondence", TRUSTED))
    ok, out = vplib.cargo_build("debug", bins=["optimize"])
    if not ok:
        v.tie_failure("harness build failed: " + out[-400:])
        return v.finish("proof")
    okm, outm = vplib.ocaml_build("opt") if os.path.exists(vplib.OCAML_BUILD + "/opt_model.ml") else (False, "no extracted model")
    if not okm:
        v.tie_failure("model driver build failed: " + outm[-300:])
    exe = vplib.private_copy(vplib.harness_bin("optimize"))
    cases = (FIXED_GRAPHS + gen_small_exhaustive(tier) + gen_graphs(tier, seed) + gen_malformed(tier, seed)
             + gen_programs(tier, seed))
    stats = new_stats()
    samples = []
    t0 = time.time()
    rc, lines, ran = run_harness(cases, exe, budget_s=1500 if tier == "thorough" else 240)
    if rc != 0 or len(lines) != len(ran):
        v.tie_failure("optimize harness rc=%s lines=%d/%d" % (rc, len(lines), len(ran)))
    if len(ran) != len(cases):
        v.notes.append("stopped after %d of %d cases: too many hanging or crashing cases, or time budget used up" % (len(ran), len(cases)))
    # a case that missed its deadline or crashed is run once more on its own before it counts (machine load)
    retried = 0
    for i, l in enumerate(lines):
        if (l.endswith("\tHANG\t-") or l.endswith("\tCRASH\t-")) and retried < 3:
            retried += 1
            r2, out2, _ = run_harness([l.split("\t")[0]], exe, deadline_ms=20000)
            if r2 == 0 and len(out2) == 1:
                lines[i] = out2[0]
    if retried:
        v.notes.append("%d hanging/crashing case(s) re-run alone" % retried)
    evaluate(lines, v, stats, listed, samples)
    stats["harness_wall_s"] = round(time.time() - t0, 1)
    if okm:
        t1 = time.time()
        # in chunks, each under its own deadline: on blocks produced by a broken implementation (cycles, huge
        # sizes) the unary-number model can take very long; a chunk that does not finish is a broken tie
        for i in range(0, len(lines), 400):
            part = lines[i:i + 400]
            rcm, mlines = vplib.run_lines([vplib.OCAML_BUILD + "/opt_driver"], "\n".join(part) + "\n", timeout=90)
            if rcm != 0:
                v.tie_failure("opt_driver rc=%s on cases %d..%d %s" % (rcm, i, i + len(part), [m[:200] for m in mlines[-1:]]))
                break
            correspond(part, mlines, v, stats)
        stats["model_wall_s"] = round(time.time() - t1, 1)
    try:
        os.unlink(exe)
    except OSError:
        pass
    v.coverage["theorem_status"] = {
        "full (all stores, all cell kinds, conditional on Ok)": ["C19_clone", "C19_optimize", "C19_worklist_closed",
                                                                 "C19_children_first", "C19_reader_sound",
                                                                 "C19_reader_complete"],
        "bounded (finite family, vm_compute; additional, success + preservation on all blocks of <= 4 cells over "
        "number/pair/RegisterRoot/ValueRoot)": ["C19_optimize_succeeds_bounded_4"],
        "refuted (witness by vm_compute, finding C19-K1)": ["C19_K1_refuted"],
        "examples (non-vacuity)": ["C19_ex_optimize", "C19_ex_hyps", "C19_ex_retained", "C19_ex_clone"],
        "stated, not proved": ["C19_success_statement (the calls succeed on well-formed stores outside C19-K1)",
                               "commutation of the runtime's step relation with optimize (no runtime model; checked by "
                               "program injection)",
                               "adequacy of the fuel = address+1 reader HeapIso.read_tree on children-below-parents heaps"],
    }
    v.coverage.update({
        "evaluations": stats["optimize_calls"] + stats["clone_calls"] + stats["program_injections"],
        "distinct_nontrivial": stats["optimize_moved_something"] + stats["clone_calls"],
        "rule": "value-graph scripts (fixed, small-exhaustive over <=3/4 nodes, seeded random with sharing, keyed lists, text, "
                "symbol lists, stacks, frames, retention, extra roots, repeated optimize/clone) and generated programs with "
                "optimize injected at every step boundary; an optimize call is non-trivial when it changed the data block",
        "samples": samples,
        "histogram": stats,
    })
    return v.finish("proof")


def replay(obj):
    cases = sorted({x["input"] for x in obj.get("violations", []) if x.get("input")})
    if not cases:
        print("replay names a broken tie, not an input:", obj.get("no_longer_checks"))
        return run("quick", obj.get("seed", 0))
    ok, out = vplib.cargo_build("debug", bins=["optimize"])
    rc, lines, _ = run_harness(cases, vplib.harness_bin("optimize"))
    v = Verdict(PID, "replay", obj.get("seed", 0))
    stats = new_stats()
    evaluate(lines, v, stats, {f["id"] for f in vplib.findings_for(PID)}, [])
    for x in v.violations:
        print("FAILS: %s: %s %s" % (x["input"], x["what"], x.get("detail", "")[:300]))
    for fid, ws in v.known.items():
        print("known %s: %s" % (fid, ws[0]))
    if not v.violations:
        print("ok: %d case(s) no longer fail" % len(cases))
    return 1 if v.violations else 0
