(* numop driver: reads the harness output lines
     <case>\t<impl result>\t<oracle>
   where <case> is  "B <op> <num> <num>" | "U <op> <num>" | "C <num> <num>",
   <num> is  i<hex>  (i32, sign+magnitude hex)  or  f<16 hex digits> (f64 bits),
   and <oracle> is "powf=<16 hex>" or "-".
   Prints  <case>\t<model result>\t<int spec result or ->  *)
let parse_num (s : string) : num =
  match s.[0] with
  | 'i' -> Int (z_of_hex (String.sub s 1 (String.length s - 1)))
  | 'f' -> Flt (b64_of_bits (z_of_hex (String.sub s 1 (String.length s - 1))))
  | _ -> failwith ("bad num " ^ s)

let is_nan (f : binary64) = match f with B754_nan0 _ -> true | _ -> false

let pad16 s = String.make (max 0 (16 - String.length s)) '0' ^ s
let show_num (n : num) : string =
  match n with
  | Int v -> "I:" ^ hex_of_z v
  | Flt f -> if is_nan f then "F:NaN" else "F:" ^ pad16 (hex_of_z (bits_of_b64 f))
let show_res (r : num option) : string = match r with None -> "None" | Some n -> show_num n

let binop_of = function
  | "add" -> OpAdd | "sub" -> OpSub | "mul" -> OpMul | "div" -> OpDiv | "idiv" -> OpIntDiv
  | "pow" -> OpPow | "rem" -> OpRem | "and" -> OpAnd | "or" -> OpOr | "xor" -> OpXor
  | "shl" -> OpShl | "shr" -> OpShr | s -> failwith ("bad binop " ^ s)
let unop_of = function
  | "abs" -> OpAbs | "neg" -> OpNeg | "inc" -> OpInc | "dec" -> OpDec | "not" -> OpNot
  | s -> failwith ("bad unop " ^ s)

let () =
  iter_lines (fun line ->
    match split_on '\t' line with
    | case :: _ :: oracle :: _ ->
      let powf =
        if String.length oracle > 5 && String.sub oracle 0 5 = "powf=" then
          let v = b64_of_bits (z_of_hex (String.sub oracle 5 (String.length oracle - 5))) in
          (fun _ _ -> v)
        else (fun _ _ -> failwith "powf oracle missing") in
      let model, spec =
        (match split_on ' ' case with
         | ["B"; op; l; r] ->
           let o = binop_of op in
           let l = parse_num l and r = parse_num r in
           let m = show_res (num_binop powf o l r) in
           let s = (match l, r with
                    | Int a, Int b -> show_res (spec_int_binop_exec o a b)
                    | _ -> "-") in
           m, s
         | ["U"; op; x] ->
           let o = unop_of op in
           let x = parse_num x in
           let m = show_res (num_unop o x) in
           let s = (match x with Int a -> show_res (spec_int_unop o a) | _ -> "-") in
           m, s
         | ["C"; l; r] ->
           let l = parse_num l and r = parse_num r in
           let m = (match num_partial_cmp l r with
                    | None -> "None" | Some Eq -> "Eq" | Some Lt -> "Lt" | Some Gt -> "Gt") in
           m, "-"
         | _ -> failwith ("bad case " ^ case)) in
      Printf.printf "%s\t%s\t%s\n" case model spec
    | _ -> failwith ("bad line " ^ line))
