(* Forward simulation: if the reference evaluator gives an expression a value
   (or restarts the enclosing body with `^~`), the code CompileExpr places for
   it, started with the same `$`, host state and pending operands, runs to the
   end of its inline code with that value pushed (or to the start of the
   enclosing body with the new `$`), with the same host state and the same
   observable trace.  By induction on the evaluator's fuel, for its five
   mutually recursive readings (expression, list items, else-chain, apply,
   expression body). *)
From Coq Require Import ZArith NArith List Bool Arith Lia.
From GV Require Import Base.Result Base.Host Gen.Instr Gen.Exec Model.Num Model.Value Model.Machine
  Model.CompileExpr Spec.Ast Spec.Eval
  Proofs.C01.MachineFacts Proofs.C01.Sizes Proofs.C01.Placement Proofs.C01.Labels Proofs.C01.OpRefine Proofs.C01.Fragment Proofs.C01.Steps.
Import ListNotations.

Section Sim.
Variable sym_hash : list N -> N.
Variable hstate : Type.
Variable host : hstate -> host_call -> hstate * option val.
Variable pbodies : list (N * expr).
Variable P : program.

Notation St := (mkSt hstate).
Notation star := (star hstate host P).
Notation C := (code P).
Notation J := (jt P).
Notation eval := (eval sym_hash hstate host pbodies).
Notation eval_items := (eval_items sym_hash hstate host pbodies).
Notation eval_chain := (eval_chain sym_hash hstate host pbodies).
Notation apply_val := (apply_val sym_hash hstate host pbodies).
Notation run_body := (run_body sym_hash hstate host pbodies).
Notation lplaced := (lplaced sym_hash C J).
Notation lplacedC := (lplacedC sym_hash C J).
Notation est := (st hstate).

Lemma obind_done : forall (A B : Type) (o : out est A) (k : A -> est -> out est B) b s',
  obind o k = ODone b s' -> exists a s1, o = ODone a s1 /\ k a s1 = ODone b s'.
Proof. intros A B o k b s' H. destruct o; cbn in H; try discriminate. eauto. Qed.

Lemma obind_restart : forall (A B : Type) (o : out est A) (k : A -> est -> out est B) v s',
  obind o k = ORestart v s' ->
  o = ORestart v s' \/ exists a s1, o = ODone a s1 /\ k a s1 = ORestart v s'.
Proof.
  intros A B o k v s' H. destruct o; cbn in H; try discriminate;
    [right; eauto | left; injection H as -> ->; reflexivity].
Qed.

(* the nested expression bodies of the program are in the program, each ending
   in EndExpression, entered through the jump-table entry that is its label *)
Definition body_ok (lbl : N) (b : expr) : Prop :=
  exists pcb jb1 ob1 jb2,
    nth_error J (N.to_nat lbl) = Some pcb /\
    lplaced (N.to_nat lbl) None b pcb jb1 ob1 jb2 /\
    nth_error C (pcb + si (sizes None b)) = Some (ins I_EndExpression) /\
    frag b = true /\ shape_ok b = true /\ seq_ok true b = true.
Definition bodies_ok : Prop := forall lbl b, find_body pbodies lbl = Some b -> body_ok lbl b.

(* ------------------------------------------------------------ statements *)
Definition SimEval (n : nat) : Prop :=
  forall e vin (s : est) (o : out est val),
  eval n e vin s = o ->
  frag e = true -> shape_ok e = true ->
  forall b, seq_ok b e = true ->
  forall cont pcont pc j ob jb sg vs fs mt,
  lplaced cont None e pc j ob jb ->
  nth_error J cont = Some pcont -> pcont < length C ->
  pc + si (sizes None e) < length C ->
  observable mt = snd s ->
  match o with
  | ODone v s' =>
      exists vin' mt',
        star (St pc sg (vin :: vs) fs (fst s) mt)
             (St (pc + si (sizes None e)) (v :: sg) (vin' :: vs) fs (fst s') mt') /\
        observable mt' = snd s' /\
        (is_seq e = false -> vin' = vin)
  | ORestart v s' =>
      exists junk mt',
        star (St pc sg (vin :: vs) fs (fst s) mt) (St pcont (junk ++ sg) (v :: vs) fs (fst s') mt') /\
        observable mt' = snd s'
  | _ => True
  end.

Definition SimItems (n : nat) : Prop :=
  forall k e vin (s : est) (o : out est (list val)),
  eval_items n k e vin s = o ->
  frag e = true -> shape_ok e = true -> seq_ok false e = true ->
  forall cont pcont pc j ob jb sg vs fs mt,
  lplaced cont (Some k) e pc j ob jb ->
  nth_error J cont = Some pcont -> pcont < length C ->
  pc + si (sizes (Some k) e) < length C ->
  observable mt = snd s ->
  match o with
  | ODone items s' =>
      exists mt',
        star (St pc sg (vin :: vs) fs (fst s) mt)
             (St (pc + si (sizes (Some k) e)) (rev items ++ sg) (vin :: vs) fs (fst s') mt') /\
        observable mt' = snd s' /\
        length items = leaves k e
  | ORestart v s' =>
      exists junk mt',
        star (St pc sg (vin :: vs) fs (fst s) mt) (St pcont (junk ++ sg) (v :: vs) fs (fst s') mt') /\
        observable mt' = snd s'
  | _ => True
  end.

(* a chain of conditionals: either every condition fails and nothing is pushed,
   or an arm is taken and control arrives at the chain's join point *)
Definition SimChain (n : nat) : Prop :=
  forall e vin (s : est) (o : out est (option val)),
  eval_chain n e vin s = o ->
  lchain e = true ->
  frag e = true -> shape_okC true e = true -> seq_ok false e = true ->
  forall cont pcont pc j aob ajb ob jb jj pjoin sg vs fs mt,
  lplacedC true cont None e pc j aob ajb ob jb jj ->
  nth_error J cont = Some pcont -> pcont < length C ->
  nth_error J jj = Some pjoin -> pjoin < length C ->
  pc + ci (csizes e) < length C ->
  observable mt = snd s ->
  match o with
  | ODone None s' =>
      exists mt', observable mt' = snd s' /\
        star (St pc sg (vin :: vs) fs (fst s) mt) (St (pc + ci (csizes e)) sg (vin :: vs) fs (fst s') mt')
  | ODone (Some v) s' =>
      exists mt', observable mt' = snd s' /\
        star (St pc sg (vin :: vs) fs (fst s) mt) (St pjoin (v :: sg) (vin :: vs) fs (fst s') mt')
  | ORestart v s' =>
      exists junk mt',
        star (St pc sg (vin :: vs) fs (fst s) mt) (St pcont (junk ++ sg) (v :: vs) fs (fst s') mt') /\
        observable mt' = snd s'
  | _ => True
  end.

(* f <~ x  (or f ~~ with x = unit): from the Apply instruction to the instruction after it *)
Definition SimApply (n : nat) : Prop :=
  forall f x (s : est) v s',
  apply_val n f x s = ODone v s' ->
  forall (ea : bool) pcx sg vs fs mt,
  (ea = true -> x = VUnit) ->
  nth_error C pcx = Some (ins (if ea then I_EmptyApply else I_Apply)) ->
  S pcx < length C ->
  observable mt = snd s ->
  exists mt',
    star (St pcx (if ea then f :: sg else x :: f :: sg) vs fs (fst s) mt)
         (St (S pcx) (v :: sg) vs fs (fst s') mt') /\
    observable mt' = snd s'.

(* an expression body, from its first instruction to its EndExpression (not executed) *)
Definition SimBody (n : nat) : Prop :=
  forall b vin (s : est) v s',
  run_body n b vin s = ODone v s' ->
  frag b = true -> shape_ok b = true -> seq_ok true b = true ->
  forall cont pcb j ob jb sg vs fs mt,
  lplaced cont None b pcb j ob jb ->
  nth_error J cont = Some pcb ->
  pcb + si (sizes None b) < length C ->
  observable mt = snd s ->
  exists junk vin' mt',
    star (St pcb sg (vin :: vs) fs (fst s) mt)
         (St (pcb + si (sizes None b)) (v :: junk ++ sg) (vin' :: vs) fs (fst s') mt') /\
    observable mt' = snd s'.

Definition SimAll (n : nat) : Prop :=
  SimEval n /\ SimItems n /\ SimChain n /\ SimApply n /\ SimBody n.

End Sim.
