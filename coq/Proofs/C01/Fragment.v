(* The fragment of the core language for which C01 is proved (stages 1-3), and
   the shape conditions the proof uses.  Everything here is a decidable
   predicate on the AST. *)
From Coq Require Import ZArith NArith List Bool Arith.
From GV Require Import Spec.Ast.
Import ListNotations.

(* operators whose machine operation is proved equal to the evaluator's primitive *)
Definition bin_supported (o : binop) : bool :=
  match o with BApply | BApplyTo => false | _ => true end.
Definition un_supported (o : unop) : bool :=
  match o with UEmptyApply => false | _ => true end.

(* `^~` occurring in e outside any nested expression body of e *)
Fixpoint has_reapply (e : expr) : bool :=
  match e with
  | ELit _ | EValue | EIdent _ | ENested _ _ => false
  | EReapply _ => true
  | EUn _ x | EGroup x => has_reapply x
  | EBin _ l r | EAnd l r | EOr l r | EList _ l r | ECond _ l r | EElse l r | ESeq _ l r | ESide l r =>
      has_reapply l || has_reapply r
  end.

(* stages 1-3: everything except nested expressions, the apply forms and `^~` *)
Fixpoint frag3 (e : expr) : bool :=
  match e with
  | ELit _ | EValue | EIdent _ => true
  | EUn o x => un_supported o && frag3 x
  | EBin o l r => bin_supported o && frag3 l && frag3 r
  | EAnd l r | EOr l r | EList _ l r | ECond _ l r | EElse l r | ESeq _ l r | ESide l r => frag3 l && frag3 r
  | EGroup x => frag3 x
  | ENested _ _ | EReapply _ => false
  end.

(* stage 4: every construct; the only exclusion is the known-finding class
   C01-K2, a `^~` that would be executed inside a side-effect block *)
Fixpoint frag (e : expr) : bool :=
  match e with
  | ELit _ | EValue | EIdent _ => true
  | EUn _ x | EGroup x | ENested _ x | EReapply x => frag x
  | ESide a s => frag a && frag s && negb (has_reapply s)
  | EBin _ l r | EAnd l r | EOr l r | EList _ l r | ECond _ l r | EElse l r | ESeq _ l r => frag l && frag r
  end.

Lemma frag3_no_reapply : forall e, frag3 e = true -> has_reapply e = false.
Proof.
  induction e; cbn; intros H; auto; try discriminate;
    repeat (apply andb_prop in H; destruct H as [H ?]);
    try rewrite IHe by assumption; try rewrite IHe1 by assumption; try rewrite IHe2 by assumption; auto.
Qed.

Lemma frag3_frag : forall e, frag3 e = true -> frag e = true.
Proof.
  induction e; cbn; intros H; auto; try discriminate;
    try (repeat (apply andb_prop in H; destruct H as [H ?]);
         try rewrite IHe by assumption; try rewrite IHe1 by assumption; try rewrite IHe2 by assumption; auto).
  rewrite (frag3_no_reapply e2) by assumption. reflexivity.
Qed.

(* a left-nested chain of conditionals: c1 ?> a1 |> c2 ?> a2 |> ... *)
Fixpoint lchain (e : expr) : bool :=
  match e with
  | ECond _ _ _ => true
  | EElse a b => lchain a && is_cond b
  | _ => false
  end.
Definition plain (e : expr) : bool := negb (is_cond e) && negb (is_else e).

(* shapes the printer never produces without an explicit group, and the
   known-finding class C01-K1 (an else-chain without a final else).
   [ic]: the node is an item or a sub-chain of an else-chain above it. *)
Fixpoint shape_okC (ic : bool) (e : expr) : bool :=
  match e with
  | ELit _ | EValue | EIdent _ => true
  | EUn _ x | EGroup x | ENested _ x | EReapply x => shape_okC false x
  | EList k l r => negb (is_list_of k r) && shape_okC false l && shape_okC false r
  | EElse l r =>
      if ic then shape_okC true l && shape_okC true r
      else lchain l && plain r && shape_okC true l && shape_okC false r
  | EBin _ l r | EAnd l r | EOr l r | ECond _ l r | ESeq _ l r | ESide l r => shape_okC false l && shape_okC false r
  end.
Notation shape_ok := (shape_okC false).

(* a sub-expression sequence stands only where a body may stand *)
Fixpoint seq_ok (body : bool) (e : expr) : bool :=
  match e with
  | ELit _ | EValue | EIdent _ => true
  | EUn _ x | EGroup x | EReapply x => seq_ok false x
  | EBin _ l r | EAnd l r | EOr l r | EList _ l r | ECond _ l r | EElse l r => seq_ok false l && seq_ok false r
  | ESeq _ l r => body && seq_ok true l && seq_ok true r
  | ESide a s => seq_ok false a && seq_ok true s
  | ENested _ b => seq_ok true b
  end.

Lemma seq_ok_false_noseq : forall e, seq_ok false e = true -> is_seq e = false.
Proof. destruct e; cbn; intros; auto; discriminate. Qed.

Lemma seq_ok_weaken : forall e, seq_ok false e = true -> seq_ok true e = true.
Proof. destruct e; cbn; intros; auto; discriminate. Qed.

(* the grammar of Spec/Ast.v implies the sequence discipline *)
Lemma wf_seq_ok : forall e b, wf b e = true -> seq_ok b e = true.
Proof.
  induction e; intros b H; cbn [seq_ok]; auto.
  - (* EBin *)
    assert (Hlr : wf false e1 = true /\ (wf false e2 = true \/ exists n, e2 = ELit (LProp n))).
    { cbn in H. destruct o;
        try (apply andb_prop in H; destruct H; split; [assumption | left; assumption]).
      destruct e2; try (apply andb_prop in H; destruct H; split; [assumption | left; assumption]); try discriminate.
      destruct l; try (apply andb_prop in H; destruct H; split; [assumption | left; assumption]).
      apply andb_prop in H; destruct H. split; [assumption | right; eauto]. }
    destruct Hlr as [H1 [H2 | [n H2]]].
    + rewrite (IHe1 _ H1), (IHe2 _ H2). reflexivity.
    + subst e2. rewrite (IHe1 _ H1). reflexivity.
  - cbn in H. apply andb_prop in H; destruct H as [H1 H2]; rewrite (IHe1 _ H1), (IHe2 _ H2); reflexivity.
  - cbn in H. apply andb_prop in H; destruct H as [H1 H2]; rewrite (IHe1 _ H1), (IHe2 _ H2); reflexivity.
  - cbn in H. apply andb_prop in H; destruct H as [H1 H2]; rewrite (IHe1 _ H1), (IHe2 _ H2); reflexivity.
  - cbn in H. apply andb_prop in H; destruct H as [H1 H2]; rewrite (IHe1 _ H1), (IHe2 _ H2); reflexivity.
  - cbn in H. repeat (apply andb_prop in H; destruct H as [H ?]). rewrite (IHe1 false), (IHe2 false); auto.
  - cbn in H. repeat (apply andb_prop in H; destruct H as [H ?]). rewrite H, (IHe1 true), (IHe2 true); auto.
  - cbn in H. repeat (apply andb_prop in H; destruct H as [H ?]). rewrite (IHe1 false), (IHe2 true); auto.
Qed.
