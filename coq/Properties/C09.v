(* C09  Number arithmetic is exact or unit, never wrapped.
   Only statements, [exact] and [Print Assumptions] live here. *)
From Coq Require Import ZArith Bool Reals Psatz List.
From Flocq Require Import Core IEEE754.BinarySingleNaN IEEE754.Binary IEEE754.Bits.
From GV Require Import Model.Num Spec.ExactArith Proofs.C09.IntArith Proofs.C09.Promote
  Proofs.C09.IntOps Proofs.C09.FloatOps Proofs.C09.Fmod Proofs.C09.FmodTrunc.
Local Open Scope Z_scope.

(* integers: every binary operation of GarnishNumber on two i32 values returns
   the exact result of Spec.ExactArith when it is a representable i32 and
   None (unit) otherwise; [powf] is an arbitrary oracle for f64::powf *)
Theorem C09_int_binop : forall powf o a b,
  in_i32 a = true -> in_i32 b = true ->
  num_binop powf o (Int a) (Int b) = spec_int_binop o a b.
Proof. exact int_binop_exact. Qed.
Print Assumptions C09_int_binop.

Theorem C09_int_unop : forall o a,
  in_i32 a = true -> num_unop o (Int a) = spec_int_unop o a.
Proof. exact int_unop_exact. Qed.
Print Assumptions C09_int_unop.

(* never wraps: an integer result is always inside the i32 range *)
Theorem C09_int_in_range : forall powf o a b z,
  in_i32 a = true -> in_i32 b = true ->
  num_binop powf o (Int a) (Int b) = Some (Int z) -> in_i32 z = true.
Proof. exact int_results_in_range. Qed.
Print Assumptions C09_int_in_range.

(* i32 -> f64 promotion is exact *)
Theorem C09_promotion_exact : forall z, in_i32 z = true ->
  B2R 53 1024 (f64_of_i32 z) = IZR z /\ is_finite 53 1024 (f64_of_i32 z) = true.
Proof. exact f64_of_i32_exact. Qed.
Print Assumptions C09_promotion_exact.

(* float and mixed + - * /: the correctly rounded binary64 result of the exact
   real value when that is finite, unit otherwise *)
Theorem C09_float_arith : forall powf o l r,
  num_ok l -> num_ok r -> has_float l r ->
  (o = ADiv -> num_real r <> 0%R) ->
  float_spec (arith4_real o (num_real l) (num_real r)) (num_binop powf (arith4_op o) l r).
Proof. exact float_arith_correct. Qed.
Print Assumptions C09_float_arith.

Theorem C09_zero_divisor : forall powf l r, num_ok r -> num_real r = 0%R ->
  num_binop powf OpDiv l r = None /\ num_binop powf OpIntDiv l r = None /\
  num_binop powf OpRem l r = None.
Proof. exact zero_divisor_none. Qed.
Print Assumptions C09_zero_divisor.

(* no operation ever returns a non-finite float as a number *)
Theorem C09_float_finite : forall powf o l r f,
  num_binop powf o l r = Some (Flt f) -> is_finite 53 1024 f = true.
Proof. exact float_results_finite. Qed.
Print Assumptions C09_float_finite.

Theorem C09_bitwise_float : forall powf o l r,
  has_float l r -> In o (OpAnd :: OpOr :: OpXor :: OpShl :: OpShr :: nil) ->
  num_binop powf o l r = None.
Proof. exact bitwise_float_none. Qed.
Print Assumptions C09_bitwise_float.

(* non-vacuity: the hypotheses are met by concrete boundary operands and the
   interesting branches are taken *)
Example C09_ex_overflow : forall powf,
  num_binop powf OpAdd (Int i32_max) (Int 1) = None /\
  num_binop powf OpRem (Int i32_min) (Int (-1)) = None /\
  num_binop powf OpDiv (Int i32_min) (Int (-1)) = None /\
  num_binop powf OpShl (Int 1) (Int 32) = None /\
  num_binop powf OpPow (Int 2) (Int 31) = None /\
  num_binop powf OpPow (Int (-2)) (Int 31) = Some (Int i32_min) /\
  num_binop powf OpDiv (Int (-7)) (Int 2) = Some (Int (-3)) /\
  num_unop OpAbs (Int i32_min) = None.
Proof. intros powf. vm_compute. repeat split; reflexivity. Qed.

(* float and mixed remainder `%` (Rust's f64 `%`, i.e. C fmod) is EXACT, never rounded and
   never unit for a non-zero divisor: the result r is finite, r = l - q * r' for an integer
   q, |r| < |divisor|, and r is zero or has the sign of the dividend (the C standard's
   definition of fmod).  [C09_remainder_spec_unique]: that definition determines r. *)
Theorem C09_float_remainder_exact : forall powf l r,
  num_ok l -> num_ok r -> has_float l r -> num_real r <> 0%R ->
  exists f, num_binop powf OpRem l r = Some (Flt f) /\ is_finite 53 1024 f = true /\
            fmod_spec (num_real l) (num_real r) (B2R 53 1024 f).
Proof. exact float_rem_exact. Qed.
Print Assumptions C09_float_remainder_exact.

Theorem C09_remainder_spec_unique : forall x y r1 r2,
  fmod_spec x y r1 -> fmod_spec x y r2 -> r1 = r2.
Proof. exact fmod_spec_unique. Qed.
Print Assumptions C09_remainder_spec_unique.

(* ... in closed form: the result is  l - trunc(l / r) * r  (Flocq's Ztrunc), computed without
   rounding *)
Theorem C09_float_remainder_is_trunc : forall powf l r,
  num_ok l -> num_ok r -> has_float l r -> num_real r <> 0%R ->
  exists f, num_binop powf OpRem l r = Some (Flt f) /\ is_finite 53 1024 f = true /\
            B2R 53 1024 f = (num_real l - IZR (Ztrunc (num_real l / num_real r)) * num_real r)%R.
Proof. exact float_rem_is_trunc. Qed.
Print Assumptions C09_float_remainder_is_trunc.

(* non-vacuity: 5.5 % 2 = 1.5, -5.5 % 2 = -1.5, 7 % 0.5 = 0, and the hypotheses hold there *)
Example C09_ex_remainder : forall powf,
  let h := f64_div (f64_of_i32 1) (f64_of_i32 2) in
  let x := f64_add (f64_of_i32 5) h in
  (match num_binop powf OpRem (Flt x) (Int 2) with
   | Some (Flt f) => b64_compare f (f64_add (f64_of_i32 1) h) | _ => None end) = Some Eq /\
  (match num_binop powf OpRem (Flt (f64_neg x)) (Int 2) with
   | Some (Flt f) => b64_compare f (f64_neg (f64_add (f64_of_i32 1) h)) | _ => None end) = Some Eq /\
  (match num_binop powf OpRem (Int 7) (Flt h) with
   | Some (Flt f) => b64_compare f (f64_of_i32 0) | _ => None end) = Some Eq /\
  num_ok (Flt x) /\ num_ok (Int 2) /\ has_float (Flt x) (Int 2) /\ num_real (Int 2) <> 0%R.
Proof. intros powf. repeat split; try (vm_compute; reflexivity); try exact I. simpl. lra. Qed.
