(* C19 proofs, part 6: optimize_data_block_and_retain. *)
From Coq Require Import NArith List Bool Arith Lia.
From GV Require Import Base.Result Model.Optimize Spec.HeapIso Proofs.C19.Base Proofs.C19.StoreLemmas
  Proofs.C19.CloneStack Proofs.C19.CreateStack Proofs.C19.CloneData.
Import ListNotations.

(* ---------------------------------------------------------------- the slide *)
Lemma slide_spec : forall n src dst l moved, dst <= src -> src + n <= length l ->
  slide n src dst l = Ok moved ->
  length moved = length l /\
  (forall k, k < dst -> nth_error moved k = nth_error l k) /\
  (forall k, k < n -> nth_error moved (dst + k) = nth_error l (src + k)) /\
  (forall k, dst + n <= k -> nth_error moved k = nth_error l k).
Proof.
  induction n as [|n IH]; intros src dst l moved Hds Hlen H; cbn [slide] in H.
  - inversion H; subst. repeat split; auto. intros; lia.
  - destruct (nth_error l src) as [c|] eqn:Ec; try discriminate H.
    destruct (dst <? length l) eqn:Ed; try discriminate H. apply Nat.ltb_lt in Ed.
    apply IH in H; [|lia|rewrite set_nth_length; lia].
    destruct H as [Hl [H1 [H2 H3]]]. rewrite set_nth_length in Hl.
    split; [exact Hl|]. split; [|split].
    + intros k Hk. rewrite H1 by lia. apply nth_set_nth_neq. lia.
    + intros [|k] Hk.
      * rewrite Nat.add_0_r. rewrite H1 by lia. rewrite nth_set_nth_eq by exact Ed.
        rewrite Nat.add_0_r. symmetry. exact Ec.
      * replace (dst + S k) with (S dst + k) by lia. rewrite H2 by lia.
        replace (src + S k) with (S src + k) by lia. apply nth_set_nth_neq. lia.
    + intros k Hk. rewrite H3 by lia. apply nth_set_nth_neq. lia.
Qed.

(* after the slide the block is the view the copies were made for *)
Lemma slide_is_view : forall l c0 r moved, r <= c0 -> c0 <= length l ->
  slide (length l - c0) c0 r l = Ok moved ->
  firstn (r + (length l - c0)) moved = lview c0 (c0 - r) l.
Proof.
  intros l c0 r moved Hr Hc H.
  apply slide_spec in H; [|exact Hr|lia]. destruct H as [Hl [H1 [H2 H3]]].
  apply nth_error_ext_eq. intro k. unfold lview. replace (c0 - (c0 - r)) with r by lia.
  destruct (Nat.lt_ge_cases k (r + (length l - c0))) as [Hlt|Hge].
  - rewrite nth_error_firstn_lt by exact Hlt.
    destruct (Nat.lt_ge_cases k r) as [Hk|Hk].
    + rewrite H1 by exact Hk. rewrite nth_error_app1 by (rewrite firstn_length; lia).
      symmetry. apply nth_error_firstn_lt. exact Hk.
    + rewrite nth_error_app2 by (rewrite firstn_length; lia). rewrite firstn_length.
      replace (Nat.min r (length l)) with r by lia. rewrite nth_error_skipn'.
      replace k with (r + (k - r)) at 1 by lia. rewrite H2 by lia. reflexivity.
  - rewrite (proj2 (nth_error_None _ k)) by (rewrite firstn_length; lia).
    symmetry. apply nth_error_None. rewrite app_length, firstn_length, skipn_length. lia.
Qed.

(* ---------------------------------------------------------------- small monadic helpers *)
Lemma map_res_nth : forall (A B : Type) (f : A -> res B) l l', map_res f l = Ok l' ->
  length l' = length l /\ forall i a, nth_error l i = Some a -> exists b, nth_error l' i = Some b /\ f a = Ok b.
Proof.
  intros A B f. induction l as [|x l IH]; intros l' H; cbn in H.
  - inversion H; subst. split; auto. intros [|i] a Hn; discriminate.
  - bind_as H b. bind_as H r. inversion H; subst. destruct (IH r eq_refl) as [Hl Hn].
    split; [cbn; lia|]. intros [|i] a Ha; cbn in *.
    + inversion Ha; subst. eauto.
    + apply Hn. exact Ha.
Qed.

Lemma map_opt_some : forall f o r, map_opt f o = Ok r ->
  match o with None => r = None | Some x => exists y, r = Some y /\ f x = Ok y end.
Proof.
  intros f [x|] r H; cbn in H.
  - bind_as H y. inversion H; subst. eauto.
  - inversion H. reflexivity.
Qed.

(* what is read at [a] in [s] is read at [a'] in [s'] *)
Definition Maps (s s' : store) (a a' : nat) : Prop :=
  forall t, Reads (cells s) a t -> Reads (cells s') a' t.

Definition head_preserved (s s' : store) (h h' : option nat) : Prop :=
  match h with
  | None => h' = None
  | Some a => exists a', h' = Some a' /\ Maps s s' a a'
  end.

(* the retained prefix is closed: what is read below the retention count is read inside the prefix
   (no value straddles the boundary, no retained cell points above it) *)
Definition closed_prefix (s : store) : Prop :=
  forall idx t, idx < retention s -> Reads (cells s) idx t -> Reads (firstn (retention s) (cells s)) idx t.

Theorem optimize_correct : forall s roots s' m, optimize s roots = Ok (s', m) ->
  retention s <= length (cells s) -> closed_prefix s ->
  (* extra roots: the returned mapping *)
  length m = length roots /\
  (forall i r, nth_error roots i = Some r -> exists r', nth_error m i = Some r' /\ Maps s s' r r') /\
  (* the three stacks *)
  head_preserved s s' (cur_register s) (cur_register s') /\
  head_preserved s s' (cur_value s) (cur_value s') /\
  head_preserved s s' (cur_frame s) (cur_frame s') /\
  (* the symbol table: same symbols in the same order, names preserved *)
  length (symtab s') = length (symtab s) /\
  (forall i sym idx, nth_error (symtab s) i = Some (sym, idx) ->
     exists idx', nth_error (symtab s') i = Some (sym, idx') /\ Maps s s' idx idx') /\
  (* the retained prefix *)
  retention s' = retention s /\
  firstn (retention s) (cells s') = firstn (retention s) (cells s) /\
  (forall b, b < retention s -> Maps s s' b b).
Proof.
  intros s roots s' m H Hretlen Hclosed. unfold optimize in H.
  bind_as H s1. bind_as H s2. bind_as H s3. bind_as H s4. bind_as H s5.
  assert (Hci : ext_ci s s5).
  { eapply ext_ci_trans; [eapply create_stacks_ci; eauto|].
    eapply ext_ci_trans; [eapply create_stacks_ci; eauto|].
    eapply ext_ci_trans; [eapply create_stacks_ci; eauto|].
    eapply ext_ci_trans; [eapply create_stacks_ci; eauto|]. eapply create_stacks_ci; eauto. }
  clear E E0 E1 E2 E3 s1 s2 s3 s4.
  pose proof (ext_ci_ext _ _ Hci) as Hext. pose proof (ext_length _ _ Hext) as Hlen5.
  pose proof Hci as [Hmeta5 _]. unfold same_meta in Hmeta5.
  destruct Hmeta5 as (Hr5 & Hd5 & Hsy5 & Hv5 & Hrg5 & Hf5 & _ & _).
  unfold cursor in H. rewrite Hd5 in H.
  destruct (dstart s + length (cells s5) <? dstart s + retention s) eqn:Epanic; [discriminate H|].
  apply Nat.ltb_ge in Epanic.
  set (c0 := length (cells s5)) in *. set (ret := retention s) in *. set (ils := length (cells s)) in *.
  set (off := dstart s + c0 - (dstart s + ret)) in *.
  assert (Hoff : off = c0 - ret) by (unfold off; lia).
  assert (Hretc0 : ret <= c0) by lia.
  bind_as H s6.
  (* the state after the copy loop *)
  assert (Hret5 : forall idx t, idx < retention s5 -> Reads (cells s5) idx t ->
                                Reads (firstn (length (cells s5) - off) (cells s5)) idx t).
  { intros idx t Hi Ht. rewrite Hr5 in Hi. fold c0. replace (c0 - off) with ret by lia.
    apply (Reads_drop_ci _ _ _ _ Hci) in Ht. apply Hclosed in Ht; [|exact Hi]. fold ret in Ht.
    eapply Reads_agree; eauto. intros k c Hk _. apply nth_error_firstn_some in Hk. destruct Hk as [Hlt Hk].
    rewrite nth_error_firstn_lt by exact Hlt. eapply ext_nth; eauto. }
  assert (HI : Inv (cells s5) c0 off ret (dstart s) s5 ils s6 /\ ils <= c0).
  { destruct (dstart s + c0 =? dstart s + ils) eqn:Eeq.
    - apply Nat.eqb_eq in Eeq. inversion E; subst s6. split; [|lia].
      replace ils with c0 by lia. split; [|split; [apply same_meta_refl|split]].
      + unfold Base. repeat split; auto. apply agree_refl. intros; lia.
      + intros; reflexivity.
      + intros; lia.
    - bind_as E pr. destruct pr as [sx ax]. inversion E; subst sx. clear E.
      apply clone_index_stack_inv in E0; auto.
      + destruct E0 as [HI [Hlt _]]. fold c0 in HI, Hlt. rewrite Hr5, Hd5 in HI. split; [exact HI|lia].
      + fold c0. lia.
      + right. rewrite Hr5. fold c0. lia. }
  clear E. destruct HI as [HI Hils]. pose proof HI as (HB & HM6 & Hun & Hmp).
  pose proof HB as (Hr6 & Hd6 & Hlen6 & Hag6 & Hm6).
  unfold same_meta in HM6. destruct HM6 as (_ & _ & Hsy6 & _ & _ & _ & _ & _).
  rewrite Hd6, Hr6 in H. unfold cursor in H.
  (* every final lookup yields a faithful copy in the view *)
  assert (Hlk : forall x x', lookup s6 (dstart s + ils) (dstart s + c0) x = Ok x' ->
                forall t, Reads (cells s) x t -> Reads (lview c0 off (cells s6)) x' t).
  { intros x x' Hx t Ht.
    eapply (lookup_good (cells s5) c0 off ret (dstart s) eq_refl ltac:(lia) ltac:(right; lia)) in Hx; eauto.
    - apply Hx. eapply Reads_agree; eauto. eapply ext_agree; eauto.
    - intros idx t0 Hi Ht0. apply Hret5; auto. rewrite Hr5. exact Hi. }
  bind_as H syms. bind_as H r'. bind_as H v'. bind_as H f'. bind_as H mapped.
  bind_as H moved.
  destruct (dstart s + ret + (dstart s + length (cells s6) - (dstart s + c0)) <? dstart s) eqn:Ep2; [discriminate H|].
  inversion H; subst s' m. clear H. cbn [cells with_cells with_heads with_symtab retention cur_register cur_value cur_frame symtab].
  (* the final block is the view *)
  assert (Hcells : firstn (dstart s + ret + (dstart s + length (cells s6) - (dstart s + c0)) - dstart s) moved
                   = lview c0 off (cells s6)).
  { replace (dstart s + length (cells s6) - (dstart s + c0)) with (length (cells s6) - c0) in * by lia.
    replace (dstart s + c0 - dstart s) with c0 in E4 by lia.
    replace (dstart s + ret + (length (cells s6) - c0) - dstart s) with (ret + (length (cells s6) - c0)) by lia.
    rewrite Hoff. apply slide_is_view; auto. }
  rewrite Hcells.
  assert (HM : forall x x', lookup s6 (dstart s + ils) (dstart s + c0) x = Ok x' ->
               forall t, Reads (cells s) x t -> Reads (lview c0 off (cells s6)) x' t) by exact Hlk.
  split; [|split; [|split; [|split; [|split; [|split; [|split; [|split; [|split]]]]]]]].
  - apply map_res_nth in E3. tauto.
  - intros i r Hr. apply map_res_nth in E3. destruct E3 as [_ Hn]. destruct (Hn i r Hr) as [b [Hb Hf]].
    exists b. split; auto. intros t Ht. eapply HM; eauto.
  - apply map_opt_some in E0. unfold head_preserved. destruct (cur_register s) as [a|]; auto.
    destruct E0 as [y [-> Hy]]. exists y. split; auto. intros t Ht. eapply HM; eauto.
  - apply map_opt_some in E1. unfold head_preserved. destruct (cur_value s) as [a|]; auto.
    destruct E1 as [y [-> Hy]]. exists y. split; auto. intros t Ht. eapply HM; eauto.
  - apply map_opt_some in E2. unfold head_preserved. destruct (cur_frame s) as [a|]; auto.
    destruct E2 as [y [-> Hy]]. exists y. split; auto. intros t Ht. eapply HM; eauto.
  - apply map_res_nth in E. destruct E as [Hl _]. rewrite Hl, Hsy6, Hsy5. reflexivity.
  - intros i sym idx Hn. apply map_res_nth in E. destruct E as [_ Hnth].
    rewrite Hsy6, Hsy5 in Hnth. destruct (Hnth i (sym, idx) Hn) as [b [Hb Hf]].
    cbn [fst snd] in Hf. bind_as Hf mi. inversion Hf; subst b.
    exists mi. split; auto. intros t Ht. eapply HM; eauto.
  - exact Hr6.
  - unfold lview. replace (c0 - off) with ret by lia.
    rewrite firstn_app. rewrite firstn_firstn. replace (Nat.min ret ret) with ret by lia.
    rewrite firstn_length. replace (ret - Nat.min ret (length (cells s6))) with 0 by lia.
    cbn. rewrite app_nil_r.
    apply nth_error_ext_eq. intro k. destruct (Nat.lt_ge_cases k ret) as [Hk|Hk].
    + rewrite !nth_error_firstn_lt by exact Hk. rewrite Hun by lia. eapply ext_nth_lt; eauto. lia.
    + rewrite (proj2 (nth_error_None _ k)) by (rewrite firstn_length; lia).
      symmetry. apply nth_error_None. rewrite firstn_length. lia.
  - intros b Hb t Ht.
    eapply (Good_retained (cells s5) c0 off ret (dstart s) eq_refl ltac:(lia) ltac:(right; lia)); eauto.
    + intros idx t0 Hi Ht0. apply Hret5; auto. rewrite Hr5. exact Hi.
    + eapply Reads_agree; eauto. eapply ext_agree; eauto.
Qed.
