(* Decimal fraction literals: digits '.' digits is read as the decimal number
   (mantissa = all the digits, exponent = minus the number of fraction digits)
   and handed to the correctly rounded conversion. *)
From Coq Require Import ZArith NArith List Bool Lia.
From Flocq Require Import IEEE754.Binary IEEE754.Bits.
From GV Require Import Base.Result Model.Num Model.Literals Spec.LitDenote
  Proofs.C14.StrLemmas Proofs.C14.Digits Proofs.C14.ByteList.
Import ListNotations.
Local Open Scope N_scope.

Lemma dec_digit_step : forall c acc, is_digit_of 10 c = true ->
  is_dec_digit c = true /\ radix_step 10 acc c = acc * 10 + (c - 48).
Proof.
  intros c acc H. pose proof (dec_digit_range c H) as [Hlo Hhi].
  assert (Hd : (48 <=? c) && (c <=? 57) = true) by (apply andb_true_iff; split; apply N.leb_le; lia).
  split; [exact Hd|]. unfold radix_step, digit_value. rewrite Hd. reflexivity.
Qed.

Lemma take_digits_app : forall ds rest acc n,
  forallb (is_digit_of 10) ds = true ->
  (match rest with c :: _ => is_dec_digit c = false | [] => True end) ->
  take_digits (ds ++ rest) acc n = (fold_left (radix_step 10) ds acc, n + N.of_nat (length ds), rest).
Proof.
  induction ds as [|c ds IH]; intros rest acc n Hd Hr.
  - cbn [app fold_left length]. rewrite N.add_0_r. destruct rest as [|c r]; [reflexivity|].
    cbn [take_digits]. rewrite Hr. reflexivity.
  - cbn [forallb] in Hd. apply andb_true_iff in Hd as [Hc Hs].
    destruct (dec_digit_step c acc Hc) as [Hdd Hstep].
    cbn [app take_digits fold_left length]. rewrite Hdd, <- Hstep.
    rewrite (IH rest _ (n + 1) Hs Hr). f_equal. f_equal. lia.
Qed.

Lemma digits_acc_stops : forall R ds c r acc, forallb (is_digit_of R) ds = true ->
  to_digit R c = None -> digits_acc R (ds ++ c :: r) acc = None.
Proof.
  intros R ds. induction ds as [|d ds IH]; intros c r acc Hd Hc.
  - cbn [app digits_acc]. rewrite Hc. reflexivity.
  - cbn [forallb] in Hd. apply andb_true_iff in Hd as [Hd1 Hs].
    destruct (is_digit_of_inv R d Hd1) as [v [Hv Hlt]].
    cbn [app digits_acc]. rewrite to_digit_spec, Hv. apply N.ltb_lt in Hlt. rewrite Hlt. apply IH; assumption.
Qed.

Theorem float_literal_value : forall ip fp,
  valid_digits 10 ip = true -> forallb (is_digit_of 10) fp = true ->
  parse_simple_number parse_f64 (ip ++ 46 :: fp) =
  Ok (Flt (f64_of_decimal false (radix_value 10 (ip ++ fp)) (- Z.of_nat (length fp)))).
Proof.
  intros ip fp Hip Hfp. destruct (valid_digits_inv 10 ip Hip) as [c [t [Heq [Hc Hall]]]].
  pose proof (dec_digit_range c Hc) as [Hlo Hhi].
  assert (Hnous : forallb (fun x => negb (x =? ch_us)) (ip ++ 46 :: fp) = true).
  { rewrite forallb_app. apply andb_true_iff. split; [exact (digits_no_us 10 ip Hall)|].
    cbn [forallb]. apply andb_true_iff. split; [reflexivity | exact (digits_no_us 10 fp Hfp)]. }
  unfold parse_simple_number, parse_number_internal.
  rewrite (split_at_first_none ch_us _ Hnous). cbn [bind].
  rewrite remove_char_filter. rewrite (filter_id _ _ Hnous).
  (* not an integer: from_str_radix stops at the point *)
  assert (Hint : i32_from_str_radix (ip ++ 46 :: fp) 10 = None).
  { rewrite Heq. cbn [app]. unfold i32_from_str_radix.
    replace (c =? ch_plus) with false by (symmetry; apply N.eqb_neq; unfold ch_plus; lia).
    replace (c =? ch_minus) with false by (symmetry; apply N.eqb_neq; unfold ch_minus; lia).
    cbn [orb]. change (c :: t ++ 46 :: fp) with ((c :: t) ++ 46 :: fp). rewrite <- Heq.
    rewrite (digits_acc_stops 10 ip 46 fp 0 Hall); reflexivity. }
  rewrite Hint. change (10 =? 10) with true. cbv iota.
  (* the float grammar *)
  assert (Hpf : parse_f64 (ip ++ 46 :: fp) =
                Some (f64_of_decimal false (radix_value 10 (ip ++ fp)) (- Z.of_nat (length fp)))).
  { unfold parse_f64. rewrite Heq. cbn [app].
    replace (c =? ch_minus) with false by (symmetry; apply N.eqb_neq; unfold ch_minus; lia).
    replace (c =? ch_plus) with false by (symmetry; apply N.eqb_neq; unfold ch_plus; lia).
    change (c :: t ++ 46 :: fp) with ((c :: t) ++ 46 :: fp).
    change (c :: t ++ fp) with ((c :: t) ++ fp). rewrite <- Heq.
    unfold parse_decimal.
    rewrite (take_digits_app ip (46 :: fp) 0 0 Hall) by reflexivity.
    change (46 =? 46) with true. cbv iota.
    rewrite <- (app_nil_r fp) at 1. rewrite (take_digits_app fp [] _ 0 Hfp I).
    assert (Hlen : (1 <= length ip)%nat) by (rewrite Heq; cbn [length]; lia).
    replace (0 + N.of_nat (length ip) + (0 + N.of_nat (length fp)) =? 0) with false
      by (symmetry; apply N.eqb_neq; lia).
    unfold radix_value. rewrite fold_left_app. rewrite N.add_0_l, nat_N_Z. reflexivity. }
  rewrite Hpf. reflexivity.
Qed.
