#!/bin/sh
# every harmless refactoring against the checks of its area, in the isolated snapshot (ISO_TAG)
cd /verif
for d in refactors/*/; do
  n=$(basename $d)
  case $n in
    runtime*|rt2*) ids="C01 C06 C07 C08 C10 C11 C12 C16 C17";;
    lexnum*|lex2*) ids="C01 C03 C07 C09 C12 C13 C14";;
    parse*|pb2*) ids="C01 C02 C03 C04 C05 C06 C18 C20";;
    *) ids="C01 C07 C11 C15 C16 C19";;
  esac
  out=$(timeout 9000 python3 tools/seedtest.py --iso refactors/$n $ids 2>&1 | grep -E "DETECTED|refus|rror" | cut -c1-160 | tr '\n' ' ')
  echo "$n alarms: $out" >> /verif/build/sweeps/refactor_regress.log
done
echo done >> /verif/build/sweeps/refactor_regress.log
