(* C05  Built instruction streams are well-formed.
   Only statements, [exact] and [Print Assumptions] live here. *)
From Coq Require Import List Arith Bool NArith.
From GV Require Import Base.Result Gen.TokenTypes Gen.Defs Gen.Instr Model.Parser Model.BuilderWL Model.Compile
  Spec.WfCode Proofs.C05.Known Proofs.C05.WfSound Proofs.C05.Bounded Proofs.C05.Refuted Proofs.C05.Operands Proofs.C05.Jumps Proofs.C05.Bodies Proofs.C05.Bounded7.
From GV Require Import Proofs.C05.Statements Proofs.Builder.Transport.
Import ListNotations.

(* the executable checker (run natively on every real instruction stream by the
   check, and by vm_compute in the bounded theorems) decides the proposition *)
Theorem C05_checker_decides : forall nodes init c,
  wf_code_b nodes init c = true <-> wf_code nodes init c.
Proof. exact wf_code_b_iff. Qed.
Print Assumptions C05_checker_decides.

(* every token triple (all 73^3) accepted by the parser and builder models
   builds to well-formed code -- into an empty data object, after a program
   ending in EndExpression, after a program ending in JumpTo (the alternative
   in the statement, class C05-K2, is not produced by the parser) *)
Theorem C05_triples_bounded_3 : forall a b c init, In init inits ->
  build_wf_or_known [a; b; c] init.
Proof. exact C05_triples_bounded_3_proof. Qed.
Print Assumptions C05_triples_bounded_3.

(* the same for every token sequence of length <= 5 over the reduced alphabet *)
Theorem C05_reduced_bounded_5 : forall toks init,
  length toks <= 5 -> (forall x, In x toks -> In x reduced_alphabet) -> In init inits ->
  build_wf_or_known toks init.
Proof. exact C05_reduced_bounded_5_proof. Qed.
Print Assumptions C05_reduced_bounded_5.

(* on the same inputs the structurally recursive compiler of Model/Compile.v
   (what the inductive proofs go over) and the worklist transliteration of
   build() (what is diffed against the Rust on every run) produce the same
   instructions, jump table, metadata and entry, or fail in the same class *)
Theorem C05_compile_agrees_bounded_3 : forall a b c init, In init inits -> compile_agrees [a; b; c] init.
Proof. exact C05_compile_agrees_bounded_3_proof. Qed.
Print Assumptions C05_compile_agrees_bounded_3.

Theorem C05_compile_agrees_bounded_5 : forall toks init,
  length toks <= 5 -> (forall x, In x toks -> In x reduced_alphabet) -> In init inits ->
  compile_agrees toks init.
Proof. exact C05_compile_agrees_bounded_5_proof. Qed.
Print Assumptions C05_compile_agrees_bounded_5.

(* ... and for every token sequence of length 7 over the ten-token small
   alphabet (numbers, +, groups, nested expressions, ?>, |>, &&, ^~) *)
Theorem C05_small_bounded_7 : forall toks init,
  length toks = 7 -> (forall x, In x toks -> In x small_alphabet) -> In init inits ->
  build_wf_or_known toks init /\ compile_agrees toks init.
Proof. exact C05_small_bounded_7_proof. Qed.
Print Assumptions C05_small_bounded_7.

(* the exclusion is necessary: a member of the class whose build is not well-formed *)
(* regression: the two shapes of the former finding C05-K1 / C20-K1 (a body that
   compiles to nothing; repaired in build.rs, commit b7aaffe) now build well-formed code *)
Theorem C05_K1_repaired :
  parse k1_tokens = Ok k1_p /\
  build (snd k1_p) empty_init lit_all (build_fuel (snd k1_p)) (fst k1_p) = Ok k1_r /\
  instrs (fst k1_r) = [(I_Put, OExpr 1); (I_EndExpression, ONone); (I_EndExpression, ONone)] /\
  jumps (fst k1_r) = [0; 2] /\
  wf_code_b (snd k1_p) empty_init (code_of_build k1_r) = true.
Proof. exact k1_fixed. Qed.
Print Assumptions C05_K1_repaired.

Theorem C05_K1_shared_repaired :
  parse k1b_tokens = Ok k1b_p /\
  build (snd k1b_p) k1b_init lit_all (build_fuel (snd k1b_p)) (fst k1b_p) = Ok k1b_r /\
  instrs (fst k1b_r) = [(I_EndExpression, ONone)] /\ jumps (fst k1b_r) = [2] /\
  wf_code_b (snd k1b_p) k1b_init (code_of_build k1b_r) = true.
Proof. exact k1b_fixed. Qed.
Print Assumptions C05_K1_shared_repaired.

Theorem C05_K2_refuted :
  exists t r,
    tree_of k2_nodes 0 = Some t /\ Known_C05_K2 t /\
    build k2_nodes empty_init lit_all (build_fuel k2_nodes) 0 = Ok r /\
    nth_error (jumps (fst r)) 1 = Some 0 /\
    ~ wf_code k2_nodes empty_init (code_of_build r).
Proof. exact K2_refuted. Qed.
Print Assumptions C05_K2_refuted.

(* inductive, for EVERY proper tree and EVERY initial state of the data object
   (no exclusion): the code the tree compiler produces satisfies the operand
   clause (every instruction has the operand kind the runtime expects; Put /
   Resolve name constants made from literal / identifier nodes; every jump
   operand and expression value names a jump entry of this build) and the
   metadata clause (one record per instruction, naming an existing node) *)
Theorem C05_operands_meta_all_trees : forall nodes root t init lit r,
  tree_of nodes root = Some t ->
  compile init lit t = Ok r ->
  operands_wf nodes init (code_of_compile r) /\ meta_wf nodes (code_of_compile r).
Proof. exact C05_operands_meta_all_trees_proof. Qed.
Print Assumptions C05_operands_meta_all_trees.

(* the full statement: for every node array that is a proper tree below its
   root and every initial state of the data object, outside class C05-K2,
   a successful build by the tree compiler is well-formed *)
Definition C05_full_statement : Prop :=
  forall nodes root t init lit r,
    tree_of nodes root = Some t ->
    ~ Known_C05_K2 t ->
    compile init lit t = Ok r ->
    wf_code nodes init (code_of_compile r).

(* ... proved by induction on the tree with the pending-bodies invariant
   (Proofs/C05/Operands.v, Jumps.v, Bodies.v): every placeholder pushed is owned
   by a body on root_stack or an arm registered with an else-chain head, every
   such body is emitted and patches it, every body that is emitted adds at
   least one instruction and ends in a terminator *)
Theorem C05_full : C05_full_statement.
Proof. exact C05_full_proof. Qed.
Print Assumptions C05_full.

(* ---- the tree compiler IS the builder, for every node array ---- *)
(* For EVERY node array [nodes] and root that form a proper tree
   ([tree_of nodes root = Some t]: every link in range, every node reached once
   -- what the parser's validate_tree enforces), every initial state of the data
   object, every literal oracle and every amount of fuel: if the worklist model
   of build() (Model/BuilderWL.v, the transliteration that is diffed against the
   Rust on every run) succeeds, the structurally recursive tree compiler
   (Model/Compile.v) succeeds with exactly the same instructions, metadata, jump
   table and entry.  By induction on the tree: one iteration of the node loop is
   one visit of a node, draining a subtree emits its inline code and registers
   its bodies and arms (Proofs/Builder/DrainSim.v), the root loop emits the
   bodies LIFO (Proofs/Builder/RootsSim.v). *)
Theorem compile_agrees_full : forall nodes root t init lit fuel r,
  tree_of nodes root = Some t ->
  build nodes init lit fuel root = Ok r ->
  compile init lit t = Ok (mkC (instrs (fst r)) (meta (fst r)) (jumps (fst r)), snd r).
Proof. exact compile_agrees_full_proof. Qed.
Print Assumptions compile_agrees_full.

(* ... in the vocabulary of the bounded agreement theorems above *)
Theorem C05_compile_same_code_full : forall nodes root t init lit fuel r,
  tree_of nodes root = Some t -> build nodes init lit fuel root = Ok r ->
  exists c, compile init lit t = Ok c /\ same_code c r = true.
Proof. exact compile_same_code_proof. Qed.
Print Assumptions C05_compile_same_code_full.

(* C05_full and C05_operands_meta_all_trees, directly on BuilderWL.build *)
Theorem C05_full_builder : forall nodes root t init lit fuel r,
  tree_of nodes root = Some t -> ~ Known_C05_K2 t ->
  build nodes init lit fuel root = Ok r -> wf_code nodes init (code_of_build r).
Proof. exact C05_full_builder_proof. Qed.
Print Assumptions C05_full_builder.

Theorem C05_operands_meta_builder : forall nodes root t init lit fuel r,
  tree_of nodes root = Some t -> build nodes init lit fuel root = Ok r ->
  operands_wf nodes init (code_of_build r) /\ meta_wf nodes (code_of_build r).
Proof. exact C05_operands_meta_builder_proof. Qed.
Print Assumptions C05_operands_meta_builder.

(* ---- ... and every node array the parser accepts is a proper tree ---- *)
(* the parser's own final check, validate_tree (depth-first walk with visited
   flags and parent check), accepts only node arrays whose links below the root
   form a proper tree; so what parse returns is the empty program or a proper tree *)
Theorem C05_validate_tree_of : forall nodes root,
  validate_tree nodes root = Ok tt -> exists t, tree_of nodes root = Some t.
Proof. exact validate_tree_of_proof. Qed.
Print Assumptions C05_validate_tree_of.

Theorem C05_parse_tree_of : forall toks root nodes,
  parse toks = Ok (root, nodes) -> nodes = [] \/ exists t, tree_of nodes root = Some t.
Proof. exact parse_tree_of_proof. Qed.
Print Assumptions C05_parse_tree_of.

(* for EVERY token sequence the parser model accepts (no bound): the builder model's
   result is the tree compiler's, and outside C05-K2 it is well-formed *)
Theorem compile_agrees_parsed : forall toks root nodes,
  parse toks = Ok (root, nodes) -> nodes <> [] ->
  exists t, tree_of nodes root = Some t /\
    forall init lit fuel r, build nodes init lit fuel root = Ok r ->
      compile init lit t = Ok (mkC (instrs (fst r)) (meta (fst r)) (jumps (fst r)), snd r).
Proof. exact compile_agrees_parsed_proof. Qed.
Print Assumptions compile_agrees_parsed.

Theorem C05_full_parsed : forall toks root nodes,
  parse toks = Ok (root, nodes) -> nodes <> [] ->
  exists t, tree_of nodes root = Some t /\
    forall init lit fuel r, ~ Known_C05_K2 t ->
      build nodes init lit fuel root = Ok r -> wf_code nodes init (code_of_build r).
Proof. exact C05_full_parsed_proof. Qed.
Print Assumptions C05_full_parsed.

(* non-vacuity: a program with a conditional, a logical operator and a nested
   expression is accepted, is in no excluded class, and is well-formed *)
Example C05_ex_nontrivial :
  let toks := [TT_Number; TT_JumpIfTrue; TT_StartExpression; TT_Identifier; TT_And; TT_Number; TT_EndExpression;
               TT_ElseJump; TT_Number] in
  match parse toks with
  | Ok (root, nodes) =>
    match tree_of nodes root, build nodes empty_init lit_all (build_fuel nodes) root with
    | Some t, Ok r =>
      wf_code_b nodes empty_init (code_of_build r) = true /\ drops_arms t = false /\
      length (jumps (fst r)) = 6
    | _, _ => False
    end
  | _ => False
  end.
Proof. vm_compute. repeat split; reflexivity. Qed.

(* ---- class C05-K2 is empty on the operator fragment (unbounded) ---- *)
From GV Require Spec.RefTable Spec.Pratt.
From GV Require Import Proofs.C06.OperatorBalanced Proofs.C05.OperatorNoK2.

(* 1. On reference trees.  For EVERY token list on which the reference precedence-climbing
   parser of C02 (Spec/Pratt.v over the pinned table Spec/RefTable.v) is defined -- every
   operator expression of any length and bracket depth: values, prefix / suffix / binary
   operators of every rank, conditionals and else-chains, && / ||, apply forms, comma and
   space lists, ( ) and { } brackets, the `;` separator, whitespace -- the reference tree
   keeps the climbing invariant [leftok]: whenever the left operand of a binary node is
   itself a binary node, its rank is <= the node's rank (an operator taken later binds no
   tighter than the root of what it extends; a bracketed operand is an RGroup node). *)
Theorem C05_reference_left_rank_monotone : forall toks rt,
  Pratt.pratt toks = Some rt -> leftok rt = true.
Proof. exact pratt_left_rank_monotone. Qed.
Print Assumptions C05_reference_left_rank_monotone.

(* ... hence, ?> !> (rank 700) and |> (800) being looser than && (410) and || (430), no
   And / Or node of a reference tree has a conditional, or an else-chain with a conditional
   arm, as its DIRECT left child ([r_drops_arms] is Known.drops_arms read on reference
   trees: `a ?> b && c` is `a ?> (b && c)`, and in `(a ?> b) && c` a Group node sits between) *)
Theorem C05_reference_no_K2 : forall toks rt,
  Pratt.pratt toks = Some rt -> r_drops_arms rt = false.
Proof. exact pratt_no_K2_reference. Qed.
Print Assumptions C05_reference_no_K2.

(* 2. On the parser's tree: whatever the parser model links for such a token list is not in
   class C05-K2 (C02_full / Proofs/Builder/PrattBridge.v: the parser's tree is the image of
   the reference tree) *)
Theorem C05_operator_expressions_not_K2 : forall toks rt root nodes t,
  Pratt.pratt toks = Some rt -> parse toks = Ok (root, nodes) -> tree_of nodes root = Some t ->
  ~ Known_C05_K2 t.
Proof. exact pratt_parse_no_K2. Qed.
Print Assumptions C05_operator_expressions_not_K2.

(* 3. C05_full_parsed WITHOUT the exclusion on the operator fragment: the token list is
   accepted, its node array is a proper tree outside C05-K2, and every successful build --
   any initial state of the data object, literal oracle and fuel -- is well-formed *)
Theorem C05_full_operator_expressions : forall toks rt, Pratt.pratt toks = Some rt ->
  exists root nodes t,
    parse toks = Ok (root, nodes) /\ nodes <> [] /\ tree_of nodes root = Some t /\ ~ Known_C05_K2 t /\
    forall init lit fuel r, build nodes init lit fuel root = Ok r -> wf_code nodes init (code_of_build r).
Proof. exact C05_full_operator_expressions_proof. Qed.
Print Assumptions C05_full_operator_expressions.

(* non-vacuity: on `a ?> b + 1 |> c !> d * 2 |> (e ?> f) && g || h` (23 tokens: a two-arm
   else-chain whose last arm is `(e ?> f) && g || h`, i.e. a bracketed conditional as left
   operand of && -- the nearest the source text gets to C05-K2) the reference parser is
   defined, its tree has an And node whose left child is a Group, [r_drops_arms] and
   [drops_arms] are false, and the build is well-formed with 10 jump entries *)
Example C05_ex_operator_expression :
  let toks := [TT_Identifier; TT_JumpIfTrue; TT_Identifier; TT_PlusSign; TT_Number; TT_ElseJump;
               TT_Identifier; TT_JumpIfFalse; TT_Identifier; TT_MultiplicationSign; TT_Number; TT_ElseJump;
               TT_StartGroup; TT_Identifier; TT_JumpIfTrue; TT_Identifier; TT_EndGroup; TT_Whitespace; TT_And;
               TT_Whitespace; TT_Identifier; TT_Or; TT_Identifier] in
  match Pratt.pratt toks with
  | Some rt =>
    r_drops_arms rt = false /\ leftok rt = true /\
    match parse toks with
    | Ok (root, nodes) =>
      match tree_of nodes root, build nodes empty_init lit_all (build_fuel nodes) root with
      | Some t, Ok r =>
        drops_arms t = false /\ wf_code_b nodes empty_init (code_of_build r) = true /\
        length (jumps (fst r)) = 10
      | _, _ => False
      end
    | _ => False
    end
  | None => False
  end.
Proof. vm_compute. repeat split; reflexivity. Qed.

(* ... and the precedence reading: `a ?> b && c` is `a ?> (b && c)`, `a && b ?> c` is
   `(a && b) ?> c`; only explicit brackets put a conditional to the left of && *)
Example C05_ex_conditional_binds_looser :
  Pratt.pratt [TT_Identifier; TT_JumpIfTrue; TT_Identifier; TT_And; TT_Identifier] =
    Some (Pratt.RBin D_JumpIfTrue (Some 1) (Pratt.RAtom D_Identifier 0)
            (Pratt.RBin D_And (Some 3) (Pratt.RAtom D_Identifier 2) (Pratt.RAtom D_Identifier 4))) /\
  Pratt.pratt [TT_Identifier; TT_And; TT_Identifier; TT_JumpIfTrue; TT_Identifier] =
    Some (Pratt.RBin D_JumpIfTrue (Some 3)
            (Pratt.RBin D_And (Some 1) (Pratt.RAtom D_Identifier 0) (Pratt.RAtom D_Identifier 2))
            (Pratt.RAtom D_Identifier 4)) /\
  r_drops_arms (Pratt.RBin D_And (Some 3)
                  (Pratt.RBin D_JumpIfTrue (Some 1) (Pratt.RAtom D_Identifier 0) (Pratt.RAtom D_Identifier 2))
                  (Pratt.RAtom D_Identifier 4)) = true.
Proof. vm_compute. repeat split; reflexivity. Qed.

(* WHAT REMAINS for the statement without exclusion on every accepted token list: the parser
   invariant below, for token lists outside the operator fragment (side-effect brackets,
   annotations, blank-line separators, empty brackets).  It holds on the fragment
   (C05_operator_expressions_not_K2) and on every short token list (C05_triples_bounded_3,
   C05_reduced_bounded_5, C05_small_bounded_7: the K2 alternative never occurs there). *)
Definition C05_parser_links_no_K2_statement : Prop :=
  forall toks root nodes t, parse toks = Ok (root, nodes) -> tree_of nodes root = Some t -> ~ Known_C05_K2 t.

(* ... and it is exactly the gap: it turns C05_full_parsed into well-formedness of every
   successful build of every accepted token list *)
Theorem C05_no_K2_gives_wf_all_parsed : C05_parser_links_no_K2_statement ->
  forall toks root nodes init lit fuel r, parse toks = Ok (root, nodes) -> nodes <> [] ->
    build nodes init lit fuel root = Ok r -> wf_code nodes init (code_of_build r).
Proof. exact no_K2_gives_wf_all_parsed. Qed.
Print Assumptions C05_no_K2_gives_wf_all_parsed.
