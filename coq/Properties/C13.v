(* C13  Lexing is lossless, positions are exact, nothing is skipped. (stub, extended below) *)
From Coq Require Import NArith List.
From GV Require Import Base.Result Gen.TokenTypes Gen.Tokens Model.Lexer Spec.LexSpec.
Import ListNotations.
Local Open Scope N_scope.

Example C13_ex_runs : forall un ua,
  lex un ua [53; 32; 10; 10; 32; 54] =
  Ok [mkTok [53] TT_Number 0 0; mkTok [32; 10; 10] TT_Subexpression 0 1; mkTok [32] TT_Whitespace 2 0; mkTok [54] TT_Number 2 1].
Proof. intros. vm_compute. reflexivity. Qed.
