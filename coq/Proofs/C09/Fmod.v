(* C09: the float remainder (Rust `%` on f64 = C fmod) is EXACT: for finite x and finite
   y <> 0 the model's f64_rem returns a finite float r with
       r = x - q * y   for an integer q,   |r| < |y|,   r is zero or has the sign of x
   (the C standard's definition of fmod; q is then trunc(x / y)).  No rounding occurs:
   the remainder of the aligned mantissas fits in 53 bits at the smaller exponent. *)
From Coq Require Import ZArith Bool Lia Reals Psatz SpecFloat.
From Flocq Require Import Core IEEE754.BinarySingleNaN IEEE754.Binary IEEE754.Bits.
From GV Require Import Model.Num Proofs.C09.IntArith Proofs.C09.Promote Proofs.C09.FloatOps.
Local Open Scope Z_scope.

Definition fmod_spec (x y r : R) : Prop :=
  (exists q : Z, r = x - IZR q * y)%R /\ (Rabs r < Rabs y)%R /\ (0 <= r * x)%R.

Lemma bounded_parts m e : SpecFloat.bounded 53 1024 m e = true ->
  Z.pos m < 2 ^ 53 /\ -1074 <= e <= 971.
Proof.
  unfold SpecFloat.bounded, SpecFloat.canonical_mantissa. intros H.
  apply andb_prop in H. destruct H as [H1 H2].
  apply Zeq_bool_eq in H1. apply Zle_bool_imp_le in H2.
  unfold SpecFloat.fexp, SpecFloat.emin in H1.
  rewrite Zpos_digits2_pos in H1.
  pose proof (Zdigits_correct radix2 (Z.pos m)) as Hd.
  set (d := Zdigits radix2 (Z.pos m)) in *.
  assert (Hd53 : d <= 53) by lia.
  split; [|lia].
  destruct Hd as [_ Hd]. rewrite Z.abs_eq in Hd by lia.
  eapply Z.lt_le_trans; [exact Hd|].
  change (radix2 ^ d) with (2 ^ d). apply Z.pow_le_mono_r; lia.
Qed.

Lemma F2R_split (m e e0 : Z) : e0 <= e ->
  F2R (Float radix2 m e) = (IZR (m * 2 ^ (e - e0)) * bpow radix2 e0)%R.
Proof.
  intros H. unfold F2R. simpl.
  rewrite mult_IZR. rewrite (IZR_Zpower radix2) by lia.
  rewrite Rmult_assoc, <- bpow_plus. f_equal. f_equal. lia.
Qed.

Lemma normalize_exact (m e : Z) : Z.abs m < 2 ^ 53 -> -1074 <= e <= 971 ->
  let z := binary_normalize 53 1024 (eq_refl _) (eq_refl _) mode_NE m e false in
  B2R 53 1024 z = F2R (Float radix2 m e) /\ is_finite 53 1024 z = true.
Proof.
  intros Hm He z.
  pose proof (binary_normalize_correct 53 1024 (eq_refl _) (eq_refl _) mode_NE m e false) as H.
  assert (G : generic_format radix2 (SpecFloat.fexp 53 1024) (F2R (Float radix2 m e))).
  { apply generic_format_FLT. exists (Float radix2 m e); simpl; [reflexivity|exact Hm|unfold SpecFloat.emin; lia]. }
  rewrite round_generic in H; [| apply valid_rnd_N | exact G].
  rewrite Rlt_bool_true in H.
  - destruct H as (H1 & H2 & _). split; assumption.
  - rewrite <- F2R_Zabs. unfold F2R. cbn [Fnum Fexp].
    apply Rlt_le_trans with (IZR (2 ^ 53) * bpow radix2 e)%R.
    + apply Rmult_lt_compat_r; [apply bpow_gt_0|]. apply IZR_lt. exact Hm.
    + change (IZR (2 ^ 53)) with (bpow radix2 53). rewrite <- bpow_plus. apply bpow_le. lia.
Qed.

Lemma cond_Zopp_rem sx sy X Y : 0 <= X -> 0 < Y ->
  Z.rem (cond_Zopp sx X) (cond_Zopp sy Y) = cond_Zopp sx (Z.rem X Y).
Proof.
  intros HX HY. destruct sx, sy; simpl.
  - rewrite Z.rem_opp_l, Z.rem_opp_r by lia. reflexivity.
  - rewrite Z.rem_opp_l by lia. reflexivity.
  - rewrite Z.rem_opp_r by lia. reflexivity.
  - reflexivity.
Qed.

Theorem f64_rem_exact (x y : binary64) :
  is_finite 53 1024 x = true -> is_finite 53 1024 y = true -> B2R 53 1024 y <> 0%R ->
  is_finite 53 1024 (f64_rem x y) = true /\
  fmod_spec (B2R 53 1024 x) (B2R 53 1024 y) (B2R 53 1024 (f64_rem x y)).
Proof.
  intros Fx Fy Hy.
  destruct y as [sy| | |sy my ey Hby]; try discriminate Fy; [simpl in Hy; congruence|].
  destruct x as [sx| | |sx mx ex Hbx]; try discriminate Fx.
  - (* x = +-0 *)
    simpl. split; [reflexivity|]. unfold fmod_spec. split; [exists 0; lra|].
    split; [|lra]. rewrite Rabs_R0. apply Rabs_pos_lt. exact Hy.
  - (* both finite, non-zero *)
    destruct (bounded_parts _ _ Hbx) as [Mx Ex]. destruct (bounded_parts _ _ Hby) as [My Ey].
    unfold f64_rem.
    set (e := Z.min ex ey).
    set (X := Z.pos mx * 2 ^ (ex - e)). set (Y := Z.pos my * 2 ^ (ey - e)).
    assert (He1 : e <= ex) by (unfold e; lia). assert (He2 : e <= ey) by (unfold e; lia).
    assert (HX : 0 < X) by (unfold X; apply Z.mul_pos_pos; [lia| apply Z.pow_pos_nonneg; lia]).
    assert (HY : 0 < Y) by (unfold Y; apply Z.mul_pos_pos; [lia| apply Z.pow_pos_nonneg; lia]).
    pose proof (Z.rem_bound_pos X Y ltac:(lia) HY) as HR.
    assert (HRX : Z.rem X Y <= X) by (apply Z.rem_le; lia).
    set (R := Z.rem X Y) in *.
    assert (HR53 : R < 2 ^ 53).
    { destruct (Z.min_spec ex ey) as [[_ E]|[_ E]]; fold e in E.
      - (* e = ex *) assert (HXm : X = Z.pos mx) by (unfold X; rewrite E, Z.sub_diag, Z.pow_0_r; lia).
        apply Z.le_lt_trans with X; [exact HRX | rewrite HXm; exact Mx].
      - (* e = ey *) assert (HYm : Y = Z.pos my) by (unfold Y; rewrite E, Z.sub_diag, Z.pow_0_r; lia).
        apply Z.lt_trans with Y; [apply HR | rewrite HYm; exact My]. }
    (* the reals *)
    assert (Bx : B2R 53 1024 (B754_finite 53 1024 sx mx ex Hbx) = (IZR (cond_Zopp sx X) * bpow radix2 e)%R).
    { simpl B2R. rewrite (F2R_split _ ex e He1). f_equal. f_equal. unfold X. destruct sx; unfold cond_Zopp; ring. }
    assert (By : B2R 53 1024 (B754_finite 53 1024 sy my ey Hby) = (IZR (cond_Zopp sy Y) * bpow radix2 e)%R).
    { simpl B2R. rewrite (F2R_split _ ey e He2). f_equal. f_equal. unfold Y. destruct sy; unfold cond_Zopp; ring. }
    set (sX := cond_Zopp sx X) in *. set (sY := cond_Zopp sy Y) in *.
    assert (Hrem : Z.rem sX sY = cond_Zopp sx R) by (apply cond_Zopp_rem; lia).
    assert (HsY : sY <> 0) by (unfold sY; destruct sy; simpl; lia).
    pose proof (Z.quot_rem' sX sY) as Hqr.
    assert (Hres : forall r : binary64,
       B2R 53 1024 r = (IZR (cond_Zopp sx R) * bpow radix2 e)%R ->
       fmod_spec (IZR sX * bpow radix2 e) (IZR sY * bpow radix2 e) (B2R 53 1024 r)).
    { intros r Hr. rewrite Hr. pose proof (bpow_gt_0 radix2 e) as Hb.
      split; [|split].
      - exists (Z.quot sX sY). rewrite <- Hrem.
        replace (IZR (Z.rem sX sY)) with (IZR sX - IZR (Z.quot sX sY) * IZR sY)%R; [ring|].
        rewrite <- mult_IZR, <- minus_IZR. f_equal. lia.
      - rewrite !Rabs_mult, (Rabs_pos_eq (bpow radix2 e)) by lra.
        apply Rmult_lt_compat_r; [exact Hb|]. rewrite <- !abs_IZR. apply IZR_lt.
        unfold sY. rewrite !abs_cond_Zopp. lia.
      - replace (IZR (cond_Zopp sx R) * bpow radix2 e * (IZR sX * bpow radix2 e))%R
          with ((IZR (cond_Zopp sx R) * IZR sX) * (bpow radix2 e * bpow radix2 e))%R by ring.
        apply Rmult_le_pos; [|apply Rmult_le_pos; lra].
        rewrite <- mult_IZR. apply IZR_le. unfold sX. destruct sx; simpl; nia. }
    rewrite Bx, By.
    destruct (Z.eqb_spec R 0) as [R0|R0].
    + split; [reflexivity|]. apply Hres. simpl B2R. rewrite R0. destruct sx; simpl; lra.
    + replace (if sx then - R else R) with (cond_Zopp sx R) by (destruct sx; reflexivity).
      destruct (normalize_exact (cond_Zopp sx R) e) as [N1 N2].
      * rewrite abs_cond_Zopp. lia.
      * lia.
      * split; [exact N2|]. apply Hres. rewrite N1. unfold F2R. reflexivity.
Qed.

(* number level: `l % r` with a float operand and a non-zero divisor is never unit and
   is the exact remainder *)
Theorem float_rem_exact powf l r :
  num_ok l -> num_ok r -> has_float l r -> num_real r <> 0%R ->
  exists f, num_binop powf OpRem l r = Some (Flt f) /\ is_finite 53 1024 f = true /\
            fmod_spec (num_real l) (num_real r) (B2R 53 1024 f).
Proof.
  intros Hl Hr Hf Hz.
  destruct (to_f64_ok l Hl) as [Fl Rl]. destruct (to_f64_ok r Hr) as [Fr Rr].
  simpl num_binop. unfold num_remainder.
  destruct (is_zero_num r) eqn:E.
  - exfalso. apply Hz. apply is_zero_real; assumption.
  - rewrite do_op_float by assumption.
    destruct (f64_rem_exact (to_f64 l) (to_f64 r) Fl Fr) as [F S]; [rewrite Rr; exact Hz|].
    exists (f64_rem (to_f64 l) (to_f64 r)). unfold flt_result, f64_finite. rewrite F.
    split; [reflexivity|]. split; [reflexivity|]. rewrite <- Rl, <- Rr. exact S.
Qed.

(* the spec determines the value: two remainders of the same operands are equal *)
Lemma fmod_spec_unique x y r1 r2 : fmod_spec x y r1 -> fmod_spec x y r2 -> r1 = r2.
Proof.
  intros ([q1 E1] & A1 & S1) ([q2 E2] & A2 & S2).
  assert (D : (r1 - r2 = IZR (q2 - q1) * y)%R) by (rewrite minus_IZR; lra).
  destruct (Z.eq_dec q1 q2) as [->|N]; [lra|]. exfalso.
  (* |r1 - r2| >= |y| , but r1, r2 have the same sign (that of x) or are zero, and |ri| < |y| *)
  assert (Hk : (1 <= Rabs (IZR (q2 - q1)))%R).
  { rewrite <- abs_IZR. apply IZR_le. lia. }
  assert (Hd : (Rabs y <= Rabs (r1 - r2))%R).
  { rewrite D, Rabs_mult. pose proof (Rabs_pos y). nra. }
  assert (Hy : (0 < Rabs y)%R) by (pose proof (Rabs_pos r1); lra).
  destruct (Rtotal_order x 0) as [Hx|[Hx|Hx]].
  - assert (r1 <= 0)%R by nra. assert (r2 <= 0)%R by nra.
    rewrite (Rabs_left1 r1) in A1 by assumption. rewrite (Rabs_left1 r2) in A2 by assumption.
    assert (Rabs (r1 - r2) < Rabs y)%R by (apply Rabs_def1; lra). lra.
  - subst x. assert (r1 = (- IZR q1 * y))%R by lra. assert (r2 = (- IZR q2 * y)%R) by lra.
    (* |q1 * y| < |y| -> q1 = 0 *)
    assert (Q1 : q1 = 0).
    { destruct (Z.eq_dec q1 0) as [|Nq]; [assumption|]. exfalso.
      assert (1 <= Rabs (IZR q1))%R by (rewrite <- abs_IZR; apply IZR_le; lia).
      rewrite H, Rabs_mult, Rabs_Ropp in A1. nra. }
    assert (Q2 : q2 = 0).
    { destruct (Z.eq_dec q2 0) as [|Nq]; [assumption|]. exfalso.
      assert (1 <= Rabs (IZR q2))%R by (rewrite <- abs_IZR; apply IZR_le; lia).
      rewrite H0, Rabs_mult, Rabs_Ropp in A2. nra. }
    lia.
  - assert (0 <= r1)%R by nra. assert (0 <= r2)%R by nra.
    rewrite (Rabs_pos_eq r1) in A1 by assumption. rewrite (Rabs_pos_eq r2) in A2 by assumption.
    assert (Rabs (r1 - r2) < Rabs y)%R by (apply Rabs_def1; lra). lra.
Qed.
