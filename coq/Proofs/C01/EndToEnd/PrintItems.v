(* (a1) The printed tokens of an AST of the operator fragment, read as the
   item list of the reference parser (Spec/Pratt.v [items_of]): whitespace
   around operators disappears, the whitespace between the two parts of a space
   list becomes the implicit list operator, token indices are the printed
   positions. *)
From Coq Require Import ZArith NArith List Bool Arith Lia.
From GV Require Import Gen.TokenTypes Gen.Defs Model.Parser Spec.RefTable Spec.Pratt Spec.Chains
  Spec.Ast Spec.Printer Spec.Fragment.
Import ListNotations.

(* ---- the token types of the printed text, construct by construct ---- *)
Definition W : token_type := TT_Whitespace.

Lemma ttoks_app : forall a b : list atok,
  map (fun t : atok => fst (fst t)) (a ++ b) = map (fun t : atok => fst (fst t)) a ++ map (fun t : atok => fst (fst t)) b.
Proof. intros. apply map_app. Qed.

Lemma ttoks_lit l : ttoks (ELit l) = [fst (lit_tok l)].
Proof. reflexivity. Qed.
Lemma ttoks_pre o x : is_prefix o = true -> ttoks (EUn o x) = unop_tt o :: W :: ttoks x.
Proof. intros H. unfold ttoks. cbn [aprint]. rewrite H. reflexivity. Qed.
Lemma ttoks_suf o x : is_prefix o = false -> ttoks (EUn o x) = ttoks x ++ [W; unop_tt o].
Proof. intros H. unfold ttoks. cbn [aprint]. rewrite H, ttoks_app. reflexivity. Qed.
Lemma ttoks_group x : ttoks (EGroup x) = TT_StartGroup :: ttoks x ++ [TT_EndGroup].
Proof. unfold ttoks. cbn [aprint map]. rewrite ttoks_app. reflexivity. Qed.
Lemma ttoks_nested lbl b : ttoks (ENested lbl b) = TT_StartExpression :: W :: ttoks b ++ [W; TT_EndExpression].
Proof. unfold ttoks. cbn [aprint map]. rewrite ttoks_app. reflexivity. Qed.
Lemma ttoks_reapply x : ttoks (EReapply x) = TT_Reapply :: W :: ttoks x.
Proof. reflexivity. Qed.
Lemma ttoks_space l r : ttoks (EList Space l r) = ttoks l ++ W :: ttoks r.
Proof. unfold ttoks. cbn [aprint]. rewrite !ttoks_app. reflexivity. Qed.

Lemma ttoks_binary e t l r : as_binary e = Some (Some t, l, r) ->
  ttoks e = ttoks l ++ W :: t :: W :: ttoks r.
Proof.
  intros H. unfold ttoks.
  destruct e; try discriminate H; cbn [as_binary] in H;
    try (destruct k; try discriminate H); try (destruct s; try discriminate H); injection H as <- <- <-;
    cbn [aprint]; rewrite !ttoks_app; reflexivity.
Qed.

Lemma ntoks_ttoks e : length (ttoks e) = ntoks e.
Proof. unfold ttoks, ntoks. apply map_length. Qed.

Lemma ntoks_pre o x : is_prefix o = true -> ntoks (EUn o x) = 2 + ntoks x.
Proof. intros H. rewrite <- !ntoks_ttoks, (ttoks_pre _ _ H). reflexivity. Qed.
Lemma ntoks_suf o x : is_prefix o = false -> ntoks (EUn o x) = ntoks x + 2.
Proof. intros H. rewrite <- !ntoks_ttoks, (ttoks_suf _ _ H), app_length. reflexivity. Qed.
Lemma ntoks_group x : ntoks (EGroup x) = S (ntoks x + 1).
Proof. rewrite <- !ntoks_ttoks, ttoks_group. cbn [length]. rewrite app_length. reflexivity. Qed.
Lemma ntoks_nested lbl b : ntoks (ENested lbl b) = S (S (ntoks b + 2)).
Proof. rewrite <- !ntoks_ttoks, ttoks_nested. cbn [length]. rewrite app_length. reflexivity. Qed.
Lemma ntoks_reapply x : ntoks (EReapply x) = 2 + ntoks x.
Proof. rewrite <- !ntoks_ttoks, ttoks_reapply. reflexivity. Qed.
Lemma ntoks_space l r : ntoks (EList Space l r) = ntoks l + S (ntoks r).
Proof. rewrite <- !ntoks_ttoks, ttoks_space, app_length. reflexivity. Qed.
Lemma ntoks_binary e t l r : as_binary e = Some (Some t, l, r) -> ntoks e = ntoks l + (3 + ntoks r).
Proof. intros H. rewrite <- !ntoks_ttoks, (ttoks_binary _ _ _ _ H), app_length. reflexivity. Qed.

(* ---- token classes of the printed operators ---- *)
Lemma kind_lit l : ref_kind (fst (lit_tok l)) = KValue.
Proof. destruct l; reflexivity. Qed.
Lemma kind_prefix o : is_prefix o = true -> ref_kind (unop_tt o) = KPrefix.
Proof. destruct o; intros H; try discriminate H; reflexivity. Qed.
Lemma kind_suffix o : is_prefix o = false -> ref_kind (unop_tt o) = KSuffix.
Proof. destruct o; intros H; try discriminate H; reflexivity. Qed.
Lemma kind_binary e t l r : as_binary e = Some (Some t, l, r) -> ref_kind t = KBinary /\ hdef e = ref_def t.
Proof.
  intros H. destruct e; try discriminate H; cbn [as_binary] in H;
    try (destruct k; try discriminate H); try (destruct s; try discriminate H); injection H as <- <- <-.
  - destruct o; split; reflexivity.
  - split; reflexivity.
  - split; reflexivity.
  - split; reflexivity.
  - destruct neg; split; reflexivity.
  - split; reflexivity.
  - split; reflexivity.
Qed.

(* ---- one token of [items_of] ---- *)
Definition leadl (prev : option tok_kind) (sp : bool) : list item :=
  match prev with
  | Some p => if sp && ends_value_k p then [IBinary D_List None] else []
  | None => []
  end.

Lemma items_space r i prev sp : items_of (W :: r) i prev sp = items_of r (S i) prev true.
Proof. reflexivity. Qed.

Lemma items_value t r i prev sp : ref_kind t = KValue ->
  items_of (t :: r) i prev sp
  = option_map (fun R => leadl prev sp ++ IValue (ref_def t) i :: R) (items_of r (S i) (Some KValue) false).
Proof.
  intros H. cbn [items_of]. rewrite H. cbn [starts_value_k]. unfold leadl.
  destruct prev as [p|]; [rewrite andb_true_r|]; destruct (items_of r (S i) (Some KValue) false); reflexivity.
Qed.

Lemma items_prefix t r i prev sp : ref_kind t = KPrefix ->
  items_of (t :: r) i prev sp
  = option_map (fun R => leadl prev sp ++ IPrefix (ref_def t) i :: R) (items_of r (S i) (Some KPrefix) false).
Proof.
  intros H. cbn [items_of]. rewrite H. cbn [starts_value_k]. unfold leadl.
  destruct prev as [p|]; [rewrite andb_true_r|]; destruct (items_of r (S i) (Some KPrefix) false); reflexivity.
Qed.

Lemma items_open r i prev sp :
  items_of (TT_StartGroup :: r) i prev sp
  = option_map (fun R => leadl prev sp ++ IOpen BRound i :: R) (items_of r (S i) (Some (KOpen BRound)) false).
Proof.
  cbn [items_of ref_kind starts_value_k]. unfold leadl.
  destruct prev as [p|]; [rewrite andb_true_r|]; destruct (items_of r (S i) (Some (KOpen BRound)) false); reflexivity.
Qed.

Lemma items_open_curly r i prev sp :
  items_of (TT_StartExpression :: r) i prev sp
  = option_map (fun R => leadl prev sp ++ IOpen BCurly i :: R) (items_of r (S i) (Some (KOpen BCurly)) false).
Proof.
  cbn [items_of ref_kind starts_value_k]. unfold leadl.
  destruct prev as [p|]; [rewrite andb_true_r|]; destruct (items_of r (S i) (Some (KOpen BCurly)) false); reflexivity.
Qed.

Lemma items_close_curly r i prev sp :
  items_of (TT_EndExpression :: r) i prev sp
  = option_map (fun R => IClose BCurly i :: R) (items_of r (S i) (Some (KClose BCurly)) false).
Proof.
  cbn [items_of ref_kind starts_value_k].
  destruct prev as [p|]; [rewrite andb_false_r|]; destruct (items_of r (S i) (Some (KClose BCurly)) false); reflexivity.
Qed.

Lemma items_suffix t r i prev sp : ref_kind t = KSuffix ->
  items_of (t :: r) i prev sp
  = option_map (fun R => ISuffix (ref_def t) i :: R) (items_of r (S i) (Some KSuffix) false).
Proof.
  intros H. cbn [items_of]. rewrite H. cbn [starts_value_k].
  destruct prev as [p|]; [rewrite andb_false_r|]; destruct (items_of r (S i) (Some KSuffix) false); reflexivity.
Qed.

Lemma items_binary t r i prev sp : ref_kind t = KBinary ->
  items_of (t :: r) i prev sp
  = option_map (fun R => IBinary (ref_def t) (Some i) :: R) (items_of r (S i) (Some KBinary) false).
Proof.
  intros H. cbn [items_of]. rewrite H. cbn [starts_value_k].
  destruct prev as [p|]; [rewrite andb_false_r|]; destruct (items_of r (S i) (Some KBinary) false); reflexivity.
Qed.

Lemma items_close r i prev sp :
  items_of (TT_EndGroup :: r) i prev sp
  = option_map (fun R => IClose BRound i :: R) (items_of r (S i) (Some (KClose BRound)) false).
Proof.
  cbn [items_of ref_kind starts_value_k].
  destruct prev as [p|]; [rewrite andb_false_r|]; destruct (items_of r (S i) (Some (KClose BRound)) false); reflexivity.
Qed.

(* ---- the last significant token of an expression ends a value ---- *)
Fixpoint lastk (e : expr) : tok_kind :=
  match e with
  | EUn o x => if is_prefix o then lastk x else KSuffix
  | EGroup _ => KClose BRound
  | ENested _ _ => KClose BCurly
  | EReapply x => lastk x
  | EBin _ _ r | EAnd _ r | EOr _ r | EList _ _ r | ECond _ _ r | EElse _ r | ESeq _ _ r => lastk r
  | _ => KValue
  end.

Lemma lastk_ends e : ends_value_k (lastk e) = true.
Proof. induction e; cbn [lastk]; try reflexivity; try assumption. destruct (is_prefix o); [assumption|reflexivity]. Qed.

Lemma option_map_map {A B C} (f : B -> C) (g : A -> B) (x : option A) :
  option_map f (option_map g x) = option_map (fun a => f (g a)) x.
Proof. destruct x; reflexivity. Qed.

Lemma option_map_ext {A B} (f g : A -> B) (x : option A) : (forall a, f a = g a) -> option_map f x = option_map g x.
Proof. intros H. destruct x; cbn; [rewrite H|]; reflexivity. Qed.

Lemma efrag_binary lvl e t l r : efrag lvl e = true -> as_binary e = Some (t, l, r) ->
  efrag lvl l = true /\ efrag lvl r = true.
Proof.
  intros F H. destruct e; try discriminate H; cbn [as_binary] in H;
    try (destruct k); try (destruct s; try discriminate H); injection H as <- <- <-; cbn [efrag] in F;
    repeat (apply andb_true_iff in F; destruct F as [F ?]); auto.
Qed.

(* classification of the constructs of the fragment *)
Inductive shape (e : expr) : Type :=
| ShAtom : lastk e = KValue -> (forall off, eitems e off = [IValue (hdef e) off]) ->
           (forall off, rtree_of_expr e off = RAtom (hdef e) off) ->
           (exists t, ttoks e = [t] /\ ref_kind t = KValue /\ hdef e = ref_def t) -> shape e
| ShPre o x : e = EUn o x -> is_prefix o = true -> shape e
| ShSuf o x : e = EUn o x -> is_prefix o = false -> shape e
| ShGroup x : e = EGroup x -> shape e
| ShNested lbl b : e = ENested lbl b -> shape e
| ShReapply x : e = EReapply x -> shape e
| ShSpace l r : e = EList Space l r -> shape e
| ShBin t l r : as_binary e = Some (Some t, l, r) -> shape e.

Lemma shape_of lvl e : efrag lvl e = true -> shape e.
Proof.
  intros F. destruct e; try discriminate F.
  - apply ShAtom; [reflexivity|reflexivity|reflexivity|]. exists (fst (lit_tok l)). split; [reflexivity|]. split; [apply kind_lit|reflexivity].
  - apply ShAtom; [reflexivity|reflexivity|reflexivity|]. exists TT_Value. repeat split.
  - apply ShAtom; [reflexivity|reflexivity|reflexivity|]. exists TT_Identifier. repeat split.
  - destruct (is_prefix o) eqn:E; [eapply ShPre|eapply ShSuf]; eauto.
  - eapply ShBin. reflexivity.
  - eapply ShBin. reflexivity.
  - eapply ShBin. reflexivity.
  - destruct k; [eapply ShSpace; reflexivity | eapply ShBin; reflexivity].
  - eapply ShGroup. reflexivity.
  - eapply ShBin. reflexivity.
  - eapply ShBin. reflexivity.
  - destruct s; [eapply ShBin; reflexivity|discriminate F].
  - eapply ShNested. reflexivity.
  - eapply ShReapply. reflexivity.
Qed.

Lemma eitems_binary e t l r off : as_binary e = Some (Some t, l, r) ->
  eitems e off = eitems l off ++ IBinary (hdef e) (Some (off + ntoks l + 1)) :: eitems r (off + ntoks l + 3).
Proof.
  intros H. destruct e; try discriminate H; cbn [as_binary] in H;
    try (destruct k; try discriminate H); try (destruct s; try discriminate H); injection H as <- <- <-; reflexivity.
Qed.

Lemma rtree_binary e t l r off : as_binary e = Some (Some t, l, r) ->
  rtree_of_expr e off
  = RBin (hdef e) (Some (off + ntoks l + 1)) (rtree_of_expr l off) (rtree_of_expr r (off + ntoks l + 3)).
Proof.
  intros H. destruct e; try discriminate H; cbn [as_binary] in H;
    try (destruct k; try discriminate H); try (destruct s; try discriminate H); injection H as <- <- <-; reflexivity.
Qed.

Lemma lastk_binary e t l r : as_binary e = Some (t, l, r) -> lastk e = lastk r.
Proof.
  intros H. destruct e; try discriminate H; cbn [as_binary] in H;
    try (destruct k); try (destruct s; try discriminate H); injection H as <- <- <-; reflexivity.
Qed.

(* ---- the items of the printed tokens ---- *)
Lemma items_of_expr_n lvl : forall n e, size e < n -> efrag lvl e = true -> forall rest i prev sp,
  items_of (ttoks e ++ rest) i prev sp
  = option_map (fun R => leadl prev sp ++ eitems e i ++ R)
               (items_of rest (i + ntoks e) (Some (lastk e)) false).
Proof.
  induction n as [|n IHn]; intros e Hn; [lia|].
  assert (IH : forall y, size y < size e -> efrag lvl y = true -> forall rest i prev sp,
    items_of (ttoks y ++ rest) i prev sp
    = option_map (fun R => leadl prev sp ++ eitems y i ++ R) (items_of rest (i + ntoks y) (Some (lastk y)) false)).
  { intros y Hy. apply IHn. lia. }
  clear IHn Hn.
  intros F rest i prev sp. destruct (shape_of lvl e F) as [El Hi _ (t & Ht & Hk & Hd)|o x -> Ho|o x -> Ho|x ->|lbl b ->|x ->|l r ->|t l r Hb].
  - (* atom *)
    rewrite Ht. cbn [app]. rewrite (items_value _ _ _ _ _ Hk), Hi, Hd.
    assert (En : ntoks e = 1) by (rewrite <- ntoks_ttoks, Ht; reflexivity).
    rewrite En, El, Nat.add_1_r. apply option_map_ext. intros R. reflexivity.
  - (* prefix *)
    cbn [efrag] in F. rewrite (ttoks_pre _ _ Ho). cbn [app].
    rewrite (items_prefix _ _ _ _ _ (kind_prefix _ Ho)), items_space.
    rewrite (IH x ltac:(cbn [size]; lia) F).
    rewrite option_map_map. cbn [lastk eitems]. rewrite Ho, (ntoks_pre _ _ Ho).
    replace (S (S i) + ntoks x) with (i + (2 + ntoks x)) by lia.
    replace (S (S i)) with (i + 2) by lia.
    apply option_map_ext. intros R. cbn [leadl ends_value_k andb app]. reflexivity.
  - (* suffix *)
    cbn [efrag] in F. rewrite (ttoks_suf _ _ Ho), <- app_assoc.
    rewrite (IH x ltac:(cbn [size]; lia) F).
    cbn [app]. rewrite items_space, (items_suffix _ _ _ _ _ (kind_suffix _ Ho)), option_map_map.
    cbn [lastk eitems]. rewrite Ho, (ntoks_suf _ _ Ho).
    replace (S (S (i + ntoks x))) with (i + (ntoks x + 2)) by lia.
    replace (S (i + ntoks x)) with (i + ntoks x + 1) by lia.
    apply option_map_ext. intros R. rewrite <- !app_assoc. reflexivity.
  - (* group *)
    cbn [efrag] in F. apply andb_true_iff in F. destruct F as [_ F]. rewrite ttoks_group. cbn [app]. rewrite items_open, <- app_assoc.
    rewrite (IH x ltac:(cbn [size]; lia) F).
    cbn [app]. rewrite items_close, !option_map_map. cbn [lastk eitems]. rewrite ntoks_group.
    replace (S (S i + ntoks x)) with (i + S (ntoks x + 1)) by lia.
    replace (S i + ntoks x) with (i + 1 + ntoks x) by lia. replace (S i) with (i + 1) by lia.
    apply option_map_ext. intros R. cbn [leadl app]. rewrite <- !app_assoc. reflexivity.
  - (* nested expression *)
    cbn [efrag] in F. apply andb_true_iff in F. destruct F as [_ F].
    rewrite ttoks_nested. cbn [app]. rewrite items_open_curly, items_space, <- app_assoc.
    rewrite (IH b ltac:(cbn [size]; lia) F).
    cbn [app]. rewrite items_space, items_close_curly, !option_map_map. cbn [lastk eitems]. rewrite ntoks_nested.
    replace (S (S (S (S i) + ntoks b))) with (i + S (S (ntoks b + 2))) by lia.
    replace (S (S (S i) + ntoks b)) with (i + 3 + ntoks b) by lia. replace (S (S i)) with (i + 2) by lia.
    apply option_map_ext. intros R. cbn [leadl ends_value_k andb app]. rewrite <- !app_assoc. reflexivity.
  - (* re-apply: a prefix operator *)
    cbn [efrag] in F. apply andb_true_iff in F. destruct F as [_ F]. rewrite ttoks_reapply. cbn [app].
    rewrite (items_prefix TT_Reapply _ _ _ _ eq_refl), items_space.
    rewrite (IH x ltac:(cbn [size]; lia) F).
    rewrite option_map_map. cbn [lastk eitems]. rewrite ntoks_reapply.
    replace (S (S i) + ntoks x) with (i + (2 + ntoks x)) by lia.
    replace (S (S i)) with (i + 2) by lia.
    apply option_map_ext. intros R. cbn [leadl ends_value_k andb app]. reflexivity.
  - (* space list *)
    cbn [efrag] in F. apply andb_true_iff in F. destruct F as [F Fr]. apply andb_true_iff in F. destruct F as [_ Fl].
    rewrite ttoks_space, <- app_assoc. rewrite (IH l ltac:(cbn [size]; lia) Fl).
    cbn [app]. rewrite items_space. rewrite (IH r ltac:(cbn [size]; lia) Fr).
    rewrite option_map_map. cbn [lastk eitems]. rewrite ntoks_space.
    replace (S (i + ntoks l) + ntoks r) with (i + (ntoks l + S (ntoks r))) by lia.
    replace (S (i + ntoks l)) with (i + ntoks l + 1) by lia.
    apply option_map_ext. intros R. unfold leadl at 2. rewrite lastk_ends. cbn [andb app].
    rewrite <- !app_assoc. reflexivity.
  - (* binary operator *)
    destruct (efrag_binary _ _ _ _ _ F Hb) as [Fl Fr]. destruct (kind_binary _ _ _ _ Hb) as [Hk Hd].
    assert (Sl : size l < size e /\ size r < size e).
    { destruct e; try discriminate Hb; cbn [as_binary] in Hb; try (destruct k; try discriminate Hb); try (destruct s; try discriminate Hb);
        injection Hb as <- <- <-; cbn [size]; lia. }
    rewrite (ttoks_binary _ _ _ _ Hb), <- app_assoc. rewrite (IH l (proj1 Sl) Fl).
    cbn [app]. rewrite items_space, (items_binary _ _ _ _ _ Hk), items_space.
    rewrite (IH r (proj2 Sl) Fr).
    rewrite !option_map_map. rewrite (eitems_binary _ _ _ _ _ Hb), (ntoks_binary _ _ _ _ Hb), (lastk_binary _ _ _ _ Hb), Hd.
    replace (S (S (S (i + ntoks l))) + ntoks r) with (i + (ntoks l + (3 + ntoks r))) by lia.
    replace (S (S (S (i + ntoks l)))) with (i + ntoks l + 3) by lia.
    replace (S (i + ntoks l)) with (i + ntoks l + 1) by lia.
    apply option_map_ext. intros R. cbn [leadl ends_value_k andb app]. rewrite <- !app_assoc. reflexivity.
Qed.

Lemma items_of_expr lvl : forall e, efrag lvl e = true -> forall rest i prev sp,
  items_of (ttoks e ++ rest) i prev sp
  = option_map (fun R => leadl prev sp ++ eitems e i ++ R)
               (items_of rest (i + ntoks e) (Some (lastk e)) false).
Proof. intros e. apply (items_of_expr_n lvl (S (size e))). lia. Qed.

Lemma items_of_printed lvl e : efrag lvl e = true ->
  items_of (ttoks e) 0 None false = Some (eitems e 0).
Proof.
  intros F. pose proof (items_of_expr lvl e F [] 0 None false) as H. rewrite app_nil_r in H. rewrite H.
  cbn [items_of option_map leadl app]. rewrite app_nil_r. reflexivity.
Qed.

Lemma eitems_length lvl : forall e off, efrag lvl e = true -> length (eitems e off) <= ntoks e.
Proof.
  induction e; intros off F; try discriminate F; cbn [efrag] in F;
    repeat (apply andb_true_iff in F; let G := fresh "G" in destruct F as [F G]).
  - cbn. unfold ntoks. cbn. lia.
  - cbn. unfold ntoks. cbn. lia.
  - cbn. unfold ntoks. cbn. lia.
  - cbn [eitems]. destruct (is_prefix o) eqn:Ho.
    + rewrite (ntoks_pre _ _ Ho). cbn [length]. specialize (IHe (off + 2) F). lia.
    + rewrite (ntoks_suf _ _ Ho), app_length. cbn [length]. specialize (IHe off F). lia.
  - match goal with |- _ <= ntoks ?E => rewrite (ntoks_binary E _ _ _ eq_refl) end; cbn [eitems]; rewrite app_length; cbn [length].
    pose proof (IHe1 off ltac:(assumption)). pose proof (IHe2 (off + ntoks e1 + 3) ltac:(assumption)). lia.
  - match goal with |- _ <= ntoks ?E => rewrite (ntoks_binary E _ _ _ eq_refl) end; cbn [eitems]; rewrite app_length; cbn [length].
    pose proof (IHe1 off ltac:(assumption)). pose proof (IHe2 (off + ntoks e1 + 3) ltac:(assumption)). lia.
  - match goal with |- _ <= ntoks ?E => rewrite (ntoks_binary E _ _ _ eq_refl) end; cbn [eitems]; rewrite app_length; cbn [length].
    pose proof (IHe1 off ltac:(assumption)). pose proof (IHe2 (off + ntoks e1 + 3) ltac:(assumption)). lia.
  - destruct k.
    + cbn [eitems]. rewrite ntoks_space, app_length. cbn [length].
      pose proof (IHe1 off ltac:(assumption)). pose proof (IHe2 (off + ntoks e1 + 1) ltac:(assumption)). lia.
    + match goal with |- _ <= ntoks ?E => rewrite (ntoks_binary E _ _ _ eq_refl) end; cbn [eitems]; rewrite app_length; cbn [length].
      pose proof (IHe1 off ltac:(assumption)). pose proof (IHe2 (off + ntoks e1 + 3) ltac:(assumption)). lia.
  - cbn [eitems]. rewrite ntoks_group. cbn [length]. rewrite app_length. cbn [length]. pose proof (IHe (off + 1) ltac:(assumption)). lia.
  - match goal with |- _ <= ntoks ?E => rewrite (ntoks_binary E _ _ _ eq_refl) end; cbn [eitems]; rewrite app_length; cbn [length].
    pose proof (IHe1 off ltac:(assumption)). pose proof (IHe2 (off + ntoks e1 + 3) ltac:(assumption)). lia.
  - match goal with |- _ <= ntoks ?E => rewrite (ntoks_binary E _ _ _ eq_refl) end; cbn [eitems]; rewrite app_length; cbn [length].
    pose proof (IHe1 off ltac:(assumption)). pose proof (IHe2 (off + ntoks e1 + 3) ltac:(assumption)). lia.
  - destruct s; [|discriminate].
    match goal with |- _ <= ntoks ?E => rewrite (ntoks_binary E _ _ _ eq_refl) end; cbn [eitems]; rewrite app_length; cbn [length].
    pose proof (IHe1 off ltac:(assumption)). pose proof (IHe2 (off + ntoks e1 + 3) ltac:(assumption)). lia.
  - cbn [eitems]. rewrite ntoks_nested. cbn [length]. rewrite app_length. cbn [length]. pose proof (IHe (off + 2) ltac:(assumption)). lia.
  - cbn [eitems]. rewrite ntoks_reapply. cbn [length]. pose proof (IHe (off + 2) ltac:(assumption)). lia.
Qed.
