(* C16, BasicGarnishData end to end: from a store satisfying the C15
   invariant [G], start_list / add_to_list* / end_list on stored items builds,
   at the old end of the data table, the header List(n, #associations), the n
   ListItem cells in insertion order, and the association region stably
   sorted; reading it back gives length n, item k, the items in order, and
   the association lookup. *)
From Coq Require Import NArith ZArith List Bool Arith Lia Sorted Permutation.
From GV Require Import Base.Result Gen.Instr Model.StoreBase Model.BasicStore Model.Lists Spec.AbsTables Spec.AssocSpec
  Proofs.C15.ListFacts Proofs.C15.Layout Proofs.C15.Stable Proofs.C15.Steps Proofs.C16.BasicSearch.
Import ListNotations.

(* the association an item address denotes, read in the table T *)
Definition bview (T : list cell) (a : nat) : assoc_view :=
  match nth_error T a with
  | Some (CPair lft rgt) => match nth_error T lft with Some (CSymbol k) => Some (k, rgt) | _ => None end
  | _ => None
  end.

Definition slot_of (T : list cell) (a : nat) : cell :=
  match bview T a with Some (k, v) => CAssociativeItem k v | None => CEmpty end.

(* an item is the address of a stored value; the left of a stored pair is one too *)
Definition valid_item (T : list cell) (a : nat) : Prop :=
  a < length T /\ forall lft rgt, nth_error T a = Some (CPair lft rgt) -> lft < length T.

(* the data table while the list at l = length T is under construction, j items added *)
Definition building (T : list cell) (items : list nat) (j : nat) (D : list cell) : Prop :=
  length D = length T + 1 + 2 * length items /\
  (forall p, p < length T -> nth_error D p = nth_error T p) /\
  nth_error D (length T) = Some (CUninitializedList (length items) j) /\
  (forall i, i < length items ->
     nth_error D (length T + 1 + i) = Some (if i <? j then CListItem (nth i items 0) else CEmpty)) /\
  (forall i, i < length items ->
     nth_error D (length T + 1 + length items + i) = Some (if i <? j then slot_of T (nth i items 0) else CEmpty)).

Lemma get_data_some : forall s i c, G s -> nth_error (data s) i = Some c -> get_data i s = Ok (s, Done c).
Proof.
  intros s i c Gs H. unfold get_data, sread. rewrite (get_from_block_ok s BData i (good_inv s (g_good s Gs))).
  fold (data s). rewrite H. reflexivity.
Qed.

Lemma update_data_exact : forall s i old new, G s -> nth_error (data s) i = Some old -> ~ frozen (data s) i ->
  header_len new = header_len old -> scratch new = scratch old -> frame_ok new ->
  exists s', set_data i new s = Ok (s', Done tt) /\ G s' /\ length (data s') = length (data s) /\
    (forall p, nth_error (data s') p = if p =? i then Some new else nth_error (data s) p).
Proof.
  intros s i old new Gs Ho Hf Hh Hs Hfr.
  destruct (update_data_ok s i old new Gs Ho Hf Hh Hs Hfr) as (s' & Hr & G' & _ & Hset & _).
  exists s'. split; [exact Hr|]. split; [exact G'|]. split; [apply (set_ix_length _ _ _ _ Hset)|].
  intro p. apply (set_ix_nth _ _ _ _ p Hset).
Qed.

(* ---- start_list ---- *)
Lemma start_list_exact : forall n s, G s ->
  exists s', start_list n s = Ok (s', Done (length (data s))) /\ G s' /\
    data s' = data s ++ CUninitializedList n 0 :: repeat CEmpty (2 * n).
Proof.
  intros n s Gs. unfold start_list.
  destruct (push_data_raw s (CUninitializedList n 0) (g_good s Gs)) as (s1 & H1 & A1).
  destruct (push_empties_raw (n * 2) s1 (proj1 A1)) as (s2 & H2 & A2).
  pose proof (appended_trans s s1 s2 _ _ A1 A2) as A. cbn [app] in A. rewrite (Nat.mul_comm n 2) in A.
  exists s2. split; [rewrite (sbind_done _ _ _ _ _ _ _ _ H1); rewrite (Nat.mul_comm n 2) in H2; rewrite (Nat.mul_comm n 2); rewrite (sbind_done _ _ _ _ _ _ _ _ H2); reflexivity|].
  split; [|destruct A as (_ & D & _); exact D].
  eapply appended_G; [exact Gs|exact A| |].
  - apply region_app_list. apply (g_region s Gs).
  - intros c [<-|Hc]; [exact I|]. apply repeat_spec in Hc. subst c. exact I.
Qed.

Lemma building_start : forall T items, building T items 0 (T ++ CUninitializedList (length items) 0 :: repeat CEmpty (2 * length items)).
Proof.
  intros T items. unfold building. split; [rewrite app_length; cbn [length]; rewrite repeat_length; lia|].
  split; [intros p Hp; apply nth_error_app1; exact Hp|].
  split; [rewrite nth_error_app2, Nat.sub_diag by lia; reflexivity|].
  split; intros i Hi; rewrite nth_error_app2 by lia.
  - replace (length T + 1 + i - length T) with (S i) by lia. cbn [nth_error]. rewrite nth_error_repeat.
    assert (E : (i <? 2 * length items) = true) by (apply Nat.ltb_lt; lia). rewrite E. reflexivity.
  - replace (length T + 1 + length items + i - length T) with (S (length items + i)) by lia. cbn [nth_error]. rewrite nth_error_repeat.
    assert (E : (length items + i <? 2 * length items) = true) by (apply Nat.ltb_lt; lia). rewrite E. reflexivity.
Qed.

(* ---- one add_to_list ---- *)
Lemma add_step : forall T items j s a, G s -> building T items j (data s) -> j < length items ->
  nth j items 0 = a -> valid_item T a ->
  exists s', add_to_list (length T) a s = Ok (s', Done (length T)) /\ G s' /\ building T items (S j) (data s').
Proof.
  intros T items j s a Gs (HL & HT & HH & HI & HA) Hj Ha [Hav Hapair].
  set (l := length T) in *. set (n := length items) in *.
  unfold add_to_list. rewrite (sbind_done _ _ _ _ _ _ _ _ (get_data_some s l _ Gs HH)).
  assert (E : (n <=? j) = false) by (apply Nat.leb_gt; exact Hj). rewrite E.
  (* header *)
  destruct (update_data_exact s l (CUninitializedList n j) (CUninitializedList n (S j)) Gs HH) as (s1 & H1 & G1 & L1 & N1); try reflexivity; try exact I.
  { eapply unstable_not_in_list; [apply (g_region s Gs)|exact HH|reflexivity|reflexivity]. }
  rewrite (sbind_done _ _ _ _ _ _ _ _ H1).
  assert (Hq1 : nth_error (data s1) l = Some (CUninitializedList n (S j))) by (rewrite N1, Nat.eqb_refl; reflexivity).
  (* item slot *)
  assert (Hslot : nth_error (data s1) (l + 1 + j) = Some CEmpty).
  { rewrite N1. assert (E1 : (l + 1 + j =? l) = false) by (apply Nat.eqb_neq; lia). rewrite E1.
    rewrite (HI j Hj). assert (E2 : (j <? j) = false) by (apply Nat.ltb_ge; lia). rewrite E2. reflexivity. }
  destruct (update_data_exact s1 (l + 1 + j) CEmpty (CListItem a) G1 Hslot) as (s2 & H2 & G2 & L2 & N2); try reflexivity; try exact I.
  { replace (l + 1 + j) with (l + (1 + j)) by lia. eapply open_region_not_frozen; [apply (g_region s1 G1)|exact Hq1|lia]. }
  rewrite (sbind_done _ _ _ _ _ _ _ _ H2).
  assert (Hq2 : nth_error (data s2) l = Some (CUninitializedList n (S j))).
  { rewrite N2. assert (E1 : (l =? l + 1 + j) = false) by (apply Nat.eqb_neq; lia). rewrite E1. exact Hq1. }
  (* cells below l are those of T in every intermediate state *)
  assert (HT2 : forall p, p < l -> nth_error (data s2) p = nth_error T p).
  { intros p Hp. rewrite N2, N1.
    assert (E1 : (p =? l + 1 + j) = false) by (apply Nat.eqb_neq; lia).
    assert (E2 : (p =? l) = false) by (apply Nat.eqb_neq; lia). rewrite E1, E2. apply HT. exact Hp. }
  destruct (nth_error T a) as [ca|] eqn:Eca; [|apply nth_error_None in Eca; fold l in Hav; lia].
  assert (Hga : get_data a s2 = Ok (s2, Done ca)) by (apply get_data_some; [exact G2|rewrite HT2 by exact Hav; exact Eca]).
  rewrite (sbind_done _ _ _ _ _ _ _ _ Hga).
  (* what the final table must look like, given the slot value *)
  assert (Hfinish : forall s3, G s3 -> length (data s3) = length (data s2) ->
             (forall p, nth_error (data s3) p = if p =? l + 1 + j + n then Some (slot_of T a) else nth_error (data s2) p) ->
             building T items (S j) (data s3)).
  { intros s3 G3 L3 N3. unfold building. fold l n.
    split; [rewrite L3, L2, L1; exact HL|].
    split; [intros p Hp; rewrite N3; assert (E1 : (p =? l + 1 + j + n) = false) by (apply Nat.eqb_neq; lia); rewrite E1; apply HT2; exact Hp|].
    split; [rewrite N3; assert (E1 : (l =? l + 1 + j + n) = false) by (apply Nat.eqb_neq; lia); rewrite E1; exact Hq2|].
    split; intros i Hi; rewrite N3.
    - assert (E1 : (l + 1 + i =? l + 1 + j + n) = false) by (apply Nat.eqb_neq; lia). rewrite E1, N2.
      destruct (l + 1 + i =? l + 1 + j) eqn:E2.
      + apply Nat.eqb_eq in E2. assert (i = j) by lia. subst i.
        assert (E3 : (j <? S j) = true) by (apply Nat.ltb_lt; lia). rewrite E3, Ha. reflexivity.
      + apply Nat.eqb_neq in E2. rewrite N1. assert (E3 : (l + 1 + i =? l) = false) by (apply Nat.eqb_neq; lia). rewrite E3, (HI i Hi).
        destruct (i <? j) eqn:E4; destruct (i <? S j) eqn:E5; bool_arith; try lia; reflexivity.
    - destruct (l + 1 + n + i =? l + 1 + j + n) eqn:E1.
      + apply Nat.eqb_eq in E1. assert (i = j) by lia. subst i.
        assert (E3 : (j <? S j) = true) by (apply Nat.ltb_lt; lia). rewrite E3, Ha. reflexivity.
      + apply Nat.eqb_neq in E1. rewrite N2, N1.
        assert (E2 : (l + 1 + n + i =? l + 1 + j) = false) by (apply Nat.eqb_neq; lia).
        assert (E3 : (l + 1 + n + i =? l) = false) by (apply Nat.eqb_neq; lia). rewrite E2, E3, (HA i Hi).
        destruct (i <? j) eqn:E4; destruct (i <? S j) eqn:E5; bool_arith; try lia; reflexivity. }
  (* when nothing is written the slot already holds the right value *)
  assert (Hnowrite : slot_of T a = CEmpty -> building T items (S j) (data s2)).
  { intro Hs. apply (Hfinish s2 G2 eq_refl). intro p. destruct (p =? l + 1 + j + n) eqn:E1; [|reflexivity].
    apply Nat.eqb_eq in E1. subst p. rewrite Hs, N2, N1.
    assert (E2 : (l + 1 + j + n =? l + 1 + j) = false) by (apply Nat.eqb_neq; lia).
    assert (E3 : (l + 1 + j + n =? l) = false) by (apply Nat.eqb_neq; lia). rewrite E2, E3.
    replace (l + 1 + j + n) with (l + 1 + n + j) by lia. rewrite (HA j Hj).
    assert (E4 : (j <? j) = false) by (apply Nat.ltb_ge; lia). rewrite E4. reflexivity. }
  destruct ca; try (exists s2; split; [reflexivity|]; split; [exact G2|]; apply Hnowrite; unfold slot_of, bview; rewrite Eca; reflexivity).
  (* a pair *)
  pose proof (Hapair a0 b eq_refl) as Hlft.
  destruct (nth_error T a0) as [cl|] eqn:Ecl; [|apply nth_error_None in Ecl; lia].
  assert (Hgl : get_data a0 s2 = Ok (s2, Done cl)) by (apply get_data_some; [exact G2|rewrite HT2 by exact Hlft; exact Ecl]).
  rewrite (sbind_done _ _ _ _ _ _ _ _ Hgl).
  destruct cl; try (exists s2; split; [reflexivity|]; split; [exact G2|]; apply Hnowrite; unfold slot_of, bview; rewrite Eca, Ecl; reflexivity).
  (* keyed by a symbol: the association slot *)
  assert (Hs3 : nth_error (data s2) (l + 1 + j + n) = Some CEmpty).
  { rewrite N2, N1.
    assert (E2 : (l + 1 + j + n =? l + 1 + j) = false) by (apply Nat.eqb_neq; lia).
    assert (E3 : (l + 1 + j + n =? l) = false) by (apply Nat.eqb_neq; lia). rewrite E2, E3.
    replace (l + 1 + j + n) with (l + 1 + n + j) by lia. rewrite (HA j Hj).
    assert (E4 : (j <? j) = false) by (apply Nat.ltb_ge; lia). rewrite E4. reflexivity. }
  destruct (update_data_exact s2 (l + 1 + j + n) CEmpty (CAssociativeItem s0 b) G2 Hs3) as (s3 & H3 & G3 & L3 & N3); try reflexivity; try exact I.
  { replace (l + 1 + j + n) with (l + (1 + j + n)) by lia. eapply open_region_not_frozen; [apply (g_region s2 G2)|exact Hq2|lia]. }
  rewrite (sbind_done _ _ _ _ _ _ _ _ H3). exists s3. split; [reflexivity|]. split; [exact G3|].
  apply (Hfinish s3 G3 L3). intro p. rewrite N3. unfold slot_of, bview. rewrite Eca, Ecl. reflexivity.
Qed.

(* ---- all the add_to_list calls ---- *)
Lemma add_all : forall T items rest j s, G s -> building T items j (data s) -> j + length rest = length items ->
  (forall i, i < length rest -> nth i rest 0 = nth (j + i) items 0) -> (forall a, In a items -> valid_item T a) ->
  exists s', add_items basic_ops rest (length T) s = Ok (s', Done (length T)) /\ G s' /\ building T items (length items) (data s').
Proof.
  intros T items rest. induction rest as [|a r IH]; intros j s Gs B Hlen Hnth Hval.
  - cbn in Hlen. exists s. split; [reflexivity|]. split; [exact Gs|]. replace (length items) with j by lia. exact B.
  - cbn [length] in Hlen. cbn [add_items d_add_to_list basic_ops].
    assert (Ha : nth j items 0 = a). { specialize (Hnth 0 ltac:(cbn; lia)). cbn in Hnth. rewrite Nat.add_0_r in Hnth. auto. }
    destruct (add_step T items j s a Gs B ltac:(lia) Ha) as (s1 & H1 & G1 & B1).
    { apply Hval. rewrite <- Ha. apply nth_In. lia. }
    rewrite (sbind_done _ _ _ _ _ _ _ _ H1).
    apply (IH (S j) s1 G1 B1); [lia| |exact Hval].
    intros i Hi. specialize (Hnth (S i) ltac:(cbn; lia)). cbn in Hnth. rewrite Hnth. f_equal. lia.
Qed.

(* ---- slices of the heap that lie inside the data table ---- *)
Lemma heap_slice_data : forall s a' b', Inv s -> a' <= b' -> b' <= cur s BData ->
  slice_ix (heap s) (st s BData + a') (st s BData + b') = Some (firstn (b' - a') (skipn a' (data s))).
Proof.
  intros s a' b' I Hab Hb.
  pose proof (inv_cursor s I BData) as Hc.
  assert (Hin : st s BData + b' <= length (heap s)).
  { destruct (Nat.eq_dec b' 0) as [->|Hn].
    - pose proof (inv_len s I) as Hl. rewrite (inv_start s I), Hl. unfold total_size, sz. cbn [offset]. lia.
    - pose proof (in_heap s BData (b' - 1) I). lia. }
  rewrite slice_ix_some by lia. f_equal. apply list_ext_nth. intro k. unfold data. rewrite !nth_error_window, window_nth.
  replace (st s BData + b' - (st s BData + a')) with (b' - a') by lia.
  destruct (k <? b' - a') eqn:E; [|reflexivity]. bool_arith.
  assert (E2 : (a' + k <? cur s BData) = true) by (apply Nat.ltb_lt; lia). rewrite E2. f_equal. lia.
Qed.

Definition nonempty (c : cell) : bool := negb (is_empty_cell c).
Definition assoc_count (T : list cell) (items : list nat) : nat := length (filter nonempty (map (slot_of T) items)).
Definition sorted_region (T : list cell) (items : list nat) : list cell := stable_sort assoc_le (map (slot_of T) items).

(* the finished list *)
Definition built (T : list cell) (items : list nat) (D : list cell) : Prop :=
  length D = length T + 1 + 2 * length items /\
  (forall p, p < length T -> nth_error D p = nth_error T p) /\
  nth_error D (length T) = Some (CList (length items) (assoc_count T items)) /\
  (forall i, i < length items -> nth_error D (length T + 1 + i) = Some (CListItem (nth i items 0))) /\
  (forall i, i < length items -> nth_error D (length T + 1 + length items + i) = nth_error (sorted_region T items) i).

Lemma region_of_building : forall T items D, building T items (length items) D ->
  firstn (length items) (skipn (length T + 1 + length items) D) = map (slot_of T) items.
Proof.
  intros T items D (HL & _ & _ & _ & HA). apply list_ext_nth. intro i. rewrite nth_error_window.
  destruct (i <? length items) eqn:E.
  - assert (E' := E). apply Nat.ltb_lt in E'. rewrite (HA i E'), E. rewrite nth_error_map.
    rewrite (nth_error_nth' items 0 E'). reflexivity.
  - apply Nat.ltb_ge in E. symmetry. apply nth_error_None. rewrite map_length. exact E.
Qed.

Lemma end_list_exact : forall T items s, G s -> building T items (length items) (data s) ->
  exists s', end_list (length T) s = Ok (s', Done (length T)) /\ G s' /\ built T items (data s').
Proof.
  intros T items s Gs B. pose proof B as (HL & HT & HH & HI & HA).
  set (l := length T) in *. set (n := length items) in *.
  pose proof (good_inv s (g_good s Gs)) as I.
  unfold end_list. rewrite (sbind_done _ _ _ _ _ _ _ _ (get_data_some s l _ Gs HH)).
  assert (E : (n <? n) = false) by (apply Nat.ltb_ge; lia). rewrite E.
  unfold sbind at 1. unfold sget at 1.
  change (b_start (blk_data s)) with (st s BData).
  assert (Hcur : cur s BData = l + 1 + 2 * n) by (rewrite <- (data_len s I); exact HL).
  replace (st s BData + l + 1 + n) with (st s BData + (l + 1 + n)) by lia.
  replace (st s BData + (l + 1 + n) + n) with (st s BData + (l + 1 + n + n)) by lia.
  rewrite (heap_slice_data s (l + 1 + n) (l + 1 + n + n) I) by lia.
  replace (l + 1 + n + n - (l + 1 + n)) with n by lia.
  pose proof (region_of_building T items (data s) B) as HR. fold l n in HR. rewrite HR.
  destruct (sort_region_ok s l n n Gs HH) as (s1 & H1 & G1 & _ & Hq1 & _).
  destruct (sort_range_ok s BData (l + 1 + n) (l + 1 + n + n) I) as (s1' & H1' & _ & Hw1 & _); [lia|lia|].
  rewrite H1 in H1'. inversion H1'; subst s1'. clear H1'.
  fold (data s1) (data s) in Hw1. replace (l + 1 + n + n - (l + 1 + n)) with n in Hw1 by lia.
  rewrite HR in Hw1.
  rewrite (sbind_done _ _ _ _ _ _ _ _ H1).
  assert (LR : length (stable_sort assoc_le (map (slot_of T) items)) = n) by (rewrite stable_sort_length, map_length; reflexivity).
  assert (N1 : forall p, nth_error (data s1) p =
     if (l + 1 + n <=? p) && (p <? l + 1 + n + n) then nth_error (sorted_region T items) (p - (l + 1 + n)) else nth_error (data s) p).
  { intro p. unfold sorted_region. rewrite Hw1. apply splice_ix_nth; [lia|lia|]. rewrite LR. lia. }
  assert (L1 : length (data s1) = length (data s)).
  { rewrite Hw1. apply splice_ix_length; [lia|lia|]. rewrite LR. lia. }
  destruct (update_data_exact s1 l (CUninitializedList n n) (CList n (assoc_count T items)) G1 Hq1) as (s2 & H2 & G2 & L2 & N2); try reflexivity; try exact I.
  { eapply unstable_not_in_list; [apply (g_region s1 G1)|exact Hq1|reflexivity|reflexivity]. }
  unfold assoc_count, nonempty in H2. rewrite (sbind_done _ _ _ _ _ _ _ _ H2).
  exists s2. split; [reflexivity|]. split; [exact G2|].
  unfold built. fold l n. split; [rewrite L2, L1; exact HL|].
  split; [|split; [|split]].
  - intros p Hp. rewrite N2, N1. assert (E1 : (p =? l) = false) by (apply Nat.eqb_neq; lia). rewrite E1.
    assert (E2 : (l + 1 + n <=? p) = false) by (apply Nat.leb_gt; lia). rewrite E2. cbn [andb]. apply HT. exact Hp.
  - rewrite N2, Nat.eqb_refl. reflexivity.
  - intros i Hi. rewrite N2, N1. assert (E1 : (l + 1 + i =? l) = false) by (apply Nat.eqb_neq; lia). rewrite E1.
    assert (E2 : (l + 1 + n <=? l + 1 + i) = false) by (apply Nat.leb_gt; lia). rewrite E2. cbn [andb].
    rewrite (HI i Hi). assert (E3 : (i <? n) = true) by (apply Nat.ltb_lt; exact Hi). rewrite E3. reflexivity.
  - intros i Hi. rewrite N2, N1. assert (E1 : (l + 1 + n + i =? l) = false) by (apply Nat.eqb_neq; lia). rewrite E1.
    assert (E2 : (l + 1 + n <=? l + 1 + n + i) = true) by (apply Nat.leb_le; lia).
    assert (E3 : (l + 1 + n + i <? l + 1 + n + n) = true) by (apply Nat.ltb_lt; lia). rewrite E2, E3. cbn [andb].
    f_equal. lia.
Qed.

(* ---- start_list ; add_to_list* ; end_list ---- *)
Theorem basic_build : forall items s, G s -> (forall a, In a items -> valid_item (data s) a) ->
  exists s', build_list basic_ops items s = Ok (s', Done (length (data s))) /\ G s' /\ built (data s) items (data s').
Proof.
  intros items s Gs Hval. unfold build_list. cbn [d_start_list d_end_list basic_ops].
  destruct (start_list_exact (length items) s Gs) as (s1 & H1 & G1 & D1).
  rewrite (sbind_done _ _ _ _ _ _ _ _ H1).
  assert (B1 : building (data s) items 0 (data s1)) by (rewrite D1; apply building_start).
  destruct (add_all (data s) items items 0 s1 G1 B1) as (s2 & H2 & G2 & B2); [reflexivity|intros; reflexivity|exact Hval|].
  rewrite (sbind_done _ _ _ _ _ _ _ _ H2).
  destruct (end_list_exact (data s) items s2 G2 B2) as (s3 & H3 & G3 & B3).
  exists s3. auto.
Qed.

(* ---- the shape of the sorted association region ---- *)
Definition cell_kv (c : cell) : list (N * nat) := match c with CAssociativeItem k v => [(k, v)] | _ => [] end.
Definition key_le (a b : N * nat) : Prop := (fst a <= fst b)%N.

Lemma sorted_split : forall R, StronglySorted le_cell R ->
  (forall c, In c R -> (exists k v, c = CAssociativeItem k v) \/ c = CEmpty) ->
  exists tbl m, R = map cell_of tbl ++ repeat CEmpty m /\ StronglySorted key_le tbl.
Proof.
  induction R as [|x r IH]; intros Hs Hk.
  - exists [], 0. split; [reflexivity|constructor].
  - inversion Hs; subst. destruct (IH H1) as (tbl & m & Hr & Hst); [intros c Hc; apply Hk; right; exact Hc|].
    destruct (Hk x (or_introl eq_refl)) as [(k & v & Hx)|Hx]; subst x.
    + exists ((k, v) :: tbl), m. split; [cbn; rewrite Hr; reflexivity|].
      constructor; [exact Hst|]. rewrite Forall_forall in *. intros [k' v'] Hin.
      assert (Hc : In (CAssociativeItem k' v') r) by (rewrite Hr; apply in_or_app; left; apply (in_map cell_of tbl (k', v')); exact Hin).
      specialize (H2 _ Hc). unfold le_cell in H2. cbn in H2. unfold key_le. cbn. apply N.leb_le. exact H2.
    + (* an Empty first: nothing after it is an association *)
      assert (tbl = []).
      { destruct tbl as [|[k v] t]; [reflexivity|]. exfalso. rewrite Forall_forall in H2.
        assert (Hc : In (CAssociativeItem k v) r) by (rewrite Hr; left; reflexivity).
        specialize (H2 _ Hc). unfold le_cell in H2. cbn in H2. discriminate. }
      subst tbl. exists [], (S m). split; [cbn in *; rewrite Hr; reflexivity|constructor].
Qed.

Lemma strict_of_nodup : forall tbl, StronglySorted key_le tbl -> NoDup (map fst tbl) -> StronglySorted key_lt tbl.
Proof.
  induction tbl as [|[k v] t IH]; intros Hs Hn; [constructor|].
  inversion Hs; subst. cbn in Hn. inversion Hn; subst. constructor; [apply IH; assumption|].
  rewrite Forall_forall in *. intros [k' v'] Hin. specialize (H2 _ Hin). unfold key_le, key_lt in *. cbn in *.
  assert (k <> k') by (intro; subst; apply H3; apply (in_map fst t (k', v')); exact Hin). lia.
Qed.

Lemma flat_kv_cells : forall tbl m, flat_map cell_kv (map cell_of tbl ++ repeat CEmpty m) = tbl.
Proof.
  intros tbl m. rewrite flat_map_app.
  assert (H1 : flat_map cell_kv (map cell_of tbl) = tbl).
  { induction tbl as [|[k v] t IH]; [reflexivity|]. cbn. f_equal. exact IH. }
  assert (H2 : flat_map cell_kv (repeat CEmpty m) = []) by (induction m; [reflexivity|cbn; assumption]).
  rewrite H1, H2. apply app_nil_r.
Qed.

Definition kvs (T : list cell) (items : list nat) : list (N * nat) :=
  flat_map (fun a => match bview T a with Some kv => [kv] | None => [] end) items.

Lemma flat_kv_slots : forall T items, flat_map cell_kv (map (slot_of T) items) = kvs T items.
Proof.
  intros T items. unfold kvs. induction items as [|a r IH]; [reflexivity|]. cbn [map flat_map]. rewrite IH. f_equal.
  unfold slot_of. destruct (bview T a) as [[k v]|]; reflexivity.
Qed.

Lemma kvs_keys : forall T items, map fst (kvs T items) = keys_of (map (bview T) items).
Proof.
  intros T items. unfold kvs, keys_of. induction items as [|a r IH]; [reflexivity|]. cbn [map flat_map].
  rewrite map_app, IH. f_equal. destruct (bview T a) as [[k v]|]; reflexivity.
Qed.

Lemma kvs_in : forall T items kv, In kv (kvs T items) <-> In (Some kv) (map (bview T) items).
Proof.
  intros T items kv. unfold kvs. rewrite in_flat_map, in_map_iff. split.
  - intros (a & Ha & Hin). exists a. split; [|exact Ha]. destruct (bview T a) as [kv'|]; [destruct Hin as [->|[]]; reflexivity|destruct Hin].
  - intros (a & Hv & Ha). exists a. split; [exact Ha|]. rewrite Hv. left. reflexivity.
Qed.

Lemma filter_nonempty_cells : forall tbl m, length (filter nonempty (map cell_of tbl ++ repeat CEmpty m)) = length tbl.
Proof.
  intros tbl m. rewrite filter_app, app_length.
  assert (H1 : length (filter nonempty (map cell_of tbl)) = length tbl) by (induction tbl as [|[k v] t IH]; [reflexivity|cbn; f_equal; exact IH]).
  assert (H2 : filter nonempty (repeat CEmpty m) = []) by (induction m; [reflexivity|cbn; assumption]).
  rewrite H1, H2. cbn. lia.
Qed.

Lemma perm_filter_length : forall (f : cell -> bool) l l', Permutation l l' -> length (filter f l) = length (filter f l').
Proof.
  intros f l l' H. induction H; cbn; try lia.
  - destruct (f x); cbn; lia.
  - destruct (f x), (f y); cbn; lia.
Qed.

(* ---- reading the finished list ---- *)
Section Read.
Variables (s : basic) (T : list cell) (items : list nat).
Hypothesis Gs : G s.
Hypothesis Hb : built T items (data s).

Let I := good_inv s (g_good s Gs).

Lemma read_header : get_from_block BData (length T) s = Ok (CList (length items) (assoc_count T items)).
Proof.
  destruct Hb as (_ & _ & HH & _). rewrite (get_from_block_ok s BData _ I). fold (data s). rewrite HH. reflexivity.
Qed.

Theorem basic_len : get_list_len (length T) s = Ok (length items).
Proof. unfold get_list_len. rewrite read_header. reflexivity. Qed.

Theorem basic_item : forall k, k < length items -> get_list_item (length T) (Z.of_nat k) s = Ok (Some (nth k items 0)).
Proof.
  intros k Hk. unfold get_list_item. rewrite read_header. cbn [bind as_list fst].
  assert (E : (Z.of_nat k <? 0)%Z = false) by (apply Z.ltb_ge; lia). rewrite E.
  unfold usize_of_int. rewrite Z.max_l, Nat2Z.id by lia.
  assert (E2 : (length items <=? k) = false) by (apply Nat.leb_gt; exact Hk). rewrite E2.
  destruct Hb as (_ & _ & _ & HI & _). rewrite (get_from_block_ok s BData _ I). fold (data s). rewrite (HI k Hk). reflexivity.
Qed.

Theorem basic_item_negative : forall z, (z < 0)%Z -> get_list_item (length T) z s = Ok None.
Proof.
  intros z Hz. unfold get_list_item. rewrite read_header. cbn [bind as_list fst].
  apply Z.ltb_lt in Hz. rewrite Hz. reflexivity.
Qed.

(* the listed finding C16-K1: past the end the Basic store reports an error *)
Theorem basic_item_past_end : forall z, (Z.of_nat (length items) <= z)%Z -> get_list_item (length T) z s = Err E_list.
Proof.
  intros z Hz. unfold get_list_item. rewrite read_header. cbn [bind as_list fst].
  assert (E : (z <? 0)%Z = false) by (apply Z.ltb_ge; lia). rewrite E.
  assert (E2 : (length items <=? usize_of_int z) = true) by (apply Nat.leb_le; unfold usize_of_int; lia). rewrite E2. reflexivity.
Qed.

Lemma list_items_of_map : forall l, list_items_of (map CListItem l) = Ok l.
Proof. induction l as [|a r IH]; [reflexivity|]. cbn. rewrite IH. reflexivity. Qed.

Theorem basic_iter : get_list_item_iter_all (length T) s = Ok items.
Proof.
  unfold get_list_item_iter_all. rewrite read_header. cbn [bind as_list fst].
  change (b_start (blk_data s)) with (st s BData).
  destruct Hb as (HL & _ & _ & HI & _).
  assert (Hcur : cur s BData = length T + 1 + 2 * length items) by (rewrite <- (data_len s I); exact HL).
  replace (st s BData + length T + 1) with (st s BData + (length T + 1)) by lia.
  replace (st s BData + (length T + 1) + length items) with (st s BData + (length T + 1 + length items)) by lia.
  rewrite (heap_slice_data s _ _ I) by lia.
  replace (length T + 1 + length items - (length T + 1)) with (length items) by lia.
  assert (Hs : firstn (length items) (skipn (length T + 1) (data s)) = map CListItem items).
  { apply list_ext_nth. intro i. rewrite nth_error_window. destruct (i <? length items) eqn:E.
    - apply Nat.ltb_lt in E. rewrite (HI i E), nth_error_map, (nth_error_nth' items 0 E). reflexivity.
    - apply Nat.ltb_ge in E. symmetry. apply nth_error_None. rewrite map_length. exact E. }
  rewrite Hs. apply list_items_of_map.
Qed.

Theorem basic_lookup : forall sym, NoDup (keys_of (map (bview T) items)) ->
  get_list_item_with_symbol (length T) sym s = Ok (assoc_lookup sym (map (bview T) items)).
Proof.
  intros sym Hnd. unfold get_list_item_with_symbol. rewrite read_header. cbn [bind as_list fst snd].
  change (b_start (blk_data s)) with (st s BData).
  destruct Hb as (HL & _ & _ & _ & HA).
  assert (Hcur : cur s BData = length T + 1 + 2 * length items) by (rewrite <- (data_len s I); exact HL).
  (* the sorted region *)
  set (R := sorted_region T items) in *.
  assert (HP : Permutation (map (slot_of T) items) R) by apply stable_sort_perm.
  destruct (sorted_split R (stable_sort_sorted _)) as (tbl & m & HR & Hst).
  { intros c Hc. apply (Permutation_in _ (Permutation_sym HP)) in Hc. apply in_map_iff in Hc. destruct Hc as (a & <- & _).
    unfold slot_of. destruct (bview T a) as [[k v]|]; [left; eauto|right; reflexivity]. }
  assert (Hperm : Permutation (kvs T items) tbl).
  { rewrite <- (flat_kv_slots T items), <- (flat_kv_cells tbl m), <- HR. apply Permutation_flat_map. exact HP. }
  assert (Hac : assoc_count T items = length tbl).
  { unfold assoc_count. rewrite (perm_filter_length nonempty _ _ HP), HR. apply filter_nonempty_cells. }
  assert (Hnd' : NoDup (map fst tbl)).
  { apply (Permutation_NoDup (Permutation_map fst Hperm)). rewrite kvs_keys. exact Hnd. }
  assert (LR : length R = length items) by (unfold R, sorted_region; rewrite stable_sort_length, map_length; reflexivity).
  assert (Hlt : length tbl <= length items).
  { rewrite <- LR, HR, app_length, map_length. lia. }
  rewrite Hac.
  replace (st s BData + length T + length items + 1) with (st s BData + (length T + 1 + length items)) by lia.
  replace (st s BData + (length T + 1 + length items) + length tbl) with (st s BData + (length T + 1 + length items + length tbl)) by lia.
  rewrite (heap_slice_data s _ _ I) by lia.
  replace (length T + 1 + length items + length tbl - (length T + 1 + length items)) with (length tbl) by lia.
  assert (Hs : firstn (length tbl) (skipn (length T + 1 + length items) (data s)) = map cell_of tbl).
  { apply list_ext_nth. intro i. rewrite nth_error_window. destruct (i <? length tbl) eqn:E.
    - apply Nat.ltb_lt in E. rewrite (HA i) by lia. rewrite HR, nth_error_app1 by (rewrite map_length; exact E). reflexivity.
    - apply Nat.ltb_ge in E. symmetry. apply nth_error_None. rewrite map_length. exact E. }
  rewrite Hs.
  rewrite (search_value_spec tbl (strict_of_nodup tbl Hst Hnd') sym Hnd'). f_equal.
  (* the table and the items hold the same associations *)
  destruct (assoc_lookup sym (map (bview T) items)) as [v|] eqn:El.
  - assert (Hin : In (Some (sym, v)) (map (bview T) items)).
    { clear - El. induction (map (bview T) items) as [|[[k x]|] r IH]; cbn in El; [discriminate| |].
      - destruct (N.eqb k sym) eqn:E; [apply N.eqb_eq in E; inversion El; subst; left; reflexivity|right; auto].
      - right; auto. }
    apply assoc_lookup_some.
    + apply in_map. apply (Permutation_in _ Hperm). apply kvs_in. exact Hin.
    + apply nodup_unique.
      * assert (Hk : keys_of (map Some tbl) = map fst tbl).
        { clear. induction tbl as [|[k x] t IH]; [reflexivity|]. cbn. f_equal. exact IH. }
        rewrite Hk. exact Hnd'.
      * apply in_map. apply (Permutation_in _ Hperm). apply kvs_in. exact Hin.
  - apply assoc_lookup_none. intros v Hin. apply in_map_iff in Hin. destruct Hin as (kv & Hkv & Hin). inversion Hkv; subst kv.
    apply (Permutation_in _ (Permutation_sym Hperm)) in Hin. apply kvs_in in Hin.
    clear - El Hin. induction (map (bview T) items) as [|[[k x]|] r IH]; [destruct Hin| |].
    + cbn in El. destruct (N.eqb k sym) eqn:E; [discriminate|]. destruct Hin as [H|H]; [inversion H; subst; rewrite N.eqb_refl in E; discriminate|auto].
    + cbn in El. destruct Hin as [H|H]; [discriminate|auto].
Qed.
End Read.
