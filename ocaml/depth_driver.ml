(* depth driver (C06): reads the depth harness lines
     <case>\t<impl result>\ttoks=<i,i,...>
   and prints  <case>\tB=<..> C=<same|..> D=<ok:[r.v;...]|untypable|-> A=<..> AB=<..> G=<finding classes of the tree> L=<1|0|-: the tree keeps the arity discipline of the inductive theorem>\t-
     B: the worklist model's build (harness format)     C: tree compiler vs B
     D: infer_depths on the model's program: per instruction r.v or _ (unreachable)
     A / AB: the observed run on Simple / Basic replayed on the abstract depth machine:
        ok:<n>          every observed step is a move of the machine (n steps)
        bad@k           step k is not a move of the machine
        stuck@k         the run stopped with an error where the machine has no move (underflow ...)
        err@k           the run stopped with an error although the machine can move
        off@k           the run ended by leaving the instruction stream at step k
        untyped@k       (only when D is ok) the configuration before step k differs from D
      followed, for completed runs, by  :final=<regs>.<values>.<frames> *)
let nat_of_int (i : int) : nat = let rec go k acc = if k <= 0 then acc else go (k - 1) (S acc) in go i O
let int_of_nat (n : nat) : int = let rec go n acc = match n with O -> acc | S m -> go m (acc + 1) in go n 0

let tt_table : token_type array = Array.of_list all_token_type

let opt_nat (o : nat option) : string = match o with None -> "-" | Some n -> string_of_int (int_of_nat n)
let show_operand (o : operand) : string =
  match o with
  | ONone -> "-"
  | ONum k -> "n" ^ string_of_int (int_of_nat k)
  | OData _ -> "d"
  | OExpr j -> "x" ^ string_of_int (int_of_nat j)
let show_err (c : n) : string = "ERR" ^ string_of_int (int_of_n c)
let show_code (entry : nat) (ins : (instruction * operand) list) (js : nat list) (ms : nat option list) : string =
  Printf.sprintf "OK:%d:I[%s]:J[%s]:M[%s]" (int_of_nat entry)
    (String.concat "," (List.map (fun (i, o) ->
        string_of_int (int_of_n (instruction_index i)) ^ show_operand o) ins))
    (String.concat "," (List.map (fun j -> string_of_int (int_of_nat j)) js))
    (String.concat "," (List.map opt_nat ms))

let field (fs : string list) (name : string) : string option =
  let n = String.length name in
  List.fold_left (fun acc f ->
      match acc with
      | Some _ -> acc
      | None -> if String.length f > n && String.sub f 0 (n + 1) = name ^ "=" then Some (String.sub f (n + 1) (String.length f - n - 1)) else None)
    None fs

(* X=<END|..>:<steps>:<result>:[obs;..]:[instr;..] ; the result value may contain ':' -> split from both ends *)
type obs = { pc : int; rel : int; values : int; frames : int; total : int }
let parse_obs (s : string) : obs =
  match split_on '.' s with
  | [a; b; c; d; e] -> { pc = int_of_string a; rel = int_of_string b; values = int_of_string c; frames = int_of_string d; total = int_of_string e }
  | _ -> failwith ("bad obs " ^ s)

let parse_run (x : string) : (string * obs list) option =
  if x = "-" then None else
  let i1 = String.index x ':' in
  let end_name = String.sub x 0 i1 in
  (* trace is the bracket group before the last one *)
  let last_open = String.rindex x '[' in
  let before = String.sub x 0 (last_open - 2) in   (* drop "]:" *)
  let tr_open = String.rindex before '[' in
  let tr = String.sub before (tr_open + 1) (String.length before - tr_open - 1) in
  let obs = if tr = "" then [] else List.map parse_obs (split_on ';' tr) in
  Some (end_name, obs)

let obs_of_cfg (c : acfg) : int * int * int * int * int =
  (int_of_nat c.a_pc, int_of_nat c.a_r, int_of_nat (total_values (S O) c), List.length c.a_frames, int_of_nat (total_regs c))

let replay (p : prog) (dm : (nat -> (nat * nat) option) option) (end_name : string) (trace : obs list) (clears_at_end : bool) : string =
  match pjump p p.pg_entry with
  | None -> if end_name = "NOENTRY" then "noentry" else "bad@entry"
  | Some t ->
    (match trace with
     | [] -> "empty"
     | o0 :: rest ->
       let c0 = a_init p t in
       if obs_of_cfg c0 <> (o0.pc, o0.rel, o0.values, o0.frames, o0.total) then "bad@0" else
       let untyped = ref None in
       let check_typed_cfg k (c : acfg) =
         (match dm with
          | Some d ->
            (match d c.a_pc with
             | Some (r, v) when r = c.a_r && v = c.a_v -> ()
             | _ -> if !untyped = None then untyped := Some k)
          | None -> ()) in
       let n = List.length rest in
       let rec go (k : int) (c : acfg) (rest : obs list) : string =
         check_typed_cfg k c;
         match rest with
         | [] -> if end_name = "LIMIT" then Printf.sprintf "ok:%d" (k - 1) else Printf.sprintf "short@%d" k
         | o :: more ->
           let moves = asteps p c in
           let is_last = (more = []) in
           if is_last && end_name = "ERROR" then
             (if moves = [] then Printf.sprintf "stuck@%d" k else Printf.sprintf "err@%d" k)
           else begin
             let step_match = List.filter_map (fun m ->
                 match m with
                 | AStep c' -> if obs_of_cfg c' = (o.pc, o.rel, o.values, o.frames, o.total) then Some c' else None
                 | AHalt _ -> None) moves in
             match step_match with
             | c' :: _ when not (is_last && end_name = "END") -> go (k + 1) c' more
             | _ ->
               if is_last && end_name = "END" then begin
                 (* the run ended: by EndExpression with no frame, or by leaving the stream *)
                 let halts = List.filter_map (fun m -> match m with AHalt (r, v) -> Some (int_of_nat r, int_of_nat v) | _ -> None) moves in
                 match halts with
                 | (r, v) :: _ ->
                   let exp_regs = if clears_at_end then 0 else r in
                   if o.values = 1 + v && o.frames = 0 && o.total = exp_regs
                   then Printf.sprintf "ok:%d:final=%d.%d.%d" n r (1 + v) 0
                   else Printf.sprintf "bad@%d" k
                 | [] ->
                   let offs = List.filter_map (fun m ->
                       match m with
                       | AStep c' ->
                         (match pinstr p c'.a_pc with
                          | None ->
                            let (_, r, v, f, t) = obs_of_cfg c' in
                            if (o.rel, o.values, o.frames, o.total) = (r, v, f, t) then Some c' else None
                          | Some _ -> None)
                       | AHalt _ -> None) moves in
                   (match offs with
                    | c' :: _ -> let (_, _, v, f, t) = obs_of_cfg c' in Printf.sprintf "off@%d:final=%d.%d.%d" k t v f
                    | [] -> Printf.sprintf "bad@%d" k)
               end else Printf.sprintf "bad@%d" k
           end in
       let r = go 1 c0 rest in
       (match !untyped with
        | Some k when String.length r >= 2 && String.sub r 0 2 = "ok" -> Printf.sprintf "untyped@%d" k
        | _ -> r))

let () =
  iter_lines (fun line ->
    match split_on '\t' line with
    | case :: impl :: oracle :: _ ->
      let ofields = split_on ' ' oracle in
      (match field ofields "toks" with
       | None -> Printf.printf "%s\t-\t-\n" case
       | Some body ->
         let idx = if body = "" then [] else List.map int_of_string (split_on ',' body) in
         let toks = List.map (fun i -> tt_table.(i)) idx in
         (match parse toks with
          | Err c -> Printf.printf "%s\tP=%s\t-\n" case (show_err c)
          | Panic _ -> Printf.printf "%s\tP=PANIC\t-\n" case
          | OutOfFuel -> Printf.printf "%s\tP=HANG\t-\n" case
          | Ok (root, nodes) ->
            let lit _ = true in
            let b = build nodes empty_init lit (build_fuel nodes) root in
            let c = compile_nodes nodes empty_init lit root in
            let cs =
              (match c, b with
               | Ok cr, Ok br when same_code cr br -> "same"
               | Ok (s, entry), _ -> show_code entry s.ci s.cj s.cm
               | Err cc, Err bc when cc = bc -> "same"
               | Err cc, _ -> show_err cc
               | Panic _, _ -> "PANIC"
               | OutOfFuel, _ -> "HANG") in
            let tags =
              (match nodes with
               | [] -> "empty_program"
               | _ ->
                 (match tree_of nodes root with
                  | None -> "notree"
                  | Some t ->
                    String.concat "+" (List.filter_map (fun (f, name) -> if f t then Some name else None)
                      [ (has_chain_no_else, "chain_no_else"); (has_empty_value, "empty_group");
                        (has_reapply_pending, "reapply_pending"); (has_chain_early_else, "chain_early_else");
                        (has_terminator, "terminator") ]))) in
            let tags = if tags = "" then "none" else tags in
            (* the arity discipline of the inductive static theorem (Proofs/C06/Balanced.v) *)
            let disc =
              (match nodes with
               | [] -> "-"
               | _ -> (match tree_of nodes root with None -> "-" | Some t -> if balanced t then "1" else "0")) in
            (match b with
             | Err e -> Printf.printf "%s\tB=%s C=%s D=- A=- AB=-\t-\n" case (show_err e) cs
             | Panic _ -> Printf.printf "%s\tB=PANIC C=%s D=- A=- AB=-\t-\n" case cs
             | OutOfFuel -> Printf.printf "%s\tB=HANG C=%s D=- A=- AB=-\t-\n" case cs
             | Ok (s, entry) ->
               let p = prog_of_build empty_init (s, entry) in
               let d = infer_depths p in
               let ds, dm =
                 (match d with
                  | None -> "untypable", None
                  | Some l ->
                    "ok:[" ^ String.concat ";" (List.map (fun x ->
                        match x with
                        | None -> "_"
                        | Some (r, v) -> Printf.sprintf "%d.%d" (int_of_nat r) (int_of_nat v)) l) ^ "]",
                    Some (dmap_of p l)) in
               let ifields = split_on ' ' impl in
               let x = field ifields "X" and xb = field ifields "XB" in
               let a = (match x with
                        | None -> "-"
                        | Some xs -> (match parse_run xs with None -> "-" | Some (e, tr) -> replay p dm e tr true)) in
               let ab = (match xb with
                         | None -> "-"
                         | Some "same" ->
                           (match x with
                            | None -> "-"
                            | Some xs -> (match parse_run xs with None -> "-" | Some (e, tr) -> replay p dm e tr false))
                         | Some xs -> (match parse_run xs with None -> "-" | Some (e, tr) -> replay p dm e tr false)) in
               Printf.printf "%s\tB=%s C=%s D=%s A=%s AB=%s G=%s L=%s\t-\n" case (show_code entry s.instrs s.jumps s.meta) cs ds a ab tags disc)))
    | _ -> failwith ("bad line " ^ line))
