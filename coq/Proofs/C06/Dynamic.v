(* The dynamic half of C06 on the abstract stack-depth machine of Spec/Depth.v:
   in a typed program every reachable configuration carries exactly the depths
   the typing assigns to its pc (so the operand depth never drops below zero,
   the machine is never stuck on an underflow, and a loop head is reached at
   the same depth at every iteration); when the program ends, the operand
   stack, the value stack and the frame chain are back where they started. *)
From Coq Require Import List Arith Bool NArith Lia.
From GV Require Import Base.Result Gen.Instr Model.BuilderWL Spec.Depth Proofs.C06.DepthSound.
Import ListNotations.

Section Dyn.
Variable p : prog.
Variable d : dmap.
Hypothesis Htyped : typed p d.

Definition frame_ok (f : nat * nat * nat) : Prop :=
  d (fst (fst f)) = Some (S (snd (fst f)), snd f).

Definition inv (c : acfg) : Prop :=
  d (a_pc c) = Some (a_r c, a_v c) /\ Forall frame_ok (a_frames c).

Lemma expr_ref_entry : forall j, In j (expr_refs p) -> In j (entry_refs p).
Proof. intros j H. right. exact H. Qed.

Lemma inv_step : forall c c', inv c -> astep p c (AStep c') -> inv c'.
Proof.
  intros c c' [Hd Hf] Hs. destruct Htyped as [Hent Hnode].
  destruct c as [pc r v fs]. cbn [a_pc a_r a_v a_frames] in *.
  destruct (Hnode _ _ Hd) as [io [l [Hio [Hsucc Hall]]]].
  unfold astep, asteps in Hs. cbn [a_pc a_r a_v a_frames] in Hs. rewrite Hio in Hs.
  destruct io as [i o]. cbn [fst] in Hs.
  destruct i;
    try (
      (* instructions whose moves are exactly their successors *)
      cbn [fst] in Hs; rewrite Hsucc in Hs; apply in_map_iff in Hs;
      destruct Hs as [[pc' [r' v']] [Heq Hin]]; inversion Heq; subst; clear Heq;
      split; [cbn [a_pc a_r a_v fst snd]; exact (Hall _ _ Hin) | exact Hf]).
  - (* EndExpression *)
    destruct (Nat.leb 1 r); [|destruct Hs].
    destruct fs as [|[[ret r'] v'] fs].
    + destruct Hs as [Hs|[]]. discriminate.
    + destruct Hs as [Hs|[]]. inversion Hs; subst. clear Hs.
      inversion Hf as [|f fs' Hf1 Hf2]; subst.
      split; [exact Hf1 | exact Hf2].
  - (* Apply *)
    cbn [effect fst e_pop e_push e_vup e_vdown] in Hs.
    unfold succs in Hsucc. cbn [fst effect e_pop e_push e_vup e_vdown] in Hsucc.
    destruct (Nat.leb 2 r && Nat.leb 0 v) eqn:E; [|discriminate].
    apply andb_true_iff in E. destruct E as [E1 _]. rewrite E1 in Hs. apply Nat.leb_le in E1.
    inversion Hsucc; subst. clear Hsucc.
    destruct Hs as [Hs|Hs].
    + inversion Hs; subst. split; [|exact Hf]. cbn [a_pc a_r a_v e_pop e_push e_vup e_vdown].
      rewrite (Hall (S pc) _ (or_introl eq_refl)). cbn. f_equal. f_equal; lia.
    + apply in_flat_map in Hs. destruct Hs as [j [Hj Hin]].
      destruct (Hent j (expr_ref_entry j Hj)) as [t [Hjt Hdt]]. rewrite Hjt in Hin.
      destruct Hin as [Hin|[]]. inversion Hin; subst. clear Hin.
      split; [cbn; exact Hdt|]. constructor; [|exact Hf].
      unfold frame_ok. cbn [fst snd e_pop].
      rewrite (Hall (S pc) _ (or_introl eq_refl)). cbn. f_equal. f_equal; lia.
  - (* EmptyApply *)
    cbn [effect fst e_pop e_push e_vup e_vdown] in Hs.
    unfold succs in Hsucc. cbn [fst effect e_pop e_push e_vup e_vdown] in Hsucc.
    destruct (Nat.leb 1 r && Nat.leb 0 v) eqn:E; [|discriminate].
    apply andb_true_iff in E. destruct E as [E1 _]. rewrite E1 in Hs. apply Nat.leb_le in E1.
    inversion Hsucc; subst. clear Hsucc.
    destruct Hs as [Hs|Hs].
    + inversion Hs; subst. split; [|exact Hf]. cbn [a_pc a_r a_v e_pop e_push e_vup e_vdown].
      rewrite (Hall (S pc) _ (or_introl eq_refl)). cbn. f_equal. f_equal; lia.
    + apply in_flat_map in Hs. destruct Hs as [j [Hj Hin]].
      destruct (Hent j (expr_ref_entry j Hj)) as [t [Hjt Hdt]]. rewrite Hjt in Hin.
      destruct Hin as [Hin|[]]. inversion Hin; subst. clear Hin.
      split; [cbn; exact Hdt|]. constructor; [|exact Hf].
      unfold frame_ok. cbn [fst snd e_pop].
      rewrite (Hall (S pc) _ (or_introl eq_refl)). cbn. f_equal. f_equal; lia.
Qed.

Lemma inv_init : forall t, pjump p (pg_entry p) = Some t -> inv (a_init p t).
Proof.
  intros t Ht. destruct Htyped as [Hent _].
  destruct (Hent (pg_entry p) (or_introl eq_refl)) as [t' [Ht' Hd]].
  rewrite Ht in Ht'. inversion Ht'; subst. split; [exact Hd | constructor].
Qed.

Lemma reach_inv : forall c0 c, areach p c0 c -> inv c0 -> inv c.
Proof.
  intros c0 c Hr. induction Hr as [c0|c0 c1 c2 Hr IH Hs]; intros H0.
  - exact H0.
  - eapply inv_step; [apply IH; exact H0 | exact Hs].
Qed.

Theorem reachable_typed : forall t c,
  pjump p (pg_entry p) = Some t -> areach p (a_init p t) c -> inv c.
Proof.
  intros t c Ht Hr. eapply reach_inv; [exact Hr | apply inv_init; exact Ht].
Qed.

(* no underflow, never stuck: a configuration of a typed program can always move *)
Lemma succs_nonempty : forall pc io x l,
  succs p pc io x = Some l -> fst io <> I_EndExpression -> l <> [].
Proof.
  intros pc [i o] [r v] l H Hne. unfold succs in H. cbn [fst] in *.
  destruct i; try congruence; cbn [effect fst snd jump_operand] in H;
    repeat match type of H with
           | context [match ?t with _ => _ end] => destruct t; try discriminate
           end;
    inversion H; discriminate.
Qed.

Theorem typed_progress : forall c, inv c -> asteps p c <> [].
Proof.
  intros c [Hd Hf]. destruct Htyped as [Hent Hnode].
  destruct c as [pc r v fs]. cbn [a_pc a_r a_v a_frames] in *.
  destruct (Hnode _ _ Hd) as [io [l [Hio [Hsucc Hall]]]].
  unfold asteps. cbn [a_pc a_r a_v a_frames]. rewrite Hio. destruct io as [i o]. cbn [fst].
  destruct i;
    try (rewrite Hsucc;
         assert (Hl : l <> []) by (eapply succs_nonempty; [exact Hsucc | cbn; discriminate]);
         destruct l; [congruence | cbn; discriminate]).
  - (* EndExpression *)
    unfold succs in Hsucc. cbn [fst] in Hsucc.
    destruct (dp_eqb (r, v) (1, 0)) eqn:E; [|discriminate].
    apply dp_eqb_eq in E. inversion E; subst. cbn.
    destruct fs as [|[[? ?] ?] ?]; discriminate.
  - (* Apply *)
    unfold succs in Hsucc. cbn [fst effect e_pop e_push e_vup e_vdown] in *.
    destruct (Nat.leb 2 r && Nat.leb 0 v) eqn:E; [|discriminate].
    apply andb_true_iff in E. destruct E as [E1 _]. rewrite E1. discriminate.
  - (* EmptyApply *)
    unfold succs in Hsucc. cbn [fst effect e_pop e_push e_vup e_vdown] in *.
    destruct (Nat.leb 1 r && Nat.leb 0 v) eqn:E; [|discriminate].
    apply andb_true_iff in E. destruct E as [E1 _]. rewrite E1. discriminate.
Qed.

(* when the program ends all stacks are back at their initial depths *)
Theorem typed_halt_balanced : forall c r v,
  inv c -> astep p c (AHalt r v) -> r = 0 /\ v = 0 /\ a_frames c = [].
Proof.
  intros c r0 v0 [Hd Hf] Hs. destruct Htyped as [Hent Hnode].
  destruct c as [pc r v fs]. cbn [a_pc a_r a_v a_frames] in *.
  destruct (Hnode _ _ Hd) as [io [l [Hio [Hsucc Hall]]]].
  unfold astep, asteps in Hs. cbn [a_pc a_r a_v a_frames] in Hs. rewrite Hio in Hs.
  destruct io as [i o]. cbn [fst] in Hs.
  destruct i;
    try (cbn [fst] in Hs; rewrite Hsucc in Hs; apply in_map_iff in Hs; destruct Hs as [x [Hx _]]; discriminate).
  - unfold succs in Hsucc. cbn [fst] in Hsucc.
    destruct (dp_eqb (r, v) (1, 0)) eqn:E; [|discriminate].
    apply dp_eqb_eq in E. inversion E; subst. cbn in Hs.
    destruct fs as [|[[? ?] ?] ?].
    + destruct Hs as [Hs|[]]. inversion Hs; subst. auto.
    + destruct Hs as [Hs|[]]. discriminate.
  - cbn [effect fst e_pop e_push e_vup e_vdown] in Hs. destruct (Nat.leb 2 r); [|destruct Hs].
    destruct Hs as [Hs|Hs]; [discriminate|].
    apply in_flat_map in Hs. destruct Hs as [j [_ Hin]]. destruct (pjump p j); [|destruct Hin].
    destruct Hin as [Hin|[]]. discriminate.
  - cbn [effect fst e_pop e_push e_vup e_vdown] in Hs. destruct (Nat.leb 1 r); [|destruct Hs].
    destruct Hs as [Hs|Hs]; [discriminate|].
    apply in_flat_map in Hs. destruct Hs as [j [_ Hin]]. destruct (pjump p j); [|destruct Hin].
    destruct Hin as [Hin|[]]. discriminate.
Qed.

(* a pc is always reached at the same depths: in particular the head of a
   reapply loop has the same operand and value depth at every iteration *)
Theorem reapply_constant_depth : forall t c1 c2,
  pjump p (pg_entry p) = Some t ->
  areach p (a_init p t) c1 -> areach p (a_init p t) c2 ->
  a_pc c1 = a_pc c2 -> a_r c1 = a_r c2 /\ a_v c1 = a_v c2.
Proof.
  intros t c1 c2 Ht H1 H2 Hpc.
  destruct (reachable_typed t c1 Ht H1) as [D1 _].
  destruct (reachable_typed t c2 Ht H2) as [D2 _].
  rewrite Hpc in D1. rewrite D1 in D2. inversion D2. auto.
Qed.

End Dyn.
