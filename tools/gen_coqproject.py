#!/usr/bin/env python3
"""Regenerate coq/_CoqProject from the directory tree (so nobody edits it by hand)."""
import os
COQ = "/verif/coq"
ORDER = ["Base", "Gen", "Model", "Spec", "Proofs", "Properties", "Extract"]


def main():
    lines = ["-Q . GV"]
    for d in ORDER:
        dd = os.path.join(COQ, d)
        if not os.path.isdir(dd):
            continue
        for root, dirs, files in sorted(os.walk(dd)):
            dirs.sort()
            for f in sorted(files):
                if f.endswith(".v") and not f.startswith("."):
                    lines.append(os.path.relpath(os.path.join(root, f), COQ))
    new = "\n".join(lines) + "\n"
    p = os.path.join(COQ, "_CoqProject")
    old = open(p).read() if os.path.exists(p) else ""
    if new != old:
        with open(p, "w") as f:
            f.write(new)
        return True
    return False


if __name__ == "__main__":
    print("changed" if main() else "unchanged")
