(* Unbounded trivia transparency: between the same tokens, any two trivia runs of the
   same kind (both containing a whitespace, or both not) give the same acceptance and
   the same tree -- for every token list, given that the last_left adjustment has
   settled where the run starts. *)
From Coq Require Import List Arith Bool NArith Lia.
From GV Require Import Base.Result Gen.TokenTypes Gen.Defs Model.Parser Spec.Layout Spec.LayoutSim
  Proofs.C18.StepParts Proofs.C18.Sim Proofs.C18.Final Proofs.C18.Trim Proofs.C18.Detour Proofs.C18.Settled.
Import ListNotations.

Lemma step_flag n n' i tok st :
  Nat.leb n (i + 1) = Nat.leb n' (i + 1) -> step n i tok st = step n' i tok st.
Proof. intros H. rewrite !step_decomp, H. reflexivity. Qed.

Lemma run_steps_flag n n' toks : forall i st,
  (forall k, k < length toks -> Nat.leb n (i + k + 1) = Nat.leb n' (i + k + 1)) ->
  run_steps n i toks st = run_steps n' i toks st.
Proof.
  induction toks as [|t r IH]; intros i st H; [reflexivity|].
  cbn [run_steps]. rewrite (step_flag n n' i t st).
  - destruct (step n' i t st) as [s| | |]; cbn [bind]; try reflexivity.
    apply IH. intros k Hk. replace (S i + k + 1) with (i + S k + 1) by lia. apply H. cbn [length]. lia.
  - specialize (H 0). rewrite Nat.add_0_r in H. apply H. cbn [length]. lia.
Qed.

Lemma leb_false_lt a b : b < a -> Nat.leb a b = false.
Proof. intros H. apply Nat.leb_gt. exact H. Qed.

(* the main loop up to the end of a proper prefix is the same whatever follows *)
Lemma run_prefix_state_after P rest : rest <> [] ->
  run_steps (length (P ++ rest)) 0 P init_state = state_after P.
Proof.
  intros Hr. unfold state_after. apply run_steps_flag. intros k Hk.
  rewrite app_length. destruct rest as [|x rest]; [congruence|]. cbn [length].
  rewrite !leb_false_lt by lia. reflexivity.
Qed.

Theorem trivia_runs_equivalent pre post :
  has_sig pre = true -> has_sig post = true -> settled_after (drop_while_trim pre) ->
  trivia_runs_equivalent_at pre post.
Proof.
  intros Hp Hq Hs d d' Hd Hd' Hw.
  assert (E : parse_tree (pre ++ d ++ post) = parse_tree (pre ++ d' ++ post)).
  2: { rewrite E. apply opt_gtree_eqb_refl. }
  rewrite !parse_tree_eq. unfold parse. rewrite !trim_middle by assumption.
  set (P := drop_while_trim pre) in *. set (Q := trim_back post).
  assert (HP : P <> []) by (apply drop_while_trim_sig_nonnil, Hp).
  assert (Hne : forall x, P ++ x <> []) by (intros x Hx; apply app_eq_nil in Hx; destruct Hx; congruence).
  assert (Hd0 : d <> []) by (destruct d; [discriminate Hd|discriminate]).
  assert (Hd0' : d' <> []) by (destruct d'; [discriminate Hd'|discriminate]).
  rewrite !parse_trimmed_decomp by apply Hne.
  apply finish_congr.
  rewrite !run_steps_app.
  rewrite !run_prefix_state_after
    by (intros Hx; apply app_eq_nil in Hx; destruct Hx; congruence).
  unfold settled_after in Hs.
  destruct (state_after P) as [s1| | |]; cbn [bind]; try apply res_eq_refl.
  rewrite !run_steps_app.
  apply res_eq_bind.
  - apply trivia_runs_from_state; assumption.
  - intros s s' Hss. apply run_steps_congr; [exact Hss|]. intros k Hk.
    rewrite !app_length.
    destruct (Nat.leb_spec (length P + (length d + length Q)) (0 + length P + length d + k + 1)),
             (Nat.leb_spec (length P + (length d' + length Q)) (0 + length P + length d' + k + 1));
      try reflexivity; lia.
Qed.

(* ---- the named special cases ---- *)
Definition is_annotation_tok (a : token_type) : bool :=
  match a with TT_Annotation | TT_LineAnnotation => true | _ => false end.

Lemma annot_is_trivia a : is_annotation_tok a = true -> is_trivia_tok a = true /\ is_ws_tok a = false.
Proof. destruct a; try discriminate; intros _; split; reflexivity. Qed.

(* goal (1): an annotation next to whitespace is invisible *)
Corollary annotation_next_to_whitespace pre post a :
  has_sig pre = true -> has_sig post = true -> settled_after (drop_while_trim pre) ->
  is_annotation_tok a = true ->
  opt_gtree_eqb (parse_tree (pre ++ [TT_Whitespace] ++ post))
                (parse_tree (pre ++ [TT_Whitespace; a; TT_Whitespace] ++ post)) = true /\
  opt_gtree_eqb (parse_tree (pre ++ [TT_Whitespace] ++ post))
                (parse_tree (pre ++ [a; TT_Whitespace] ++ post)) = true /\
  opt_gtree_eqb (parse_tree (pre ++ [TT_Whitespace] ++ post))
                (parse_tree (pre ++ [TT_Whitespace; a] ++ post)) = true.
Proof.
  intros Hp Hq Hs Ha. destruct (annot_is_trivia a Ha) as [Ht Hw].
  pose proof (trivia_runs_equivalent pre post Hp Hq Hs) as T.
  repeat split; apply T; try reflexivity;
    cbn [trivia_run forallb has_ws existsb]; rewrite ?Ht, ?Hw; reflexivity.
Qed.

(* goal (2): the number of adjacent whitespace tokens does not matter *)
Corollary whitespace_repetition pre post k :
  has_sig pre = true -> has_sig post = true -> settled_after (drop_while_trim pre) ->
  opt_gtree_eqb (parse_tree (pre ++ [TT_Whitespace] ++ post))
                (parse_tree (pre ++ repeat TT_Whitespace (S k) ++ post)) = true.
Proof.
  intros Hp Hq Hs. apply (trivia_runs_equivalent pre post Hp Hq Hs); try reflexivity.
  cbn [repeat trivia_run forallb]. induction k as [|k IH]; [reflexivity|exact IH].
Qed.

(* ---- the settled hypothesis, discharged syntactically ---- *)
Lemma is_trim_pass t : is_trim t = true -> is_pass_tok t = true.
Proof. destruct t; try discriminate; reflexivity. Qed.

Lemma last_sig_drop l : forall acc, last_sig (drop_while_trim l) acc = last_sig l acc.
Proof.
  induction l as [|t r IH]; intros acc; [reflexivity|].
  cbn [drop_while_trim]. destruct (is_trim t) eqn:Et; [|reflexivity].
  cbn [last_sig]. rewrite (is_trim_pass t Et). apply IH.
Qed.

(* unless the last significant token before the gap ends a side-effect block *)
Theorem trivia_runs_equivalent_unless_block_end pre post :
  has_sig pre = true -> has_sig post = true -> not_after_block_end pre = true ->
  trivia_runs_equivalent_at pre post.
Proof.
  intros Hp Hq Hn. apply trivia_runs_equivalent; [exact Hp|exact Hq|].
  apply settled_unless_block_end. unfold not_after_block_end in *. rewrite last_sig_drop. exact Hn.
Qed.
