(* The state invariant of the lexer and its preservation by process_char:
   one step on a real character [c] turns  current_characters ++ [c]  into
   (text of the emitted token, if any) ++ new current_characters, never panics,
   never emits an empty token. *)
From Coq Require Import NArith List Bool Lia.
From GV Require Import Base.Result Gen.TokenTypes Gen.Tokens Model.Lexer Spec.LexSpec Proofs.C13.LexBase.
Import ListNotations.
Local Open Scope N_scope.

(* the part of the invariant that the state arms maintain *)
Record WFa (l : lexer) : Prop := mkWFa {
  wf_notoken : st l = SNoToken -> cur l = [];
  wf_token : st l <> SNoToken -> cur l <> [];
  wf_create : should_create l = true;
  wf_number : st l = SNumber -> ~ In 46 (cur l);
  wf_float : st l = SFloat -> ends_with 46 (cur l) = true ->
             exists nb, cur l = nb ++ [46] /\ nb <> [] /\ ~ In 46 nb
}.

(* ... plus what the final column update adds: inside a float at least one column was consumed *)
Definition WF (l : lexer) : Prop := WFa l /\ (st l = SFloat -> 1 <= text_col l).

Lemma WF_init : WF init_lexer.
Proof. split; [constructor|]; cbn; intros; try congruence; try discriminate. Qed.

Section Inv.
  Variables uni_numeric uni_alnum : N -> bool.
  Notation start_token := (start_token uni_numeric uni_alnum).
  Notation run_arm := (run_arm uni_numeric uni_alnum).
  Notation process_char := (process_char uni_numeric uni_alnum).
  Notation start_new_tail := (start_new_tail uni_numeric uni_alnum).
  Notation is_number_char := (is_number_char uni_numeric uni_alnum).

  (* the end-of-input sentinel: '\0' pushed through after the iterator is exhausted *)
  Definition sentinel (l : lexer) (c : N) : Prop := c = 0 /\ at_end l = true.

  (* ------------------------------------------------------------ start_token *)
  Lemma start_token_frame : forall l c,
    at_end (start_token l c) = at_end l /\ should_create (start_token l c) = should_create l /\
    can_float (start_token l c) = can_float l /\
    (result (start_token l c) = None -> result l = None).
  Proof.
    intros l c. unfold start_token.
    destruct (current_operator _); repeat break_if; cbn; repeat split; auto; discriminate.
  Qed.

  Lemma start_token_real : forall l c, ~ sentinel l c ->
    result (start_token l c) = None ->
    cur (start_token l c) = [c] /\ st (start_token l c) <> SNoToken /\ st (start_token l c) <> SFloat /\
    (st (start_token l c) = SNumber -> c <> 46).
  Proof.
    intros l c Hs. unfold start_token.
    destruct (current_operator _) eqn:Eop.
    - cbn. intros _. repeat split; congruence.
    - repeat break_if; cbn; intros Hr; try discriminate;
        try (match goal with
             | H : (c =? ch_nul) && at_end _ = true |- _ =>
               exfalso; apply Hs; apply andb_true_iff in H as [H1 H2]; apply N.eqb_eq in H1; split; assumption
             end);
        repeat split; try congruence.
      intros _. eapply numeric_not_period; eauto.
  Qed.

  Lemma start_token_WFa : forall l c, ~ sentinel l c -> should_create l = true ->
    result (start_token l c) = None -> WFa (start_token l c).
  Proof.
    intros l c Hs Hc Hr.
    destruct (start_token_real l c Hs Hr) as (Hcur & Hst & Hfl & Hnum).
    destruct (start_token_frame l c) as (_ & Hsc & _).
    constructor.
    - intros H. congruence.
    - intros _. rewrite Hcur. discriminate.
    - congruence.
    - intros H. rewrite Hcur. intros [E|[]]. apply (Hnum H). congruence.
    - intros H. congruence.
  Qed.

  (* the sentinel in the NoToken state (or after a token ended): nothing is started *)
  Lemma start_token_sentinel : forall l, at_end l = true ->
    cur (start_token l 0) = [] /\ st (start_token l 0) = SNoToken /\ result (start_token l 0) = result l.
  Proof.
    intros l H. unfold start_token. cbn [cur set_cur set_cur_ty set_start_row set_start_col].
    replace (current_operator [0]) with (@None (option token_type)) by (vm_compute; reflexivity).
    cbn. rewrite H. cbn. auto.
  Qed.

  Lemma start_token_period : forall l,
    start_token l 46 =
    set_cur_ty (set_st (set_start_col (set_start_row (set_cur_ty (set_cur l [46]) None) (text_row l)) (text_col l)) SOperator) (Some TT_Period).
  Proof.
    intros l. unfold start_token.
    replace (current_operator (cur (set_start_col (set_start_row (set_cur_ty (set_cur l [46]) None) (text_row l)) (text_col l))))
      with (Some (Some TT_Period)) by (symmetry; apply current_operator_period).
    reflexivity.
  Qed.

  (* the state built by the Float arm when it splits  nb.  at a second period *)
  Definition float_split_state (l : lexer) : lexer :=
    push (set_start_col (start_token (set_start_row l (text_row l)) 46) (text_col (set_start_row l (text_row l)) - 1)) 46.

  Lemma float_split_state_eq : forall l,
    float_split_state l =
    mkLexer [46; 46] (Some TT_Period) (text_row l) (text_col l) (text_col l - 1) (text_row l)
            (should_create l) SOperator (can_float l) (sqc l) (eqc l) (could_sub l) (result l) (at_end l).
  Proof. intros l. unfold float_split_state. rewrite start_token_period. reflexivity. Qed.

  (* ------------------------------------------------------------- state arms *)
  (* what a state arm guarantees on a real character *)
  Definition arm_ok (l : lexer) (c : N) (ar : arm_result) : Prop :=
    match ar with
    | ArmPanic _ => False
    | Early l1 => result l1 <> None /\ at_end l1 = at_end l
    | Arm l1 nt true =>
      at_end l1 = at_end l /\ result l1 = None /\
      nt = None /\ st l1 <> SNoToken /\ cur l1 <> [] /\
      ((should_create l1 = true /\ cur l1 = cur l) \/ (should_create l1 = false /\ cur l1 = cur l ++ [c]))
    | Arm l1 nt false =>
      at_end l1 = at_end l /\
      (result l1 = None ->
       cur l ++ [c] = otext nt ++ cur l1 /\ (forall t, nt = Some t -> tok_text t <> []) /\
       WFa l1 /\ (st l1 = SFloat -> c <> 10))
    end.

  Ltac arm_leaf :=
    cbn; split; [reflexivity|]; try intros Hres1;
    repeat match goal with |- _ /\ _ => split end;
    try reflexivity; try discriminate; try congruence; auto.

  Ltac sentinel_contra Hs :=
    exfalso; apply Hs;
    lazymatch goal with H : negb _ && negb _ = false |- _ =>
      cbn in H; apply negb_false_iff in H; apply andb_true_iff in H as [H1 H2];
      apply N.eqb_eq in H1; split; assumption end.

  Lemma app_nonempty : forall (a : list N) c, a ++ [c] <> [].
  Proof. intros [|x a] c; discriminate. Qed.
  Hint Resolve app_nonempty : core.

  Lemma arm_NoToken_ok : forall l c, WF l -> result l = None -> ~ sentinel l c -> st l = SNoToken ->
    arm_ok l c (run_arm l c).
  Proof.
    intros l c [Hwf Hcol] Hres Hs Hst. destruct Hwf as [Hnt Htk Hsc Hnum Hfl].
    unfold run_arm. rewrite Hst in *.
      unfold arm_ok. destruct (start_token_frame l c) as (Hae & Hsc' & _ & _).
      split; [exact Hae|]. intros Hr.
      destruct (start_token_real l c Hs Hr) as (Hcur & Hst' & Hfl' & _).
      rewrite Hnt by reflexivity. rewrite Hcur. cbn.
      split; [reflexivity|]. split; [discriminate|]. split; [apply start_token_WFa; auto|].
      intros H; congruence.
  Qed.

  Lemma arm_Operator_ok : forall l c, WF l -> result l = None -> ~ sentinel l c -> st l = SOperator ->
    arm_ok l c (run_arm l c).
  Proof.
    intros l c [Hwf Hcol] Hres Hs Hst. destruct Hwf as [Hnt Htk Hsc Hnum Hfl].
    unfold run_arm. rewrite Hst in *.
      unfold arm_operator. destruct (current_operator (cur (push l c))) eqn:Eop.
      + arm_leaf. constructor; cbn; intros; try congruence; auto. 
      + repeat break_if; arm_leaf. all: try (constructor; cbn; intros; try congruence; auto).
        all: try (apply Htk; discriminate).
        * exfalso. rewrite ends_with_snoc in H0. apply N.eqb_eq in H0. subst c.
          rewrite !andb_true_iff in Heqb0. destruct Heqb0 as [[_ Hn] _]. vm_compute in Hn. discriminate.
        * intros _. rewrite !andb_true_iff in Heqb0. destruct Heqb0 as [[_ Hn] _].
          eapply numeric_not_lf; eauto.
  Qed.

  Lemma arm_Spaces_ok : forall l c, WF l -> result l = None -> ~ sentinel l c -> st l = SSpaces ->
    arm_ok l c (run_arm l c).
  Proof.
    intros l c [Hwf Hcol] Hres Hs Hst. destruct Hwf as [Hnt Htk Hsc Hnum Hfl].
    unfold run_arm. rewrite Hst in *.
      unfold arm_spaces. repeat break_if; arm_leaf.
      all: try (constructor; cbn; intros; try congruence; auto).
      all: try (apply Htk; discriminate).
  Qed.

  Lemma arm_Subexpression_ok : forall l c, WF l -> result l = None -> ~ sentinel l c -> st l = SSubexpression ->
    arm_ok l c (run_arm l c).
  Proof.
    intros l c [Hwf Hcol] Hres Hs Hst. destruct Hwf as [Hnt Htk Hsc Hnum Hfl].
    unfold run_arm. rewrite Hst in *.
      unfold arm_subexpression. repeat break_if; arm_leaf.
      all: try (constructor; cbn; intros; try congruence; auto).
      all: try (apply Htk; discriminate).
  Qed.

  Lemma arm_Number_ok : forall l c, WF l -> result l = None -> ~ sentinel l c -> st l = SNumber ->
    arm_ok l c (run_arm l c).
  Proof.
    intros l c [Hwf Hcol] Hres Hs Hst. destruct Hwf as [Hnt Htk Hsc Hnum Hfl].
    unfold run_arm. rewrite Hst in *.
      unfold arm_number. repeat break_if; arm_leaf.
      all: try (constructor; cbn; intros; try congruence; auto).
      all: try (apply Htk; discriminate).
      + intros Hin. apply in_app_or in Hin as [Hin|[Hin|[]]]; [apply (Hnum eq_refl Hin)|].
        subst c. eapply number_char_not_period; eauto.
      + apply andb_true_iff in Heqb0 as [Hc _]. apply N.eqb_eq in Hc. subst c.
        exists (cur l). split; [reflexivity|]. split; [apply Htk; discriminate|]. apply Hnum; reflexivity.
      + intros _. apply andb_true_iff in Heqb0 as [Hc _]. apply N.eqb_eq in Hc. subst c. discriminate.
  Qed.

  Lemma arm_Float_ok : forall l c, WF l -> result l = None -> ~ sentinel l c -> st l = SFloat ->
    arm_ok l c (run_arm l c).
  Proof.
    intros l c [Hwf Hcol] Hres Hs Hst. destruct Hwf as [Hnt Htk Hsc Hnum Hfl].
    unfold run_arm. rewrite Hst in *.
      unfold arm_float. repeat break_if.
      + arm_leaf. all: try (constructor; cbn; intros; try congruence; auto).
        all: try (intros _; eapply number_char_not_lf; eassumption).
        exfalso. rewrite ends_with_snoc in H0. apply N.eqb_eq in H0. subst c.
        eapply number_char_not_period; eauto.
      + (* text_column - 1 cannot underflow *)
        exfalso. cbn in Heqb1. apply N.eqb_eq in Heqb1. specialize (Hcol eq_refl). lia.
      + (* split  nb.  into Number nb and the operator .. *)
        apply andb_true_iff in Heqb0 as [Hc Hend]. apply N.eqb_eq in Hc. subst c.
        destruct (Hfl eq_refl Hend) as (nb & Hnb & Hne & Hno).
        change ch_period with 46.
        change (push (set_start_col (start_token (set_start_row l (text_row l)) 46)
                        (text_col (set_start_row l (text_row l)) - 1)) 46) with (float_split_state l).
        rewrite float_split_state_eq.
        cbn [cur]. rewrite current_operator_range.
        unfold arm_ok. cbn [at_end result cur st otext tok_text set_cur_ty].
        split; [reflexivity|]. intros _.
        rewrite Hnb. rewrite trim_matches_number by assumption.
        split; [rewrite <- app_assoc; reflexivity|].
        split; [intros t Ht; inversion Ht; subst; cbn; assumption|].
        split; [constructor; cbn; intros; try congruence; auto; discriminate|]. discriminate.
      + arm_leaf. apply Htk; discriminate.
  Qed.

  Lemma arm_Identifier_ok : forall l c, WF l -> result l = None -> ~ sentinel l c -> st l = SIdentifier ->
    arm_ok l c (run_arm l c).
  Proof.
    intros l c [Hwf Hcol] Hres Hs Hst. destruct Hwf as [Hnt Htk Hsc Hnum Hfl].
    unfold run_arm. rewrite Hst in *.
      unfold arm_identifier. repeat break_if; arm_leaf.
      all: try (constructor; cbn; intros; try congruence; auto).
      all: try (apply Htk; discriminate).
  Qed.

  Lemma arm_Annotation_ok : forall l c, WF l -> result l = None -> ~ sentinel l c -> st l = SAnnotation ->
    arm_ok l c (run_arm l c).
  Proof.
    intros l c [Hwf Hcol] Hres Hs Hst. destruct Hwf as [Hnt Htk Hsc Hnum Hfl].
    unfold run_arm. rewrite Hst in *.
      unfold arm_annotation. repeat break_if; arm_leaf.
      all: try (constructor; cbn; intros; try congruence; auto).
      all: try (apply Htk; discriminate).
  Qed.

  Lemma arm_LineAnnotation_ok : forall l c, WF l -> result l = None -> ~ sentinel l c -> st l = SLineAnnotation ->
    arm_ok l c (run_arm l c).
  Proof.
    intros l c [Hwf Hcol] Hres Hs Hst. destruct Hwf as [Hnt Htk Hsc Hnum Hfl].
    unfold run_arm. rewrite Hst in *.
      unfold arm_line_annotation. repeat break_if; arm_leaf.
      all: try (constructor; cbn; intros; try congruence; auto).
      all: try (apply Htk; discriminate).
  Qed.

  Lemma arm_CharList_ok : forall l c, WF l -> result l = None -> ~ sentinel l c -> st l = SCharList ->
    arm_ok l c (run_arm l c).
  Proof.
    intros l c [Hwf Hcol] Hres Hs Hst. destruct Hwf as [Hnt Htk Hsc Hnum Hfl].
    unfold run_arm. rewrite Hst in *.
      unfold arm_list. repeat break_if; arm_leaf.
      all: try (constructor; cbn; intros; try congruence; auto).
      all: try (apply Htk; discriminate).
  Qed.

  Lemma arm_StartCharList_ok : forall l c, WF l -> result l = None -> ~ sentinel l c -> st l = SStartCharList ->
    arm_ok l c (run_arm l c).
  Proof.
    intros l c [Hwf Hcol] Hres Hs Hst. destruct Hwf as [Hnt Htk Hsc Hnum Hfl].
    unfold run_arm. rewrite Hst in *.
      unfold arm_start_list. repeat break_if; arm_leaf.
      all: try (constructor; cbn; intros; try congruence; auto).
      all: try (apply Htk; discriminate).
      all: sentinel_contra Hs.
  Qed.

  Lemma arm_ByteList_ok : forall l c, WF l -> result l = None -> ~ sentinel l c -> st l = SByteList ->
    arm_ok l c (run_arm l c).
  Proof.
    intros l c [Hwf Hcol] Hres Hs Hst. destruct Hwf as [Hnt Htk Hsc Hnum Hfl].
    unfold run_arm. rewrite Hst in *.
      unfold arm_list. repeat break_if; arm_leaf.
      all: try (constructor; cbn; intros; try congruence; auto).
      all: try (apply Htk; discriminate).
  Qed.

  Lemma arm_StartByteList_ok : forall l c, WF l -> result l = None -> ~ sentinel l c -> st l = SStartByteList ->
    arm_ok l c (run_arm l c).
  Proof.
    intros l c [Hwf Hcol] Hres Hs Hst. destruct Hwf as [Hnt Htk Hsc Hnum Hfl].
    unfold run_arm. rewrite Hst in *.
      unfold arm_start_list. repeat break_if; arm_leaf.
      all: try (constructor; cbn; intros; try congruence; auto).
      all: try (apply Htk; discriminate).
      all: sentinel_contra Hs.
  Qed.

  Lemma run_arm_real : forall l c, WF l -> result l = None -> ~ sentinel l c ->
    arm_ok l c (run_arm l c).
  Proof.
    intros l c Hwf Hres Hs. destruct (st l) eqn:Hst.
    - apply arm_NoToken_ok; auto.
    - apply arm_Operator_ok; auto.
    - apply arm_Spaces_ok; auto.
    - apply arm_Subexpression_ok; auto.
    - apply arm_Number_ok; auto.
    - apply arm_Float_ok; auto.
    - apply arm_Identifier_ok; auto.
    - apply arm_Annotation_ok; auto.
    - apply arm_LineAnnotation_ok; auto.
    - apply arm_CharList_ok; auto.
    - apply arm_StartCharList_ok; auto.
    - apply arm_ByteList_ok; auto.
    - apply arm_StartByteList_ok; auto.
  Qed.

  (* -------------------------------------------------------------- the tail *)
  Lemma lstate_eqb_notoken : forall s, s <> SNoToken -> lstate_eqb s SNoToken = false.
  Proof. intros [] H; try reflexivity; congruence. Qed.

  Lemma advance_frame : forall l c,
    cur (advance l c) = cur l /\ st (advance l c) = st l /\ result (advance l c) = result l /\
    at_end (advance l c) = at_end l /\ should_create (advance l c) = should_create l /\
    cur_ty (advance l c) = cur_ty l /\ start_row (advance l c) = start_row l /\ start_col (advance l c) = start_col l.
  Proof.
    intros l c. unfold advance. destruct (negb (c =? ch_lf)); [cbn; repeat split|].
    destruct (st l) eqn:E; cbn; rewrite ?E; repeat split.
  Qed.

  Lemma advance_WF : forall l c, WFa l -> (st l = SFloat -> c <> 10) -> WF (advance l c).
  Proof.
    intros l c [H1 H2 H3 H4 H5] Hf.
    destruct (advance_frame l c) as (Ec & Es & _ & _ & Esc & _).
    split.
    - constructor; rewrite ?Ec, ?Es, ?Esc; auto.
    - rewrite Es. intros Hs. specialize (Hf Hs). unfold advance.
      apply N.eqb_neq in Hf. change ch_lf with 10. rewrite Hf. cbn. lia.
  Qed.

  (* the reset performed before a new token is started *)
  Definition reset_state (l2 : lexer) : lexer :=
    set_could_sub (set_eq (set_sq (set_cur_ty (set_cur (set_st l2 SNoToken) []) None) 0) 0) false.

  Lemma tail_real : forall l l1 c, ~ sentinel l c -> at_end l1 = at_end l -> result l1 = None ->
    st l1 <> SNoToken -> cur l1 <> [] ->
    ((should_create l1 = true /\ cur l1 = cur l) \/ (should_create l1 = false /\ cur l1 = cur l ++ [c])) ->
    match start_new_tail l1 None c with
    | TailEarly l2 => result l2 <> None /\ at_end l2 = at_end l
    | Tail l2 nt2 =>
      at_end l2 = at_end l /\
      (result l2 = None ->
       WFa l2 /\ st l2 <> SFloat /\
       exists t, nt2 = Some t /\ tok_text t = cur l1 /\ cur l ++ [c] = cur l1 ++ cur l2)
    end.
  Proof.
    intros l l1 c Hs Hae Hres Hst Hne Hcase.
    unfold start_new_tail. cbn [st set_can_float].
    rewrite (lstate_eqb_notoken _ Hst). cbn [negb].
    set (l1' := set_can_float l1 (negb (blocks_float (cur_ty l1)))).
    destruct (can_create_valid_token l1') as [e|] eqn:Ecc.
    - (* identifier error: no token, the result stays an error *)
      cbn [result set_result].
      fold (reset_state (set_result l1' (Some e))).
      destruct (should_create (reset_state (set_result l1' (Some e)))).
      + destruct (start_token_frame (reset_state (set_result l1' (Some e))) c) as (E1 & _ & _ & E2).
        split; [rewrite E1; exact Hae|]. intros Hr. apply E2 in Hr. discriminate.
      + cbn. split; [exact Hae|]. discriminate.
    - cbn [result set_result cur_ty].
      destruct (cur_ty l1') as [ty|] eqn:Ety.
      + fold (reset_state (set_result l1' None)).
        set (l3 := reset_state (set_result l1' None)).
        assert (Hs3 : ~ sentinel l3 c) by (intros [A B]; apply Hs; split; [exact A | rewrite <- Hae; exact B]).
        assert (Hsc3 : should_create l3 = should_create l1) by reflexivity.
        destruct Hcase as [[Hsc Hcur]|[Hsc Hcur]]; rewrite Hsc3, Hsc.
        * destruct (start_token_frame l3 c) as (E1 & E2 & _ & _).
          split; [rewrite E1; exact Hae|]. intros Hr.
          destruct (start_token_real l3 c Hs3 Hr) as (Hc & Hst' & Hfl & _).
          split; [apply start_token_WFa; auto; rewrite Hsc3; exact Hsc|].
          split; [exact Hfl|].
          eexists. split; [reflexivity|]. cbn [tok_text]. split; [reflexivity|].
          rewrite Hc. cbn [cur set_result]. subst l1'. cbn [cur set_can_float]. rewrite Hcur. reflexivity.
        * cbn. split; [exact Hae|]. intros _.
          split; [constructor; cbn; intros; congruence|]. split; [discriminate|].
          eexists. split; [reflexivity|]. cbn. split; [reflexivity|]. rewrite app_nil_r. symmetry. exact Hcur.
      + cbn. split; [discriminate | exact Hae].
  Qed.

  (* ----------------------------------------------- process_char, real character *)
  Lemma process_char_real : forall l c, WF l -> result l = None -> ~ sentinel l c ->
    exists l' ot, process_char l c = Ok (l', ot) /\ at_end l' = at_end l /\
      (result l' = None ->
       WF l' /\ cur l ++ [c] = otext ot ++ cur l' /\ (forall t, ot = Some t -> tok_text t <> [])).
  Proof.
    intros l c Hwf Hres Hs. pose proof (run_arm_real l c Hwf Hres Hs) as Harm.
    unfold process_char. destruct (run_arm l c) as [l1 nt sn | l1 | site]; cbn [arm_ok] in Harm.
    - destruct sn.
      + (* the token ends *)
        destruct Harm as (Hae & Hr1 & Hnt & Hst1 & Hne1 & Hcase). subst nt.
        pose proof (tail_real l l1 c Hs Hae Hr1 Hst1 Hne1 Hcase) as Ht.
        destruct (start_new_tail l1 None c) as [l2 nt2 | l2].
        * destruct Ht as [Hae2 Ht]. eexists _, _. split; [reflexivity|].
          destruct (advance_frame l2 c) as (Ec & Es & Er & Ea & _).
          split; [congruence|]. rewrite Er, Ec. intros Hr.
          destruct (Ht Hr) as (Hwf2 & Hfl2 & t & Hnt2 & Htxt & Hcat). subst nt2.
          split; [apply advance_WF; [assumption | intros; congruence]|].
          cbn [otext]. rewrite Htxt. split; [exact Hcat|].
          intros t' Ht'. inversion Ht'; subst. rewrite Htxt. exact Hne1.
        * destruct Ht as [Hr2 Hae2]. eexists _, _. split; [reflexivity|]. split; [exact Hae2|].
          intros H; congruence.
      + destruct Harm as [Hae Harm]. eexists _, _. split; [reflexivity|].
        destruct (advance_frame l1 c) as (Ec & Es & Er & Ea & _).
        split; [congruence|]. rewrite Er, Ec. intros Hr. destruct (Harm Hr) as (H1 & H2 & H3 & H4).
        split; [apply advance_WF; assumption|]. split; assumption.
    - destruct Harm as [Hr Hae]. eexists _, _. split; [reflexivity|]. split; [exact Hae|]. intros H; congruence.
    - destruct Harm.
  Qed.

  (* ------------------------------------------- process_char, end-of-input flush *)
  Definition arm_ok_flush (l : lexer) (ar : arm_result) : Prop :=
    match ar with
    | ArmPanic _ => False
    | Early l1 => result l1 <> None /\ at_end l1 = true
    | Arm l1 nt true =>
      at_end l1 = true /\ result l1 = None /\ nt = None /\ st l1 <> SNoToken /\
      cur l1 = cur l /\ cur l <> [] /\ should_create l1 = true
    | Arm l1 nt false =>
      at_end l1 = true /\
      (result l1 = None -> nt = None /\ (cur l1 = [] -> cur l = [] /\ st l1 = SNoToken /\ WFa l1))
    end.

  Ltac flush_leaf :=
    cbn; split; [first [assumption|reflexivity]|]; try intros Hres1;
    repeat match goal with |- _ /\ _ => split end;
    try reflexivity; try discriminate; try congruence; auto.

  Lemma nil_app_false : forall (a : list N) c (P : Prop), a ++ [c] = [] -> P.
  Proof. intros [|x a] c P H; discriminate. Qed.

  Lemma run_arm_flush : forall l, WF l -> result l = None -> at_end l = true ->
    arm_ok_flush l (run_arm l 0).
  Proof.
    intros l [Hwf Hcol] Hres Hae. destruct Hwf as [Hnt Htk Hsc Hnum Hfl].
    unfold run_arm. destruct (st l) eqn:Hst.
    - (* NoToken *)
      destruct (start_token_sentinel l Hae) as (E1 & E2 & E3).
      destruct (start_token_frame l 0) as (F1 & F2 & _).
      unfold arm_ok_flush. split; [congruence|]. intros _. split; [reflexivity|]. intros _.
      split; [auto|]. split; [exact E2|].
      constructor; rewrite ?E1, ?E2, ?F2; intros; try congruence; auto.
    - (* Operator *)
      unfold arm_operator. destruct (current_operator (cur (push l 0))) eqn:Eop.
      + flush_leaf. intros H. eapply nil_app_false; eauto.
      + repeat break_if; flush_leaf.
        all: try (apply Htk; discriminate).
        all: try solve [intros H; eapply nil_app_false; eauto].
    - unfold arm_spaces. cbn. flush_leaf. apply Htk; discriminate.
    - unfold arm_subexpression. cbn. flush_leaf. apply Htk; discriminate.
    - unfold arm_number. cbn. flush_leaf. apply Htk; discriminate.
    - unfold arm_float. cbn. flush_leaf. apply Htk; discriminate.
    - unfold arm_identifier. cbn. repeat break_if; flush_leaf. all: apply Htk; discriminate.
    - unfold arm_annotation. cbn. repeat break_if; flush_leaf. all: apply Htk; discriminate.
    - unfold arm_line_annotation. cbn. flush_leaf. apply Htk; discriminate.
    - unfold arm_list. cbn. flush_leaf. intros H. eapply nil_app_false; eauto.
    - unfold arm_start_list. cbn. break_if; cbn; rewrite ?Hae; cbn; flush_leaf.
      all: try (apply Htk; discriminate).
      all: intros H; exfalso; apply (Htk ltac:(discriminate)); assumption.
    - unfold arm_list. cbn. flush_leaf. intros H. eapply nil_app_false; eauto.
    - unfold arm_start_list. cbn. break_if; cbn; rewrite ?Hae; cbn; flush_leaf.
      all: try (apply Htk; discriminate).
      all: intros H; exfalso; apply (Htk ltac:(discriminate)); assumption.
  Qed.

  Lemma tail_flush : forall l1, at_end l1 = true -> result l1 = None -> st l1 <> SNoToken ->
    should_create l1 = true ->
    match start_new_tail l1 None 0 with
    | TailEarly l2 => result l2 <> None /\ at_end l2 = true
    | Tail l2 nt2 =>
      at_end l2 = true /\
      (result l2 = None ->
       exists t, nt2 = Some t /\ tok_text t = cur l1 /\ cur l2 = [] /\ st l2 = SNoToken /\ WFa l2)
    end.
  Proof.
    intros l1 Hae Hres Hst Hsc.
    unfold start_new_tail. cbn [st set_can_float].
    rewrite (lstate_eqb_notoken _ Hst). cbn [negb].
    set (l1' := set_can_float l1 (negb (blocks_float (cur_ty l1)))).
    destruct (can_create_valid_token l1') as [e|] eqn:Ecc.
    - cbn [result set_result].
      fold (reset_state (set_result l1' (Some e))).
      set (l3 := reset_state (set_result l1' (Some e))).
      assert (Hsc3 : should_create l3 = true) by exact Hsc. rewrite Hsc3.
      assert (Hae3 : at_end l3 = true) by exact Hae.
      destruct (start_token_sentinel l3 Hae3) as (E1 & E2 & E3).
      destruct (start_token_frame l3 0) as (F1 & _).
      split; [congruence|]. rewrite E3. discriminate.
    - cbn [result set_result cur_ty].
      destruct (cur_ty l1') as [ty|] eqn:Ety.
      + fold (reset_state (set_result l1' None)).
        set (l3 := reset_state (set_result l1' None)).
        assert (Hsc3 : should_create l3 = true) by exact Hsc. rewrite Hsc3.
        assert (Hae3 : at_end l3 = true) by exact Hae.
        destruct (start_token_sentinel l3 Hae3) as (E1 & E2 & E3).
        destruct (start_token_frame l3 0) as (F1 & F2 & _).
        split; [congruence|]. intros _.
        eexists. split; [reflexivity|]. split; [reflexivity|]. split; [exact E1|]. split; [exact E2|].
        constructor; rewrite ?E1, ?E2, ?F2; intros; try congruence; auto.
      + cbn. split; [discriminate | exact Hae].
  Qed.

  Lemma process_char_flush : forall l, WF l -> result l = None -> at_end l = true ->
    exists l' ot, process_char l 0 = Ok (l', ot) /\ at_end l' = true /\
      (result l' = None ->
       match ot with
       | Some t => tok_text t = cur l /\ cur l <> [] /\ cur l' = [] /\ st l' = SNoToken /\ WF l'
       | None => cur l' = [] -> cur l = [] /\ st l' = SNoToken /\ WF l'
       end).
  Proof.
    intros l Hwf Hres Hae. pose proof (run_arm_flush l Hwf Hres Hae) as Harm.
    unfold process_char. destruct (run_arm l 0) as [l1 nt sn | l1 | site]; cbn [arm_ok_flush] in Harm.
    - destruct sn.
      + destruct Harm as (Hae1 & Hr1 & Hnt & Hst1 & Hcur & Hne & Hsc1). subst nt.
        pose proof (tail_flush l1 Hae1 Hr1 Hst1 Hsc1) as Ht.
        destruct (start_new_tail l1 None 0) as [l2 nt2 | l2].
        * destruct Ht as [Hae2 Ht]. eexists _, _. split; [reflexivity|].
          destruct (advance_frame l2 0) as (Ec & Es & Er & Ea & _).
          split; [congruence|]. rewrite Er, Ec, Es. intros Hr.
          destruct (Ht Hr) as (t & Hnt2 & Htxt & Hc2 & Hs2 & Hwf2). subst nt2.
          rewrite Htxt, Hcur. split; [reflexivity|]. split; [assumption|]. split; [assumption|].
          split; [assumption|]. apply advance_WF; [assumption | intros; congruence].
        * destruct Ht as [Hr2 Hae2]. eexists _, _. split; [reflexivity|]. split; [exact Hae2|].
          intros H; congruence.
      + destruct Harm as [Hae1 Harm]. eexists _, _. split; [reflexivity|].
        destruct (advance_frame l1 0) as (Ec & Es & Er & Ea & _).
        split; [congruence|]. rewrite Er, Ec, Es. intros Hr. destruct (Harm Hr) as (H1 & H2). subst nt.
        intros Hc. destruct (H2 Hc) as (A & B & C). split; [assumption|]. split; [assumption|].
        apply advance_WF; [assumption | intros; congruence].
    - destruct Harm as [Hr Hae1]. eexists _, _. split; [reflexivity|]. split; [exact Hae1|]. intros H; congruence.
    - destruct Harm.
  Qed.
End Inv.
