(* C14  Literals denote exactly what they spell.
   Only statements, [exact] and [Print Assumptions] live here.
   [pf] is the str::parse::<f64> oracle and [un] the char::is_numeric oracle of
   the model: every theorem holds for all of them. *)
From Coq Require Import ZArith NArith List Bool Reals SpecFloat.
From Flocq Require Import Core IEEE754.Binary IEEE754.Bits.
From GV Require Import Base.Result Model.Num Model.Literals Spec.LitDenote
  Proofs.C14.Digits Proofs.C14.Number Proofs.C14.CharList Proofs.C14.ByteList Proofs.C14.Stores
  Proofs.C14.DecFloat Proofs.C14.FloatLiteral Proofs.C14.FloatSpelling.
Import ListNotations.
Local Open Scope N_scope.

(* 0R_digits: for every radix 2..36, every non-empty string of digits of that
   radix (either case, leading zeros allowed) and every placement of `_`
   separators among them ([ds'] is the digit string with separators inserted
   anywhere, also doubled, leading or trailing), the literal parses to the
   positional value of the digits when that fits an i32 ... *)
Theorem C14_radix : forall pf R ds', 2 <= R -> R <= 36 ->
  valid_digits R (strip_seps ds') = true ->
  radix_value R (strip_seps ds') <= i32_max_N ->
  parse_simple_number pf (spell_radix R ds') = Ok (Int (Z.of_N (radix_value R (strip_seps ds')))).
Proof. intros pf R ds'. exact (radix_literal_value pf R 10 ds'). Qed.
Print Assumptions C14_radix.

(* ... and is rejected, never wrapped, when it does not (radix 10 falls back to
   a float, as a plain decimal does) *)
Theorem C14_radix_overflow : forall pf R ds', 2 <= R -> R <= 36 -> R <> 10 ->
  valid_digits R (strip_seps ds') = true ->
  i32_max_N < radix_value R (strip_seps ds') ->
  parse_simple_number pf (spell_radix R ds') = Err err_parse.
Proof. intros pf R ds'. exact (radix_literal_overflow pf R 10 ds'). Qed.
Print Assumptions C14_radix_overflow.

(* every non-negative i32 has a spelling in every radix that parses back to it *)
Theorem C14_int_roundtrip : forall pf R n, 2 <= R -> R <= 36 -> n <= i32_max_N ->
  parse_simple_number pf (spell_int R n) = Ok (Int (Z.of_N n)).
Proof. exact int_roundtrip. Qed.
Print Assumptions C14_int_roundtrip.

(* the canonical digits are what the spec says they are: they denote n *)
Theorem C14_digits_denote : forall R n, 2 <= R -> R <= 36 ->
  valid_digits R (digits_of R n) = true /\ radix_value R (digits_of R n) = n.
Proof. intros R n H2 H36. split; [exact (digits_of_valid R n H2 H36) | exact (digits_of_value R n H2 H36)]. Qed.
Print Assumptions C14_digits_denote.

(* plain decimals, with `_` separators anywhere after the first digit *)
Theorem C14_decimal : forall pf n, n <= i32_max_N ->
  parse_simple_number pf (dec_string n) = Ok (Int (Z.of_N n)).
Proof. exact decimal_plain. Qed.
Print Assumptions C14_decimal.

Theorem C14_decimal_separators : forall pf n ds', 0 < n -> n <= i32_max_N ->
  strip_seps ds' = dec_string n -> starts_with_char ch_us ds' = false ->
  parse_simple_number pf ds' = Ok (Int (Z.of_N n)).
Proof. exact decimal_roundtrip. Qed.
Print Assumptions C14_decimal_separators.

(* decimal fractions (partial: the theorem covers digits '.' digits without
   separators or exponent; [parse_f64] is the model of str::parse::<f64>, tied to the Rust by
   correspondence): the literal is read as mantissa = all its digits, exponent
   = minus the number of fraction digits ... *)
Theorem C14_float_literal : forall ip fp,
  valid_digits 10 ip = true -> forallb (is_digit_of 10) fp = true ->
  parse_simple_number parse_f64 (ip ++ 46 :: fp) =
  Ok (Flt (f64_of_decimal false (radix_value 10 (ip ++ fp)) (- Z.of_nat (length fp)))).
Proof. exact float_literal_value. Qed.
Print Assumptions C14_float_literal.

(* ... and the conversion is the IEEE-754 round-to-nearest-even of the decimal
   number m * 10^e (an infinity when that rounding overflows), for every
   mantissa and every exponent *)
Theorem C14_float_rounding : forall neg p e10,
  let x := dec_real neg p e10 in
  if Rlt_bool (Rabs (rnd64 x)) (bpow radix2 1024) then
    Binary.B2R 53 1024 (f64_of_decimal neg (Npos p) e10) = rnd64 x /\
    Binary.is_finite 53 1024 (f64_of_decimal neg (Npos p) e10) = true
  else f64_of_decimal neg (Npos p) e10 = Binary.B754_infinity 53 1024 neg.
Proof. exact f64_of_decimal_total. Qed.
Print Assumptions C14_float_rounding.

(* every finite positive binary64 (mantissa m, exponent e, in range) has a
   decimal-fraction spelling that evaluates back to exactly it; +0.0 is 0.0 *)
Theorem C14_float_roundtrip : forall m e (H : SpecFloat.bounded 53 1024 m e = true),
  parse_simple_number parse_f64 (spell_dyadic m e) = Ok (Flt (Binary.B754_finite 53 1024 false m e H)).
Proof. exact float_spelling_roundtrip. Qed.
Print Assumptions C14_float_roundtrip.

Theorem C14_float_zero :
  parse_simple_number parse_f64 [48; 46; 48] = Ok (Flt (Binary.B754_zero 53 1024 false)).
Proof. exact zero_spelling. Qed.
Print Assumptions C14_float_zero.

(* a char-list literal evaluates to exactly the characters between its quotes
   after escape processing: for every quote count q, every list of items
   (raw characters of any byte length, backslash escapes, \u{hex}) *)
Theorem C14_char_list_denotes : forall pf q items,
  forallb (wf_citem q) items = true ->
  body_ok 34 (render_citems items) = true ->
  parse_char_list pf (char_list_literal q items) = Ok (denote_citems items).
Proof. exact char_list_literal_denotes. Qed.
Print Assumptions C14_char_list_denotes.

(* every string has a spelling, in every quote form, that parses back to it *)
Theorem C14_string : forall pf q s, parse_char_list pf (spell_string q s) = Ok s.
Proof. exact string_roundtrip. Qed.
Print Assumptions C14_string.

(* text-form byte lists denote the bytes they list *)
Theorem C14_byte_text_denotes : forall pf un items,
  forallb wf_bitem items = true -> body_ok 39 (render_bitems items) = true ->
  parse_byte_list pf un (byte_text_literal items) = Ok (denote_bitems items).
Proof. exact byte_text_literal_denotes. Qed.
Print Assumptions C14_byte_text_denotes.

Theorem C14_bytes_text : forall pf un bs, Forall (fun b => b < 256) bs ->
  (match bs with b :: _ => b <> 39 | [] => True end) ->
  parse_byte_list pf un (spell_bytes_text bs) = Ok bs.
Proof. exact bytes_text_roundtrip. Qed.
Print Assumptions C14_bytes_text.

(* every byte vector has a numeric spelling, with any quote count >= 2 *)
Theorem C14_bytes : forall pf un q bs, 2 <= q -> bs <> [] -> Forall (fun b => b <= 255) bs ->
  parse_byte_list pf un (spell_bytes q bs) = Ok bs.
Proof. exact byte_numbers_roundtrip. Qed.
Print Assumptions C14_bytes.

Theorem C14_bytes_empty : forall pf un q, parse_byte_list pf un (spell_bytes q []) = Ok [].
Proof. exact empty_bytes_spelling. Qed.
Print Assumptions C14_bytes_empty.

(* on both data implementations the stored list has the length of the parsed
   list and exactly its items (headers count characters) *)
Theorem C14_stored_chars : forall s,
  simple_store_chars chars_count s = (N.of_nat (length s), ok_items s) /\
  basic_store_chars s = (N.of_nat (length s), ok_items s).
Proof. intros s. split; [exact (simple_store_chars_exact s) | exact (basic_store_chars_exact s)]. Qed.
Print Assumptions C14_stored_chars.

Theorem C14_stored_bytes : forall bs,
  simple_store_bytes bs = (N.of_nat (length bs), ok_items bs) /\
  basic_store_bytes bs = (N.of_nat (length bs), ok_items bs).
Proof. intros bs. split; [exact (simple_store_bytes_exact bs) | exact (basic_store_bytes_exact bs)]. Qed.
Print Assumptions C14_stored_bytes.

(* a symbol keeps the name it was written with ([hash] = symbol_value, an oracle) *)
Theorem C14_symbol : forall (hash : str -> N) name,
  simple_symbol_name (simple_parse_add_symbol hash name) (hash (symbol_key name)) = Some name /\
  basic_get_symbol_string (fst (basic_parse_add_symbol chars_count hash 0 name))
    (snd (basic_parse_add_symbol chars_count hash 0 name)) (hash (symbol_key name)) = Ok (Some name).
Proof. intros hash name. split; [exact (simple_symbol_keeps_name hash name) | exact (basic_symbol_keeps_name hash name)]. Qed.
Print Assumptions C14_symbol.

(* the byte-length headers of the code before the fixes are refuted by a
   one-character witness *)
Theorem C14_byte_length_headers_refuted :
  simple_store_chars str_len [233] <> (1, ok_items [233]) /\
  basic_get_symbol_string (fst (basic_parse_add_symbol str_len (fun _ => 7) 0 [233]))
    (snd (basic_parse_add_symbol str_len (fun _ => 7) 0 [233])) 7 = Panic 5.
Proof. split; [exact simple_byte_length_header_refuted | exact basic_symbol_byte_length_header_refuted]. Qed.
Print Assumptions C14_byte_length_headers_refuted.

(* non-vacuity: the hypotheses are met by concrete literals and the
   interesting branches are taken *)
Example C14_ex_numbers : forall pf,
  parse_simple_number pf [48; 49; 54; 95; 70; 95; 102] = Ok (Int 255) /\             (* 016_F_f *)
  parse_simple_number pf [48; 50; 48; 95; 49; 49] = Ok (Int 21) /\                   (* 020_11 *)
  parse_simple_number pf (spell_int 36 2147483647) = Ok (Int 2147483647) /\
  parse_simple_number pf [48; 50; 95; 49; 50] = Err err_parse /\                     (* 02_12 *)
  parse_simple_number pf [49; 95; 48; 48; 48] = Ok (Int 1000).                       (* 1_000 *)
Proof. intros pf. vm_compute. repeat split; reflexivity. Qed.

Definition float_bits (r : res num) : Z := match r with Ok (Flt f) => bits_of_b64 f | _ => (-1)%Z end.
Example C14_ex_float :
  float_bits (parse_simple_number parse_f64 [48; 46; 49]) = 0x3fb999999999999a%Z /\                    (* 0.1 *)
  float_bits (parse_simple_number parse_f64 [48; 46; 49; 50; 95; 53]) = 0x3fc0000000000000%Z /\        (* 0.12_5 *)
  float_bits (parse_simple_number parse_f64 [50; 49; 52; 55; 52; 56; 51; 54; 52; 56]) = 0x41e0000000000000%Z.  (* 2147483648 *)
Proof. vm_compute. repeat split; reflexivity. Qed.

Example C14_ex_text : forall pf un,
  parse_char_list pf [34; 233; 34] = Ok [233] /\                                     (* "e-acute" *)
  parse_char_list pf (spell_string 3 [233; 34; 10; 92; 128512]) = Ok [233; 34; 10; 92; 128512] /\
  wf_citem 1 (CUni [50; 50]) = true /\
  parse_byte_list pf un [39; 233; 39] = Ok [233] /\
  parse_byte_list pf un [39; 39] = Ok [] /\
  parse_byte_list pf un (spell_bytes 3 [0; 39; 255]) = Ok [0; 39; 255].
Proof. intros pf un. vm_compute. repeat split; reflexivity. Qed.

(* ------------------------------------------------------------------------
   First stage: LEXING of the spelling (the lexer model of Model/Lexer.v, for
   every classification [un]/[ua] of the non-ASCII characters).  The lexer
   followed by the literal parser is the identity on values. *)
From GV Require Import Gen.TokenTypes Model.Lexer Proofs.C14.LexSpelling.

(* The spelling of a string lexes to exactly ONE token, of type CharList, at
   position (0,0), whose text is the whole spelling -- for the one-quote form
   (any string, also the empty one) and for every form with three or more
   quotes (non-empty strings).  [s] ranges over all lists of code points. *)
Theorem C14_lex_string : forall un ua q s, q = 1 \/ (3 <= q /\ s <> []) ->
  lex un ua (spell_string q s) = Ok [mkTok (spell_string q s) TT_CharList 0 0].
Proof. exact lex_string_full. Qed.
Print Assumptions C14_lex_string.

(* ... hence lexing and then parsing the token's text yields the string *)
Theorem C14_string_end_to_end : forall un ua pf q s, q = 1 \/ (3 <= q /\ s <> []) ->
  exists t, lex un ua (spell_string q s) = Ok [t] /\ tok_type t = TT_CharList /\ tok_row t = 0 /\ tok_col t = 0 /\
            parse_char_list pf (tok_text t) = Ok s.
Proof. exact string_end_to_end. Qed.
Print Assumptions C14_string_end_to_end.

(* The literal neither swallows nor loses what follows it: with ANY input
   [rest] behind the spelling, the first next() returns the literal token,
   leaves exactly [rest] unread and the lexer between tokens (state NoToken,
   quote counters 0, no error) ... *)
Theorem C14_lex_string_then_next : forall un ua q s rest, (q = 1 \/ 3 <= q) -> s <> [] ->
  exists l1, internal_next un ua init_lexer (spell_string q s ++ rest) =
             Ok (l1, rest, Some (mkTok (spell_string q s) TT_CharList 0 0)) /\ idle l1.
Proof. exact next_string_then. Qed.
Print Assumptions C14_lex_string_then_next.

(* ... so whenever the whole input lexes, its first token is the literal *)
Theorem C14_lex_string_then : forall un ua q s rest ts, (q = 1 \/ 3 <= q) -> s <> [] ->
  lex un ua (spell_string q s ++ rest) = Ok ts ->
  exists ts', ts = mkTok (spell_string q s) TT_CharList 0 0 :: ts'.
Proof. exact lex_string_then. Qed.
Print Assumptions C14_lex_string_then.

(* The general rule behind these (both kinds of quote, [KChar] = double quote,
   [KByte] = apostrophe): n quotes (n = 1 or n >= 3), a non-empty body without that
   quote character -- backslashes are ordinary characters to the lexer --, n
   quotes: one token. *)
Theorem C14_lex_literal : forall un ua k n body, (1 <= n)%nat -> n <> 2%nat -> body <> [] -> ~ In (kq k) body ->
  lex un ua (literal_text k n body) = Ok [mkTok (literal_text k n body) (kty k) 0 0].
Proof. exact lex_literal. Qed.
Print Assumptions C14_lex_literal.

(* The quote forms the lexer does not read as one token: two quotes on each
   side are the empty literal followed by other tokens, and an empty body
   between three or more quotes is one unterminated opening run. *)
Theorem C14_lex_string_two_quotes_refuted : forall un ua,
  lex un ua (spell_string 2 [97]) =
  Ok [mkTok [34; 34] TT_CharList 0 0; mkTok [97] TT_Identifier 0 2; mkTok [34; 34] TT_CharList 0 3].
Proof. exact lex_string_two_quotes_refuted. Qed.
Print Assumptions C14_lex_string_two_quotes_refuted.

Theorem C14_lex_string_empty_triple_refuted : forall un ua,
  lex un ua (spell_string 3 []) = Err E_Unterminated.
Proof. exact lex_string_empty_triple_refuted. Qed.
Print Assumptions C14_lex_string_empty_triple_refuted.

Example C14_ex_lex_string : forall un ua,
  lex un ua (spell_string 3 [233; 34; 10; 92; 128512]) =
    Ok [mkTok (spell_string 3 [233; 34; 10; 92; 128512]) TT_CharList 0 0] /\
  lex un ua (spell_string 1 []) = Ok [mkTok [34; 34] TT_CharList 0 0] /\
  (* two one-character literals joined by + : three tokens, the literals intact *)
  lex un ua (spell_string 1 [97] ++ 43 :: spell_string 1 [98]) =
    Ok [mkTok [34; 97; 34] TT_CharList 0 0; mkTok [43] TT_PlusSign 0 3; mkTok [34; 98; 34] TT_CharList 0 4].
Proof. intros un ua. vm_compute. repeat split; reflexivity. Qed.

(* ---- byte lists ---- *)
From GV Require Import Proofs.C14.LexSpellingNum.

(* The text spelling of a byte vector lexes to exactly one ByteList token whose
   text is the whole spelling, for every vector that does not contain the
   apostrophe byte 39 (its spelling, backslash apostrophe, ends the literal for
   the lexer: see C14_lex_bytes_text_apostrophe_refuted) ... *)
Theorem C14_lex_bytes_text : forall un ua bs, ~ In 39 bs ->
  lex un ua (spell_bytes_text bs) = Ok [mkTok (spell_bytes_text bs) TT_ByteList 0 0].
Proof. exact lex_bytes_text. Qed.
Print Assumptions C14_lex_bytes_text.

(* ... and the numeric spelling with three or more quotes on each side does so
   for every non-empty vector *)
Theorem C14_lex_bytes : forall un ua q bs, 3 <= q -> bs <> [] ->
  lex un ua (spell_bytes q bs) = Ok [mkTok (spell_bytes q bs) TT_ByteList 0 0].
Proof. exact lex_bytes. Qed.
Print Assumptions C14_lex_bytes.

(* lexing and then parsing the token's text yields the bytes *)
Theorem C14_bytes_text_end_to_end : forall un ua pf un' bs, Forall (fun b => b < 256) bs -> ~ In 39 bs ->
  exists t, lex un ua (spell_bytes_text bs) = Ok [t] /\ tok_type t = TT_ByteList /\
            parse_byte_list pf un' (tok_text t) = Ok bs.
Proof. exact bytes_text_end_to_end. Qed.
Print Assumptions C14_bytes_text_end_to_end.

Theorem C14_bytes_end_to_end : forall un ua pf un' q bs, 3 <= q -> bs <> [] -> Forall (fun b => b <= 255) bs ->
  exists t, lex un ua (spell_bytes q bs) = Ok [t] /\ tok_type t = TT_ByteList /\
            parse_byte_list pf un' (tok_text t) = Ok bs.
Proof. exact bytes_end_to_end. Qed.
Print Assumptions C14_bytes_end_to_end.

(* followed by any input: the first token is the literal *)
Theorem C14_lex_bytes_text_then : forall un ua bs rest ts, bs <> [] -> ~ In 39 bs ->
  lex un ua (spell_bytes_text bs ++ rest) = Ok ts ->
  exists ts', ts = mkTok (spell_bytes_text bs) TT_ByteList 0 0 :: ts'.
Proof. exact lex_bytes_text_then. Qed.
Print Assumptions C14_lex_bytes_text_then.

Theorem C14_lex_bytes_then : forall un ua q bs rest ts, 3 <= q -> bs <> [] ->
  lex un ua (spell_bytes q bs ++ rest) = Ok ts ->
  exists ts', ts = mkTok (spell_bytes q bs) TT_ByteList 0 0 :: ts'.
Proof. exact lex_bytes_then. Qed.
Print Assumptions C14_lex_bytes_then.

(* Byte-list spellings that parse_byte_list accepts (C14_bytes_text, C14_bytes)
   but the lexer does not deliver as one token: the escaped apostrophe, the
   two-quote numeric form, and the empty vector in the numeric form. *)
Theorem C14_lex_bytes_text_apostrophe_refuted : forall un ua,
  lex un ua (spell_bytes_text [39]) = Err E_Unterminated.
Proof. exact lex_bytes_text_apostrophe_refuted. Qed.
Print Assumptions C14_lex_bytes_text_apostrophe_refuted.

Theorem C14_lex_bytes_two_quotes_refuted : forall un ua,
  lex un ua (spell_bytes 2 [7]) =
  Ok [mkTok [39; 39] TT_ByteList 0 0; mkTok [55] TT_Number 0 2; mkTok [39; 39] TT_ByteList 0 3].
Proof. exact lex_bytes_two_quotes_refuted. Qed.
Print Assumptions C14_lex_bytes_two_quotes_refuted.

Theorem C14_lex_bytes_empty_refuted : forall un ua, lex un ua (spell_bytes 2 []) = Err E_Unterminated.
Proof. exact lex_bytes_empty_refuted. Qed.
Print Assumptions C14_lex_bytes_empty_refuted.

(* ---- numbers ----
   The lexer has no Float token type: integer and float spellings both lex to
   one token of type Number (the parser of the text decides). *)

(* 0R_digits, for any digits / letters / separators after the prefix *)
Theorem C14_lex_radix : forall un ua R ds, forallb num_char ds = true ->
  lex un ua (spell_radix R ds) = Ok [mkTok (spell_radix R ds) TT_Number 0 0].
Proof. exact lex_spell_radix. Qed.
Print Assumptions C14_lex_radix.

Theorem C14_lex_int : forall un ua R n, 2 <= R -> R <= 36 ->
  lex un ua (spell_int R n) = Ok [mkTok (spell_int R n) TT_Number 0 0].
Proof. exact lex_spell_int. Qed.
Print Assumptions C14_lex_int.

Theorem C14_lex_decimal : forall un ua n,
  lex un ua (dec_string n) = Ok [mkTok (dec_string n) TT_Number 0 0].
Proof. exact lex_dec_string. Qed.
Print Assumptions C14_lex_decimal.

(* the decimal-fraction spelling of a finite binary64: one token (type Number) *)
Theorem C14_lex_float : forall un ua m e,
  lex un ua (spell_dyadic m e) = Ok [mkTok (spell_dyadic m e) TT_Number 0 0].
Proof. exact lex_spell_dyadic. Qed.
Print Assumptions C14_lex_float.

(* the shapes behind these: a digit, then digits / ASCII letters / underscores,
   optionally one period and more of the same *)
Theorem C14_lex_number_text : forall un ua d ds fs, ascii_digit d = true -> forallb num_char ds = true ->
  forallb num_char fs = true ->
  lex un ua (d :: ds) = Ok [mkTok (d :: ds) TT_Number 0 0] /\
  lex un ua (d :: ds ++ 46 :: fs) = Ok [mkTok (d :: ds ++ 46 :: fs) TT_Number 0 0].
Proof. intros un ua d ds fs Hd Hds Hfs. split; [exact (lex_number_text un ua d ds Hd Hds) | exact (lex_float_text un ua d ds fs Hd Hds Hfs)]. Qed.
Print Assumptions C14_lex_number_text.

(* lexing and then parse_simple_number on the token's text *)
Theorem C14_int_end_to_end : forall un ua pf R n, 2 <= R -> R <= 36 -> n <= i32_max_N ->
  exists t, lex un ua (spell_int R n) = Ok [t] /\ tok_type t = TT_Number /\
            parse_simple_number pf (tok_text t) = Ok (Int (Z.of_N n)).
Proof. exact int_end_to_end. Qed.
Print Assumptions C14_int_end_to_end.

Theorem C14_decimal_end_to_end : forall un ua pf n, n <= i32_max_N ->
  exists t, lex un ua (dec_string n) = Ok [t] /\ tok_type t = TT_Number /\
            parse_simple_number pf (tok_text t) = Ok (Int (Z.of_N n)).
Proof. exact decimal_end_to_end. Qed.
Print Assumptions C14_decimal_end_to_end.

Theorem C14_float_end_to_end : forall un ua m e (H : SpecFloat.bounded 53 1024 m e = true),
  exists t, lex un ua (spell_dyadic m e) = Ok [t] /\ tok_type t = TT_Number /\
            parse_simple_number parse_f64 (tok_text t) = Ok (Flt (Binary.B754_finite 53 1024 false m e H)).
Proof. exact float_end_to_end. Qed.
Print Assumptions C14_float_end_to_end.

Example C14_ex_lex_numbers : forall un ua,
  lex un ua (spell_int 36 2147483647) = Ok [mkTok (spell_int 36 2147483647) TT_Number 0 0] /\
  lex un ua [48; 49; 54; 95; 70; 95; 102] = Ok [mkTok [48; 49; 54; 95; 70; 95; 102] TT_Number 0 0] /\
  lex un ua (spell_dyadic 5 (-3)) = Ok [mkTok [48; 46; 54; 50; 53] TT_Number 0 0] /\     (* 0.625 *)
  lex un ua (spell_bytes_text [0; 92; 255]) = Ok [mkTok (spell_bytes_text [0; 92; 255]) TT_ByteList 0 0] /\
  lex un ua (spell_bytes 3 [0; 39; 255]) = Ok [mkTok (spell_bytes 3 [0; 39; 255]) TT_ByteList 0 0].
Proof. intros un ua. vm_compute. repeat split; reflexivity. Qed.

(* ---- the closing rule in general, and literals followed by more input ---- *)
From GV Require Import Proofs.C14.LexSpellingThen.

(* A literal body may contain the quote character itself, in runs shorter than
   the opening run, provided it neither starts nor ends with it ([runs_ok q n 0]
   says exactly that, executably).  With n = 1 or n >= 3 quotes on each side
   this is one token -- the quote that completes a run of n ends the literal,
   any other character resets the count; backslashes play no role. *)
Theorem C14_lex_literal_general : forall un ua k n x body, (1 <= n)%nat -> n <> 2%nat ->
  x <> kq k -> runs_ok (kq k) n 0 body = true ->
  lex un ua (literal_text k n (x :: body)) = Ok [mkTok (literal_text k n (x :: body)) (kty k) 0 0].
Proof. exact lex_literal_general. Qed.
Print Assumptions C14_lex_literal_general.

(* Every char-list literal of that shape (any well-formed items: raw characters
   including quotes, escapes, \u{..}) lexes to one CharList token whose text,
   given to parse_char_list, yields exactly what the items denote. *)
Theorem C14_char_list_end_to_end : forall un ua pf q items x body,
  (q = 1 \/ 3 <= q) -> forallb (wf_citem q) items = true ->
  render_citems items = x :: body -> x <> 34 -> runs_ok 34 (N.to_nat q) 0 body = true ->
  exists t, lex un ua (char_list_literal q items) = Ok [t] /\ tok_type t = TT_CharList /\
            tok_text t = char_list_literal q items /\
            parse_char_list pf (tok_text t) = Ok (denote_citems items).
Proof. exact char_list_end_to_end. Qed.
Print Assumptions C14_char_list_end_to_end.

(* A number spelling followed by a character [x] that cannot continue it (not a
   number character, not a period -- a space, an operator, a bracket ...): the
   first token is the number, whole and alone.  The same with a fraction. *)
Theorem C14_lex_number_then : forall un ua d ds x rest ts, ascii_digit d = true -> forallb num_char ds = true ->
  is_number_char un ua x = false -> x <> 46 -> lex un ua (d :: ds ++ x :: rest) = Ok ts ->
  exists ts', ts = mkTok (d :: ds) TT_Number 0 0 :: ts'.
Proof. exact lex_number_then. Qed.
Print Assumptions C14_lex_number_then.

Theorem C14_lex_float_then : forall un ua d ds fs x rest ts, ascii_digit d = true -> forallb num_char ds = true ->
  forallb num_char fs = true -> is_number_char un ua x = false -> x <> 46 ->
  lex un ua (d :: ds ++ 46 :: fs ++ x :: rest) = Ok ts ->
  exists ts', ts = mkTok (d :: ds ++ 46 :: fs) TT_Number 0 0 :: ts'.
Proof. exact lex_float_then. Qed.
Print Assumptions C14_lex_float_then.

(* the empty literal (two quotes) followed by a non-quote *)
Theorem C14_lex_empty_literal_then : forall un ua k x rest ts, x <> kq k ->
  lex un ua (kq k :: kq k :: x :: rest) = Ok ts -> exists ts', ts = mkTok [kq k; kq k] (kty k) 0 0 :: ts'.
Proof. exact lex_empty_literal_then. Qed.
Print Assumptions C14_lex_empty_literal_then.

Example C14_ex_lex_general : forall un ua,
  (* three quotes, body  a, quote, quote, b  -- raw quotes inside *)
  runs_ok 34 3 0 [34; 34; 98] = true /\
  lex un ua (literal_text KChar 3 [97; 34; 34; 98]) = Ok [mkTok (literal_text KChar 3 [97; 34; 34; 98]) TT_CharList 0 0] /\
  (* a body ending in a quote is not accepted by runs_ok, and indeed does not lex as one token *)
  runs_ok 34 3 0 [34] = false /\
  lex un ua (literal_text KChar 3 [97; 34]) = Err E_Unterminated /\
  (* 12+3 and 1.5 then space *)
  lex un ua [49; 50; 43; 51] = Ok [mkTok [49; 50] TT_Number 0 0; mkTok [43] TT_PlusSign 0 2; mkTok [51] TT_Number 0 3] /\
  lex un ua [49; 46; 53; 32] = Ok [mkTok [49; 46; 53] TT_Number 0 0; mkTok [32] TT_Whitespace 0 3].
Proof. intros un ua. vm_compute. repeat split; reflexivity. Qed.
