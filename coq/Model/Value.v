(* Values as the properties see them: structural trees, no addresses.
   Shared by every runtime-level model and spec. *)
From Coq Require Import ZArith NArith List.
From GV Require Import Gen.Instr Model.Num.
Import ListNotations.

Inductive sympart : Type :=
| SPSym (s : N)        (* symbol value (u64 hash of the name) *)
| SPNum (n : num).

Inductive val : Type :=
| VUnit | VTrue | VFalse
| VType (t : data_type)
| VNum (n : num)
| VChar (c : N)                 (* code point *)
| VByte (b : N)
| VSym (s : N)
| VSymList (l : list sympart)
| VChars (l : list N)
| VBytes (l : list N)
| VPair (a b : val)
| VList (items : list val)
| VConcat (a b : val)
| VRange (a b : val)
| VSlice (v r : val)
| VPartial (f x : val)
| VExpr (body : N)              (* jump-table index of the body *)
| VExternal (n : N)
| VCustom.

Definition type_of_val (v : val) : data_type :=
  match v with
  | VUnit => T_Unit | VTrue => T_True | VFalse => T_False
  | VType _ => T_Type | VNum _ => T_Number | VChar _ => T_Char | VByte _ => T_Byte
  | VSym _ => T_Symbol | VSymList _ => T_SymbolList
  | VChars _ => T_CharList | VBytes _ => T_ByteList
  | VPair _ _ => T_Pair | VList _ => T_List | VConcat _ _ => T_Concatenation
  | VRange _ _ => T_Range | VSlice _ _ => T_Slice | VPartial _ _ => T_Partial
  | VExpr _ => T_Expression | VExternal _ => T_External | VCustom => T_Custom
  end.

(* item [z] of a list for a non-negative integer index: the bound is compared in Z
   first, so that an index far beyond the end never becomes a unary number *)
Definition nth_z {A : Type} (l : list A) (z : Z) : option A :=
  if (z <? Z.of_nat (length l))%Z then nth_error l (Z.to_nat z) else None.
