"""Gen/Exec.v: execute.rs's instruction -> op-function map.

`execute_current_instruction` is one `match instruction { Instruction::X => f(data)?, ... }`
with two arm shapes: a direct call `f(data)?` and, for instructions that carry an
operand, `match instruction_data { None => instruction_error(..)?, Some(i) => f(data, i)?, }`.
`Instruction::Invalid => None` is the only arm without a call.  Anything else raises."""
import re
from . import rustsrc as R


def parse():
    src = R.strip_comments(R.read("runtime/src/execute.rs"))
    body = R.item_body(src, r"pub fn execute_current_instruction\b")
    m = re.search(r"let next_instruction = match instruction \{", body)
    if not m:
        raise ValueError("execute.rs: `let next_instruction = match instruction {` not found")
    i = body.index("{", m.start())
    j = R.match_brace(body, i)
    arms_text = body[i + 1:j - 1]
    from .dispatch import parse_arms  # shared arm splitter
    rows = []
    for pat, b in parse_arms(arms_text):
        mp = re.match(r"^Instruction::(\w+)$", pat)
        if not mp:
            raise ValueError("execute.rs: arm pattern not understood: %r" % pat)
        ins = mp.group(1)
        if b == "None":
            rows.append((ins, None, False))
            continue
        m1 = re.match(r"^(\w+)\(data\)\?$", b)
        if m1:
            rows.append((ins, m1.group(1), False))
            continue
        m2 = re.match(r"^match instruction_data \{ None => instruction_error\(instruction, data\.get_instruction_cursor\(\)\)\?, Some\(i\) => (\w+)\(data, i\)\?,? \}$", b)
        if m2:
            rows.append((ins, m2.group(1), True))
            continue
        raise ValueError("execute.rs: arm body of %s not understood: %r" % (ins, b))
    return rows


def op_functions():
    seen = []
    for _, f, _ in parse():
        if f and f not in seen:
            seen.append(f)
    return seen


def generate():
    rows = parse()
    ins_all = R.enum_variants(R.read("traits/src/instructions.rs"), "Instruction")
    named = [r[0] for r in rows]
    if len(set(named)) != len(named):
        raise ValueError("execute.rs: an instruction has two arms")
    ops = op_functions()
    t = R.HEADER % "runtime/src/execute.rs"
    t = t.replace("From Coq Require Import NArith List.", "From Coq Require Import NArith List.\nFrom GV Require Import Gen.Instr.")
    t += "(* the runtime op functions execute_current_instruction calls *)\n"
    t += R.coq_inductive("op_fn", ops, "Op_") + "\n" + R.coq_eqb("op_fn", ops, "Op_") + "\n\n"
    t += ("(* instruction -> (op function, takes the instruction's operand); None: the\n"
          "   instruction has no arm that calls anything (Invalid) or no arm at all *)\n")
    t += "Definition exec_op (i : instruction) : option (op_fn * bool) :=\n  match i with\n"
    for ins, f, needs in rows:
        if f is None:
            t += "  | I_%s => None\n" % ins
        else:
            t += "  | I_%s => Some (Op_%s, %s)\n" % (ins, f, "true" if needs else "false")
    if set(ins_all) - set(named):
        t += "  | _ => None\n"
    t += "  end.\n"
    missing = sorted(set(ins_all) - set(named))
    t += "\n(* instructions without an arm in execute.rs: %s *)\n" % (", ".join(missing) if missing else "none")
    return {"Exec.v": t}
