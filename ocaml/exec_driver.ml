(* exec driver (C01, C10 program clauses, C17).
   Two modes (argv.(1)):

   print   reads lines  "<style> <ast>"  (style: min | full | raw) and prints
             <1|0 printable>\t<source as hex code points>\t<token type indices>\t<ast as printed>
           min: Spec.Printer.parenthesize first (minimal parentheses),
           full: parenthesize, then full_paren;  raw: the tree as given.

   run     reads the exec harness output lines
             E <src>|<input>|<host>|<ast>\t<impl result>\t<oracle: toks=.. syms=..>
           and prints  <case>\t<model>\t<spec>
             model  P=<entry:I[..]:J[..]> WL=<same|DIFF:..|ERRn|PANIC|HANG> M=<run>
             spec   OK v=<tree> c=[..] | UNSPEC:<why> | FUEL
           <run> and value trees are written exactly as harness/src/bin/exec.rs writes them.

   AST syntax (one line, no tabs, no '|'):
     u t F  (i <dec>) (f <dec m> <k>) (s <hex>,<hex>..|-) (y <name>) (p <name>)    literals
     $  (x <name>)                                                                 value, identifier
     (U <op> e) (B <op> l r) (& l r) (O l r) (L s|c l r) (G e) (C 0|1 c a) (E l r)
     (Q s|b l r) (S a s) (N <label dec> b) (R e) *)

(* ------------------------------------------------------------ small helpers *)
let rec nat_of_int (i : int) : nat = if i <= 0 then O else S (nat_of_int (i - 1))
let rec int_of_nat (n : nat) : int = match n with O -> 0 | S m -> 1 + int_of_nat m
let codes (s : string) : n list = List.init (String.length s) (fun i -> n_of_int (Char.code s.[i]))
let string_of_codes (l : n list) : string =
  String.concat "" (List.map (fun c -> String.make 1 (Char.chr (int_of_n c))) l)

(* -------------------------------------------------------------- AST reader *)
type sx = A of string | Lst of sx list

let parse_sx (s : string) : sx =
  let pos = ref 0 in
  let len = String.length s in
  let rec skip () = if !pos < len && s.[!pos] = ' ' then (incr pos; skip ()) in
  let rec one () : sx =
    skip ();
    if !pos >= len then failwith "sexpr: unexpected end";
    if s.[!pos] = '(' then begin
      incr pos;
      let items = ref [] in
      let fin = ref false in
      while not !fin do
        skip ();
        if !pos >= len then failwith "sexpr: unterminated";
        if s.[!pos] = ')' then (incr pos; fin := true) else items := one () :: !items
      done;
      Lst (List.rev !items)
    end else begin
      let st = !pos in
      while !pos < len && s.[!pos] <> ' ' && s.[!pos] <> '(' && s.[!pos] <> ')' do incr pos done;
      A (String.sub s st (!pos - st))
    end in
  one ()

let unops = [ "abs", UAbs; "neg", UNeg; "bnot", UBitNot; "not", UNot; "tis", UTis; "left", ULeft;
              "right", URight; "len", ULen; "ea", UEmptyApply ]
let binops = [ "add", BAdd; "sub", BSub; "mul", BMul; "div", BDiv; "idiv", BIntDiv; "pow", BPow; "rem", BRem;
               "band", BBitAnd; "bor", BBitOr; "bxor", BBitXor; "shl", BShl; "shr", BShr;
               "lt", BLt; "le", BLe; "gt", BGt; "ge", BGe; "eq", BEq; "ne", BNe; "xor", BXor;
               "pair", BPair; "acc", BAccess; "app", BApply; "appto", BApplyTo ]
let rassoc x l = fst (List.find (fun (_, v) -> v = x) l)

let rec expr_of (x : sx) : expr =
  match x with
  | A "u" -> ELit LUnit | A "t" -> ELit LTrue | A "F" -> ELit LFalse
  | A "$" -> EValue
  | Lst [A "i"; A d] -> ELit (LInt (n_of_int (int_of_string d)))
  | Lst [A "f"; A m; A k] -> ELit (LFloat (n_of_int (int_of_string m), nat_of_int (int_of_string k)))
  | Lst [A "s"; A h] ->
    ELit (LStr (if h = "-" then [] else List.map n_of_hex (String.split_on_char ',' h)))
  | Lst [A "y"; A name] -> ELit (LSym (codes name))
  | Lst [A "p"; A name] -> ELit (LProp (codes name))
  | Lst [A "x"; A name] -> EIdent (codes name)
  | Lst [A "U"; A o; e] -> EUn (List.assoc o unops, expr_of e)
  | Lst [A "B"; A o; l; r] -> EBin (List.assoc o binops, expr_of l, expr_of r)
  | Lst [A "&"; l; r] -> EAnd (expr_of l, expr_of r)
  | Lst [A "O"; l; r] -> EOr (expr_of l, expr_of r)
  | Lst [A "L"; A k; l; r] -> EList ((if k = "s" then Space else Comma), expr_of l, expr_of r)
  | Lst [A "G"; e] -> EGroup (expr_of e)
  | Lst [A "C"; A n; c; a] -> ECond (n = "1", expr_of c, expr_of a)
  | Lst [A "E"; l; r] -> EElse (expr_of l, expr_of r)
  | Lst [A "Q"; A s; l; r] -> ESeq ((if s = "s" then Semi else Blank), expr_of l, expr_of r)
  | Lst [A "S"; a; s] -> ESide (expr_of a, expr_of s)
  | Lst [A "N"; A lbl; b] -> ENested (n_of_int (int_of_string lbl), expr_of b)
  | Lst [A "R"; e] -> EReapply (expr_of e)
  | _ -> failwith "bad ast"

let rec show_expr (e : expr) : string =
  match e with
  | ELit LUnit -> "u" | ELit LTrue -> "t" | ELit LFalse -> "F"
  | EValue -> "$"
  | ELit (LInt n) -> Printf.sprintf "(i %d)" (int_of_n n)
  | ELit (LFloat (m, k)) -> Printf.sprintf "(f %d %d)" (int_of_n m) (int_of_nat k)
  | ELit (LStr cs) -> Printf.sprintf "(s %s)" (if cs = [] then "-" else String.concat "," (List.map hex_of_n cs))
  | ELit (LSym name) -> Printf.sprintf "(y %s)" (string_of_codes name)
  | ELit (LProp name) -> Printf.sprintf "(p %s)" (string_of_codes name)
  | EIdent name -> Printf.sprintf "(x %s)" (string_of_codes name)
  | EUn (o, x) -> Printf.sprintf "(U %s %s)" (rassoc o unops) (show_expr x)
  | EBin (o, l, r) -> Printf.sprintf "(B %s %s %s)" (rassoc o binops) (show_expr l) (show_expr r)
  | EAnd (l, r) -> Printf.sprintf "(& %s %s)" (show_expr l) (show_expr r)
  | EOr (l, r) -> Printf.sprintf "(O %s %s)" (show_expr l) (show_expr r)
  | EList (k, l, r) -> Printf.sprintf "(L %s %s %s)" (if k = Space then "s" else "c") (show_expr l) (show_expr r)
  | EGroup x -> Printf.sprintf "(G %s)" (show_expr x)
  | ECond (n, c, a) -> Printf.sprintf "(C %s %s %s)" (if n then "1" else "0") (show_expr c) (show_expr a)
  | EElse (l, r) -> Printf.sprintf "(E %s %s)" (show_expr l) (show_expr r)
  | ESeq (s, l, r) -> Printf.sprintf "(Q %s %s %s)" (if s = Semi then "s" else "b") (show_expr l) (show_expr r)
  | ESide (a, s) -> Printf.sprintf "(S %s %s)" (show_expr a) (show_expr s)
  | ENested (lbl, b) -> Printf.sprintf "(N %d %s)" (int_of_n lbl) (show_expr b)
  | EReapply x -> Printf.sprintf "(R %s)" (show_expr x)

(* -------------------------------------------------------------- value trees *)
let pos = ref 0
let src = ref ""
let peek () = if !pos < String.length !src then !src.[!pos] else '\000'
let adv () = incr pos
let skip_spaces () = while peek () = ' ' do adv () done
let word () =
  let st = !pos in
  while !pos < String.length !src && not (List.mem !src.[!pos] [' '; ')'; '('; ','; ']'; '['; ';'; '=']) do adv () done;
  String.sub !src st (!pos - st)
let items () : string list =
  if peek () <> '[' then failwith "expected [";
  adv ();
  let out = ref [] in
  let fin = ref false in
  while not !fin do
    if peek () = ']' then (adv (); fin := true)
    else if peek () = ',' then adv ()
    else if peek () = '\000' then failwith "unterminated ["
    else out := word () :: !out
  done;
  List.rev !out

let sym_table : (string * n) list ref = ref []
let sym_of_name (name : string) : n =
  try List.assoc name !sym_table with Not_found -> failwith ("no hash for symbol " ^ name)

let rec value () : val0 =
  let c = peek () in
  adv ();
  match c with
  | 'U' -> VUnit | 'T' -> VTrue | 'F' -> VFalse
  | 'i' -> VNum (Int (z_of_hex (word ())))
  | 'f' -> VNum (Flt (b64_of_bits (z_of_hex (word ()))))
  | 'c' -> VChar (n_of_hex (word ()))
  | 'b' -> VByte (n_of_hex (word ()))
  | 's' -> VSym (n_of_hex (word ()))
  | 'n' -> VSym (sym_of_name (word ()))
  | 'Y' -> VType (List.nth all_data_type (int_of_string (word ())))
  | 'E' -> VExpr (n_of_hex (word ()))
  | 'X' -> VExternal (n_of_hex (word ()))
  | 'C' -> VChars (List.map n_of_hex (items ()))
  | 'B' -> VBytes (List.map n_of_hex (items ()))
  | 'S' -> VSymList (List.map (fun w ->
             if w.[0] = 's' then SPSym (n_of_hex (String.sub w 1 (String.length w - 1)))
             else SPNum (Int (z_of_hex (String.sub w 1 (String.length w - 1))))) (items ()))
  | '(' ->
    let k = peek () in
    adv ();
    let two () =
      skip_spaces (); let a = value () in skip_spaces (); let b = value () in skip_spaces ();
      if peek () <> ')' then failwith "expected )"; adv (); (a, b) in
    (match k with
     | 'P' -> let (a, b) = two () in VPair (a, b)
     | 'K' -> let (a, b) = two () in VConcat (a, b)
     | 'R' -> let (a, b) = two () in VRange (a, b)
     | 'Z' -> let (a, b) = two () in VSlice (a, b)
     | 'A' -> let (a, b) = two () in VPartial (a, b)
     | 'L' ->
       let its = ref [] in
       let fin = ref false in
       while not !fin do
         skip_spaces ();
         if peek () = ')' then (adv (); fin := true) else its := value () :: !its
       done;
       VList (List.rev !its)
     | _ -> failwith "bad form")
  | _ -> failwith "bad value syntax"

let parse_value (s : string) : val0 = src := s; pos := 0; skip_spaces (); value ()

let is_nan (f : binary64) = match f with B754_nan0 _ -> true | _ -> false
let pad16 s = String.make (max 0 (16 - String.length s)) '0' ^ s
let show_int (v : z) : string = "i" ^ hex_of_z v
let show_num (x : num) : string =
  match x with
  | Int v -> show_int v
  | Flt f -> if is_nan f then "fNaN" else "f" ^ pad16 (hex_of_z (bits_of_b64 f))
let rec show_val (v : val0) : string =
  match v with
  | VUnit -> "U" | VTrue -> "T" | VFalse -> "F"
  | VType t -> "Y" ^ string_of_int (int_of_n (data_type_index t))
  | VNum x -> show_num x
  | VChar c -> "c" ^ hex_of_n c
  | VByte b -> "b" ^ hex_of_n b
  | VSym s -> "s" ^ hex_of_n s
  | VSymList l ->
    "S[" ^ String.concat "," (List.map (function SPSym s -> "s" ^ hex_of_n s | SPNum x -> show_num x) l) ^ "]"
  | VChars l -> "C[" ^ String.concat "," (List.map hex_of_n l) ^ "]"
  | VBytes l -> "B[" ^ String.concat "," (List.map hex_of_n l) ^ "]"
  | VPair (a, b) -> "(P " ^ show_val a ^ " " ^ show_val b ^ ")"
  | VList l -> "(L" ^ String.concat "" (List.map (fun x -> " " ^ show_val x) l) ^ ")"
  | VConcat (a, b) -> "(K " ^ show_val a ^ " " ^ show_val b ^ ")"
  | VRange (a, b) -> "(R " ^ show_val a ^ " " ^ show_val b ^ ")"
  | VSlice (a, b) -> "(Z " ^ show_val a ^ " " ^ show_val b ^ ")"
  | VPartial (a, b) -> "(A " ^ show_val a ^ " " ^ show_val b ^ ")"
  | VExpr e -> "E" ^ hex_of_n e
  | VExternal e -> "X" ^ hex_of_n e
  | VCustom -> "?custom"

(* --------------------------------------------------------------------- host *)
type mode = Decline | Const of val0 | Counter | Identity
type script = { resolves : (n * mode) list; applies : (int * mode) list }

let parse_mode () : mode =
  match peek () with
  | '#' -> adv (); Counter
  | 'i' -> adv (); Identity
  | 'v' -> adv (); Const (value ())
  | _ -> failwith "bad host mode"

let parse_script (s : string) : script =
  if s = "-" || s = "" then { resolves = []; applies = [] }
  else begin
    src := s; pos := 0;
    let rs = ref [] and aps = ref [] in
    let fin = ref false in
    while not !fin do
      skip_spaces ();
      if !pos >= String.length !src then fin := true
      else begin
        let kind = peek () in
        adv ();
        if peek () <> ':' then failwith "expected :";
        adv ();
        let key = word () in
        if peek () <> '=' then failwith "expected =";
        adv ();
        let m = parse_mode () in
        (match kind with
         | 'r' -> rs := (sym_of_name key, m) :: !rs
         | 'a' -> aps := (int_of_string key, m) :: !aps
         | _ -> failwith "bad host entry");
        skip_spaces ();
        if peek () = ';' then adv ()
      end
    done;
    { resolves = List.rev !rs; applies = List.rev !aps }
  end

(* host state: number of resolve / apply calls made so far *)
let host_of (sc : script) (h : int) (c : host_call) : int * val0 option =
  let answer m arg =
    match m with
    | Decline -> None
    | Const v -> Some v
    | Counter -> Some (VNum (Int (z_of_int (100 + h))))
    | Identity -> arg in
  match c with
  | HResolve sym ->
    let m = (try snd (List.find (fun (s, _) -> s = sym) sc.resolves) with Not_found -> Decline) in
    (h + 1, answer m None)
  | HApply (ext, arg) ->
    let e = int_of_n ext in
    let m = (try List.assoc e sc.applies with Not_found -> Decline) in
    (h + 1, answer m (Some arg))
  | HDefer (_, _, _) -> (h, None)

let show_call (c : host_call) : string =
  match c with
  | HResolve s -> "R" ^ hex_of_n s
  | HApply (e, a) -> "A" ^ hex_of_n e ^ ":" ^ show_val a
  | HDefer (i, l, r) ->
    "D" ^ string_of_int (int_of_n (instruction_index i)) ^ ":" ^ show_val l ^ ":" ^
    (match r with Some v -> show_val v | None -> "-")
let show_calls (t : host_call list) : string = "c=[" ^ String.concat ";" (List.map show_call t) ^ "]"

(* ------------------------------------------------------------------ programs *)
let show_mop (o : mop) : string =
  match o with MNone -> "-" | MNum k -> "n" ^ string_of_int (int_of_nat k) | MVal v -> "d" ^ show_val v
let show_program (p : program) (entry : int) : string =
  Printf.sprintf "%d:I[%s]:J[%s]" entry
    (String.concat " " (List.map (fun (i, o) -> string_of_int (int_of_n (instruction_index i)) ^ show_mop o) p.code))
    (String.concat "," (List.map (fun j -> string_of_int (int_of_nat j)) p.jt))

let step_fuel = nat_of_int 4001
let eval_fuel = nat_of_int 4000

let field (oracle : string) (key : string) : string =
  (* value of "key=" in a space separated oracle column *)
  let parts = String.split_on_char ' ' oracle in
  let k = key ^ "=" in
  let kl = String.length k in
  match List.find_opt (fun p -> String.length p >= kl && String.sub p 0 kl = k) parts with
  | Some p -> String.sub p kl (String.length p - kl)
  | None -> ""

let load_syms (oracle : string) : unit =
  let body = field oracle "syms" in
  sym_table :=
    if body = "" then []
    else List.map (fun item ->
        match String.split_on_char ':' item with
        | [name; h] -> (name, n_of_hex h)
        | _ -> failwith ("bad syms item " ^ item)) (String.split_on_char ',' body)

let sym_hash (name : n list) : n = sym_of_name (string_of_codes name)

let run_mode () =
  iter_lines (fun line ->
    match split_on '\t' line with
    | case :: _impl :: oracle :: _ ->
      let body = String.sub case 1 (String.length case - 1) in
      (match String.split_on_char '|' body with
       | _src :: input :: host :: ast :: _ when String.length oracle >= 5 && String.sub oracle 0 5 = "toks=" ->
         (try
            load_syms oracle;
            let e = expr_of (parse_sx (String.trim ast)) in
            let vin = parse_value (String.trim input) in
            let sc = parse_script (String.trim host) in
            let h = host_of sc in
            (* spec *)
            let spec =
              (match eval_prog sym_hash h eval_fuel e vin 0 with
               | ODone (v, (_, t)) -> "OK v=" ^ show_val v ^ " " ^ show_calls t
               | ORestart (_, _) -> "RESTART"
               | OUnspec w -> "UNSPEC:" ^ string_of_int (int_of_n w)
               | OFuel -> "FUEL") in
            (* model *)
            let p = compile_prog sym_hash e in
            let p_str = show_program p 0 in
            let wl =
              (match wl_program sym_hash e with
               | Ok (p2, entry) ->
                 let s2 = show_program p2 (int_of_nat entry) in
                 if s2 = p_str then "same" else "DIFF:" ^ String.concat "_" (String.split_on_char ' ' s2)
               | Err c -> "ERR" ^ string_of_int (int_of_n c)
               | Panic _ -> "PANIC"
               | OutOfFuel -> "HANG") in
            let m =
              (match initial p O vin 0 with
               | None -> "ERR:noentry"
               | Some s0 ->
                 (match run h step_fuel p s0 with
                  | REnd (s, n) ->
                    Printf.sprintf "OK v=%s r=%d vs=%d fr=%d n=%d %s"
                      (match current_value s with Some v -> show_val v | None -> "?novalue")
                      (List.length s.regs) (List.length s.vals) (List.length s.frames) (int_of_nat n) (show_calls s.tr)
                  | RErr (c, s) ->
                    let k = int_of_n c in
                    if k = 99 then "UNMODELED " ^ show_calls s.tr
                    else Printf.sprintf "ERR:%s %s" (if k = 1 then "noreg" else "other") (show_calls s.tr)
                  | RFuel s -> "LIMIT " ^ show_calls s.tr)) in
            Printf.printf "%s\tP=%s WL=%s M=%s\t%s\n" case p_str wl m spec
          with Failure msg -> Printf.printf "%s\tDRIVER-ERROR:%s\t-\n" case msg
             | Not_found -> Printf.printf "%s\tDRIVER-ERROR:not_found\t-\n" case)
       | _ -> Printf.printf "%s\t-\t-\n" case)
    | _ -> failwith ("bad line " ^ line))

let print_mode () =
  iter_lines (fun line ->
    let sp = String.index line ' ' in
    let style = String.sub line 0 sp in
    let ast = String.sub line (sp + 1) (String.length line - sp - 1) in
    try
      let e0 = expr_of (parse_sx ast) in
      let e = (match style with
               | "min" -> parenthesize e0
               | "full" -> full_paren (parenthesize e0)
               | _ -> e0) in
      let toks = print e in
      let text = text_of toks in
      Printf.printf "%s\t%s\t%s\t%s\n"
        (if printable e then "1" else "0")
        (if text = [] then "-" else String.concat "," (List.map hex_of_n text))
        (String.concat "," (List.map (fun (t, _) -> string_of_int (int_of_n (token_type_index t))) toks))
        (show_expr e)
    with Failure msg -> Printf.printf "E\t-\t-\t%s\n" msg)

let () =
  match Sys.argv with
  | [| _; "print" |] -> print_mode ()
  | [| _; "run" |] -> run_mode ()
  | _ -> prerr_endline "usage: exec_driver print|run"; exit 2
