(* What C13 means, independent of the lexer's algorithm.

   Input: a string [s : list N] of code points.  Output: a list of tokens, each
   with a text, a type, a line and a column.  The statements only use the token
   record of Model.Lexer (a plain data type) and the operator table
   Gen.Tokens.operator_spellings; none of the lexer's functions. *)
From Coq Require Import NArith List Bool.
From GV Require Import Gen.TokenTypes Gen.Tokens Model.Lexer.
Import ListNotations.
Local Open Scope N_scope.

(* ---------------------------------------------------------------- (a) (b) *)
Definition texts (ts : list token) : list N := concat (map tok_text ts).

(* (a) the token texts concatenated in order reproduce the input *)
Definition lossless (s : list N) (ts : list token) : Prop := texts ts = s.

(* (b) no token is empty *)
Definition no_empty_token (ts : list token) : Prop := Forall (fun t => tok_text t <> []) ts.

(* -------------------------------------------------------------------- (c) *)
(* the (line, column) reached after reading [p] from (row, col): a line feed starts
   a new line, every other code point advances the column by one *)
Fixpoint pos_after (row col : N) (p : list N) : N * N :=
  match p with
  | [] => (row, col)
  | c :: r => if c =? 10 then pos_after (row + 1) 0 r else pos_after row (col + 1) r
  end.

(* position of the character at offset [length p] of an input that starts with [p] *)
Definition position_of (p : list N) : N * N := pos_after 0 0 p.

(* (c) every token carries the position of its first character *)
Definition positions_exact (ts : list token) : Prop :=
  forall pre t post, ts = pre ++ t :: post ->
    (tok_row t, tok_col t) = position_of (texts pre).

(* carriage returns are excluded by the property text; form feeds are known finding C13-K1 *)
Definition no_cr (s : list N) : Prop := ~ In 13 s.
Definition no_ff (s : list N) : Prop := ~ In 12 s.

(* -------------------------------------------------------------------- (d) *)
Definition is_operator_type (tbl : list (list N * token_type)) (ty : token_type) : Prop :=
  exists sp, In (sp, ty) tbl.

Definition is_prefix_of (p s : list N) : Prop := exists r, s = p ++ r.

(* (d) an operator token's text is a spelling of its type in the table, and no longer
   spelling of the table is a prefix of what the input holds at that point *)
Definition longest_match (tbl : list (list N * token_type)) (ts : list token) : Prop :=
  forall pre t post, ts = pre ++ t :: post ->
    is_operator_type tbl (tok_type t) ->
    In (tok_text t, tok_type t) tbl /\
    forall sp ty, In (sp, ty) tbl ->
      (length (tok_text t) < length sp)%nat ->
      ~ is_prefix_of sp (tok_text t ++ texts post).

(* identifier-like and annotation tokens are maximal to the right: the character after
   the token (if any) could not have continued it *)
Definition right_maximal (cls : N -> bool) (ty : token_type) (ts : list token) : Prop :=
  forall pre t post, ts = pre ++ t :: post -> tok_type t = ty ->
    forallb cls (tok_text t) = true /\
    match texts post with
    | c :: _ => cls c = false
    | [] => True
    end.

(* -------------------------------------------------------------------- (e) *)
Definition is_pad (c : N) : bool := (c =? 32) || (c =? 9).

(* the token that contains offset [off] of the concatenated texts *)
Definition token_at (ts : list token) (off : nat) (t : token) : Prop :=
  exists pre post, ts = pre ++ t :: post /\
    (length (texts pre) <= off < length (texts pre) + length (tok_text t))%nat.

(* (e) a blank line is a pair of consecutive line feeds.  The token that contains the
   first of them must be a Subexpression token -- unless that line feed lies inside a
   char/byte list literal or ends a line annotation (whose token includes its line feed
   by design).  Nothing is said about what precedes the blank line, so trailing spaces
   or tabs on the line before it make no difference. *)
Definition blank_line_at (s : list N) (i : nat) : Prop :=
  nth_error s i = Some 10 /\ nth_error s (S i) = Some 10.

Definition separator_or_literal (ty : token_type) : Prop :=
  ty = TT_Subexpression \/ ty = TT_CharList \/ ty = TT_ByteList \/ ty = TT_LineAnnotation.

Definition blank_lines_separate (ts : list token) : Prop :=
  forall i t, blank_line_at (texts ts) i -> token_at ts i t -> separator_or_literal (tok_type t).

(* the same for an input written as  x ++ pad ++ LF LF ++ y *)
Definition blank_line_separates (x pad y : list N) (ts : list token) : Prop :=
  forall t, token_at ts (length x + length pad) t ->
    tok_type t <> TT_CharList -> tok_type t <> TT_ByteList -> tok_type t <> TT_LineAnnotation ->
    tok_type t = TT_Subexpression.

(* the form in which DESIGN.md section 8 states the clause: the prefix x lexes on its own
   and does not end in a line annotation (whose token would swallow the first line feed);
   pad is any run of spaces and tabs; then a Subexpression token covers the first line
   feed of the blank line. *)
Definition blank_line_full_statement (lexf : list N -> option (list token)) : Prop :=
  forall x pad y tx ts,
    lexf x = Some tx ->
    (match rev tx with t :: _ => tok_type t <> TT_LineAnnotation | [] => True end) ->
    forallb is_pad pad = true ->
    lexf (x ++ pad ++ [10; 10] ++ y) = Some ts ->
    exists t, token_at ts (length x + length pad) t /\ tok_type t = TT_Subexpression.

(* ------------------------------------------- executable versions (oracle) *)
Definition check_lossless (s : list N) (ts : list token) : bool := list_N_eqb (texts ts) s.

Definition check_no_empty (ts : list token) : bool :=
  forallb (fun t => match tok_text t with [] => false | _ => true end) ts.

Fixpoint check_positions_from (row col : N) (ts : list token) : bool :=
  match ts with
  | [] => true
  | t :: r =>
    (tok_row t =? row) && (tok_col t =? col) &&
    (let '(r', c') := pos_after row col (tok_text t) in check_positions_from r' c' r)
  end.
Definition check_positions (ts : list token) : bool := check_positions_from 0 0 ts.

Definition in_table (tbl : list (list N * token_type)) (sp : list N) (ty : token_type) : bool :=
  existsb (fun e => list_N_eqb (fst e) sp && token_type_eqb (snd e) ty) tbl.
Definition is_operator_typeb (tbl : list (list N * token_type)) (ty : token_type) : bool :=
  existsb (fun e => token_type_eqb (snd e) ty) tbl.

Fixpoint check_longest (tbl : list (list N * token_type)) (ts : list token) : bool :=
  match ts with
  | [] => true
  | t :: r =>
    (if is_operator_typeb tbl (tok_type t) then
       in_table tbl (tok_text t) (tok_type t) &&
       forallb (fun e => negb (Nat.ltb (length (tok_text t)) (length (fst e)) &&
                               is_prefix (fst e) (tok_text t ++ texts r))) tbl
     else true) && check_longest tbl r
  end.

(* blank-line clause on a token list: for every offset i with s[i] = s[i+1] = LF whose
   covering token is not a literal or a line annotation, the covering token is a
   Subexpression token *)
Fixpoint check_blank_from (ts : list token) : bool :=
  match ts with
  | [] => true
  | t :: r =>
    let ty := tok_type t in
    let exempt := token_type_eqb ty TT_CharList || token_type_eqb ty TT_ByteList ||
                  token_type_eqb ty TT_LineAnnotation || token_type_eqb ty TT_Subexpression in
    (* does some LF of this token start a blank line, i.e. is it followed by an LF
       (inside this token or as the first character of what follows) *)
    let fix has_blank (l : list N) : bool :=
        match l with
        | [] => false
        | c :: l' => ((c =? 10) && match l' with
                                   | d :: _ => d =? 10
                                   | [] => match texts r with d :: _ => d =? 10 | [] => false end
                                   end) || has_blank l'
        end in
    (exempt || negb (has_blank (tok_text t))) && check_blank_from r
  end.

(* all clauses; positions only for inputs without CR (property text) and FF (C13-K1) *)
Definition spec_verdict (s : list N) (ts : list token) : list N :=
  (if check_lossless s ts then [] else [1]) ++
  (if check_no_empty ts then [] else [2]) ++
  (if existsb (fun c => (c =? 13) || (c =? 12)) s || check_positions ts then [] else [3]) ++
  (if check_longest operator_spellings ts then [] else [4]) ++
  (if check_blank_from ts then [] else [5]).
