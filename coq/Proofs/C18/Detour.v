(* What a run of trivia tokens does to a parser state, exactly: once the "finished
   side-effect block" adjustment of last_left has settled, a run of whitespace /
   annotation tokens only (1) runs the space-list check if it contains a whitespace
   (idempotent), (2) sets separated, (3) records a trivia token as previous.  So two
   trivia runs of the same kind lead to related states. *)
From Coq Require Import List Arith Bool NArith Lia.
From GV Require Import Base.Result Gen.TokenTypes Gen.Defs Model.Parser Spec.Layout Spec.LayoutSim
  Proofs.C18.StepParts Proofs.C18.Sim.
Import ListNotations.

(* [st0] with its last_left replaced *)
Definition with_ll (st0 : pstate) (ll : option nat) : pstate :=
  adjusted st0 ll (prev_sec st0) (prev_sig st0).

(* [step] adjusts last_left first and never looks at the old value again *)
Lemma step_adjust_first n i tok st0 ug ll ps pg :
  under_group_of st0 = Ok ug ->
  adjust3_of st0 ug = Ok (ll, ps, pg) ->
  adjust3_of (with_ll st0 ll) ug = Ok (ll, ps, pg) ->
  step n i tok st0 = step n i tok (with_ll st0 ll).
Proof.
  intros Hug Ha Hb. rewrite !step_decomp.
  change (under_group_of (with_ll st0 ll)) with (under_group_of st0).
  rewrite Hug. cbn [bind]. rewrite Ha, Hb. cbn [bind]. reflexivity.
Qed.

(* ---- states on which the adjustment is the identity ---- *)
Definition SF (st : pstate) (ug : option nat) : Prop :=
  under_group_of st = Ok ug /\
  match last_left st with
  | None => nodes st = []
  | Some l => nth_error (nodes st) l <> None /\ finished_block (nodes st) ug (Some l) = false
  end.

Lemma adjust3_SF st ug : SF st ug -> adjust3_of st ug = Ok (last_left st, prev_sec st, prev_sig st).
Proof.
  intros [_ H]. unfold adjust3_of. destruct (last_left st) as [l|] eqn:El; [|reflexivity].
  destruct H as [Hr Hf]. unfold finished_block in Hf.
  destruct (nth_error (nodes st) l) as [n|]; [|congruence].
  rewrite Hf. reflexivity.
Qed.

(* a settled state, after the adjustment, is in that form *)
Lemma settled_SF st0 ug ll ps pg :
  adjust_settled st0 = true -> under_group_of st0 = Ok ug -> adjust3_of st0 ug = Ok (ll, ps, pg) ->
  SF (with_ll st0 ll) ug /\ ps = prev_sec st0 /\ pg = prev_sig st0.
Proof.
  unfold adjust_settled, adjust3_of, SF. intros Hs Hug Ha.
  change (under_group_of (with_ll st0 ll)) with (under_group_of st0).
  change (last_left (with_ll st0 ll)) with ll. change (nodes (with_ll st0 ll)) with (nodes st0).
  rewrite Hug in Hs.
  destruct (last_left st0) as [li|] eqn:El.
  - destruct (nth_error (nodes st0) li) as [n|] eqn:En; [|discriminate Ha].
    unfold finished_block in Hs at 1. rewrite En in Hs.
    match type of Ha with (if ?c then _ else _) = _ => destruct c eqn:Ec end.
    + injection Ha as <- <- <-. apply andb_true_iff in Hs. destruct Hs as [Hp Hn].
      destruct (n_parent n) as [p|]; [|discriminate Hp].
      split; [|split; reflexivity]. split; [exact Hug|]. split.
      * destruct (nth_error (nodes st0) p); [discriminate|discriminate Hp].
      * apply negb_true_iff in Hn. exact Hn.
    + injection Ha as <- <- <-. split; [|split; reflexivity]. split; [exact Hug|]. split.
      * rewrite En. discriminate.
      * unfold finished_block. rewrite En. exact Ec.
  - injection Ha as <- <- <-. split; [|split; reflexivity]. split; [exact Hug|].
    destruct (nodes st0); [reflexivity|discriminate Hs].
Qed.

(* ---- one trivia token on such a state ---- *)
Definition retriv (st : pstate) (c : bool) (i : nat) (sec : secondary) : pstate :=
  mkState (nodes st) (next_parent st) (last_left st) c (Some i) None (group_stack st) (current_group st)
          sec (prev_sig st) true (se_prev st).

Definition K (st : pstate) (ug : option nat) (t : token_type) (c : bool) : res bool :=
  if is_ws_tok t then space_list_check (retriv st c 0 S_None) ug else Ok c.

Lemma slc_retriv st c i sec i' sec' ug :
  space_list_check (retriv st c i sec) ug = space_list_check (retriv st c i' sec') ug.
Proof. reflexivity. Qed.

Lemma slc_self st ug : space_list_check st ug = space_list_check (retriv st (check_for_list st) 0 S_None) ug.
Proof. reflexivity. Qed.

Lemma forbidden_trivia_cur p sec c : is_trivia_sec sec = true -> forbidden p sec c = false.
Proof. destruct sec; try discriminate; intros _; destruct p; reflexivity. Qed.

Lemma SF_retriv st ug c i sec : SF st ug -> SF (retriv st c i sec) ug.
Proof. intros H. exact H. Qed.

Lemma step_trivia_SF n i tok st ug : is_trivia_tok tok = true -> SF st ug ->
  step n i tok st =
  do c <- K st ug tok (check_for_list st); Ok (retriv st c i (snd (get_definition tok))).
Proof.
  intros Ht HSF. rewrite step_decomp. pose proof (adjust3_SF st ug HSF) as Ha.
  destruct HSF as [Hug Hll]. rewrite Hug. cbn [bind]. rewrite Ha. cbn [bind].
  assert (Hfix : match last_left st with
                 | Some k => Some k
                 | None => match nodes st with [] => None | _ => Some (length (nodes st)) end
                 end = last_left st).
  { destruct (last_left st); [reflexivity|]. rewrite Hll. reflexivity. }
  unfold step_main, K.
  destruct tok; try discriminate Ht; cbn [get_definition fst snd is_ws_tok];
    rewrite forbidden_trivia_cur by reflexivity; cbn [is_trivia_sec negb andb step_arm].
  - (* whitespace *)
    unfold arm_ws. rewrite (slc_self (adjusted _ _ _ _)).
    change (space_list_check (retriv (adjusted st (last_left st) (prev_sec st) (prev_sig st))
              (check_for_list (adjusted st (last_left st) (prev_sec st) (prev_sig st))) 0 S_None) ug)
      with (space_list_check (retriv st (check_for_list st) 0 S_None) ug).
    destruct (space_list_check (retriv st (check_for_list st) 0 S_None) ug) as [c| | |]; cbn [bind]; try reflexivity.
    rewrite step_finish_res_eq. unfold step_finish, pushed_nodes, drop_info, retriv.
    cbn [fst snd definition_eqb nodes next_parent last_left check_for_list last_token next_last_left group_stack
         current_group prev_sec prev_sig separated se_prev adjusted new_tail is_trivia_sec t_prev t_sig t_sep t_se].
    change (definition_eqb D_Drop D_Drop) with true. cbv iota.
    rewrite Hfix. reflexivity.
  - (* annotation *)
    unfold arm_annot. cbn [bind]. rewrite step_finish_res_eq. unfold step_finish, pushed_nodes, retriv.
    cbn [fst snd nodes next_parent last_left check_for_list last_token next_last_left group_stack
         current_group prev_sec prev_sig separated se_prev adjusted new_tail is_trivia_sec t_prev t_sig t_sep t_se].
    change (definition_eqb D_Drop D_Drop) with true. cbv iota.
    rewrite Hfix. reflexivity.
  - (* line annotation *)
    unfold arm_annot. cbn [bind]. rewrite step_finish_res_eq. unfold step_finish, pushed_nodes, retriv.
    cbn [fst snd nodes next_parent last_left check_for_list last_token next_last_left group_stack
         current_group prev_sec prev_sig separated se_prev adjusted new_tail is_trivia_sec t_prev t_sig t_sep t_se].
    change (definition_eqb D_Drop D_Drop) with true. cbv iota.
    rewrite Hfix. reflexivity.
Qed.

(* ---- a run of trivia tokens ---- *)
Fixpoint Kfold (st : pstate) (ug : option nat) (d : list token_type) (c : bool) : res bool :=
  match d with
  | [] => Ok c
  | t :: r => do c1 <- K st ug t c; Kfold st ug r c1
  end.

Lemma last_cons_default {A} (l : list A) : forall a d, last (a :: l) d = last l a.
Proof.
  induction l as [|b l IH]; intros a d; [reflexivity|].
  change (last (a :: b :: l) d) with (last (b :: l) d). rewrite (IH b d), (IH b a). reflexivity.
Qed.

Lemma Kfold_retriv st ug c1 i sec : forall d c, Kfold (retriv st c1 i sec) ug d c = Kfold st ug d c.
Proof.
  induction d as [|t r IH]; intros c; [reflexivity|].
  cbn [Kfold]. change (K (retriv st c1 i sec) ug t c) with (K st ug t c).
  destruct (K st ug t c); cbn [bind]; try reflexivity. apply IH.
Qed.

Lemma run_trivia_SF n ug : forall d t i st,
  forallb is_trivia_tok (t :: d) = true -> SF st ug ->
  run_steps n i (t :: d) st =
  do c <- Kfold st ug (t :: d) (check_for_list st);
  Ok (retriv st c (i + length d) (snd (get_definition (last d t)))).
Proof.
  induction d as [|t2 d' IH]; intros t i st Hall HSF.
  - cbn [run_steps Kfold length last]. cbn [forallb] in Hall. rewrite andb_true_r in Hall.
    rewrite (step_trivia_SF n i t st ug Hall HSF).
    destruct (K st ug t (check_for_list st)) as [c| | |]; cbn [bind]; try reflexivity.
    rewrite Nat.add_0_r. reflexivity.
  - cbn [forallb] in Hall. apply andb_true_iff in Hall. destruct Hall as [Ht Hall].
    change (run_steps n i (t :: t2 :: d') st) with (do st' <- step n i t st; run_steps n (S i) (t2 :: d') st').
    rewrite (step_trivia_SF n i t st ug Ht HSF).
    change (Kfold st ug (t :: t2 :: d') (check_for_list st))
      with (do c1 <- K st ug t (check_for_list st); Kfold st ug (t2 :: d') c1).
    destruct (K st ug t (check_for_list st)) as [c1| | |]; cbn [bind]; try reflexivity.
    rewrite (IH t2 (S i) (retriv st c1 i (snd (get_definition t))) Hall (SF_retriv st ug c1 i _ HSF)).
    change (check_for_list (retriv st c1 i (snd (get_definition t)))) with c1.
    rewrite Kfold_retriv.
    destruct (Kfold st ug (t2 :: d') c1) as [c| | |]; cbn [bind]; try reflexivity.
    rewrite last_cons_default.
    replace (S i + length d') with (i + length (t2 :: d')) by (cbn [length]; lia).
    reflexivity.
Qed.

(* the space-list check is idempotent *)
Lemma slc_idem st ug c c1 i sec :
  space_list_check (retriv st c i sec) ug = Ok c1 ->
  space_list_check (retriv st c1 i sec) ug = Ok c1.
Proof.
  unfold space_list_check, retriv. cbn [last_left nodes check_for_list].
  destruct (last_left st) as [l|]; [|intros H; injection H as <-; reflexivity].
  destruct (nth_error (nodes st) l) as [ln|]; [|discriminate].
  match goal with |- bind ?x _ = _ -> _ => destruct x as [bv| | |] end; cbn [bind]; try discriminate.
  match goal with |- Ok (if ?b then true else c) = _ -> _ => destruct b end;
    intros H; injection H as <-; reflexivity.
Qed.

Lemma Kfold_no_ws st ug : forall d c, has_ws d = false -> Kfold st ug d c = Ok c.
Proof.
  induction d as [|t r IH]; intros c H; [reflexivity|].
  cbn [has_ws existsb] in H. apply orb_false_iff in H. destruct H as [Ht Hr].
  cbn [Kfold]. unfold K at 1. rewrite Ht. cbn [bind]. apply IH, Hr.
Qed.

Lemma Kfold_fixed st ug : forall d c, space_list_check (retriv st c 0 S_None) ug = Ok c ->
  Kfold st ug d c = Ok c.
Proof.
  induction d as [|t r IH]; intros c H; [reflexivity|].
  cbn [Kfold]. unfold K at 1. destruct (is_ws_tok t).
  - rewrite H. cbn [bind]. apply IH, H.
  - cbn [bind]. apply IH, H.
Qed.

Lemma Kfold_ws st ug : forall d c, has_ws d = true ->
  Kfold st ug d c = space_list_check (retriv st c 0 S_None) ug.
Proof.
  induction d as [|t r IH]; intros c H; [discriminate H|].
  cbn [has_ws existsb] in H. cbn [Kfold]. unfold K at 1.
  destruct (is_ws_tok t) eqn:Et.
  - destruct (space_list_check (retriv st c 0 S_None) ug) as [c1| | |] eqn:Es; cbn [bind]; try reflexivity.
    apply Kfold_fixed. exact (slc_idem st ug c c1 0 S_None Es).
  - cbn [bind]. apply IH. cbn [orb] in H. exact H.
Qed.

Lemma trivia_sec_last d t : forallb is_trivia_tok (t :: d) = true ->
  norm_sec (snd (get_definition (last d t))) = S_Whitespace.
Proof.
  revert t. induction d as [|t2 d' IH]; intros t H.
  - cbn [forallb] in H. rewrite andb_true_r in H. cbn [last]. unfold is_trivia_tok in H.
    destruct (snd (get_definition t)); try discriminate H; reflexivity.
  - cbn [forallb] in H. apply andb_true_iff in H. destruct H as [_ H].
    rewrite last_cons_default. apply IH, H.
Qed.

Lemma erase_retriv st c i sec : erase (retriv st c i sec) =
  mkState (map strip_tok (nodes st)) (next_parent st) (last_left st) c None None (group_stack st)
          (current_group st) (norm_sec sec) (prev_sig st) true (se_prev st).
Proof. reflexivity. Qed.

(* normal form of a trivia run on a state of that form *)
Lemma run_trivia_SF_norm n ug d i st :
  trivia_run d = true -> SF st ug ->
  rmap erase (run_steps n i d st) =
  rmap erase (do c <- (if has_ws d then space_list_check st ug else Ok (check_for_list st));
              Ok (retriv st c 0 S_Whitespace)).
Proof.
  intros Hd HSF. destruct d as [|t d]; [discriminate Hd|]. unfold trivia_run in Hd.
  rewrite (run_trivia_SF n ug d t i st Hd HSF).
  assert (HK : Kfold st ug (t :: d) (check_for_list st) =
               if has_ws (t :: d) then space_list_check st ug else Ok (check_for_list st)).
  { destruct (has_ws (t :: d)) eqn:Ew.
    - rewrite Kfold_ws by exact Ew. reflexivity.
    - apply Kfold_no_ws, Ew. }
  rewrite HK.
  destruct (if has_ws (t :: d) then space_list_check st ug else Ok (check_for_list st)) as [c| | |];
    cbn [bind rmap]; try reflexivity.
  rewrite !erase_retriv, (trivia_sec_last d t Hd). reflexivity.
Qed.

(* ---- two trivia runs of the same kind from a settled state ---- *)
Theorem trivia_runs_from_state n i n' i' d d' st0 :
  adjust_settled st0 = true ->
  trivia_run d = true -> trivia_run d' = true -> has_ws d = has_ws d' ->
  res_eq_mod_tok (run_steps n i d st0) (run_steps n' i' d' st0).
Proof.
  intros Hs Hd Hd' Hw. unfold res_eq_mod_tok.
  destruct (under_group_of st0) as [ug| | |] eqn:Hug.
  1: destruct (adjust3_of st0 ug) as [[[ll ps] pg]| | |] eqn:Ha.
  1: { destruct (settled_SF st0 ug ll ps pg Hs Hug Ha) as [HSF [-> ->]].
       pose proof (adjust3_SF _ _ HSF) as Hb.
       change (last_left (with_ll st0 ll)) with ll in Hb.
       change (prev_sec (with_ll st0 ll)) with (prev_sec st0) in Hb.
       change (prev_sig (with_ll st0 ll)) with (prev_sig st0) in Hb.
       destruct d as [|t d]; [discriminate Hd|]. destruct d' as [|t' d']; [discriminate Hd'|].
       cbn [run_steps].
       rewrite (step_adjust_first n i t st0 ug ll _ _ Hug Ha Hb).
       rewrite (step_adjust_first n' i' t' st0 ug ll _ _ Hug Ha Hb).
       change (rmap erase (run_steps n i (t :: d) (with_ll st0 ll)) =
               rmap erase (run_steps n' i' (t' :: d') (with_ll st0 ll))).
       rewrite (run_trivia_SF_norm n ug (t :: d) i _ Hd HSF).
       rewrite (run_trivia_SF_norm n' ug (t' :: d') i' _ Hd' HSF).
       rewrite Hw. reflexivity. }
  all: destruct d as [|t d]; [discriminate Hd|]; destruct d' as [|t' d']; [discriminate Hd'|];
       cbn [run_steps]; rewrite !step_decomp, Hug; cbn [bind]; try rewrite Ha; reflexivity.
Qed.
