(* Model of the list machinery above the data stores (C16):
     runtime/src/runtime/list.rs   make_list, get_access_addr, access_with_integer (Pair, List,
                                    Concatenation arms), index_list, access_with_symbol (Pair, List,
                                    Concatenation arms), index_concatenation_for, get_value_if_association
     runtime/src/runtime/access.rs access (the arms with a Pair / List / Concatenation on the left)
     traits/src/helpers/concatenation.rs  iterate_concatenation_mut_with_method
   written once against the record [DataOps] (as the Rust is generic over
   GarnishData) and instantiated for the two store models, whose
   start_list/add_to_list/end_list/get_list_item/get_list_item_with_symbol are
   in Model/BasicStore.v and Model/SimpleStore.v.  List indices are the
   Integer payload of a Number (Float indices are not modelled).
   No proofs in this file. *)
From Coq Require Import NArith ZArith List Bool Arith.
From GV Require Import Base.Result Gen.Instr Model.StoreBase Model.BasicStore Model.SimpleStore.
Import ListNotations.

Definition E_runtime : N := 7%N.       (* RuntimeError (state error) *)
Definition E_unsupported : N := 8%N.   (* RuntimeError::unsupported_types() *)
Definition E_unmodelled : N := 9%N.    (* an arm of the Rust this model does not cover *)
Definition P_unimplemented : N := 9%N. (* unimplemented!() in iterate_concatenation_mut_with_method *)

Record DataOps (S : Type) : Type := mkDataOps {
  d_get_data_type : nat -> S -> res data_type;
  d_get_number : nat -> S -> res snum;
  d_get_symbol : nat -> S -> res N;
  d_get_pair : nat -> S -> res (nat * nat);
  d_get_concatenation : nat -> S -> res (nat * nat);
  d_get_list_len : nat -> S -> res nat;
  d_get_list_item : nat -> Z -> S -> res (option nat);
  d_get_list_item_with_symbol : nat -> N -> S -> res (option nat);
  d_add_unit : SM S nat;
  d_add_concatenation : nat -> nat -> SM S nat;
  d_push_register : nat -> SM S unit;
  d_pop_register : SM S (option nat);
  d_get_register_len : S -> res nat;
  d_get_register : nat -> S -> res (option nat);
  d_start_list : nat -> SM S nat;
  d_add_to_list : nat -> nat -> SM S nat;
  d_end_list : nat -> SM S nat }.

Arguments d_get_data_type {S}. Arguments d_get_number {S}. Arguments d_get_symbol {S}.
Arguments d_get_pair {S}. Arguments d_get_concatenation {S}. Arguments d_get_list_len {S}.
Arguments d_get_list_item {S}. Arguments d_get_list_item_with_symbol {S}. Arguments d_add_unit {S}.
Arguments d_add_concatenation {S}. Arguments d_push_register {S}. Arguments d_pop_register {S}.
Arguments d_get_register_len {S}. Arguments d_get_register {S}. Arguments d_start_list {S}.
Arguments d_add_to_list {S}. Arguments d_end_list {S}.

Definition basic_ops : DataOps basic := {|
  d_get_data_type := get_data_type;
  d_get_number := get_number;
  d_get_symbol := get_symbol;
  d_get_pair := get_pair;
  d_get_concatenation := get_concatenation;
  d_get_list_len := get_list_len;
  d_get_list_item := get_list_item;
  d_get_list_item_with_symbol := get_list_item_with_symbol;
  d_add_unit := add_unit;
  d_add_concatenation := add_concatenation;
  d_push_register := push_register;
  d_pop_register := pop_register;
  d_get_register_len := get_register_len;
  d_get_register := get_register;
  d_start_list := start_list;
  d_add_to_list := add_to_list;
  d_end_list := end_list |}.

Definition simple_ops (h : sdata -> N) : DataOps simple := {|
  d_get_data_type := s_get_data_type;
  d_get_number := s_get_number;
  d_get_symbol := s_get_symbol;
  d_get_pair := s_get_pair;
  d_get_concatenation := s_get_concatenation;
  d_get_list_len := s_get_list_len;
  d_get_list_item := s_get_list_item;
  d_get_list_item_with_symbol := s_get_list_item_with_symbol;
  d_add_unit := s_add_unit;
  d_add_concatenation := s_add_concatenation;
  d_push_register := s_push_register;
  d_pop_register := s_pop_register;
  d_get_register_len := fun s => Ok (s_get_register_len s);
  d_get_register := fun i s => Ok (s_get_register i s);
  d_start_list := s_start_list;
  d_add_to_list := s_add_to_list;
  d_end_list := s_end_list |}.

Section Runtime.
Context {St : Type} (D : DataOps St).

Definition push_unit : SM St unit := sdo v <- d_add_unit D ; d_push_register D v.

(* next_ref: pop_register()? or "No references in register." *)
Definition next_ref : SM St nat :=
  sdo r <- d_pop_register D ;
  match r with Some i => sret i | None => sfail E_runtime end.

(* ---- make_list ---- *)
Fixpoint make_list_add (k : nat) (count : nat) (list_index : nat) : SM St nat :=
  match k with
  | O => sret list_index
  | S k' =>
      sdo r <- sread (d_get_register D count) ;
      match r with
      | None => sfail E_runtime
      | Some a => sdo li <- d_add_to_list D list_index a ; make_list_add k' (S count) li
      end
  end.

Definition make_list (len : nat) : SM St unit :=
  sdo rl <- sread (d_get_register_len D) ;
  if rl <? len then sfail E_runtime
  else
    sdo list_index <- d_start_list D len ;
    sdo li <- make_list_add len (rl - len) list_index ;
    sdo _ <- srepeat len (sdo _ <- d_pop_register D ; sret tt) ;
    sdo r <- d_end_list D li ;
    d_push_register D r.

(* ---- index_list: negative -> None; past the end -> unit; else the item ---- *)
Definition index_list (list : nat) (index : Z) : SM St (option nat) :=
  if (index <? 0)%Z then sret None
  else
    sdo len <- sread (d_get_list_len D list) ;
    if (Z.of_nat len <=? index)%Z then sdo u <- d_add_unit D ; sret (Some u)
    else
      sdo r <- sread (d_get_list_item D list index) ;
      match r with
      | Some a => sret (Some a)
      | None => sdo u <- d_add_unit D ; sret (Some u)
      end.

Definition get_value_if_association (sym : N) (addr : nat) (s : St) : res (option nat) :=
  do t <- d_get_data_type D addr s ;
  match t with
  | T_Pair =>
      do lr <- d_get_pair D addr s ;
      do lt <- d_get_data_type D (fst lr) s ;
      match lt with
      | T_Symbol => do v <- d_get_symbol D (fst lr) s ; if N.eqb v sym then Ok (Some (snd lr)) else Ok None
      | _ => Ok None
      end
  | _ => Ok None
  end.

(* ---- iterate_concatenation_mut_with_method ---- *)
(* the inner `while i < len` over the items of a list; [check index addr] *)
Fixpoint iter_items (check : nat -> nat -> St -> res (option nat)) (k r i index : nat) (s : St) : res (option nat) :=
  match k with
  | O => Ok None
  | S k' =>
      do item <- d_get_list_item D r (Z.of_nat i) s ;
      match item with
      | None => Panic P_unimplemented
      | Some it =>
          do t <- check (index + i) it s ;
          match t with
          | Some x => Ok (Some x)
          | None => iter_items check k' r (S i) index s
          end
      end
  end.

(* [rev]: get_rev_concatentation (right first) instead of get_concatenation *)
Definition concat_children (rev : bool) (addr : nat) (s : St) : res (nat * nat) :=
  do lr <- d_get_concatenation D addr s ;
  Ok (if rev then (snd lr, fst lr) else lr).

Fixpoint iter_loop (fuel : nat) (rev : bool) (check : nat -> nat -> St -> res (option nat))
         (start_register index : nat) : SM St (option nat * nat) :=
  match fuel with
  | O => fun _ => OutOfFuel
  | S f =>
      sdo rl <- sread (d_get_register_len D) ;
      if rl <=? start_register then sret (None, index)
      else
        sdo ro <- d_pop_register D ;
        match ro with
        | None => sfail E_runtime
        | Some r =>
            sdo t <- sread (d_get_data_type D r) ;
            match t with
            | T_Concatenation =>
                sdo cn <- sread (concat_children rev r) ;
                sdo _ <- d_push_register D (snd cn) ;
                sdo _ <- d_push_register D (fst cn) ;
                iter_loop f rev check start_register index
            | T_List =>
                sdo len <- sread (d_get_list_len D r) ;
                sdo tr <- sread (iter_items check len r 0 index) ;
                match tr with
                | Some x => sret (Some x, index + len)
                | None => iter_loop f rev check start_register (index + len)
                end
            | _ =>
                sdo tr <- sread (check index r) ;
                match tr with
                | Some x => sret (Some x, S index)
                | None => iter_loop f rev check start_register (S index)
                end
            end
        end
  end.

(* while get_register_len() > start_register { pop_register()? } *)
Fixpoint clear_registers (fuel : nat) (start_register : nat) : SM St unit :=
  match fuel with
  | O => fun _ => OutOfFuel
  | S f =>
      sdo rl <- sread (d_get_register_len D) ;
      if rl <=? start_register then sret tt
      else sdo _ <- d_pop_register D ; clear_registers f start_register
  end.

Definition iterate_concatenation (fuel : nat) (rev : bool) (check : nat -> nat -> St -> res (option nat)) (addr : nat)
  : SM St (option nat * nat) :=
  sdo cn <- sread (concat_children rev addr) ;
  sdo start_register <- sread (d_get_register_len D) ;
  sdo _ <- d_push_register D (snd cn) ;
  sdo _ <- d_push_register D (fst cn) ;
  sdo r <- iter_loop fuel rev check start_register 0 ;
  sdo _ <- clear_registers fuel start_register ;
  sret r.

Definition index_concatenation_for (fuel : nat) (addr : nat) (index : Z) : SM St (option nat) :=
  sdo r <- iterate_concatenation fuel false
             (fun current_index a _ => if Z.eqb (Z.of_nat current_index) index then Ok (Some a) else Ok None) addr ;
  sret (fst r).

(* ---- access_with_integer / access_with_symbol: the arms for Pair, List, Concatenation ---- *)
Definition access_with_integer (fuel : nat) (index : Z) (value : nat) : SM St (option nat) :=
  sdo t <- sread (d_get_data_type D value) ;
  match t with
  | T_Pair =>
      if Z.eqb index 0 then
        sdo lr <- sread (d_get_pair D value) ;
        sdo lt <- sread (d_get_data_type D (fst lr)) ;
        match lt with T_Symbol => sret (Some value) | _ => sret None end
      else sret None
  | T_List => index_list value index
  | T_Concatenation => index_concatenation_for fuel value index
  | T_CharList | T_ByteList | T_SymbolList | T_Range | T_Slice => sfail E_unmodelled
  | _ => sfail E_unsupported
  end.

Definition access_with_symbol (fuel : nat) (sym : N) (value : nat) : SM St (option nat) :=
  sdo t <- sread (d_get_data_type D value) ;
  match t with
  | T_Pair =>
      sdo lr <- sread (d_get_pair D value) ;
      sdo lt <- sread (d_get_data_type D (fst lr)) ;
      match lt with
      | T_Symbol => sdo v <- sread (d_get_symbol D (fst lr)) ; if N.eqb v sym then sret (Some (snd lr)) else sret None
      | _ => sret None
      end
  | T_List => sread (d_get_list_item_with_symbol D value sym)
  | T_Concatenation =>
      sdo r <- iterate_concatenation fuel true (fun _ a s => get_value_if_association sym a s) value ;
      sret (fst r)
  | T_Slice => sfail E_unmodelled
  | _ => sfail E_unsupported
  end.

Definition get_access_addr (fuel : nat) (right left : nat) : SM St (option nat) :=
  sdo t <- sread (d_get_data_type D right) ;
  match t with
  | T_Number =>
      sdo n <- sread (d_get_number D right) ;
      match n with
      | SInt z => access_with_integer fuel z left
      | SFlt _ => sfail E_unmodelled
      end
  | T_Symbol => sdo sym <- sread (d_get_symbol D right) ; access_with_symbol fuel sym left
  | _ => sfail E_unsupported
  end.

(* access: the arms (Pair|List|Concatenation, Number|Symbol) *)
Definition access (fuel : nat) : SM St unit :=
  sdo right_addr <- next_ref ;
  sdo left_addr <- next_ref ;
  sdo lt <- sread (d_get_data_type D left_addr) ;
  sdo rt <- sread (d_get_data_type D right_addr) ;
  match lt, rt with
  | T_Pair, T_Number | T_Pair, T_Symbol | T_List, T_Number | T_List, T_Symbol
  | T_Concatenation, T_Number | T_Concatenation, T_Symbol =>
      sdo r <- get_access_addr fuel right_addr left_addr ;
      match r with
      | None => push_unit
      | Some i => d_push_register D i
      end
  | _, _ => sfail E_unmodelled
  end.

(* apply: the arms (List, Number) and (List, Symbol) *)
Definition apply_list (fuel : nat) : SM St unit :=
  sdo right_addr <- next_ref ;
  sdo left_addr <- next_ref ;
  sdo lt <- sread (d_get_data_type D left_addr) ;
  sdo rt <- sread (d_get_data_type D right_addr) ;
  match lt, rt with
  | T_List, T_Number =>
      sdo n <- sread (d_get_number D right_addr) ;
      match n with
      | SInt z =>
          sdo r <- access_with_integer fuel z left_addr ;
          match r with None => push_unit | Some i => d_push_register D i end
      | SFlt _ => sfail E_unmodelled
      end
  | T_List, T_Symbol =>
      sdo sym <- sread (d_get_symbol D right_addr) ;
      sdo r <- access_with_symbol fuel sym left_addr ;
      match r with None => push_unit | Some i => d_push_register D i end
  | _, _ => sfail E_unmodelled
  end.

(* building a list directly through the data interface *)
Fixpoint add_items (items : list nat) (list_index : nat) : SM St nat :=
  match items with
  | [] => sret list_index
  | a :: r => sdo li <- d_add_to_list D list_index a ; add_items r li
  end.

Definition build_list (items : list nat) : SM St nat :=
  sdo l <- d_start_list D (length items) ;
  sdo li <- add_items items l ;
  d_end_list D li.

End Runtime.
