(* C02 for operator expressions of any length: values, prefix, suffix and binary
   operators, the implicit space list, round brackets and nested-expression brackets `{ }` nested to any depth, whitespace
   anywhere between tokens.  The loop of parse() and the spine machine run in lockstep
   over the token list. *)
From Coq Require Import List Arith Bool NArith Lia.
From GV Require Import Base.Result Gen.TokenTypes Gen.Defs Model.Parser Spec.RefTable Spec.Pratt Spec.Chains
  Proofs.C02.Spine Proofs.C02.Denote Proofs.C02.Validate Proofs.C02.Invariant Proofs.C02.Steps
  Proofs.C02.Struct Proofs.C02.Unfold Proofs.C02.StepsGen Proofs.C02.Chains.
Import ListNotations.

Definition rel (after sp : bool) (st : pstate) (ms : spine_state) : Prop :=
  match after, ms with
  | false, (fs, None) => gpend st fs sp
  | true, (fs, Some t) => gcompl st fs t sp
  | _, _ => False
  end.

Definition prev_ok (after : bool) (prev : option tok_kind) : Prop :=
  match prev with None => after = false | Some k => ends_value_k k = after end.

Lemma opexpr_nonempty r sp depth : opexpr_from r false sp depth = true -> r <> [].
Proof. destruct r; [discriminate|discriminate]. Qed.

Lemma space_is_whitespace t : ref_kind t = KSpace -> t = TT_Whitespace.
Proof. destruct t; intros H; try discriminate H; reflexivity. Qed.
Lemma open_is_open_tok t b : ref_kind t = KOpen b -> t = open_tok b.
Proof. destruct t; intros H; try discriminate H; injection H as <-; reflexivity. Qed.
Lemma close_is_close_tok t b : ref_kind t = KClose b -> t = close_tok b.
Proof. destruct t; intros H; try discriminate H; injection H as <-; reflexivity. Qed.

Lemma no_groups_iff fs : group_ids fs = [] -> existsb is_fgroup fs = false.
Proof. induction fs as [|f r IH]; [reflexivity|]. destruct f; simpl; auto. discriminate. Qed.

Lemma value_norm tok : is_value_tok tok = true -> norm_atom (ref_def tok) = ref_def tok.
Proof. intros Hv. destruct (value_tok_facts tok Hv) as (sec & _ & _ & _ & _ & _ & Hn & _). exact Hn. Qed.

Lemma first_group_kind_kinds fs : first_group_kind fs = hd_error (group_kinds fs).
Proof. induction fs as [|f r IH]; [reflexivity|]. destruct f; simpl; auto. Qed.

Definition ms_frames (ms : spine_state) : list frame := fst ms.

Lemma run_opexpr ntoks : forall toks i st after sp depth ms prev,
  opexpr_from toks after sp depth = true -> rel after sp st ms -> prev_ok after prev ->
  group_kinds (ms_frames ms) = depth ->
  i + length toks = ntoks ->
  exists st' fs' t' its,
    run_steps ntoks i toks st = Ok st' /\ gcompl st' fs' t' false /\ group_ids fs' = [] /\
    items_of toks i prev sp = Some its /\
    spine_run its (length (nodes st)) ms = Some (fs', Some t') /\
    Forall item_ranked its.
Proof.
  induction toks as [|tok r IH]; intros i st after sp depth ms prev Hop R Hprev Hdepth Hi.
  - (* end of the expression *)
    cbn [opexpr_from] in Hop. apply andb_true_iff in Hop. destruct Hop as [Hop Hd0].
    apply andb_true_iff in Hop. destruct Hop as [-> Hsp].
    apply negb_true_iff in Hsp. subst sp. destruct depth; [|discriminate Hd0].
    destruct ms as [fs [t|]]; simpl in R; [|contradiction]. cbn [ms_frames fst] in Hdepth.
    exists st, fs, t, []. split; [reflexivity|]. split; [exact R|].
    split; [apply group_kinds_nil; exact Hdepth|].
    split; [reflexivity|]. split; [reflexivity|constructor].
  - cbn [opexpr_from] in Hop. cbn [length] in Hi. cbn [run_steps items_of].
    destruct (ref_kind tok) eqn:Ek; try discriminate Hop.
    + (* value *)
      apply andb_true_iff in Hop. destruct Hop as [Hallow Hop].
      assert (Hv : is_value_tok tok = true) by (unfold is_value_tok; rewrite Ek; reflexivity).
      destruct after.
      * (* after whitespace after an operand: the implicit list *)
        cbn [negb orb] in Hallow. subst sp.
        destruct ms as [fs [t|]]; simpl in R; [|contradiction]. cbn [ms_frames fst] in Hdepth.
        destruct (gstep_value_list ntoks i tok st fs t R Hv) as (st1 & fs1 & t1 & Hpop & Hs & G1 & L1).
        destruct (IH (S i) st1 true false depth (_, Some _) (Some KValue) Hop G1 eq_refl
                     ltac:(cbn [ms_frames fst group_kinds]; rewrite (pop_group_kinds _ _ _ _ _ Hpop); exact Hdepth) ltac:(lia))
          as (st' & fs' & t' & its & Hr & G' & Hng & Hit & Hsr & Hrk).
        exists st', fs', t'. eexists. split; [rewrite Hs; cbn [bind]; exact Hr|]. split; [exact G'|]. split; [exact Hng|].
        destruct prev as [p|]; [|discriminate Hprev]. simpl in Hprev. rewrite Hprev. cbn [andb starts_value_k].
        rewrite Hit. split; [reflexivity|]. split.
        -- cbn [app spine_run spine_step next_index]. change (ref_rank D_List) with (Some 220%N). cbn iota.
           rewrite Hpop. cbn [spine_run spine_step next_index]. rewrite <- Hsr, L1. reflexivity.
        -- constructor; [simpl; exists 220%N; split; [reflexivity|split; [reflexivity|intros _; reflexivity]]|].
           constructor; [exact (value_norm tok Hv)|exact Hrk].
      * (* where an operand is expected *)
        destruct ms as [fs [t|]]; simpl in R; [contradiction|]. cbn [ms_frames fst] in Hdepth.
        destruct (gstep_value ntoks i tok st fs sp R Hv) as (st1 & Hs & G1 & L1).
        destruct (IH (S i) st1 true false depth (_, Some _) (Some KValue) Hop G1 eq_refl Hdepth ltac:(lia))
          as (st' & fs' & t' & its & Hr & G' & Hng & Hit & Hsr & Hrk).
        exists st', fs', t'. eexists. split; [rewrite Hs; cbn [bind]; exact Hr|]. split; [exact G'|]. split; [exact Hng|].
        assert (Hlead : match prev with
                        | Some p => if sp && ends_value_k p && starts_value_k KValue then [IBinary D_List None] else []
                        | None => [] end = []).
        { destruct prev as [p|]; [|reflexivity]. simpl in Hprev. rewrite Hprev. rewrite andb_false_r. reflexivity. }
        rewrite Hlead, Hit. split; [reflexivity|]. split.
        -- cbn [app spine_run spine_step next_index]. rewrite <- Hsr, L1. reflexivity.
        -- constructor; [exact (value_norm tok Hv)|exact Hrk].
    + (* binary *)
      apply andb_true_iff in Hop. destruct Hop as [Hop0 Hop]. apply andb_true_iff in Hop0. destruct Hop0 as [-> Hsepok].
      apply negb_true_iff in Hsepok.
      assert (Hb : is_binary_tok tok = true) by (unfold is_binary_tok; rewrite Ek; reflexivity).
      destruct ms as [fs [t|]]; simpl in R; [|contradiction]. cbn [ms_frames fst] in Hdepth.
      pose proof (opexpr_nonempty _ _ _ Hop) as Hne.
      assert (Hi1 : i + 1 < ntoks) by (destruct r; [congruence|simpl in Hi; lia]).
      assert (Hlead : match prev with
                      | Some p => if sp && ends_value_k p && starts_value_k KBinary then [IBinary D_List None] else []
                      | None => [] end = []).
      { destruct prev as [p|]; [|reflexivity]. cbn [starts_value_k]. rewrite andb_false_r. reflexivity. }
      destruct (sep_tok tok) eqn:Esep.
      * (* the separator, not directly inside round brackets *)
        pose proof (sep_tok_is tok Esep) as ->. cbn [andb] in Hsepok.
        assert (Hkind : first_group_kind fs <> Some BRound).
        { rewrite first_group_kind_kinds, Hdepth. destruct depth as [|[|] d]; try discriminate; discriminate Hsepok. }
        destruct (gstep_sep ntoks i st fs t sp R Hkind Hi1) as (st1 & fs1 & t1 & Hpop & Hs & G1 & L1).
        destruct (IH (S i) st1 false false depth (_, None) (Some KBinary) Hop G1 eq_refl
                     ltac:(cbn [ms_frames fst group_kinds]; rewrite (pop_group_kinds _ _ _ _ _ Hpop); exact Hdepth) ltac:(lia))
          as (st' & fs' & t' & its & Hr & G' & Hng & Hit & Hsr & Hrk).
        exists st', fs', t'. eexists. split; [rewrite Hs; cbn [bind]; exact Hr|]. split; [exact G'|]. split; [exact Hng|].
        cbn [ref_kind] in Hlead |- *. rewrite Hlead, Hit. split; [reflexivity|]. split.
        -- cbn [app spine_run spine_step next_index ref_def]. change (ref_rank D_ExpressionSeparator) with (Some 990%N). cbn iota.
           rewrite Hpop.
           assert (Hsb : sep_blocked D_ExpressionSeparator fs1 = false).
           { unfold sep_blocked. cbn [is_sep_def andb]. destruct (top_round fs1) eqn:Et; [|reflexivity]. exfalso. apply Hkind.
             rewrite <- (pop_first_group_kind _ _ _ _ _ Hpop). destruct fs1 as [|[| |[|] ? ?] ?]; try discriminate Et. reflexivity. }
           rewrite Hsb. rewrite <- Hsr, L1. reflexivity.
        -- constructor; [|exact Hrk]. simpl. exists 990%N. split; [reflexivity|]. split; [reflexivity|discriminate].
      * (* an ordinary binary operator *)
        destruct (gstep_binary ntoks i tok st fs t sp R Hb Esep Hi1) as (st1 & fs1 & t1 & Hpop & Hs & G1 & L1).
        destruct (IH (S i) st1 false false depth (_, None) (Some KBinary) Hop G1 eq_refl
                     ltac:(cbn [ms_frames fst group_kinds]; rewrite (pop_group_kinds _ _ _ _ _ Hpop); exact Hdepth) ltac:(lia))
          as (st' & fs' & t' & its & Hr & G' & Hng & Hit & Hsr & Hrk).
        exists st', fs', t'. eexists. split; [rewrite Hs; cbn [bind]; exact Hr|]. split; [exact G'|]. split; [exact Hng|].
        rewrite Hlead, Hit. split; [reflexivity|].
        destruct (binary_tok_facts tok Hb Esep) as (sec & my & p & BF).
        assert (Hnsd : is_sep_def (ref_def tok) = false).
        { unfold sep_tok in Esep. rewrite Ek in Esep. exact Esep. }
        split.
        -- cbn [app spine_run spine_step next_index]. rewrite (bf_rank _ _ _ _ BF), Hpop.
           unfold sep_blocked. rewrite Hnsd. cbn [andb]. rewrite <- Hsr, L1. reflexivity.
        -- constructor; [|exact Hrk]. simpl. exists p. split; [exact (bf_rank _ _ _ _ BF)|].
           split; [exact (bf_inf _ _ _ _ BF)|intros _; exact (bf_rl _ _ _ _ BF)].
    + (* prefix *)
      apply andb_true_iff in Hop. destruct Hop as [Hallow Hop].
      assert (Hp : is_prefix_tok tok = true) by (unfold is_prefix_tok; rewrite Ek; reflexivity).
      pose proof (opexpr_nonempty _ _ _ Hop) as Hne.
      assert (Hi1 : i + 1 < ntoks) by (destruct r; [congruence|simpl in Hi; lia]).
      destruct (prefix_tok_facts tok Hp) as (_ & _ & _ & _ & p & Hrank & Hinf).
      destruct after.
      * cbn [negb orb] in Hallow. subst sp.
        destruct ms as [fs [t|]]; simpl in R; [|contradiction]. cbn [ms_frames fst] in Hdepth.
        destruct (gstep_prefix_list ntoks i tok st fs t R Hp) as (st1 & fs1 & t1 & Hpop & Hs & G1 & L1).
        destruct (IH (S i) st1 false false depth (_, None) (Some KPrefix) Hop G1 eq_refl
                     ltac:(cbn [ms_frames fst group_kinds]; rewrite (pop_group_kinds _ _ _ _ _ Hpop); exact Hdepth) ltac:(lia))
          as (st' & fs' & t' & its & Hr & G' & Hng & Hit & Hsr & Hrk).
        exists st', fs', t'. eexists. split; [rewrite Hs; cbn [bind]; exact Hr|]. split; [exact G'|]. split; [exact Hng|].
        destruct prev as [pk|]; [|discriminate Hprev]. simpl in Hprev. rewrite Hprev. cbn [andb starts_value_k].
        rewrite Hit. split; [reflexivity|]. split.
        -- cbn [app spine_run spine_step next_index]. change (ref_rank D_List) with (Some 220%N). cbn iota.
           rewrite Hpop. cbn [spine_run spine_step next_index]. rewrite Hrank. rewrite <- Hsr, L1. reflexivity.
        -- constructor; [simpl; exists 220%N; split; [reflexivity|split; [reflexivity|intros _; reflexivity]]|].
           constructor; [simpl; exists p; split; assumption|exact Hrk].
      * destruct ms as [fs [t|]]; simpl in R; [contradiction|]. cbn [ms_frames fst] in Hdepth.
        destruct (gstep_prefix ntoks i tok st fs sp R Hp Hi1) as (st1 & Hs & G1 & L1).
        destruct (IH (S i) st1 false false depth (_, None) (Some KPrefix) Hop G1 eq_refl Hdepth ltac:(lia))
          as (st' & fs' & t' & its & Hr & G' & Hng & Hit & Hsr & Hrk).
        exists st', fs', t'. eexists. split; [rewrite Hs; cbn [bind]; exact Hr|]. split; [exact G'|]. split; [exact Hng|].
        assert (Hlead : match prev with
                        | Some p => if sp && ends_value_k p && starts_value_k KPrefix then [IBinary D_List None] else []
                        | None => [] end = []).
        { destruct prev as [pk|]; [|reflexivity]. simpl in Hprev. rewrite Hprev. rewrite andb_false_r. reflexivity. }
        rewrite Hlead, Hit. split; [reflexivity|]. split.
        -- cbn [app spine_run spine_step next_index]. rewrite Hrank. rewrite <- Hsr, L1. reflexivity.
        -- constructor; [simpl; exists p; split; assumption|exact Hrk].
    + (* suffix *)
      apply andb_true_iff in Hop. destruct Hop as [-> Hop].
      assert (Hsf : is_suffix_tok tok = true) by (unfold is_suffix_tok; rewrite Ek; reflexivity).
      destruct ms as [fs [t|]]; simpl in R; [|contradiction]. cbn [ms_frames fst] in Hdepth.
      destruct (gstep_suffix ntoks i tok st fs t sp R Hsf) as (st1 & fs1 & t1 & Hpop & Hs & G1 & L1).
      destruct (IH (S i) st1 true false depth (_, Some _) (Some KSuffix) Hop G1 eq_refl
                   ltac:(cbn [ms_frames fst]; rewrite (pop_group_kinds _ _ _ _ _ Hpop); exact Hdepth) ltac:(lia))
        as (st' & fs' & t' & its & Hr & G' & Hng & Hit & Hsr & Hrk).
      exists st', fs', t'. eexists. split; [rewrite Hs; cbn [bind]; exact Hr|]. split; [exact G'|]. split; [exact Hng|].
      assert (Hlead : match prev with
                      | Some p => if sp && ends_value_k p && starts_value_k KSuffix then [IBinary D_List None] else []
                      | None => [] end = []).
      { destruct prev as [p|]; [|reflexivity]. cbn [starts_value_k]. rewrite andb_false_r. reflexivity. }
      rewrite Hlead, Hit. split; [reflexivity|].
      destruct (suffix_tok_facts tok Hsf) as (_ & _ & _ & _ & my & p & OF & Hrl). split.
      * cbn [app spine_run spine_step next_index]. rewrite (of_rank _ _ _ _ OF), Hpop. rewrite <- Hsr, L1. reflexivity.
      * constructor; [|exact Hrk]. simpl. exists p. split; [exact (of_rank _ _ _ _ OF)|exact Hrl].
    + (* opening bracket *)
      apply andb_true_iff in Hop. destruct Hop as [Hallow Hop].
      pose proof (open_is_open_tok tok b Ek) as ->.
      pose proof (opexpr_nonempty _ _ _ Hop) as Hne.
      assert (Hi1 : i + 1 < ntoks) by (destruct r; [congruence|simpl in Hi; lia]).
      destruct after.
      * cbn [negb orb] in Hallow. subst sp.
        destruct ms as [fs [t|]]; simpl in R; [|contradiction]. cbn [ms_frames fst] in Hdepth.
        destruct (gstep_open_list ntoks i st fs t b R) as (st1 & fs1 & t1 & Hpop & Hs & G1 & L1).
        destruct (IH (S i) st1 false false (b :: depth) (_, None) (Some (KOpen b)) Hop G1 eq_refl
                     ltac:(cbn [ms_frames fst group_kinds]; rewrite (pop_group_kinds _ _ _ _ _ Hpop), Hdepth; reflexivity) ltac:(lia))
          as (st' & fs' & t' & its & Hr & G' & Hng & Hit & Hsr & Hrk).
        exists st', fs', t'. eexists. split; [rewrite Hs; cbn [bind]; exact Hr|]. split; [exact G'|]. split; [exact Hng|].
        destruct prev as [pk|]; [|discriminate Hprev]. simpl in Hprev. rewrite Hprev. cbn [andb starts_value_k].
        rewrite Hit. split; [reflexivity|]. split.
        -- cbn [app spine_run spine_step next_index]. change (ref_rank D_List) with (Some 220%N). cbn iota.
           rewrite Hpop. cbn [spine_run spine_step next_index]. rewrite <- Hsr, L1. reflexivity.
        -- constructor; [simpl; exists 220%N; split; [reflexivity|split; [reflexivity|intros _; reflexivity]]|].
           constructor; [exact I|exact Hrk].
      * destruct ms as [fs [t|]]; simpl in R; [contradiction|]. cbn [ms_frames fst] in Hdepth.
        destruct (gstep_open ntoks i st fs sp b R Hi1) as (st1 & Hs & G1 & L1).
        destruct (IH (S i) st1 false false (b :: depth) (_, None) (Some (KOpen b)) Hop G1 eq_refl
                     ltac:(cbn [ms_frames fst group_kinds]; rewrite Hdepth; reflexivity) ltac:(lia))
          as (st' & fs' & t' & its & Hr & G' & Hng & Hit & Hsr & Hrk).
        exists st', fs', t'. eexists. split; [rewrite Hs; cbn [bind]; exact Hr|]. split; [exact G'|]. split; [exact Hng|].
        assert (Hlead : match prev with
                        | Some p => if sp && ends_value_k p && starts_value_k (KOpen b) then [IBinary D_List None] else []
                        | None => [] end = []).
        { destruct prev as [pk|]; [|reflexivity]. simpl in Hprev. rewrite Hprev. rewrite andb_false_r. reflexivity. }
        rewrite Hlead, Hit. split; [reflexivity|]. split.
        -- cbn [app spine_run spine_step next_index]. rewrite <- Hsr, L1. reflexivity.
        -- constructor; [exact I|exact Hrk].
    + (* closing bracket *)
      apply andb_true_iff in Hop. destruct Hop as [-> Hop].
      pose proof (close_is_close_tok tok b Ek) as ->.
      destruct depth as [|b' d]; [cbv iota in Hop; discriminate Hop|cbv iota in Hop].
      apply andb_true_iff in Hop. destruct Hop as [Hb Hop]. apply bkind_eqb_eq in Hb. subst b'.
      destruct ms as [fs [t|]]; simpl in R; [|contradiction]. cbn [ms_frames fst] in Hdepth.
      destruct (close_group_kinds b fs t d Hdepth) as (fs1 & t1 & Hcl & Hk1).
      destruct (gstep_close ntoks i st fs t sp b fs1 t1 R Hcl) as (st1 & Hs & G1 & L1).
      destruct (IH (S i) st1 true false d (fs1, Some t1) (Some (KClose b)) Hop G1 eq_refl Hk1 ltac:(lia))
        as (st' & fs' & t' & its & Hr & G' & Hng & Hit & Hsr & Hrk).
      exists st', fs', t'. eexists. split; [rewrite Hs; cbn [bind]; exact Hr|]. split; [exact G'|]. split; [exact Hng|].
      assert (Hlead : match prev with
                      | Some p => if sp && ends_value_k p && starts_value_k (KClose b) then [IBinary D_List None] else []
                      | None => [] end = []).
      { destruct prev as [p|]; [|reflexivity]. cbn [starts_value_k]. rewrite andb_false_r. reflexivity. }
      rewrite Hlead, Hit. split; [reflexivity|]. split.
      * cbn [app spine_run spine_step next_index]. rewrite Hcl. rewrite <- Hsr, L1. reflexivity.
      * constructor; [exact I|exact Hrk].
    + (* whitespace *)
      pose proof (space_is_whitespace tok Ek) as ->.
      destruct after.
      * destruct ms as [fs [t|]]; simpl in R; [|contradiction].
        destruct (gstep_ws_compl ntoks i st fs t sp R) as (st1 & Hs & G1 & L1).
        destruct (IH (S i) st1 true true depth (fs, Some t) prev Hop G1 Hprev Hdepth ltac:(lia))
          as (st' & fs' & t' & its & Hr & G' & Hng & Hit & Hsr & Hrk).
        exists st', fs', t', its. split; [rewrite Hs; cbn [bind]; exact Hr|]. split; [exact G'|]. split; [exact Hng|].
        split; [exact Hit|]. split; [rewrite <- L1; exact Hsr|exact Hrk].
      * destruct ms as [fs [t|]]; simpl in R; [contradiction|].
        destruct (gstep_ws_pend ntoks i st fs sp R) as (st1 & Hs & G1 & L1).
        destruct (IH (S i) st1 false true depth (fs, None) prev Hop G1 Hprev Hdepth ltac:(lia))
          as (st' & fs' & t' & its & Hr & G' & Hng & Hit & Hsr & Hrk).
        exists st', fs', t', its. split; [rewrite Hs; cbn [bind]; exact Hr|]. split; [exact G'|]. split; [exact Hng|].
        split; [exact Hit|]. split; [rewrite <- L1; exact Hsr|exact Hrk].
Qed.

(* ---- trimming leaves an operator expression alone ---- *)
Lemma trim_kind t : is_trim t = true -> ref_kind t = KSpace \/ ref_kind t = KOther.
Proof. destruct t; intros H; try discriminate H; auto. Qed.

Lemma opexpr_last : forall toks after sp depth, opexpr_from toks after sp depth = true ->
  toks = [] \/ exists r0 x, toks = r0 ++ [x] /\ is_trim x = false.
Proof.
  induction toks as [|t r IH]; intros after sp depth H; [left; reflexivity|right].
  assert (Hr : exists a s d, opexpr_from r a s d = true).
  { cbn [opexpr_from] in H. destruct (ref_kind t); try discriminate H;
      try (apply andb_true_iff in H; destruct H as [_ H]); eauto.
    destruct depth; [discriminate H|]. apply andb_true_iff in H. destruct H as [_ H]. eauto. }
  destruct Hr as (a & s & d & Hr). destruct (IH a s d Hr) as [->|(r0 & x & E & Hx)].
  - exists [], t. split; [reflexivity|].
    destruct (is_trim t) eqn:E; [|reflexivity]. exfalso.
    cbn [opexpr_from] in H. destruct (trim_kind t E) as [K|K]; rewrite K in H; [|discriminate H].
    cbn [opexpr_from] in H. rewrite andb_false_r in H. discriminate H.
  - exists (t :: r0), x. rewrite E. split; [reflexivity|exact Hx].
Qed.

Lemma trim_tokens_opexpr toks : operator_expression toks = true -> trim_tokens toks = (0, toks).
Proof.
  destruct toks as [|v rest]; [discriminate|]. unfold operator_expression. intros H.
  apply andb_true_iff in H. destruct H as [Hv Ht]. apply negb_true_iff in Hv.
  assert (Hv' : is_trim v = false).
  { destruct (is_trim v) eqn:E; [|reflexivity]. exfalso. unfold is_space_tok in Hv.
    cbn [opexpr_from] in Ht. destruct (trim_kind v E) as [K|K]; rewrite K in *; discriminate. }
  unfold trim_tokens. cbn [drop_while_trim]. rewrite Hv'. rewrite Nat.sub_diag. f_equal.
  destruct (opexpr_last _ _ _ _ Ht) as [E|(r0 & x & E & Hx)]; [discriminate E|]. rewrite E.
  rewrite rev_app_distr. cbn [rev app drop_while_trim]. rewrite Hx.
  change (x :: rev r0) with ([x] ++ rev r0). rewrite rev_app_distr, rev_involutive. reflexivity.
Qed.

(* what parse() returns once the loop has ended in a completed state with no open bracket *)
Lemma parse_trimmed_gcompl toks st fs t :
  toks <> [] -> run_steps (length toks) 0 toks init_state = Ok st -> gcompl st fs t false ->
  group_ids fs = [] ->
  parse_trimmed toks = Ok (nid (close fs t), nodes st) /\
  denotes (nodes st) None (close fs t) /\ ordered (close fs t).
Proof.
  intros Hne Hrun G Hng. destruct G as [CS Hll [Hgs Hcg] Hnll [_ (Hcfl & Hsep & Hprev)]].
  rewrite Hng in Hgs. cbn in Hgs.
  destruct (cstruct_tree _ _ _ CS) as (DT & OT & LoT & CovT).
  split; [|split; assumption].
  unfold parse_trimmed. destruct toks as [|t0 rest]; [congruence|]. rewrite Hrun. cbn [bind].
  rewrite Hcfl, Hsep, Hgs.
  assert (Hf : forbidden (prev_sec st) S_None false = false) by (destruct (prev_sec st); try discriminate; reflexivity).
  rewrite Hf. cbn [andb]. cbv zeta. rewrite (map_fix_right_id _ _ DT CovT).
  destruct (denotes_root _ _ _ DT) as (nr & Hnr & _).
  destruct (nodes st) as [|n0 ns'] eqn:En; [destruct (nid (close fs t)); discriminate|].
  rewrite <- En in *.
  assert (H0 : nth_error (nodes st) 0 = Some n0) by (rewrite En; reflexivity).
  rewrite (find_root_tree _ _ _ DT OT LoT H0). cbn [bind].
  rewrite (validate_tree_complete _ _ DT OT CovT). reflexivity.
Qed.

(* the reference tree and the parse result of an operator expression *)
Lemma opexpr_parse_strong toks : operator_expression toks = true ->
  exists T ns its,
    items_of toks 0 None false = Some its /\ Forall item_ranked its /\ spine_insert its = Some T /\
    parse_trimmed toks = Ok (nid T, ns) /\
    denotes ns None T /\ ordered T /\ lo T = 0 /\ (forall j, j < length ns -> has_id T j).
Proof.
  intros H. destruct toks as [|v rest]; [discriminate|]. unfold operator_expression in H.
  apply andb_true_iff in H. destruct H as [_ Hop].
  destruct (run_opexpr (length (v :: rest)) (v :: rest) 0 init_state false false [] ([], None) None Hop
              init_gpend eq_refl eq_refl eq_refl) as (st' & fs' & t' & its & Hrun & G' & Hng & Hitems & Hsr & Hrk).
  destruct (parse_trimmed_gcompl (v :: rest) st' fs' t' ltac:(discriminate) Hrun G' Hng) as (Hp & DT & OT).
  destruct (cstruct_tree _ _ _ (gc_struct _ _ _ _ G')) as (_ & _ & LoT & CovT).
  set (T := close fs' t') in *.
  assert (Hins : spine_insert its = Some T).
  { unfold spine_insert. cbn [nodes init_state length] in Hsr. rewrite Hsr, (no_groups_iff _ Hng). reflexivity. }
  exists T, (nodes st'), its. repeat split; assumption.
Qed.

Lemma opexpr_parse toks : operator_expression toks = true ->
  exists T ns, pratt toks = Some (erase T) /\ parse_trimmed toks = Ok (nid T, ns) /\
               denotes ns None T /\ size T <= length ns.
Proof.
  intros H. destruct (opexpr_parse_strong toks H) as (T & ns & its & Hitems & Hrk & Hins & Hp & DT & OT & _ & _).
  exists T, ns. split; [|split; [exact Hp|split; [exact DT|]]].
  - unfold pratt. rewrite Hitems. rewrite (spine_insert_climb _ T _ Hrk Hins) by lia. reflexivity.
  - pose proof (ordered_size T OT) as Hsz.
    assert (Hhi : hi T < length ns) by (eapply denotes_lt; [exact DT|apply has_id_hi]). lia.
Qed.

Theorem c02_operator_expressions toks : operator_expression toks = true -> c02_agree toks = true.
Proof.
  intros H. pose proof (trim_tokens_opexpr toks H) as Htrim.
  destruct (opexpr_parse toks H) as (T & ns & Hpr & Hp & DT & Hsz).
  unfold c02_agree. rewrite Hpr. unfold parse. rewrite Htrim. cbn [fst snd]. rewrite Hp.
  rewrite (tree_of_denotes ns T None _ DT) by lia.
  apply rtree_eqb_refl.
Qed.

(* ---- binary chains are operator expressions ---- *)
Lemma chain_tail_opexpr : forall n rest, length rest <= n -> chain_tail rest = true ->
  opexpr_from rest true false [] = true.
Proof.
  induction n as [|n IH]; intros rest Hn H.
  - destruct rest; [reflexivity|simpl in Hn; lia].
  - destruct rest as [|o [|v r]]; [reflexivity|discriminate|].
    cbn [chain_tail] in H. apply andb_true_iff in H. destruct H as [H H3].
    apply andb_true_iff in H. destruct H as [H1 H2]. simpl in Hn.
    unfold is_binary_tok in H1. unfold is_value_tok in H2.
    cbn [opexpr_from]. destruct (ref_kind o); try discriminate. destruct (ref_kind v); try discriminate.
    rewrite andb_false_r. cbn [andb negb orb]. apply IH; [lia|exact H3].
Qed.

Lemma binary_chain_opexpr toks : binary_chain toks = true -> operator_expression toks = true.
Proof.
  destruct toks as [|v rest]; [discriminate|]. cbn [binary_chain]. intros H.
  apply andb_true_iff in H. destruct H as [Hv Ht]. unfold operator_expression, is_space_tok.
  unfold is_value_tok in Hv. cbn [opexpr_from]. destruct (ref_kind v); try discriminate.
  cbn [negb andb orb]. apply (chain_tail_opexpr (length rest)); [lia|exact Ht].
Qed.

Theorem c02_binary_chains toks : binary_chain toks = true -> c02_agree toks = true.
Proof. intros H. apply c02_operator_expressions, binary_chain_opexpr, H. Qed.
