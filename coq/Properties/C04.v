(* C04  An accepted program accounts for every token, in order.
   Only statements, [exact] and [Print Assumptions] live here. *)
From Coq Require Import List Arith Bool NArith.
From GV Require Import Base.Result Gen.TokenTypes Gen.Defs Model.Parser Model.BuilderWL Spec.TreeShape
  Spec.TokenAccount
  Proofs.C03.Bounded Proofs.C03.Bounded4 Proofs.C04.Bounded Proofs.C04.Shape Proofs.C04.Validated Proofs.C04.Tokens Proofs.C04.TokensTree.
From GV Require Import Spec.RefTable Spec.Pratt Spec.Chains Proofs.C04.InOrder.
Import ListNotations.

(* UNBOUNDED, for every token list: whenever parse accepts, the node links it returns
   form a tree.  [well_linked ns root]: there is a set of marked nodes containing the root
   such that every child index of a marked node exists, names that node as its parent and
   is itself marked, and every unmarked node is a dropped separator.  (parse validates its
   result with validate_tree, mirrored from parser.rs; the proof is the depth-first-search
   invariant of that validation.) *)
Theorem C04_accepted_parse_is_tree : forall (toks : list token_type) root ns,
  parse toks = Ok (root, ns) -> ns <> [] -> well_linked ns root.
Proof. exact parse_accepts_only_trees. Qed.
Print Assumptions C04_accepted_parse_is_tree.

(* ... and no node is shared: two marked nodes never have the same child *)
Theorem C04_no_shared_child : forall ns root, well_linked ns root ->
  forall v, (forall i, marked v i -> children_ok ns v i) ->
  forall i j c, marked v i -> marked v j -> child ns i c -> child ns j c -> i = j.
Proof. exact no_shared_child. Qed.
Print Assumptions C04_no_shared_child.

(* UNBOUNDED, for every token list: the node array of an accepted parse accounts for the
   tokens.  [accounted 0 toks None ls] says that the labels (definition, class, token index)
   of the nodes are, token by token and in token order: optionally the implicit space-list
   node, then either nothing - only for a token whose table definition is Drop (closing
   brackets, whitespace, annotations) or a separator, which may be dropped - or exactly one
   node carrying the token's index, its class and its table definition (an identifier after
   `.` is stored as Property).  Proof: no step of the main loop ever changes the label of an
   existing node; it only re-links nodes and appends. *)
Theorem C04_tokens_accounted : forall (toks : list token_type) root ns,
  parse toks = Ok (root, ns) -> accounted 0 (snd (trim_tokens toks)) None (labels ns).
Proof. exact parse_tokens_accounted. Qed.
Print Assumptions C04_tokens_accounted.

(* what [accounted] gives: the token indices of the nodes increase strictly with the node
   index (every token at most once, in order), every node that is not the implicit list
   belongs to a token and carries its definition, and every token that must have a node has one *)
Theorem C04_accounted_in_order : forall toks i lt added, accounted i toks lt added ->
  increasing (real_toks added) /\
  (forall l, In l added -> is_implicit l = false ->
     exists k t, nth_error toks (k - i) = Some t /\ i <= k /\ label_matches t k l) /\
  (forall j t, nth_error toks j = Some t -> never_a_node t = false -> maybe_dropped t = false ->
     exists l, In l added /\ label_matches t (i + j) l).
Proof.
  intros toks i lt added H. split; [exact (accounted_increasing _ _ _ _ H)|].
  split; [exact (accounted_sound _ _ _ _ H) | exact (accounted_complete _ _ _ _ H)].
Qed.
Print Assumptions C04_accounted_in_order.

(* ... and the node of every such token is part of the validated tree (both unbounded halves
   together): for every accepted program there is a marking containing the root, closed under
   children with agreeing parent links, that contains the node of every token which is neither
   Drop-defined nor a separator *)
Theorem C04_every_token_in_the_tree : forall (toks : list token_type) root ns,
  parse toks = Ok (root, ns) -> ns <> [] ->
  exists v : list bool,
    marked v root /\ (forall i, marked v i -> children_ok ns v i) /\
    forall k t, nth_error (snd (trim_tokens toks)) k = Some t ->
      never_a_node t = false -> maybe_dropped t = false ->
      exists j n, nth_error ns j = Some n /\ marked v j /\ label_matches t k (label_of n).
Proof. exact parse_tokens_in_tree. Qed.
Print Assumptions C04_every_token_in_the_tree.

(* non-vacuity: a program with an implicit list, a group, a property access and whitespace is
   accepted; its real token indices are 0 2 4 5 6 7 9 (whitespace 1 3, `)` 8 have no node) *)
Example C04_tokens_ex :
  match parse [TT_Number; TT_Whitespace; TT_Identifier; TT_Whitespace; TT_StartGroup; TT_Identifier; TT_Period;
               TT_Identifier; TT_EndGroup; TT_PlusSign; TT_Number] with
  | Ok (_, ns) => real_toks (labels ns) = [0; 2; 4; 5; 6; 7; 9; 10] /\
                  existsb is_implicit (labels ns) = true /\
                  existsb (fun l => definition_eqb (fst (fst l)) D_Property) (labels ns) = true
  | _ => False
  end.
Proof. vm_compute. repeat split; reflexivity. Qed.

(* what the boolean checker establishes, as Props: the root has no parent, the
   in-order walk from the root visits no node twice, child and parent links agree at
   every node it visits, and whatever it does not visit is a dropped separator *)
Theorem C04_checker_sound : forall ns root, ns <> [] -> proper_tree_b ns root = true ->
  (exists rn, nth_error ns root = Some rn /\ n_parent rn = None) /\
  exists o, inorder ns root = Some o /\ NoDup o /\
            (forall i, In i o -> links_agree_at ns i) /\
            (forall i n, nth_error ns i = Some n -> In i o \/ is_separator_node n = true).
Proof. exact proper_tree_b_sound. Qed.
Print Assumptions C04_checker_sound.

(* every token sequence of length <= 3 over ALL token types that parse and build
   accept: proper tree, tokens in source order, every value/operator node attributed *)
Theorem C04_bounded_3 : forall toks : list token_type, length toks <= 3 -> c04_ok toks = true.
Proof. exact c04_bounded_3. Qed.
Print Assumptions C04_bounded_3.

(* length 4 over the representative alphabet *)
Theorem C04_bounded_4_rep : forall toks : list token_type,
  length toks = 4 -> (forall t, In t toks -> In t rep_alphabet) -> c04_ok toks = true.
Proof. intros toks Hl Hin. exact (proj2 (pipeline_bounded_4_rep toks Hl Hin)). Qed.
Print Assumptions C04_bounded_4_rep.

(* parse validates its own result (validate_tree in parser.rs, mirrored in the model), so a
   node graph that is not a tree is reported as a syntax error; what used to be known finding
   C04-K1 (`[ ] -- 5`: the expression after a side-effect block was detached) is now rejected *)
Example C04_former_K1_rejected :
  parse [TT_StartSideEffect; TT_EndSideEffect; TT_Opposite; TT_Number] = Err E_malformed.
Proof. vm_compute. reflexivity. Qed.

(* full statement (not proved for unbounded length) *)
Definition C04_full_statement : Prop :=
  forall toks : list token_type, c04_ok toks = true.

(* UNBOUNDED on the operator fragment, the walk order: for every token list on which the
   reference parser of C02 (Spec.Pratt) is defined -- every operator expression of any
   length and bracket depth: values, prefix / suffix / binary operators, the implicit space
   list, round brackets, whitespace anywhere (C02_full, C02_operator_expressions) -- parse
   accepts, the in-order walk of the accepted tree (Spec.TreeShape.inorder) visits the nodes
   0, 1, 2, ..., i.e. node indices are in source order, and the existing checker clause
   [tokens_in_order_b] holds: every visited node is the implicit list node or carries a token
   index, these indices increase strictly along the walk, and every token that is not
   trivia is met.  (The node labels follow the tokens by C04_tokens_accounted; what this
   adds is that the LINKS put them in the walk in that order.) *)
Theorem C04_in_order_operator_expressions : forall (toks : list token_type) (t : rtree),
  pratt toks = Some t ->
  exists root ns,
    parse toks = Ok (root, ns) /\ ns <> [] /\
    inorder ns root = Some (seq 0 (length ns)) /\
    tokens_in_order_b toks (fst (trim_tokens toks)) ns root = true.
Proof. exact in_order_when_reference_defined. Qed.
Print Assumptions C04_in_order_operator_expressions.

(* non-vacuity: the hypothesis holds on `(a + b) * -(c = (d e))~~ (1)` (23 tokens, brackets
   three deep, two implicit lists); its 17 nodes are walked in the order 0..16, and the
   token indices met are the 15 significant ones out of 23 *)
Example C04_in_order_ex :
  let toks := [TT_StartGroup; TT_Identifier; TT_Whitespace; TT_PlusSign; TT_Whitespace; TT_Identifier; TT_EndGroup;
               TT_MultiplicationSign; TT_Opposite; TT_StartGroup; TT_Identifier; TT_Pair; TT_StartGroup; TT_Identifier;
               TT_Whitespace; TT_Identifier; TT_EndGroup; TT_EndGroup; TT_EmptyApply;
               TT_Whitespace; TT_StartGroup; TT_Number; TT_EndGroup] in
  (match pratt toks with Some _ => true | None => false end) = true /\
  match parse toks with
  | Ok (root, ns) => inorder ns root = Some (seq 0 17) /\
                     real_toks (labels ns) = [0; 1; 3; 5; 7; 8; 9; 10; 11; 12; 13; 15; 18; 20; 21]
  | _ => False
  end.
Proof. vm_compute. repeat split; reflexivity. Qed.
