"""Gen/Defs.v: the parser's tables, from compiler/src/parse/parser.rs:
Definition, SecondaryDefinition, get_definition, is_value_like/is_group_like/
is_conditional/is_optional, make_priority_map (later insert wins, as in a
HashMap), the forbidden adjacency pairs of check_composition."""
import re
from . import rustsrc as R


def fn_body(src, name):
    return R.strip_comments(R.item_body(src, r"fn %s\b[^{]*\{" % name))


def generate():
    src = R.read("compiler/src/parse/parser.rs")
    defs = R.enum_variants(src, "Definition")
    secs = R.enum_variants(src, "SecondaryDefinition")
    tts = R.enum_variants(R.read("compiler/src/lex/lexer.rs"), "TokenType")

    # get_definition
    body = fn_body(src, "get_definition")
    arms = re.findall(r"TokenType::(\w+)\s*=>\s*\(\s*Definition::(\w+)\s*,\s*SecondaryDefinition::(\w+)\s*\)", body)
    seen = {}
    for tt, d, s in arms:
        if tt in seen:
            raise ValueError("get_definition: duplicate arm for " + tt)
        if d not in defs or s not in secs or tt not in tts:
            raise ValueError("get_definition: unknown name in arm %s" % ((tt, d, s),))
        seen[tt] = (d, s)
    if "_ =>" in body or set(seen) != set(tts):
        raise ValueError("get_definition: arms do not cover TokenType exactly (%s)" % sorted(set(tts) ^ set(seen)))

    # predicates
    impl = R.strip_comments(R.item_body(src, r"impl Definition\s*\{"))
    preds = {}
    for p in ("is_value_like", "is_group_like", "is_conditional", "is_optional"):
        b = fn_body(impl, p)
        toks = re.sub(r"\s+", " ", b.strip())
        parts = [x.strip() for x in toks.split("||")]
        names = []
        for x in parts:
            m = re.fullmatch(r"self == Definition::(\w+)", x)
            if not m:
                raise ValueError("%s: unrecognised disjunct %r" % (p, x))
            names.append(m.group(1))
        preds[p] = names

    # priority map
    b = fn_body(src, "make_priority_map")
    stmts = [s.strip() for s in b.split(";") if s.strip()]
    prio = {}
    order = []
    for s in stmts:
        if s.startswith("let mut map") or s == "map":
            continue
        m = re.fullmatch(r"map\.insert\(\s*Definition::(\w+)\s*,\s*(\d+)\s*\)", s)
        if not m:
            raise ValueError("make_priority_map: unrecognised statement %r" % s)
        if m.group(1) not in defs:
            raise ValueError("make_priority_map: unknown definition " + m.group(1))
        prio[m.group(1)] = int(m.group(2))
        order.append((m.group(1), int(m.group(2))))

    # binary_class (normalisation applied to both arguments of check_composition)
    bc = fn_body(src, "binary_class")
    bc_arms = re.findall(r"SecondaryDefinition::(\w+)\s*=>\s*SecondaryDefinition::(\w+)", bc)
    if not re.search(r"\bd\s*=>\s*d\b", bc) or not bc_arms:
        raise ValueError("binary_class: unrecognised body")
    for x, y in bc_arms:
        if x not in secs or y not in secs:
            raise ValueError("binary_class: unknown secondary")

    # check_composition
    b = fn_body(src, "check_composition")
    if not (re.search(r"let previous = binary_class\(previous\)", b) and re.search(r"let current = binary_class\(current\)", b)):
        raise ValueError("check_composition: does not normalise its arguments with binary_class")
    m = re.search(r"match \(previous, current\)\s*\{", b)
    if not m:
        raise ValueError("check_composition: match not found")
    i = b.index("{", m.start())
    mb = b[i + 1:R.match_brace(b, i) - 1]
    # split arms on "=>"
    arms = []
    rest = mb
    guarded, plain = [], []
    chunks = re.split(r"=>", mb)
    # each chunk except the last: patterns at its end; result at the start of the next chunk
    results = []
    for k in range(len(chunks) - 1):
        pat_text = chunks[k]
        res_text = chunks[k + 1]
        # strip the previous arm's result from the front of pat_text
        if k > 0:
            pat_text = pat_text.split(",", 1)[1] if "," in pat_text else pat_text
            # result of previous arm is an expression up to its first top-level comma
            pat_text = re.sub(r"^\s*(?:composition_error\([^)]*\)|Ok\(\(\)\))\s*,?", "", chunks[k].lstrip())
        is_err = res_text.lstrip().startswith("composition_error")
        is_ok = res_text.lstrip().startswith("Ok(())")
        if not (is_err or is_ok):
            raise ValueError("check_composition: unrecognised arm result %r" % res_text[:40])
        pats = pat_text.strip()
        guard = None
        gm = re.search(r"\bif\b(.*)$", pats, flags=re.S)
        if gm:
            guard = re.sub(r"\s+", " ", gm.group(1).strip())
            pats = pats[:gm.start()].strip()
        if pats == "_":
            if not is_ok:
                raise ValueError("check_composition: catch-all is not Ok")
            continue
        pairs = re.findall(r"\(\s*SecondaryDefinition::(\w+)\s*,\s*SecondaryDefinition::(\w+)\s*\)", pats)
        leftover = re.sub(r"\(\s*SecondaryDefinition::\w+\s*,\s*SecondaryDefinition::\w+\s*\)", "", pats).replace("|", "").strip()
        if leftover or not pairs or not is_err:
            raise ValueError("check_composition: unrecognised patterns %r" % pats[:80])
        for a, c in pairs:
            if a not in secs or c not in secs:
                raise ValueError("check_composition: unknown secondary " + a + "/" + c)
            if guard is None:
                plain.append((a, c))
            elif guard == "!check_for_list":
                guarded.append((a, c))
            else:
                raise ValueError("check_composition: unrecognised guard %r" % guard)

    t = R.HEADER % "compiler/src/parse/parser.rs"
    t += "From GV Require Import Gen.TokenTypes.\n\n"
    t += R.coq_inductive("definition", defs, "D_") + "\n" + R.coq_eqb("definition", defs, "D_") + "\n\n"
    t += R.coq_inductive("secondary", secs, "S_") + "\n" + R.coq_eqb("secondary", secs, "S_") + "\n\n"
    t += "Definition get_definition (t : token_type) : definition * secondary :=\n  match t with\n"
    for tt in tts:
        d, s = seen[tt]
        t += "  | TT_%s => (D_%s, S_%s)\n" % (tt, d, s)
    t += "  end.\n\n"
    for p, names in preds.items():
        t += "Definition %s (d : definition) : bool :=\n  match d with\n" % p
        for n in names:
            t += "  | D_%s => true\n" % n
        t += "  | _ => false\n  end.\n\n"
    t += "(* make_priority_map: the final content of the HashMap (a later insert overwrites an earlier one) *)\n"
    t += "Definition priority (d : definition) : option N :=\n  match d with\n"
    for d in defs:
        if d in prio:
            t += "  | D_%s => Some %d\n" % (d, prio[d])
    if len(prio) < len(defs):
        t += "  | _ => None\n"
    t += "  end.\n\n"
    t += "(* the insert statements in source order (for documentation / duplicate detection) *)\n"
    t += "Definition priority_inserts : list (definition * N) :=\n  [" + "; ".join("(D_%s, %d)" % (d, n) for d, n in order) + "].\n\n"
    t += "Definition binary_class (s : secondary) : secondary :=\n  match s with\n"
    for x, y in bc_arms:
        t += "  | S_%s => S_%s\n" % (x, y)
    t += "  | d => d\n  end.\n\n"
    t += "(* check_composition: [true] = composition error *)\n"
    t += "Definition forbidden (previous current : secondary) (check_for_list : bool) : bool :=\n  match binary_class previous, binary_class current with\n"
    for a, c in guarded:
        t += "  | S_%s, S_%s => negb check_for_list\n" % (a, c)
    for a, c in plain:
        if (a, c) in guarded:
            continue
        t += "  | S_%s, S_%s => true\n" % (a, c)
    t += "  | _, _ => false\n  end.\n"
    return {"Defs.v": t}
