"""C20 Programs built into a shared data object do not disturb each other."""
import itertools, os, re
import vplib, codelib as cl
from vplib import Verdict, log

PID = "C20"
MANIFEST_ENTRY = {
 "level_claimed": {
  "category": "proof",
  "text": "Spec/Reloc.v states relocation (the code a build adds to a data object holding il instructions and jl jump entries is "
          "the code it adds to an empty object with instruction indices moved by il and jump-table indices by jl) and the frame "
          "property (the new code refers to its own jump entries and instructions only; the reported entry is its own). The "
          "builder model keeps the tables of earlier programs out of reach by construction and reports a write below the initial "
          "jump-table length as its own error class. Theorems in coq/Properties/C20.v: relocation + frame for all 73^3 token "
          "triples and all sequences of length <= 5 over the reduced alphabet, for two non-empty initial states, except for the "
          "empty program; a witness for C20-K2 (the empty program reports entry 0 without pushing a jump entry) and a regression "
          "theorem for the repaired C20-K1 (build.rs b7aaffe: `( )` after a program ending in EndExpression is now the alone build, relocated); and, by induction on the tree, for EVERY tree "
          "and EVERY initial state: the build never writes a jump entry below the initial jump-table length "
          "(C20_no_foreign_jump_all_trees), every jump operand / expression value / the entry lies in the new jump range "
          "(C20_own_jump_refs_all_trees), the build equals the build into an object with empty tables and the same last "
          "instruction, relocated (C20_relocation_all_trees); it equals the build into the EMPTY object, "
          "relocated, for every tree and initial state (C20_relocation_full, no exclusion since the repair); outside C05-K2 (a shape the parser never produces) every new jump entry lies in the new instruction range "
          "(C20_frame_full). These are theorems about the tree compiler; compile_agrees_full (Properties/C05.v: for EVERY node "
          "array that forms a proper tree, every initial state and fuel, a successful run of the worklist model of build() is the "
          "tree compiler's result) carries them to BuilderWL.build: C20_frame_full_builder, C20_own_jump_refs_builder, "
          "C20_relocated_full_builder (a build after another program and the build of the same tree into the empty object are "
          "related by Spec.Reloc.relocated), and C20_relocated_full_parsed states relocation + frame for every token sequence the parser model accepts. The error-class statement has its own proof on the model: C20_no_foreign_jump_builder (for EVERY node "
          "array, proper tree or not, build never returns the foreign-write error). The step 'the runtime commutes with relocation' is covered by "
          "the differential runs only. On every run: sequences of 2..4 generated programs are "
          "built into one data object in every order with executions interleaved, on both data implementations; every build is "
          "compared with the build alone (relocated), with the builder model run from the same initial state, every earlier "
          "program's instructions, jump entries and constants are re-read after every later build and execution, and every run "
          "from the reported entry is compared with the run alone.",
  "design_ref": "DESIGN.md section 8 C20"
 },
 "level_note": "On the whole operator fragment (every token list on which the reference parser Spec.Pratt.pratt is defined) the exclusion ~ Known_C05_K2 of the frame and relocation theorems is discharged (round 6: C20_frame_operator_expressions, C20_relocated_operator_expressions, through C05_operator_expressions_not_K2); outside the fragment the theorems keep that hypothesis (a class the parser is not known to produce: bounded checks and the stated invariant C05_parser_links_no_K2_statement). Trusted: Coq kernel; extraction; the multi harness and OCaml driver; tools/codelib.py / c20.py (native relocation and "
               "frame checks). Run comparison is made for programs that are stack-balanced (C06) - an unbalanced program can "
               "consume operands an earlier failed run left behind. Constants are compared as structural values (interning on "
               "SimpleGarnishData may share an earlier program's constant with equal content). Known finding C20-K2 (C20-K1 / C20-K3 repaired in build.rs b7aaffe).",
 "technique": "Coq finite theorems (vm_compute) and refutation witnesses over the builder model parameterised by the initial "
              "state + differential runs of multi-program histories on both data implementations"
}

TRUSTED = vplib.BASE_TRUSTED + [
    "axioms (Print Assumptions): none",
    "harness/src/bin/multi.rs: snapshots of earlier programs (raw instructions, jump entries, structural constants) are taken right after their own build and compared after every later step",
]

POOL_FIXED = ["5", "5 + 6", "( )", "", "{ $ + 1 } <~ 5", "1 ?> 2 |> 3", "a && b", "{ 5 }", "1 2 3", "5 ~> { $ * 2 }", "{ { $ + 1 } <~ $ } <~ 1",
              "$ < 3 ?> ^~ $ + 1 |> $", "\"s\" 'b' :s", "5 [6] 7", "(1 ?> 2) + (3 ?> 4 |> 5)", "{ ( ) }", "$! ?> 1 |> $! ?> 2", "1 |> 2",
              "{ $ < 2 ?> ^~ $ + 1 |> $ } <~ 0", ":a = 1, :b = 2", "(:a = 1).a", "`f 5", "1 ; 2", "{ 1 } ~~",
              # text conversions that fail half-way or succeed, and plain text constants (scratch buffers of the data object)
              "(7 (5 ~ 2)) ~# \"\"", "(1 2) ~# \"\"", "(1 ('a' ~ 2)) ~# ''", "\"abc\"", "'xyz'", "(1 2 :s) ~# \"\""]


def scripts_for(order, rng, how):
    """action scripts for one build order"""
    k = len(order)
    if how == "after_each":
        s = []
        for i, p in enumerate(order):
            s.append("b%d" % p)
            for q in order[: i + 1]:
                s.append("x%d" % q)
        return s
    if how == "all_then_reverse":
        return ["b%d" % p for p in order] + ["x%d" % p for p in reversed(order)]
    if how == "twice":
        s = []
        for p in order:
            s += ["b%d" % p, "x%d" % p, "x%d" % p]
        return s + ["x%d" % order[0]]
    s = []
    built = []
    for p in order:
        s.append("b%d" % p)
        built.append(p)
        for _ in range(rng.randint(0, 2)):
            s.append("x%d" % rng.choice(built))
    return s + ["x%d" % p for p in built]


def gen_cases(tier, seed):
    rng = vplib.rng_for(seed, "C20")
    pool = POOL_FIXED + cl.source_cases(rng, 1500 if tier == "thorough" else 120, findings=0.02)
    n_sets = 8000 if tier == "thorough" else 170
    cases = []
    # every ordered pair of the fixed pool (covers each known shape in both positions)
    for a, b in itertools.permutations(range(len(POOL_FIXED)), 2):
        if tier == "thorough" or (a + b) % 3 == 0:
            progs = [POOL_FIXED[a], POOL_FIXED[b]]
            cases.append("M %s;%s" % (",".join(scripts_for([0, 1], rng, "after_each")), ";".join("S " + cl.hx(p) for p in progs)))
    for _ in range(n_sets):
        k = rng.choice([2, 2, 3, 3, 4])
        progs = [rng.choice(pool) for _ in range(k)]
        for order in itertools.permutations(range(k)):
            how = rng.choice(["after_each", "all_then_reverse", "twice", "random"])
            cases.append("M %s;%s" % (",".join(scripts_for(list(order), rng, how)), ";".join("S " + cl.hx(p) for p in progs)))
    return cases


def run_pair(cases, exe):
    text = "\n".join(cases) + "\n"
    rc, impl = vplib.run_lines([exe], text, timeout=2400)
    if rc != 0 or len(impl) != len(cases):
        return None, None, "multi harness rc=%s lines=%d/%d" % (rc, len(impl), len(cases))
    rc, model = vplib.run_lines([os.path.join(vplib.OCAML_BUILD, "multi_driver")], "\n".join(impl) + "\n", timeout=2400)
    if rc != 0 or len(model) != len(cases):
        return impl, None, "multi_driver rc=%s lines=%d/%d %s" % (rc, len(model), len(cases), model[-1:] if model else "")
    return impl, model, None


def parse_build(txt):
    """'OK:entry:I..:J..:M..@il,jl,last!K[..]!V[..]' -> dict or None (+ raw class for failures)"""
    if not txt.startswith("OK:"):
        return None
    m = re.match(r"(OK:\d+:I\[.*?\]:J\[.*?\]:M\[.*?\])@(\d+),(\d+),([^!]*)!K\[(.*?)\]!V\[(.*)\]$", txt)
    if not m:
        return None
    lst = cl.parse_listing(m.group(1))
    lst.update({"il": int(m.group(2)), "jl": int(m.group(3)), "last": m.group(4), "kinds": m.group(5), "values": m.group(6), "text": m.group(1)})
    return lst


def parse_report(rep):
    """-> (alone: {i: (build_txt, run_txt)}, steps: [(op, i, body, keep)])"""
    m = re.match(r"alone\[(.*)\]#shared\[(.*)\]$", rep)
    if not m:
        return None, None
    alone = {}
    for part in filter(None, m.group(1).split("|")):
        i, rest = part.split(":", 1)
        k = rest.rfind(":")
        alone[int(i)] = (rest[:k], rest[k + 1:])
    steps = []
    for part in filter(None, m.group(2).split("|")):
        head, rest = part.split(":", 1)
        k = rest.rfind(":keep=")
        steps.append((head[0], int(head[1:]), rest[:k], rest[k + 6:]))
    return alone, steps


def relocate(a, il, jl):
    """the alone listing moved by (il, jl)"""
    ins = []
    for name, o in a["instrs"]:
        if o is not None and o[0] == "n" and name in cl.JUMPING:
            o = ("n", o[1] + jl)
        elif o is not None and o[0] == "x" and o[1] is not None:
            o = ("x", o[1] + jl)
        ins.append((name, o))
    return {"entry": a["entry"] + jl, "instrs": ins, "jumps": [None if t is None else t + il for t in a["jumps"]], "meta": a["meta"]}


def own_refs(b):
    """frame: references of the new code stay inside the new ranges"""
    il, jl = b["il"], b["jl"]
    ih, jh = il + len(b["instrs"]), jl + len(b["jumps"])
    bad = []
    for k, (name, o) in enumerate(b["instrs"]):
        if o is not None and ((o[0] == "n" and name in cl.JUMPING) or o[0] == "x"):
            if o[1] is None or not (jl <= o[1] < jh):
                bad.append("instruction %d %s names jump entry %s outside %d..%d" % (il + k, name, o[1], jl, jh))
    for k, t in enumerate(b["jumps"]):
        if t is None or not (il <= t < ih):
            bad.append("jump entry %d names instruction %s outside %d..%d" % (jl + k, t, il, ih))
    if not (jl <= b["entry"] < jh):
        bad.append("the reported entry %d is not one of the build's jump entries %d..%d" % (b["entry"], jl, jh))
    return bad


def evaluate(v, cases, impl, model, stats, samples, distinct, listed):
    n_tie = 0
    for ci, line in enumerate(impl):
        parts = line.split("\t")
        case, res, oracle = parts[0], parts[1], parts[2] if len(parts) > 2 else "-"
        f = cl.fields(res)
        progs = [cl.unhx(p[2:]) if p.startswith("S ") else p for p in case[2:].split(";")[1:]]
        reports = [("simple", f.get("S", ""))]
        if f.get("B", "same") != "same":
            stats["basic_report_differs"] += 1
            reports.append(("basic", f["B"]))
        mline = model[ci].split("\t")[1] if model is not None else None
        msteps = {}
        if mline and mline != "-":
            order = []
            for st in mline.split("|"):
                head = st.split(":", 1)[0]
                order.append(st)
            msteps = order
        for which, rep in reports:
            alone, steps = parse_report(rep)
            if alone is None:
                v.tie_failure("unreadable multi report for %s" % case[:100])
                continue
            abuilds = {i: parse_build(bt) for i, (bt, rt) in alone.items()}
            typable = {}
            for i, b in abuilds.items():
                typable[i] = b is not None and cl.infer_native(b)[0] is not None
            mk = 0
            unbalanced_ran = False
            for op, i, body, keep in steps:
                if op == "b":
                    stats["builds"] += 1
                    b = parse_build(body)
                    a = abuilds.get(i)
                    # model with the same initial state
                    if which == "simple" and msteps and body.startswith("OK:"):
                        if mk < len(msteps):
                            ms = msteps[mk]
                            mk += 1
                            mm = re.match(r"b(\d+):(OK:\d+:I\[.*?\]:J\[.*?\]:M\[.*?\]|ERR\d+|PANIC|HANG):C=(.*?):R=(\S*?):O=(\S*?):W=(\S*?):D=(\S*)$", ms)
                            if not mm or int(mm.group(1)) != i:
                                v.tie_failure("multi driver out of step on %s" % case[:120])
                            else:
                                if b is not None and mm.group(2) != b["text"]:
                                    stats["model_disagreements"] += 1
                                    n_tie += 1
                                    if n_tie <= 5:
                                        v.tie_failure("correspondence build (initial state %d,%d,%s) of %r: impl=%s model=%s" % (
                                            b["il"], b["jl"], b["last"], progs[i], b["text"][:300], mm.group(2)[:300]))
                                if mm.group(3) != "same":
                                    stats["compile_disagreements"] += 1
                                    n_tie += 1
                                    if n_tie <= 5:
                                        v.tie_failure("tree compiler differs from the worklist model on %r at initial state %s" % (progs[i], body.split("@")[1][:30]))
                                coq_r, coq_o = mm.group(4), mm.group(5)
                        else:
                            coq_r = coq_o = None
                    else:
                        coq_r = coq_o = None
                    if keep != "ok":
                        stats["property_failures"] += 1
                        v.violation(component="build", data=which, input=case, shown=progs, step="b%d" % i,
                                    what="building %r changed an earlier program: %s" % (progs[i], keep))
                    if (a is None) != (b is None):
                        stats["property_failures"] += 1
                        v.violation(component="build", data=which, input=case, shown=progs, step="b%d" % i,
                                    what="%r builds alone (%s) but not shared (%s) or vice versa" % (progs[i], alone[i][0][:80], body[:80]))
                        continue
                    if b is None:
                        continue
                    problems = []
                    if relocate(a, b["il"], b["jl"]) != {k: b[k] for k in ("entry", "instrs", "jumps", "meta")}:
                        problems.append("the shared build is not the relocated alone build: alone %s shared %s (initial state %d,%d,%s)" % (
                            a["text"][:200], b["text"][:200], b["il"], b["jl"], b["last"]))
                    if a["kinds"] != b["kinds"] or a["values"] != b["values"]:
                        problems.append("data operands denote other constants: alone K[%s] V[%s] shared K[%s] V[%s]" % (
                            a["kinds"][:100], a["values"][:160], b["kinds"][:100], b["values"][:160]))
                    own = own_refs(b)
                    problems += own[:2]
                    if coq_r is not None and b["text"] == mm.group(2):
                        nat_r = "ok" if not problems or all("constants" in p for p in problems) and relocate(a, b["il"], b["jl"]) == {k: b[k] for k in ("entry", "instrs", "jumps", "meta")} else "no"
                        if (coq_r == "ok") != (nat_r == "ok") and not (coq_r == "ok" and own):
                            stats["checker_disagreements"] += 1
                            if stats["checker_disagreements"] <= 5:
                                v.tie_failure("relocation verdicts differ on %r: Coq %s native %s" % (progs[i], coq_r, nat_r))
                        if (coq_o == "1") != (not own):
                            stats["checker_disagreements"] += 1
                            if stats["checker_disagreements"] <= 5:
                                v.tie_failure("frame verdicts differ on %r: Coq own_code=%s native %s" % (progs[i], coq_o, own[:1]))
                    if b["il"] > 0 and len(b["instrs"]) >= 3 and not problems:
                        distinct.add((b["text"], b["il"]))
                    if problems:
                        fid = classify(progs[i], oracle, i, a, b)
                        if fid and fid in listed:
                            v.known_hit(fid, "%r built after %d instructions ending in %s: %s" % (progs[i], b["il"], b["last"], problems[0][:200]))
                            stats["known_hits"][fid] = stats["known_hits"].get(fid, 0) + 1
                        else:
                            stats["property_failures"] += 1
                            if len(v.violations) < 40:
                                v.violation(component="build", data=which, input=case, shown=progs, step="b%d" % i, what="; ".join(problems[:3]))
                else:
                    stats["runs"] += 1
                    if keep != "ok":
                        stats["property_failures"] += 1
                        v.violation(component="execute", data=which, input=case, shown=progs, step="x%d" % i,
                                    what="running %r changed a program's instructions, jump entries or constants: %s" % (progs[i], keep))
                    arun = alone.get(i, ("", "-"))[1]
                    if body == "NOTBUILT":
                        continue
                    if not typable.get(i, False) or not body.startswith("END."):
                        stats["runs_of_unbalanced_programs"] += 1
                        unbalanced_ran = True
                        # still a finding when it is the empty program / the program that emitted nothing
                        if body != arun:
                            fid = classify(progs[i], oracle, i, abuilds.get(i), None)
                            if fid and fid in listed:
                                v.known_hit(fid, "%r run from its reported entry: shared %s alone %s" % (progs[i], body[:80], arun[:80]))
                                stats["known_hits"][fid] = stats["known_hits"].get(fid, 0) + 1
                        continue
                    if unbalanced_ran:
                        stats["runs_after_unbalanced_residue"] += 1
                    if not body.startswith("END."):
                        # a failed run leaves operands and frames behind: what runs afterwards sees that residue
                        unbalanced_ran = True
                    if body != arun:
                        if unbalanced_ran:
                            continue      # stale operands / frames of an earlier failed or unbalanced run are on the stacks
                        stats["property_failures"] += 1
                        if len(v.violations) < 40:
                            v.violation(component="execute", data=which, input=case, shown=progs, step="x%d" % i,
                                        what="%r run from its reported entry in the shared object: %s ; alone: %s" % (progs[i], body[:200], arun[:200]))
                    else:
                        stats["runs_equal_to_alone"] += 1
        if len(samples) < 6 and ci % 211 == 0:
            samples.append({"programs": progs, "script": case[2:].split(";")[0], "report": f.get("S", "")[:400], "model": (mline or "")[:300]})


def classify(src, oracle, i, a, b):
    """C20-K2: the empty program.  (C20-K1 / C20-K3 - a program or nested body that compiles to nothing - were
    repaired in build.rs, commit b7aaffe; their inputs stay in the corpus.)"""
    toks = oracle[5:].split("/") if oracle.startswith("toks=") else []
    mine = toks[i] if i < len(toks) else None
    if mine == "":
        return "C20-K2"
    return None


def new_stats(n):
    return {"cases": n, "builds": 0, "runs": 0, "runs_equal_to_alone": 0, "runs_of_unbalanced_programs": 0, "runs_after_unbalanced_residue": 0,
            "basic_report_differs": 0, "model_disagreements": 0, "compile_disagreements": 0, "checker_disagreements": 0,
            "property_failures": 0, "known_hits": {}}


def run(tier, seed):
    v = Verdict(PID, tier, seed)
    v.assumptions = [
        "constants are compared as structural values read through the getters (interning may share equal constants between programs)",
        "runs are compared (end state, step count, result value, executed instructions relative to the program's first instruction) "
        "for stack-balanced programs; an unbalanced program (C06 findings) may consume operands an earlier failed run left behind, and "
        "after a run that stopped with a runtime error (which leaves its operands and call frames on the stacks) only result values are compared",
        "a host clears nothing between runs: the residue of earlier executions (values, leftover operands of failed runs) stays in the data object",
    ]
    sy = vplib.sync(["instr", "defs", "tokentypes", "execmap"])
    for name, err in sy.get("errors", {}).items():
        v.tie_failure("translator %s: %s" % (name, err))
    pr = vplib.prove(PID, ["Proofs/C20", "Proofs/Builder"], extra_targets=["Extract/MultiExtract.vo"])
    for f in pr["failures"]:
        v.tie_failure("prove: " + f)
    v.coverage.update(vplib.proof_coverage(
        pr, "make -C coq Properties/C20.vo && coqc Properties/C20.v (Print Assumptions) && tools/props/c20.py multi-program histories", TRUSTED))
    v.coverage["tables_regenerated"] = sy.get("changed", [])
    ok, exe, out = cl.harness_exe("multi")
    if not ok:
        v.tie_failure("harness build failed: " + out)
    have_model = os.path.exists(os.path.join(vplib.OCAML_BUILD, "multi_model.ml"))
    okm, outm = vplib.ocaml_build("multi") if have_model else (False, "no extracted model")
    if not okm:
        v.tie_failure("model driver build failed: " + outm[-300:])
    cases = gen_cases(tier, seed)
    stats = new_stats(len(cases))
    distinct, samples = set(), []
    listed = {f["id"] for f in vplib.findings_for(PID)}
    if ok:
        impl, model, err = run_pair(cases, exe)
        if err:
            v.tie_failure("correspondence run: " + err)
        if impl is not None:
            evaluate(v, cases, impl, model if okm else None, stats, samples, distinct, listed)
        try:
            os.remove(exe)
        except OSError:
            pass
    v.coverage.update({
        "evaluations": len(cases),
        "distinct_nontrivial": len(distinct),
        "rule": "every third ordered pair of a fixed pool of 24 programs (all pairs in the thorough tier; the pool has every construct and "
                "every listed finding shape, the empty program and `( )`), and sets of 2..4 programs drawn from the pool plus "
                "grammar-generated programs, in every build order, with one of four execution interleavings (run everything "
                "built so far after each build; all builds then runs in reverse; every program twice; random); both data "
                "implementations. A case is non-trivial per build of at least three instructions into a non-empty data object "
                "that relocates exactly (counted by distinct (code, offset))",
        "samples": samples,
        "histogram": stats,
    })
    return v.finish("proof")


def replay(obj):
    cases = [x["input"] for x in obj.get("violations", []) if x.get("input", "").startswith("M ")]
    if not cases:
        print("replay names a broken tie, not an input:", obj.get("no_longer_checks"))
        return run("quick", obj.get("seed", 0))
    ok, exe, out = cl.harness_exe("multi")
    if not ok:
        print("harness build failed")
        return 2
    impl = vplib.run_lines([exe], "\n".join(dict.fromkeys(cases)) + "\n", timeout=600)[1]
    v = Verdict(PID, "replay", obj.get("seed", 0))
    st = new_stats(len(cases))
    evaluate(v, list(dict.fromkeys(cases)), impl, None, st, [], set(), {f["id"] for f in vplib.findings_for(PID)})
    for x in v.violations:
        print("FAILS: %s %s: %s" % (x.get("shown"), x.get("step"), x["what"][:300]))
    if not v.violations:
        print("ok: %d case(s); known classes seen: %s" % (len(cases), st["known_hits"]))
    return 1 if v.violations else 0
