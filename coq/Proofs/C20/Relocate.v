(* C20 relocation, inductive: for every tree, building into a data object that
   already holds [di] instructions and [dj] jump entries is building into an
   object with empty tables (and the same "last instruction" [L], which is all
   the builder reads of the earlier content) followed by relocation: jump-table
   indices (jump operands, expression values, the entry) move by [dj],
   instruction indices (jump-entry targets) by [di]; placeholders stay 0. *)
From Coq Require Import List Arith Bool NArith Lia.
From GV Require Import Base.Result Gen.TokenTypes Gen.Defs Gen.Instr Model.Parser Model.BuilderWL Model.Compile
  Spec.WfCode Spec.Reloc Proofs.C05.InlBase Proofs.C05.Known Proofs.C05.Operands Proofs.C05.Jumps.
Import ListNotations.

Fixpoint mapi_from {A B} (k : nat) (f : nat -> A -> B) (l : list A) : list B :=
  match l with
  | [] => []
  | x :: r => f k x :: mapi_from (S k) f r
  end.

Lemma mapi_from_app : forall A B (f : nat -> A -> B) l1 l2 k,
  mapi_from k f (l1 ++ l2) = mapi_from k f l1 ++ mapi_from (k + length l1) f l2.
Proof.
  intros A B f l1. induction l1 as [|x l1 IH]; intros l2 k; cbn.
  - rewrite Nat.add_0_r. reflexivity.
  - rewrite IH. replace (S k + length l1) with (k + S (length l1)) by lia. reflexivity.
Qed.

Lemma mapi_from_length : forall A B (f : nat -> A -> B) l k, length (mapi_from k f l) = length l.
Proof. intros A B f l. induction l as [|x l IH]; intros k; cbn; [reflexivity | rewrite IH; reflexivity]. Qed.

Lemma mapi_from_upd : forall A (f : nat -> A -> A) l k n x,
  upd (mapi_from k f l) n (fun _ => f (k + n) x) =
  match upd l n (fun _ => x) with Some l' => Some (mapi_from k f l') | None => None end.
Proof.
  intros A f l. induction l as [|y l IH]; intros k n x; cbn; [reflexivity|].
  destruct n as [|n]; cbn.
  - rewrite Nat.add_0_r. reflexivity.
  - replace (k + S n) with (S k + n) by lia. rewrite IH. destruct (upd l n (fun _ => x)); reflexivity.
Qed.

Lemma finish_jump_g : forall i0 s j, finish i0 s [(I_JumpTo, ONum j)] = emit s (I_JumpTo, ONum j) None.
Proof.
  intros i0 s j. unfold finish. cbn [fold_left]. destruct (last_instr i0 s) as [li|]; [|reflexivity].
  cbn [fst]. rewrite andb_false_r. reflexivity.
Qed.
Lemma finish_tis_jump_g : forall i0 s j,
  finish i0 s [(I_Tis, ONone); (I_JumpTo, ONum j)] = emit (emit s (I_Tis, ONone) None) (I_JumpTo, ONum j) None.
Proof.
  intros i0 s j. unfold finish. cbn [fold_left]. destruct (last_instr i0 s) as [li|]; [|reflexivity].
  cbn [fst]. rewrite !andb_false_r. reflexivity.
Qed.

Section Reloc.
Variable init : binit.
Variable lit_ok : nat -> bool.
Notation di := (i_instr_len init).
Notation dj := (i_jump_len init).
Definition init0 : binit := mkInit 0 0 (i_last_instr init).

(* a jump entry at position [k] of the build's own table: the entry point and
   every patched entry move with the instructions; a placeholder stays 0 *)
Definition shJ (k x : nat) : nat :=
  if Nat.eqb k 0 then x + di else if Nat.eqb x 0 then 0 else x + di.

Definition shS (s : cst) : cst :=
  mkC (map (shift_instr dj) (ci s)) (cm s) (mapi_from 0 shJ (cj s)).
Definition shCx (cx : ctx) : ctx := mkCx (cx_containing cx + dj) (cx_list cx) (cx_cond cx).
Definition shP (p : pend) : pend :=
  mkP (p_tree p) (p_containing p + dj) (p_jump p + dj) (map (shift_instr dj) (p_end p)).
Definition shI (it : tree * nat) : tree * nat := (fst it, snd it + dj).
Definition shOut (o : out) : out :=
  let '(s, ps, its) := o in (shS s, map shP ps, map shI its).
Definition shRes {A B} (f : A -> B) (r : res A) : res B :=
  match r with Ok a => Ok (f a) | Err e => Err e | Panic x => Panic x | OutOfFuel => OutOfFuel end.

Lemma il_sh : forall s, il init (shS s) = il init0 s + di.
Proof. intros s. unfold il, shS, init0. cbn. rewrite map_length. lia. Qed.
Lemma jl_sh : forall s, jl init (shS s) = jl init0 s + dj.
Proof. intros s. unfold jl, shS, init0. cbn. rewrite mapi_from_length. lia. Qed.

Lemma sh_emit : forall s io m, shS (emit s io m) = emit (shS s) (shift_instr dj io) m.
Proof. intros s io m. unfold shS, emit. cbn. rewrite map_app. reflexivity. Qed.

Lemma sh_new_hole : forall s, cj s <> [] -> shS (new_jump s 0) = new_jump (shS s) 0.
Proof.
  intros s Hn. unfold shS, new_jump. cbn. rewrite mapi_from_app. cbn. f_equal. f_equal. f_equal.
  unfold shJ. destruct (cj s); [congruence|]. cbn. reflexivity.
Qed.

Lemma sh_new_join : forall s x, cj s <> [] -> x <> 0 -> shS (new_jump s x) = new_jump (shS s) (x + di).
Proof.
  intros s x Hn Hx. unfold shS, new_jump. cbn. rewrite mapi_from_app. cbn. f_equal. f_equal. f_equal.
  unfold shJ. destruct (cj s); [congruence|]. cbn. destruct x; [congruence | reflexivity].
Qed.

Lemma sh_first : forall x, shS (new_jump (mkC [] [] []) x) = new_jump (mkC [] [] []) (x + di).
Proof. intros x. reflexivity. Qed.

Lemma sh_nonempty : forall s, cj s <> [] -> cj (shS s) <> [].
Proof. intros s H. unfold shS. cbn. destruct (cj s); [congruence | cbn; discriminate]. Qed.

Lemma sh_patch : forall s j x, 0 < j -> x <> 0 ->
  patch init (shS s) (j + dj) (x + di) = shRes shS (patch init0 s j x).
Proof.
  intros s j x Hj Hx. unfold patch, init0. cbn [i_jump_len].
  destruct (Nat.ltb (j + dj) dj) eqn:E; [apply Nat.ltb_lt in E; lia|]. clear E.
  replace (j + dj - dj) with j by lia. rewrite Nat.sub_0_r. cbn [Nat.ltb Nat.leb].
  unfold shS at 1. cbn [cj].
  assert (Hsh : x + di = shJ (0 + j) x).
  { unfold shJ. cbn [Nat.add]. destruct (Nat.eqb j 0) eqn:E; [apply Nat.eqb_eq in E; lia|].
    destruct x; [congruence | reflexivity]. }
  rewrite Hsh, mapi_from_upd.
  destruct (upd (cj s) j (fun _ => x)) as [l'|]; cbn; [|reflexivity].
  unfold shS. cbn. reflexivity.
Qed.


(* ---- sequencing commutes with relocation ---- *)
Lemma seq2_shift : forall a0 f0 a f,
  a = shRes shOut a0 ->
  (forall s1 p1 i1, a0 = Ok (s1, p1, i1) -> f (shS s1) = shRes shOut (f0 s1)) ->
  seq2 a f = shRes shOut (seq2 a0 f0).
Proof.
  intros a0 f0 a f Ha Hf. subst a. destruct a0 as [[[s1 p1] i1]|e|x|]; cbn; try reflexivity.
  rewrite (Hf s1 p1 i1 eq_refl). destruct (f0 s1) as [[[s2 p2] i2]|e|x|]; cbn; try reflexivity.
  rewrite !map_app. reflexivity.
Qed.

Lemma drop_shift : forall a0 a, a = shRes shOut a0 -> drop_items a = shRes shOut (drop_items a0).
Proof. intros a0 a Ha. subst a. destruct a0 as [[[s1 p1] i1]|e|x|]; cbn; reflexivity. Qed.

Lemma bind_shift : forall a0 a (g0 g : out -> res out),
  a = shRes shOut a0 -> (forall o, a0 = Ok o -> g (shOut o) = shRes shOut (g0 o)) ->
  bind a g = shRes shOut (bind a0 g0).
Proof. intros a0 a g0 g Ha Hg. subst a. destruct a0 as [o|e|x|]; cbn; try reflexivity. apply Hg. reflexivity. Qed.

Lemma shift_plain : forall i, shift_instr dj (i, ONone) = (i, ONone).
Proof. intros. reflexivity. Qed.
Lemma shift_data : forall i n, shift_instr dj (i, OData n) = (i, OData n).
Proof. intros. reflexivity. Qed.
Lemma shift_jump : forall i n, jumping i = true -> shift_instr dj (i, ONum n) = (i, ONum (n + dj)).
Proof. intros i n H. unfold shift_instr, shift_operand. cbn [fst snd]. rewrite H. reflexivity. Qed.
Lemma shift_expr : forall i n, shift_instr dj (i, OExpr n) = (i, OExpr (n + dj)).
Proof. intros. reflexivity. Qed.

Lemma inl_nonempty : forall i0 t rj cx s s' ps its,
  inl i0 lit_ok rj t cx s = Ok (s', ps, its) -> cj s <> [] -> cj s' <> [].
Proof.
  intros i0 t rj cx s s' ps its H Hn. destruct (inl_ext i0 lit_ok _ _ _ _ _ _ _ H) as [a [b [c [_ [_ [Hc _]]]]]].
  rewrite Hc. destruct (cj s); [congruence | discriminate].
Qed.


Lemma ne_emit : forall s io m, cj s <> [] -> cj (emit s io m) <> [].
Proof. intros. exact H. Qed.
Lemma ne_new_jump : forall s x, cj (new_jump s x) <> [].
Proof. intros s x. cbn. destruct (cj s); discriminate. Qed.

Ltac ne_solve :=
  try match goal with H : cerr = Ok _ |- _ => discriminate H end;
  repeat match goal with
         | H : ret _ = Ok _ |- _ => apply ret_ok in H; destruct H as (? & ? & ?); subst
         | H : drop_items _ = Ok _ |- _ => apply drop_items_ok in H; destruct H as (? & ? & ?); subst
         end;
  repeat first [ assumption | apply ne_new_jump | apply ne_emit
               | eapply inl_nonempty; [ eassumption | ] ].

Ltac fin_eq Hjmp :=
  cbn [shRes shOut map shP shI p_tree p_containing p_jump p_end fst snd default_end];
  repeat first [ rewrite sh_emit | rewrite sh_new_hole by ne_solve
               | rewrite sh_new_join by (try ne_solve; rewrite ?il_emit; lia) ];
  cbn [shift_instr shift_operand fst snd jumping]; rewrite ?Hjmp;
  repeat first [ rewrite jl_emit | rewrite jl_new_jump | rewrite il_emit | rewrite il_new_jump
               | rewrite jl_sh | rewrite il_sh ];
  rewrite ?Nat.add_succ_l;
  unfold shP, shI, shift_instr; cbn [map p_tree p_containing p_jump p_end fst snd shift_operand jumping]; rewrite ?Hjmp;
  rewrite ?Nat.add_succ_l; try reflexivity.

(* states: fold the relocated state back into the form [shS _] *)
Ltac st_eq :=
  repeat first [ rewrite sh_emit | rewrite sh_new_hole by ne_solve ];
  cbn [shift_instr shift_operand fst snd jumping];
  repeat first [ rewrite jl_sh | rewrite il_sh ];
  try reflexivity.

Theorem inl_shift : forall t rj cx s s',
  s' = shS s -> cj s <> [] ->
  inl init lit_ok (rj + dj) t (shCx cx) s' = shRes shOut (inl init0 lit_ok rj t cx s).
Proof.
  induction t as [ix d l r IHl IHr] using tree_ind'.
  intros rj cx s s' Hs Hn. subst s'.
  cbn [inl]. cbv zeta. cbn [cx_containing cx_list cx_cond shCx].
  change (plain (cx_containing cx + dj)) with (shCx (plain (cx_containing cx))).
  change (mkCx (cx_containing cx + dj) (Some d) false) with (shCx (mkCx (cx_containing cx) (Some d) false)).
  change (mkCx (cx_containing cx + dj) None true) with (shCx (mkCx (cx_containing cx) None true)).
  destruct (kind_of d) eqn:Hk.
  all: destruct l as [lt|]; destruct r as [rt|].
  all: repeat match goal with
              | |- seq2 _ _ = shRes shOut (seq2 _ _) => apply seq2_shift; [ | intros ?s1 ?p1 ?i1 ?Hs1 ]
              | |- drop_items _ = shRes shOut (drop_items _) => apply drop_shift
              | |- context [if ?b then _ else _] => destruct b eqn:?
              | |- inl init lit_ok (_ + dj) ?a (shCx _) _ = shRes shOut (inl init0 lit_ok _ ?a _ _) =>
                first [ eapply IHl; [ reflexivity | st_eq | ne_solve ] | eapply IHr; [ reflexivity | st_eq | ne_solve ] ]
              | |- cerr = shRes shOut cerr => reflexivity
              | |- Err _ = shRes shOut (Err _) => reflexivity
              end.
  all: try solve [ ne_solve ].
  all: try solve [ unfold ret; cbn [shRes shOut map]; f_equal; f_equal; f_equal; symmetry; st_eq ].
  all: try (assert (Hjmp : jumping i = true)
             by (first [ eapply kind_logical_jumping; eassumption | eapply kind_jumpif_jumping; eassumption ])).
  all: try solve [ fin_eq Hjmp ].
  all: try solve [ cbn in Hs1; discriminate Hs1 ].
  all: try match goal with H : negb _ = false |- _ => cbn in H; discriminate H end.
  all: try match goal with H : negb _ = true |- _ => cbn in H; discriminate H end.
  (* else chains *)
  all: apply bind_shift;
    [ apply seq2_shift;
      [ eapply IHl; [ reflexivity | st_eq | ne_solve ]
      | intros s1 p1 i1 Hs1; eapply IHr; [ reflexivity | st_eq | ne_solve ] ]
    | intros [[s2 ps] items] Ho; cbn [shOut] ].
  all: try reflexivity.
  all: destruct items as [|it its]; cbn [map]; [ reflexivity | ].
  all: assert (Hne2 : cj s2 <> [])
    by (apply seq2_ok in Ho; destruct Ho as (sa & pa & ia & pb & ib & Ha & Hb & _ & _);
        eapply inl_nonempty; [ exact Hb | eapply inl_nonempty; [ exact Ha | exact Hn ] ]).
  all: assert (Hgrow : il init0 s2 <> 0)
    by (apply seq2_ok in Ho; destruct Ho as (sa & pa & ia & pb & ib & Ha & Hb & _ & Hi);
        pose proof (ext_il init0 _ _ (inl_ext init0 lit_ok _ _ _ _ _ _ _ Ha)) as E1;
        pose proof (ext_il init0 _ _ (inl_ext init0 lit_ok _ _ _ _ _ _ _ Hb)) as E2;
        pose proof (proj1 (inl_grow init0 lit_ok _ _ _ _ _ _ _ Ha)) as G1;
        pose proof (proj1 (inl_grow init0 lit_ok _ _ _ _ _ _ _ Hb)) as G2;
        assert (Hnn : ia ++ ib <> []) by (rewrite <- Hi; discriminate);
        apply app_not_nil in Hnn; destruct Hnn as [Hnn|Hnn];
        [ assert (il init0 s < il init0 sa) by auto | assert (il init0 sa < il init0 s2) by auto ]; lia).
  all: cbn [shRes shOut]; rewrite (sh_new_join s2 (il init0 s2) Hne2 Hgrow), il_sh, jl_sh.
  all: f_equal; f_equal; f_equal.
  all: rewrite map_app; f_equal.
  all: change (mkP (fst (shI it)) (cx_containing cx + dj) (snd (shI it)) [(I_JumpTo, ONum (jl init0 s2 + dj))]
               :: map (fun it0 : tree * nat => mkP (fst it0) (cx_containing cx + dj) (snd it0) [(I_JumpTo, ONum (jl init0 s2 + dj))]) (map shI its))
         with (map (fun it0 : tree * nat => mkP (fst it0) (cx_containing cx + dj) (snd it0) [(I_JumpTo, ONum (jl init0 s2 + dj))]) (map shI (it :: its)));
       change (mkP (fst it) (cx_containing cx) (snd it) [(I_JumpTo, ONum (jl init0 s2))]
               :: map (fun it0 : tree * nat => mkP (fst it0) (cx_containing cx) (snd it0) [(I_JumpTo, ONum (jl init0 s2))]) its)
         with (map (fun it0 : tree * nat => mkP (fst it0) (cx_containing cx) (snd it0) [(I_JumpTo, ONum (jl init0 s2))]) (it :: its));
       rewrite !map_map; apply map_ext; intros [a b]; reflexivity.
Qed.


(* ---- end instructions ---- *)
Lemma operand_eqb_shift_none : forall i o, operand_eqb (shift_operand dj i o) ONone = operand_eqb o ONone.
Proof. intros i o. destruct o; cbn; try reflexivity. destruct (jumping i); reflexivity. Qed.

Lemma instr_eqb_shift_end : forall li,
  instr_eqb (shift_instr dj li) (I_EndExpression, ONone) = instr_eqb li (I_EndExpression, ONone).
Proof.
  intros [i o]. unfold instr_eqb, shift_instr. cbn [fst snd]. rewrite operand_eqb_shift_none. reflexivity.
Qed.

Lemma last_instr_sh : forall s,
  last_instr init (shS s) =
  match ci s with [] => i_last_instr init | _ => option_map (shift_instr dj) (last_instr init0 s) end.
Proof.
  intros s. unfold last_instr, shS. cbn [ci]. rewrite <- map_rev.
  destruct (ci s) as [|c0 cs] eqn:E; [reflexivity|].
  destruct (rev (c0 :: cs)) as [|x xs] eqn:Er.
  - exfalso. apply (f_equal (@length _)) in Er. rewrite rev_length in Er. discriminate.
  - reflexivity.
Qed.

Lemma existsb_mapi : forall (f h : nat -> bool) (g : nat -> nat -> nat) l k,
  (forall k' x, k <= k' -> f (g k' x) = h x) -> existsb f (mapi_from k g l) = existsb h l.
Proof.
  intros f h g l. induction l as [|x l IH]; intros k H; [reflexivity|].
  cbn [mapi_from existsb]. rewrite (H k x (le_n k)). f_equal. apply IH. intros k' y Hk. apply H. lia.
Qed.

(* whether a jump entry names the end of the stream is the same before and after relocation *)
Lemma end_target_sh : forall s, (il init0 s = 0 -> nth_error (cj s) 0 = Some 0) ->
  existsb (Nat.eqb (il init (shS s))) (cj (shS s)) = existsb (Nat.eqb (il init0 s)) (cj s).
Proof.
  intros s H. rewrite il_sh. unfold shS. cbn [cj].
  destruct (Nat.eq_dec (il init0 s) 0) as [E|E].
  - specialize (H E). rewrite E. destruct (cj s) as [|x l]; [discriminate|]. cbn in H. inversion H; subst x.
    cbn [mapi_from existsb]. unfold shJ at 1. cbn. rewrite Nat.eqb_refl. reflexivity.
  - apply existsb_mapi. intros k x _. unfold shJ.
    destruct (Nat.eqb k 0).
    + destruct (Nat.eqb_spec (il init0 s) x); [subst; apply Nat.eqb_refl | apply Nat.eqb_neq; lia].
    + destruct (Nat.eqb_spec x 0).
      * subst x. transitivity false; [apply Nat.eqb_neq; lia | symmetry; apply Nat.eqb_neq; exact E].
      * destruct (Nat.eqb_spec (il init0 s) x); [subst; apply Nat.eqb_refl | apply Nat.eqb_neq; lia].
Qed.

Lemma finish_shift : forall s ends, ends_shape ends ->
  (il init0 s = 0 -> nth_error (cj s) 0 = Some 0) ->
  finish init (shS s) (map (shift_instr dj) ends) = shS (finish init0 s ends).
Proof.
  intros s ends [Hd|[[j Hd]|[j Hd]]] Htg; subst ends.
  - change (map (shift_instr dj) default_end) with default_end.
    unfold finish, default_end. cbn [fold_left]. rewrite last_instr_sh. rewrite (end_target_sh s Htg).
    destruct (ci s) as [|c0 cs] eqn:E.
    + unfold last_instr. rewrite E. cbn [rev]. cbn [init0 i_last_instr].
      destruct (i_last_instr init) as [li|]; [|rewrite sh_emit; reflexivity].
      destruct (instr_eqb li (I_EndExpression, ONone) && instruction_eqb (fst (I_EndExpression, ONone)) I_EndExpression
                && negb (existsb (Nat.eqb (il init0 s)) (cj s)));
        [reflexivity | rewrite sh_emit; reflexivity].
    + destruct (last_instr init0 s) as [li|]; cbn [option_map]; [|rewrite sh_emit; reflexivity].
      rewrite instr_eqb_shift_end.
      destruct (instr_eqb li (I_EndExpression, ONone) && instruction_eqb (fst (I_EndExpression, ONone)) I_EndExpression
                && negb (existsb (Nat.eqb (il init0 s)) (cj s)));
        [reflexivity | rewrite sh_emit; reflexivity].
  - cbn [map]. change (shift_instr dj (I_JumpTo, ONum j)) with (I_JumpTo, ONum (j + dj)).
    rewrite !finish_jump_g. rewrite sh_emit. reflexivity.
  - cbn [map]. change (shift_instr dj (I_JumpTo, ONum j)) with (I_JumpTo, ONum (j + dj)).
    change (shift_instr dj (I_Tis, ONone)) with (I_Tis, ONone).
    rewrite !finish_tis_jump_g. rewrite !sh_emit. reflexivity.
Qed.


(* ---- bodies ---- *)
Lemma inl_ends_shape : forall i0 t rj cx s s' ps its,
  inl i0 lit_ok rj t cx s = Ok (s', ps, its) -> Forall (fun p => ends_shape (p_end p)) ps.
Proof.
  intros i0. induction t as [ix d l r IHl IHr] using tree_ind'.
  intros rj cx s s' ps its H. cbn [inl] in H. cbv zeta in H.
  destruct (kind_of d) eqn:Hk.
  all: repeat inv_ok.
  all: repeat match goal with
              | H : inl _ _ _ _ _ _ = Ok (_, _, _) |- _ =>
                first [ apply (IHl _ eq_refl) in H | apply (IHr _ eq_refl) in H ]
              end.
  all: rewrite ?app_nil_r, ?app_nil_l.
  all: repeat rewrite Forall_app.
  all: repeat split; auto.
  all: try solve [ constructor ].
  all: try solve [ constructor; [| constructor ]; cbn [p_end];
                   first [ left; reflexivity | right; left; eexists; reflexivity | right; right; eexists; reflexivity ] ].
  change (Forall (fun p => ends_shape (p_end p))
            (map (fun it : tree * nat => mkP (fst it) (cx_containing cx) (snd it) [(I_JumpTo, ONum (jl i0 c))]) (p0 :: l1))).
  apply Forall_map. apply Forall_forall. intros x _. cbn [p_end]. right. left. eexists. reflexivity.
Qed.

Lemma run_body_mono : forall i0 fuel p s s',
  run_body i0 lit_ok fuel p s = Ok s' -> il i0 s <= il i0 s' /\ length (cj s) <= length (cj s').
Proof.
  intros i0. induction fuel as [|f IH]; intros p s s' H; [discriminate|].
  cbn [run_body] in H.
  apply bind_ok in H. destruct H as [s1 [Hp H]].
  apply bind_ok in H. destruct H as [[[s2 ps] its] [Hinl H]].
  destruct (patch_ok i0 _ _ _ _ Hp) as [_ [Hci [_ Hlen]]].
  destruct (inl_ext i0 lit_ok _ _ _ _ _ _ _ Hinl) as [a [b [c [Ha [_ [Hc _]]]]]].
  assert (E3 : il i0 s2 <= il i0 (finish i0 s2 (p_end p)) /\ cj (finish i0 s2 (p_end p)) = cj s2).
  { unfold finish. generalize (last_instr i0 s2). intros last. generalize (existsb (Nat.eqb (il i0 s2)) (cj s2)). intros tg.
    generalize (p_end p). intros ends.
    assert (G : forall acc, il i0 s2 <= il i0 acc -> cj acc = cj s2 ->
                il i0 s2 <= il i0 (fold_left (fun acc e => match last with
                   | Some li => if instr_eqb li e && instruction_eqb (fst e) I_EndExpression && negb tg then acc else emit acc e None
                   | None => emit acc e None end) ends acc) /\
                cj (fold_left (fun acc e => match last with
                   | Some li => if instr_eqb li e && instruction_eqb (fst e) I_EndExpression && negb tg then acc else emit acc e None
                   | None => emit acc e None end) ends acc) = cj s2).
    { induction ends as [|e ends IHe]; intros acc Hi Hcj; cbn [fold_left]; [auto|].
      destruct last as [li|]; [destruct (instr_eqb li e && instruction_eqb (fst e) I_EndExpression && negb tg)|];
        apply IHe; auto; rewrite ?il_emit; try lia. }
    apply G; auto. }
  destruct E3 as [E3 Hcj3].
  set (s3 := finish i0 s2 (p_end p)) in *.
  assert (G : forall l s0 s', fold_left (fun (acc : res cst) (q : pend) => do a <- acc; run_body i0 lit_ok f q a) l (Ok s0) = Ok s' ->
              il i0 s0 <= il i0 s' /\ length (cj s0) <= length (cj s')).
  { induction l as [|q l IHl]; intros s0 s0' Hf; cbn in Hf.
    - inversion Hf; subst. auto.
    - destruct (run_body i0 lit_ok f q s0) as [sq| | |] eqn:Eq.
      + destruct (IH _ _ _ Eq) as [A B]. destruct (IHl sq s0' Hf) as [C D]. split; lia.
      + exfalso. clear -Hf. induction l; cbn in Hf; [discriminate | auto].
      + exfalso. clear -Hf. induction l; cbn in Hf; [discriminate | auto].
      + exfalso. clear -Hf. induction l; cbn in Hf; [discriminate | auto]. }
  destruct (G (rev ps) s3 s' H) as [A B].
  unfold il in *. rewrite Hci in *. rewrite Ha, app_length in *. rewrite Hcj3, Hc, app_length in B. rewrite Hlen in *. split; lia.
Qed.


Definition pend_pre (s : cst) (p : pend) : Prop := 0 < p_jump p /\ ends_shape (p_end p).

Lemma fold_shift : forall f,
  (forall p s, cj s <> [] -> il init0 s <> 0 -> pend_pre s p ->
     run_body init lit_ok f (shP p) (shS s) = shRes shS (run_body init0 lit_ok f p s)) ->
  forall l s, cj s <> [] -> il init0 s <> 0 -> Forall (pend_pre s) l ->
    fold_left (fun (acc : res cst) (q : pend) => do a <- acc; run_body init lit_ok f q a) (map shP l) (Ok (shS s)) =
    shRes shS (fold_left (fun (acc : res cst) (q : pend) => do a <- acc; run_body init0 lit_ok f q a) l (Ok s)).
Proof.
  intros f Hrun. induction l as [|q l IHl]; intros s Hn Hil Hl; [reflexivity|].
  cbn [map fold_left bind]. inversion Hl as [|? ? Hq Hl']; subst.
  rewrite (Hrun q s Hn Hil Hq).
  destruct (run_body init0 lit_ok f q s) as [sq|e|x|] eqn:Eq; cbn [shRes].
  - destruct (run_body_mono init0 _ _ _ _ Eq) as [A B].
    apply IHl.
    + destruct (cj sq); [destruct (cj s); [congruence | cbn in B; lia] | discriminate].
    + lia.
    + eapply Forall_impl; [|exact Hl']. intros p Hp. exact Hp.
  - clear. induction (map shP l) as [|a m IH]; [|cbn; rewrite IH]; clear; induction l; cbn; auto.
  - clear. induction (map shP l) as [|a m IH]; [|cbn; rewrite IH]; clear; induction l; cbn; auto.
  - clear. induction (map shP l) as [|a m IH]; [|cbn; rewrite IH]; clear; induction l; cbn; auto.
Qed.



Lemma run_body_mono_finish : forall s ends,
  il init0 s <= il init0 (finish init0 s ends) /\ cj (finish init0 s ends) = cj s.
Proof.
  intros s ends. unfold finish. generalize (last_instr init0 s). intros last.
  generalize (existsb (Nat.eqb (il init0 s)) (cj s)). intros tg.
  assert (G : forall acc, il init0 s <= il init0 acc -> cj acc = cj s ->
              il init0 s <= il init0 (fold_left (fun acc e => match last with
                 | Some li => if instr_eqb li e && instruction_eqb (fst e) I_EndExpression && negb tg then acc else emit acc e None
                 | None => emit acc e None end) ends acc) /\
              cj (fold_left (fun acc e => match last with
                 | Some li => if instr_eqb li e && instruction_eqb (fst e) I_EndExpression && negb tg then acc else emit acc e None
                 | None => emit acc e None end) ends acc) = cj s).
  { induction ends as [|e ends IHe]; intros acc Hi Hcj; cbn [fold_left]; [auto|].
    destruct last as [li|]; [destruct (instr_eqb li e && instruction_eqb (fst e) I_EndExpression && negb tg)|];
      apply IHe; auto; rewrite ?il_emit; try lia. }
  apply G; auto.
Qed.

Lemma run_body_shift : forall fuel p s, cj s <> [] -> il init0 s <> 0 -> pend_pre s p ->
  run_body init lit_ok fuel (shP p) (shS s) = shRes shS (run_body init0 lit_ok fuel p s).
Proof.
  induction fuel as [|f IH]; intros p s Hn Hil [Hj Hshape]; [reflexivity|].
  cbn [run_body]. cbn [shP p_jump p_tree p_containing p_end].
  rewrite il_sh. rewrite (sh_patch s (p_jump p) (il init0 s) Hj Hil).
  destruct (patch init0 s (p_jump p) (il init0 s)) as [s1|e|x|] eqn:Ep; cbn [shRes bind]; try reflexivity.
  destruct (patch_ok init0 _ _ _ _ Ep) as [_ [Hci [_ Hlen]]].
  assert (Hn1 : cj s1 <> []) by (destruct (cj s1); [destruct (cj s); [congruence | discriminate] | discriminate]).
  change (plain (p_containing p + dj)) with (shCx (plain (p_containing p))).
  rewrite (inl_shift (p_tree p) (p_jump p) (plain (p_containing p)) s1 (shS s1) eq_refl Hn1).
  destruct (inl init0 lit_ok (p_jump p) (p_tree p) (plain (p_containing p)) s1) as [[[s2 ps] its]|e|x|] eqn:Ei; cbn [shRes shOut bind]; try reflexivity.
  rewrite (finish_shift s2 (p_end p) Hshape) by (intros E0; exfalso; pose proof (ext_il init0 _ _ (inl_ext init0 lit_ok _ _ _ _ _ _ _ Ei)); assert (il init0 s1 = il init0 s) by (unfold il; rewrite Hci; reflexivity); lia).
  rewrite <- map_rev.
  pose proof (inl_ext init0 lit_ok _ _ _ _ _ _ _ Ei) as E12.
  pose proof (ext_il init0 _ _ E12) as Eil.
  assert (Hn2 : cj s2 <> []) by (eapply inl_nonempty; eauto).
  destruct (run_body_mono_finish s2 (p_end p)) as [Hf1 Hf2].
  apply fold_shift.
  - exact IH.
  - rewrite Hf2. exact Hn2.
  - assert (il init0 s1 = il init0 s) by (unfold il; rewrite Hci; reflexivity). lia.
  - apply Forall_rev.
    pose proof (inl_ends_shape init0 _ _ _ _ _ _ _ Ei) as Hsh.
    destruct (inl_pend_range init0 lit_ok _ _ _ _ _ _ _ Ei) as [Hrng _].
    apply Forall_forall. intros q Hq. rewrite Forall_forall in Hsh, Hrng. split; [|apply Hsh; exact Hq].
    specialize (Hrng q Hq). assert (0 < jl init0 s1) by (unfold jl; destruct (cj s1); [congruence | cbn; lia]). lia.
Qed.


Definition shR (r : cst * nat) : cst * nat := (shS (fst r), snd r + dj).

(* relocation: the build into a data object holding [di] instructions and [dj]
   jump entries whose last instruction is [L] is the build into an object with
   empty tables and last instruction [L], relocated -- for EVERY tree *)
Theorem compile_shift : forall t,
  compile init lit_ok t = shRes shR (compile init0 lit_ok t).
Proof.
  intros t. unfold compile.
  set (s00 := mkC [] [] []).
  assert (H1 : new_jump s00 (il init s00) = shS (new_jump s00 (il init0 s00))).
  { unfold s00, il, init0. cbn. rewrite Nat.add_0_r. reflexivity. }
  rewrite H1. clear H1.
  set (s1 := new_jump s00 (il init0 s00)).
  assert (Hn1 : cj s1 <> []) by (unfold s1; apply ne_new_jump).
  change (i_jump_len init0) with 0.
  change (inl init lit_ok dj t (plain dj) (shS s1)) with (inl init lit_ok (0 + dj) t (shCx (plain 0)) (shS s1)).
  rewrite (inl_shift t 0 (plain 0) s1 (shS s1) eq_refl Hn1).
  destruct (inl init0 lit_ok 0 t (plain 0) s1) as [[[s2 ps] its]|e|x|] eqn:Ei; cbn [shRes shOut bind]; try reflexivity.
  change default_end with (map (shift_instr dj) default_end) at 1.
  rewrite (finish_shift s2 default_end (or_introl eq_refl)) by (intros _; destruct (inl_ext init0 lit_ok _ _ _ _ _ _ _ Ei) as [a0 [b0 [c0 [_ [_ [Hcj0 _]]]]]]; rewrite Hcj0; reflexivity).
  rewrite <- map_rev.
  pose proof (inl_ext init0 lit_ok _ _ _ _ _ _ _ Ei) as E12.
  assert (Hn2 : cj s2 <> []) by (eapply inl_nonempty; eauto).
  destruct (run_body_mono_finish s2 default_end) as [Hf1 Hf2].
  destruct ps as [|q ps'].
  - cbn [rev map fold_left bind shRes]. reflexivity.
  - assert (Hg : il init0 s1 < il init0 s2) by (apply (proj1 (inl_grow init0 lit_ok _ _ _ _ _ _ _ Ei)); left; discriminate).
    rewrite (fold_shift (size t) (run_body_shift (size t)) (rev (q :: ps')) (finish init0 s2 default_end)).
    + destruct (fold_left _ (rev (q :: ps')) (Ok (finish init0 s2 default_end))) as [s4|e|x|]; reflexivity.
    + rewrite Hf2. exact Hn2.
    + lia.
    + apply Forall_rev.
      pose proof (inl_ends_shape init0 _ _ _ _ _ _ _ Ei) as Hsh.
      destruct (inl_pend_range init0 lit_ok _ _ _ _ _ _ _ Ei) as [Hrng _].
      apply Forall_forall. intros p Hp. rewrite Forall_forall in Hsh, Hrng. split; [|apply Hsh; exact Hp].
      specialize (Hrng p Hp). assert (0 < jl init0 s1) by (unfold jl; destruct (cj s1); [congruence | cbn; lia]). lia.
Qed.

End Reloc.
