(* C13  Lexing is lossless, positions are exact, nothing is skipped.
   Only statements, [exact] and [Print Assumptions] live here.  [lex un ua s] is the
   model of compiler/src/lex/lexer.rs `lex` (Model/Lexer.v); [un]/[ua] are arbitrary
   classifications of the non-ASCII code points (char::is_numeric / is_alphanumeric),
   so every theorem holds for all of Unicode. *)
From Coq Require Import NArith List.
From GV Require Import Base.Result Gen.TokenTypes Gen.Tokens Model.Lexer Spec.LexSpec
  Proofs.C13.LexRun.
Import ListNotations.
Local Open Scope N_scope.

(* (a) whenever lex succeeds, the token texts concatenated in order are the input.
   In particular no character is silently dropped: a character that cannot start or
   continue a token makes lex fail. *)
Theorem C13_lossless : forall un ua s ts,
  lex un ua s = Ok ts -> concat (map tok_text ts) = s.
Proof. exact lex_lossless. Qed.
Print Assumptions C13_lossless.

(* (b) no token is empty *)
Theorem C13_no_empty_token : forall un ua s ts,
  lex un ua s = Ok ts -> Forall (fun t => tok_text t <> []) ts.
Proof. exact lex_no_empty_token. Qed.
Print Assumptions C13_no_empty_token.

(* lex never panics (the `text_column - 1` of the float/range split cannot underflow) *)
Theorem C13_lex_no_panic : forall un ua s, no_panic (lex un ua s).
Proof. exact lex_no_panic. Qed.
Print Assumptions C13_lex_no_panic.

(* ... and always returns: every call of next() consumes input or is one of the two
   end-of-input flushes, so the model's fuel (length + 3) is never exhausted *)
Theorem C13_lex_terminates : forall un ua s, terminates (lex un ua s).
Proof. exact lex_terminates. Qed.
Print Assumptions C13_lex_terminates.

(* non-vacuity: lex succeeds on inputs that exercise the repaired paths *)
Example C13_ex_runs : forall un ua,
  lex un ua [53; 32; 10; 10; 32; 54] =
  Ok [mkTok [53] TT_Number 0 0; mkTok [32; 10; 10] TT_Subexpression 0 1; mkTok [32] TT_Whitespace 2 0; mkTok [54] TT_Number 2 1].
Proof. intros. vm_compute. reflexivity. Qed.

(* a character that cannot start a token makes lex fail (`\ 5`), it is not skipped *)
Example C13_ex_backslash_fails : forall un ua, lex un ua [92; 32; 53] = Err E_InvalidStart.
Proof. intros. vm_compute. reflexivity. Qed.
