//! eq: run Equal and NotEqual on two value trees, on BOTH data implementations.
//!
//! Input line:  <left value> <right value>     (format: see ../valtree.rs; `#n=v` / `$n` share
//!              a sub-value or a whole operand between the two, `!v` builds v by another route)
//! Output line: <case>\tS=<eq><ne> <depths> B=<eq><ne> <depths>\t-
//!   <eq>,<ne>: T | F | U | ? (another type pushed) | E (Err) | P (panic) | B (could not build the operands)
//!   a letter is followed by `*` when the registers below the two operands were disturbed
//!   or the depth is not "operands popped, one result pushed";
//!   <depths> = d<with operands>:<after Equal>,<with operands>:<after NotEqual>
#[path = "../valtree.rs"]
mod valtree;
use garnish_lang_runtime::ops;
use garnish_verif_harness::*;
use valtree::*;

fn run_one<D: Store>(vals: &[V], negate: bool) -> (String, usize, usize) {
    let r = catch(|| {
        let mut d = D::fresh();
        let mut b = Builder::new();
        let l = match b.build(&mut d, &vals[0], false) {
            Ok(a) => a,
            Err(_) => return ("B".to_string(), 0, 0),
        };
        let r = match b.build(&mut d, &vals[1], false) {
            Ok(a) => a,
            Err(_) => return ("B".to_string(), 0, 0),
        };
        // three sentinels below the operands: a number, the left operand itself, a pair
        let s0 = d.add_number(12345.into()).expect("sentinel");
        let s2 = d.add_pair((s0, l)).expect("sentinel");
        d.push_register(s0).expect("push");
        d.push_register(l).expect("push");
        d.push_register(s2).expect("push");
        let base = d.get_register_len();
        d.push_register(l).expect("push");
        d.push_register(r).expect("push");
        let with_operands = d.get_register_len();
        let res = if negate { ops::not_equal(&mut d) } else { ops::equal(&mut d) };
        let after = d.get_register_len();
        match res {
            Err(_) => ("E".to_string(), with_operands, after),
            Ok(_) => {
                let top = if after > 0 { d.get_register(after - 1) } else { None };
                let mut s = match top {
                    Some(a) => show_result(&d, a),
                    None => "?".to_string(),
                };
                let below_ok = d.get_register(0) == Some(s0) && d.get_register(1) == Some(l) && d.get_register(2) == Some(s2);
                if after != base + 1 || !below_ok {
                    s.push('*');
                }
                (s, with_operands, after)
            }
        }
    });
    r.unwrap_or_else(|_| ("P".to_string(), 0, 0))
}

fn run_impl<D: Store>(vals: &[V]) -> String {
    let (e, ew, ea) = run_one::<D>(vals, false);
    let (n, nw, na) = run_one::<D>(vals, true);
    format!("{}={}{} d{}:{},{}:{}", D::NAME, e, n, ew, ea, nw, na)
}

fn main() {
    quiet_panics();
    for_each_line(|line| {
        let parsed = catch(|| parse_values(line));
        match parsed {
            Ok(vals) if vals.len() == 2 => {
                let s = run_impl::<garnish_lang_simple_data::SimpleGarnishData<garnish_lang_simple_data::NoCustom>>(&vals);
                let b = run_impl::<garnish_lang_simple_data::BasicGarnishData>(&vals);
                format!("{}\t{} {}\t-", line, s, b)
            }
            _ => format!("{}\tBADCASE\t-", line),
        }
    });
}
