(* Executable model of BasicGarnishData
     data/src/basic/storage.rs   StorageBlock, StorageSettings, next_size
     data/src/basic/internal.rs  push_to_block, reallocate_heap, get_from_*_ensure_index
     data/src/basic/basic.rs     new_with_settings, push_to_*_block, get_symbol_string, ...
     data/src/basic/search.rs    search_for_associative_item_index
     data/src/basic/garnish/garnish_impl.rs  the GarnishData methods
   One flat heap [list cell] cut into six blocks {start; cursor; size; settings}.
   Every Vec index / slice that can go out of range is an explicit [Panic].
   No proofs in this file. *)
From Coq Require Import NArith ZArith List Bool Arith.
From GV Require Import Base.Result Gen.Instr Model.StoreBase.
Import ListNotations.

(* enum BasicData<T> with T = () *)
Inductive cell : Type :=
| CUnit | CTrue | CFalse
| CType (t : data_type)
| CNumber (n : snum)
| CChar (c : N)
| CByte (b : N)
| CSymbol (s : N)
| CSymbolList (n : nat)
| CExpression (n : nat)
| CExternal (n : nat)
| CCharList (n : nat)
| CByteList (n : nat)
| CPair (a b : nat)
| CRange (a b : nat)
| CSlice (a b : nat)
| CPartial (a b : nat)
| CList (len assoc : nat)
| CConcatenation (a b : nat)
| CCustom
| CEmpty
| CUninitializedList (len count : nat)
| CListItem (i : nat)
| CAssociativeItem (s : N) (v : nat)
| CValue (prev v : nat)
| CValueRoot (v : nat)
| CRegister (prev v : nat)
| CRegisterRoot (v : nat)
| CInstructionWithData (i : instruction) (d : nat)
| CInstruction (i : instruction)
| CJumpPoint (n : nat)
| CFrame (f r : nat)
| CFrameIndex (f : nat)
| CFrameRegister (r : nat)
| CFrameRoot
| CCloneItem (n : nat)
| CCloneIndexMap (a b : nat).

(* BasicData::get_data_type *)
Definition cell_type (c : cell) : data_type :=
  match c with
  | CUnit => T_Unit | CTrue => T_True | CFalse => T_False
  | CType _ => T_Type | CNumber _ => T_Number | CChar _ => T_Char | CByte _ => T_Byte
  | CSymbol _ => T_Symbol | CSymbolList _ => T_SymbolList | CExpression _ => T_Expression
  | CExternal _ => T_External | CCharList _ => T_CharList | CByteList _ => T_ByteList
  | CPair _ _ => T_Pair | CRange _ _ => T_Range | CSlice _ _ => T_Slice | CPartial _ _ => T_Partial
  | CList _ _ => T_List | CConcatenation _ _ => T_Concatenation | CCustom => T_Custom
  | _ => T_Invalid
  end.

(* ---- storage.rs ---- *)
Inductive strategy : Type := FixedSize (k : nat) | Multiplicative (m : nat).
(* max_items: None = usize::MAX *)
Record settings : Type := mkSettings { initial_size : nat; max_items : option nat; strat : strategy }.
Record block : Type := mkBlock { b_start : nat; b_cursor : nat; b_size : nat; b_settings : settings }.

Definition default_settings : settings := mkSettings 10 None (FixedSize 10).
(* StorageBlock::new *)
Definition new_block (size : nat) (st : settings) : block := mkBlock 0 0 size st.

Definition next_size (b : block) : nat :=
  match strat (b_settings b) with
  | FixedSize k => b_size b + k
  | Multiplicative m => b_size b * m
  end.

(* the six blocks, in the order in which reallocate_heap lays them out *)
Inductive blk : Type := BInstr | BJump | BSym | BExpr | BData | BCustom.
Definition all_blk : list blk := [BInstr; BJump; BSym; BExpr; BData; BCustom].
Definition blk_eqb (a b : blk) : bool :=
  match a, b with
  | BInstr, BInstr | BJump, BJump | BSym, BSym | BExpr, BExpr | BData, BData | BCustom, BCustom => true
  | _, _ => false
  end.

Record basic : Type := mkBasic {
  heap : list cell;
  blk_instr : block; blk_jump : block; blk_sym : block; blk_expr : block; blk_data : block; blk_custom : block;
  cur_value : option nat; cur_register : option nat; cur_frame : option nat;
  ip : nat; retention : nat }.

Definition get_block (s : basic) (b : blk) : block :=
  match b with
  | BInstr => blk_instr s | BJump => blk_jump s | BSym => blk_sym s
  | BExpr => blk_expr s | BData => blk_data s | BCustom => blk_custom s
  end.

Definition set_block (s : basic) (b : blk) (x : block) : basic :=
  match b with
  | BInstr => mkBasic (heap s) x (blk_jump s) (blk_sym s) (blk_expr s) (blk_data s) (blk_custom s) (cur_value s) (cur_register s) (cur_frame s) (ip s) (retention s)
  | BJump => mkBasic (heap s) (blk_instr s) x (blk_sym s) (blk_expr s) (blk_data s) (blk_custom s) (cur_value s) (cur_register s) (cur_frame s) (ip s) (retention s)
  | BSym => mkBasic (heap s) (blk_instr s) (blk_jump s) x (blk_expr s) (blk_data s) (blk_custom s) (cur_value s) (cur_register s) (cur_frame s) (ip s) (retention s)
  | BExpr => mkBasic (heap s) (blk_instr s) (blk_jump s) (blk_sym s) x (blk_data s) (blk_custom s) (cur_value s) (cur_register s) (cur_frame s) (ip s) (retention s)
  | BData => mkBasic (heap s) (blk_instr s) (blk_jump s) (blk_sym s) (blk_expr s) x (blk_custom s) (cur_value s) (cur_register s) (cur_frame s) (ip s) (retention s)
  | BCustom => mkBasic (heap s) (blk_instr s) (blk_jump s) (blk_sym s) (blk_expr s) (blk_data s) x (cur_value s) (cur_register s) (cur_frame s) (ip s) (retention s)
  end.

Definition set_heap (s : basic) (h : list cell) : basic :=
  mkBasic h (blk_instr s) (blk_jump s) (blk_sym s) (blk_expr s) (blk_data s) (blk_custom s) (cur_value s) (cur_register s) (cur_frame s) (ip s) (retention s).
Definition set_cur_value (s : basic) (v : option nat) : basic :=
  mkBasic (heap s) (blk_instr s) (blk_jump s) (blk_sym s) (blk_expr s) (blk_data s) (blk_custom s) v (cur_register s) (cur_frame s) (ip s) (retention s).
Definition set_cur_register (s : basic) (v : option nat) : basic :=
  mkBasic (heap s) (blk_instr s) (blk_jump s) (blk_sym s) (blk_expr s) (blk_data s) (blk_custom s) (cur_value s) v (cur_frame s) (ip s) (retention s).
Definition set_cur_frame (s : basic) (v : option nat) : basic :=
  mkBasic (heap s) (blk_instr s) (blk_jump s) (blk_sym s) (blk_expr s) (blk_data s) (blk_custom s) (cur_value s) (cur_register s) v (ip s) (retention s).
Definition set_ip (s : basic) (v : nat) : basic :=
  mkBasic (heap s) (blk_instr s) (blk_jump s) (blk_sym s) (blk_expr s) (blk_data s) (blk_custom s) (cur_value s) (cur_register s) (cur_frame s) v (retention s).

Definition BM (A : Type) : Type := SM basic A.

(* ---- internal.rs ---- *)

(* new_x_size > self.x_block().settings.max_items() *)
Definition exceeds (n : nat) (m : option nat) : bool :=
  match m with Some k => k <? n | None => false end.

(* for i in 0..cursor { new_heap[dst + i] = self.data()[src + i].clone(); } *)
Fixpoint copy_loop (old : list cell) (src dst k : nat) (new : list cell) : res (list cell) :=
  match k with
  | O => Ok new
  | S k' =>
      match nth_error old src with
      | None => Panic P_copy_read
      | Some c =>
          match set_ix new dst c with
          | None => Panic P_copy_write
          | Some new' => copy_loop old (S src) (S dst) k' new'
          end
      end
  end.

(* the six "copy block; set start and size; advance current_block_start"
   paragraphs of reallocate_heap, in order.  [s0] holds the starts and
   cursors read before anything is changed, [old] is the heap still in place. *)
Fixpoint realloc_blocks (old : list cell) (s0 : basic) (new : blk -> nat) (bs : list blk)
         (cbs : nat) (nh : list cell) (s : basic) : res (list cell * basic) :=
  match bs with
  | [] => Ok (nh, s)
  | b :: rest =>
      let ob := get_block s0 b in
      do nh' <- copy_loop old (b_start ob) cbs (b_cursor ob) nh ;
      realloc_blocks old s0 new rest (cbs + new b) nh'
        (set_block s b (mkBlock cbs (b_cursor ob) (new b) (b_settings ob)))
  end.

Definition total_size (new : blk -> nat) : nat :=
  new BInstr + new BJump + new BSym + new BExpr + new BData + new BCustom.

Definition reallocate_heap (new : blk -> nat) : BM unit :=
  fun s =>
    if existsb (fun b => exceeds (new b) (max_items (b_settings (get_block s b)))) all_blk
    then Ok (s, Fail E_max_items)
    else
      match realloc_blocks (heap s) s new all_blk 0 (repeat CEmpty (total_size new)) s with
      | Ok (nh, s') => Ok (set_heap s' nh, Done tt)
      | Err e => Err e
      | Panic p => Panic p
      | OutOfFuel => OutOfFuel
      end.

(* push_to_block(heap, block, data) *)
Definition push_to_block (h : list cell) (b : block) (c : cell) : res (list cell * block * nat) :=
  let index := b_cursor b in
  match set_ix h (b_start b + index) c with
  | None => Panic P_push_index
  | Some h' => Ok (h', mkBlock (b_start b) (S index) (b_size b) (b_settings b), index)
  end.

(* ---- basic.rs: push_to_{instruction,jump_table,symbol_table,expression_symbol,data,custom_data}_block.
   The six Rust functions are the same text with the block names permuted;
   [b] selects which. *)
Definition sizes_with (s : basic) (b : blk) (n : nat) : blk -> nat :=
  fun b' => if blk_eqb b' b then n else b_size (get_block s b').

Definition grow_if_full (b : blk) : BM unit :=
  fun s =>
    if b_size (get_block s b) <=? b_cursor (get_block s b)
    then reallocate_heap (sizes_with s b (next_size (get_block s b))) s
    else Ok (s, Done tt).

Definition push_to (b : blk) (c : cell) : BM nat :=
  sdo _ <- grow_if_full b ;
  fun s =>
    match push_to_block (heap s) (get_block s b) c with
    | Ok (h', blk', index) => Ok (set_heap (set_block s b blk') h', Done index)
    | Err e => Err e
    | Panic p => Panic p
    | OutOfFuel => OutOfFuel
    end.

(* the comparator of the three sort_by calls, as [cmp a b <> Greater] *)
Definition assoc_le (a b : cell) : bool :=
  match a, b with
  | CAssociativeItem s1 _, CAssociativeItem s2 _ => N.leb s1 s2
  | CAssociativeItem _ _, _ => true
  | _, CAssociativeItem _ _ => false
  | _, _ => true
  end.

(* &mut self.data[a..b] ; sort_by *)
Definition sort_range (a b : nat) : BM unit :=
  fun s =>
    match slice_ix (heap s) a b with
    | None => Panic P_slice
    | Some sl => Ok (set_heap s (splice_ix (heap s) a b (stable_sort assoc_le sl)), Done tt)
    end.

(* push_to_symbol_table_block / push_to_expression_symbol_block *)
Definition push_assoc (b : blk) (sym : N) (v : nat) : BM unit :=
  sdo _ <- push_to b (CAssociativeItem sym v) ;
  fun s => sort_range (b_start (get_block s b)) (b_start (get_block s b) + b_cursor (get_block s b)) s.

Definition push_to_instruction_block (i : instruction) (d : option nat) : BM nat :=
  push_to BInstr (match d with Some x => CInstructionWithData i x | None => CInstruction i end).
Definition push_to_jump_table_block (n : nat) : BM nat := push_to BJump (CJumpPoint n).
Definition push_to_symbol_table_block := push_assoc BSym.
Definition push_to_expression_symbol_block := push_assoc BExpr.
Definition push_to_data_block (c : cell) : BM nat := push_to BData c.
Definition push_to_custom_data_block : BM nat := push_to BCustom CCustom.

(* new_with_settings *)
Definition new_with_settings (si sj ss se sd sc : settings) : res (basic * outcome unit) :=
  let nb st := new_block (initial_size st) st in
  let this := mkBasic [] (nb si) (nb sj) (nb ss) (nb se) (nb sd) (nb sc) None None None 0 0 in
  reallocate_heap (fun b => initial_size (b_settings (get_block this b))) this.

Definition new_default : res (basic * outcome unit) :=
  new_with_settings default_settings default_settings default_settings default_settings default_settings default_settings.

(* get_from_<block>_block_ensure_index: the bounds test against the cursor,
   then the unchecked Vec index *)
Definition get_from_block (b : blk) (index : nat) (s : basic) : res cell :=
  let bl := get_block s b in
  if b_cursor bl <=? index then Err E_index
  else match nth_error (heap s) (b_start bl + index) with
       | None => Panic P_get_index
       | Some c => Ok c
       end.

(* the _mut accessor followed by an assignment through the reference *)
Definition set_in_block (b : blk) (index : nat) (c : cell) : BM unit :=
  fun s =>
    let bl := get_block s b in
    if b_cursor bl <=? index then Ok (s, Fail E_index)
    else match set_ix (heap s) (b_start bl + index) c with
         | None => Panic P_get_index
         | Some h' => Ok (set_heap s h', Done tt)
         end.

Definition get_data (index : nat) : BM cell := sread (get_from_block BData index).
Definition set_data (index : nat) (c : cell) : BM unit := set_in_block BData index c.

Definition get_from_instruction_block_ensure_index (index : nat) (s : basic) : res (instruction * option nat) :=
  do c <- get_from_block BInstr index s ;
  match c with
  | CInstructionWithData i d => Ok (i, Some d)
  | CInstruction i => Ok (i, None)
  | _ => Err E_not_basic
  end.

Definition as_associative_item (c : cell) : res (N * nat) :=
  match c with CAssociativeItem s v => Ok (s, v) | _ => Err E_not_basic end.
Definition as_jump_point (c : cell) : res nat :=
  match c with CJumpPoint n => Ok n | _ => Err E_not_basic end.

Definition get_from_symbol_table_block_ensure_index (index : nat) (s : basic) : res (N * nat) :=
  do c <- get_from_block BSym index s ; as_associative_item c.
Definition get_from_jump_table_block_ensure_index (index : nat) (s : basic) : res nat :=
  do c <- get_from_block BJump index s ; as_jump_point c.
Definition get_from_custom_data_block_ensure_index (index : nat) (s : basic) : res unit :=
  do c <- get_from_block BCustom index s ;
  match c with CCustom => Ok tt | _ => Err E_not_type end.
Definition get_from_custom_data_block (index : nat) (s : basic) : res (option unit) :=
  match get_from_custom_data_block_ensure_index index s with
  | Ok u => Ok (Some u)
  | Err _ => Ok None
  | Panic p => Panic p
  | OutOfFuel => OutOfFuel
  end.

(* ---- search.rs ---- *)
(* while size > 1 { half = size / 2; mid = base + half; base = if items[mid].sym > search { base } else { mid }; size -= half } *)
Fixpoint search_loop (fuel : nat) (items : list cell) (sym : N) (base size : nat) : res nat :=
  match fuel with
  | O => OutOfFuel
  | S fuel' =>
      if size <=? 1 then Ok base
      else
        let half := size / 2 in
        let mid := base + half in
        match nth_error items mid with
        | None => Panic P_search_index
        | Some c =>
            do sv <- as_associative_item c ;
            let base' := if N.ltb sym (fst sv) then base else mid in
            search_loop fuel' items sym base' (size - half)
        end
  end.

Definition search_for_associative_item_index (items : list cell) (sym : N) : res (option nat) :=
  let size := length items in
  if size =? 0 then Ok None
  else
    do base <- search_loop (S size) items sym 0 size ;
    match nth_error items base with
    | None => Panic P_search_index
    | Some c =>
        do sv <- as_associative_item c ;
        if N.eqb (fst sv) sym then Ok (Some base) else Ok None
    end.

Definition search_for_associative_item (items : list cell) (sym : N) : res (option cell) :=
  do r <- search_for_associative_item_index items sym ;
  match r with
  | Some i => match nth_error items i with Some c => Ok (Some c) | None => Panic P_search_index end
  | None => Ok None
  end.

Definition block_slice (b : blk) (s : basic) : res (list cell) :=
  let bl := get_block s b in
  match slice_ix (heap s) (b_start bl) (b_start bl + b_cursor bl) with
  | None => Panic P_slice
  | Some l => Ok l
  end.

Definition as_char_list (c : cell) : res nat := match c with CCharList n => Ok n | _ => Err E_not_type end.
Definition as_char (c : cell) : res N := match c with CChar x => Ok x | _ => Err E_not_type end.

(* slice.iter().map(|d| d.as_char().unwrap()).collect() *)
Fixpoint unwrap_chars (l : list cell) : res (list N) :=
  match l with
  | [] => Ok []
  | CChar c :: r => do r' <- unwrap_chars r ; Ok (c :: r')
  | _ :: _ => Panic P_unwrap
  end.

Definition get_symbol_string (sym : N) (s : basic) : res (option (list N)) :=
  do sl <- block_slice BSym s ;
  do it <- search_for_associative_item sl sym ;
  match it with
  | None => Ok None
  | Some item =>
      do sv <- as_associative_item item ;
      let index := snd sv in
      do c <- get_from_block BData index s ;
      do len <- as_char_list c ;
      let start := b_start (blk_data s) + index + 1 in
      match slice_ix (heap s) start (start + len) with
      | None => Panic P_slice
      | Some cells => do cs <- unwrap_chars cells ; Ok (Some cs)
      end
  end.

Definition get_symbol_expression (sym : N) (s : basic) : res (option nat) :=
  do sl <- block_slice BExpr s ;
  do it <- search_for_associative_item sl sym ;
  match it with
  | None => Ok None
  | Some item => do sv <- as_associative_item item ; Ok (Some (snd sv))
  end.

(* ---- basic.rs: add_string / add_byte_slice.  [len] is what the Rust passes
   as the header (str::len() is the UTF-8 byte length) ---- *)
Definition push_all (cs : list cell) : BM unit := sfor cs (fun c => sdo _ <- push_to_data_block c ; sret tt).

Definition add_string (byte_len : nat) (chars : list N) : BM nat :=
  sdo start <- push_to_data_block (CCharList byte_len) ;
  sdo _ <- push_all (map CChar chars) ;
  sret start.

Definition add_byte_slice (bytes : list N) : BM nat :=
  sdo start <- push_to_data_block (CByteList (length bytes)) ;
  sdo _ <- push_all (map CByte bytes) ;
  sret start.

(* ---- garnish_impl.rs ---- *)
Definition get_data_len (s : basic) : nat := b_cursor (blk_data s).

Definition push_value_stack (addr : nat) : BM unit :=
  sdo s <- sget ;
  sdo index <- (match cur_value s with
                | Some previous => push_to_data_block (CValue previous addr)
                | None => push_to_data_block (CValueRoot addr)
                end) ;
  fun s' => Ok (set_cur_value s' (Some index), Done tt).

(* pop_value_stack returns Option, errors become None *)
Definition pop_value_stack : BM (option nat) :=
  fun s =>
    match cur_value s with
    | None => Ok (s, Done None)
    | Some index =>
        match get_from_block BData index s with
        | Ok (CValue previous value) => Ok (set_cur_value s (Some previous), Done (Some value))
        | Ok (CValueRoot value) => Ok (set_cur_value s None, Done (Some value))
        | Ok _ => Ok (s, Done None)
        | Err _ => Ok (s, Done None)
        | Panic p => Panic p
        | OutOfFuel => OutOfFuel
        end
    end.

Definition get_current_value (s : basic) : res (option nat) :=
  match cur_value s with
  | None => Ok None
  | Some index =>
      match get_from_block BData index s with
      | Ok (CValue _ value) => Ok (Some value)
      | Ok (CValueRoot value) => Ok (Some value)
      | Ok _ => Ok None
      | Err _ => Ok None
      | Panic p => Panic p
      | OutOfFuel => OutOfFuel
      end
  end.

(* *get_current_value_mut()? = v ; [Done false] when it returns None *)
Definition set_current_value (v : nat) : BM bool :=
  fun s =>
    match cur_value s with
    | None => Ok (s, Done false)
    | Some index =>
        match get_from_block BData index s with
        | Ok (CValue previous _) =>
            match set_data index (CValue previous v) s with
            | Ok (s', Done _) => Ok (s', Done true)
            | Ok (s', Fail _) => Ok (s', Done false)
            | Err e => Err e | Panic p => Panic p | OutOfFuel => OutOfFuel
            end
        | Ok (CValueRoot _) =>
            match set_data index (CValueRoot v) s with
            | Ok (s', Done _) => Ok (s', Done true)
            | Ok (s', Fail _) => Ok (s', Done false)
            | Err e => Err e | Panic p => Panic p | OutOfFuel => OutOfFuel
            end
        | Ok _ => Ok (s, Done false)
        | Err _ => Ok (s, Done false)
        | Panic p => Panic p
        | OutOfFuel => OutOfFuel
        end
    end.

Definition get_data_type (addr : nat) (s : basic) : res data_type :=
  do c <- get_from_block BData addr s ; Ok (cell_type c).

Definition get_number (addr : nat) (s : basic) : res snum :=
  do c <- get_from_block BData addr s ; match c with CNumber n => Ok n | _ => Err E_not_type end.
Definition get_type (addr : nat) (s : basic) : res data_type :=
  do c <- get_from_block BData addr s ; match c with CType t => Ok t | _ => Err E_not_type end.
Definition get_char (addr : nat) (s : basic) : res N :=
  do c <- get_from_block BData addr s ; as_char c.
Definition get_byte (addr : nat) (s : basic) : res N :=
  do c <- get_from_block BData addr s ; match c with CByte b => Ok b | _ => Err E_not_type end.
Definition get_symbol (addr : nat) (s : basic) : res N :=
  do c <- get_from_block BData addr s ; match c with CSymbol x => Ok x | _ => Err E_not_type end.
Definition get_expression (addr : nat) (s : basic) : res nat :=
  do c <- get_from_block BData addr s ; match c with CExpression x => Ok x | _ => Err E_not_type end.
Definition get_external (addr : nat) (s : basic) : res nat :=
  do c <- get_from_block BData addr s ; match c with CExternal x => Ok x | _ => Err E_not_type end.
Definition get_pair (addr : nat) (s : basic) : res (nat * nat) :=
  do c <- get_from_block BData addr s ; match c with CPair a b => Ok (a, b) | _ => Err E_not_type end.
Definition get_concatenation (addr : nat) (s : basic) : res (nat * nat) :=
  do c <- get_from_block BData addr s ; match c with CConcatenation a b => Ok (a, b) | _ => Err E_not_type end.
Definition get_range (addr : nat) (s : basic) : res (nat * nat) :=
  do c <- get_from_block BData addr s ; match c with CRange a b => Ok (a, b) | _ => Err E_not_type end.
Definition get_slice (addr : nat) (s : basic) : res (nat * nat) :=
  do c <- get_from_block BData addr s ; match c with CSlice a b => Ok (a, b) | _ => Err E_not_type end.
Definition get_partial (addr : nat) (s : basic) : res (nat * nat) :=
  do c <- get_from_block BData addr s ; match c with CPartial a b => Ok (a, b) | _ => Err E_not_type end.

Definition as_list (c : cell) : res (nat * nat) :=
  match c with CList len assoc => Ok (len, assoc) | _ => Err E_not_type end.

Definition get_list_len (addr : nat) (s : basic) : res nat :=
  do c <- get_from_block BData addr s ; do la <- as_list c ; Ok (fst la).

(* item_index = SimpleNumber::Integer(z): a negative index is Ok(None); otherwise
   index = usize::from(item_index) and an index >= len is Err(InvalidListItemIndex) *)
Definition get_list_item (list_addr : nat) (z : Z) (s : basic) : res (option nat) :=
  do c <- get_from_block BData list_addr s ;
  do la <- as_list c ;
  if (z <? 0)%Z then Ok None
  else
    let index := usize_of_int z in
    if fst la <=? index then Err E_list
    else
      do it <- get_from_block BData (list_addr + 1 + index) s ;
      match it with CListItem i => Ok (Some i) | _ => Err E_not_basic end.

Definition get_list_item_with_symbol (list_index : nat) (sym : N) (s : basic) : res (option nat) :=
  do c <- get_from_block BData list_index s ;
  do la <- as_list c ;
  let association_start := b_start (blk_data s) + list_index + fst la + 1 in
  match slice_ix (heap s) association_start (association_start + snd la) with
  | None => Panic P_slice
  | Some sl =>
      do it <- search_for_associative_item sl sym ;
      match it with
      | Some item => do sv <- as_associative_item item ; Ok (Some (snd sv))
      | None => Ok None
      end
  end.

Definition get_char_list_len (addr : nat) (s : basic) : res nat :=
  do c <- get_from_block BData addr s ; as_char_list c.
Definition get_char_list_item (addr index : nat) (s : basic) : res (option N) :=
  do c <- get_from_block BData addr s ;
  do len <- as_char_list c ;
  if len <=? index then Ok None
  else do it <- get_from_block BData (addr + 1 + index) s ; do ch <- as_char it ; Ok (Some ch).

Definition as_byte_list (c : cell) : res nat := match c with CByteList n => Ok n | _ => Err E_not_type end.
Definition get_byte_list_len (addr : nat) (s : basic) : res nat :=
  do c <- get_from_block BData addr s ; as_byte_list c.
Definition get_byte_list_item (addr index : nat) (s : basic) : res (option N) :=
  do c <- get_from_block BData addr s ;
  do len <- as_byte_list c ;
  if len <=? index then Ok None
  else do it <- get_from_block BData (addr + 1 + index) s ;
       match it with CByte b => Ok (Some b) | _ => Err E_not_type end.

Definition as_symbol_list (c : cell) : res nat := match c with CSymbolList n => Ok n | _ => Err E_not_type end.
Definition get_symbol_list_len (addr : nat) (s : basic) : res nat :=
  do c <- get_from_block BData addr s ; as_symbol_list c.
(* inl symbol / inr number *)
Definition get_symbol_list_item (addr index : nat) (s : basic) : res (option (N + snum)) :=
  do c <- get_from_block BData addr s ;
  do len <- as_symbol_list c ;
  if len <=? index then Ok None
  else do it <- get_from_block BData (addr + 1 + index) s ;
       match it with
       | CSymbol x => Ok (Some (inl x))
       | CNumber n => Ok (Some (inr n))
       | _ => Err E_not_type
       end.

(* get_list_item_iter with extents 0..max: the ListItem cells list_index+1 .. list_index+len *)
Fixpoint list_items_of (cells : list cell) : res (list nat) :=
  match cells with
  | [] => Ok []
  | CListItem i :: r => do r' <- list_items_of r ; Ok (i :: r')
  | _ :: _ => Err E_list
  end.
Definition get_list_item_iter_all (list_index : nat) (s : basic) : res (list nat) :=
  do c <- get_from_block BData list_index s ;
  do la <- as_list c ;
  let start := b_start (blk_data s) + list_index + 1 in
  match slice_ix (heap s) start (start + fst la) with
  | None => Panic P_slice
  | Some cells => list_items_of cells
  end.

Definition add_unit : BM nat := push_to_data_block CUnit.
Definition add_true : BM nat := push_to_data_block CTrue.
Definition add_false : BM nat := push_to_data_block CFalse.
Definition add_number (n : snum) : BM nat := push_to_data_block (CNumber n).
Definition add_type (t : data_type) : BM nat := push_to_data_block (CType t).
Definition add_char (c : N) : BM nat := push_to_data_block (CChar c).
Definition add_byte (b : N) : BM nat := push_to_data_block (CByte b).
Definition add_symbol (x : N) : BM nat := push_to_data_block (CSymbol x).
Definition add_expression (x : nat) : BM nat := push_to_data_block (CExpression x).
Definition add_external (x : nat) : BM nat := push_to_data_block (CExternal x).
Definition add_pair (a b : nat) : BM nat := push_to_data_block (CPair a b).
Definition add_concatenation (a b : nat) : BM nat := push_to_data_block (CConcatenation a b).
Definition add_range (a b : nat) : BM nat := push_to_data_block (CRange a b).
Definition add_slice (a b : nat) : BM nat := push_to_data_block (CSlice a b).
Definition add_partial (a b : nat) : BM nat := push_to_data_block (CPartial a b).

Definition start_list (len : nat) : BM nat :=
  sdo list_index <- push_to_data_block (CUninitializedList len 0) ;
  sdo _ <- srepeat (len * 2) (sdo _ <- push_to_data_block CEmpty ; sret tt) ;
  sret list_index.

Definition add_to_list (list_index item_index : nat) : BM nat :=
  sdo h <- get_data list_index ;
  match h with
  | CUninitializedList len count =>
      if len <=? count then sfail E_list
      else
        let current_index := list_index + 1 + count in
        sdo _ <- set_data list_index (CUninitializedList len (S count)) ;
        sdo _ <- set_data current_index (CListItem item_index) ;
        sdo it <- get_data item_index ;
        match it with
        | CPair lft rgt =>
            sdo l <- get_data lft ;
            match l with
            | CSymbol sym =>
                sdo _ <- set_data (current_index + len) (CAssociativeItem sym rgt) ;
                sret list_index
            | _ => sret list_index
            end
        | _ => sret list_index
        end
  | _ => sfail E_not_basic
  end.

Definition is_empty_cell (c : cell) : bool := match c with CEmpty => true | _ => false end.

Definition end_list (list_index : nat) : BM nat :=
  sdo h <- get_data list_index ;
  match h with
  | CUninitializedList len count =>
      if count <? len then sfail E_list
      else
        sdo s <- sget ;
        let start := b_start (blk_data s) + list_index + 1 + len in
        match slice_ix (heap s) start (start + len) with
        | None => spanic P_slice
        | Some sl =>
            let associations_count := length (filter (fun c => negb (is_empty_cell c)) sl) in
            sdo _ <- sort_range start (start + len) ;
            sdo _ <- set_data list_index (CList len associations_count) ;
            sret list_index
        end
  | _ => sfail E_not_basic
  end.

(* the chain walk of get_register_len / get_register; the Rust loops would not
   terminate on a cyclic chain, hence the fuel *)
Fixpoint register_chain (fuel : nat) (current : option nat) (s : basic) : res (list nat) :=
  match current with
  | None => Ok []
  | Some index =>
      match fuel with
      | O => OutOfFuel
      | S fuel' =>
          match get_from_block BData index s with
          | Ok (CRegister previous value) => do r <- register_chain fuel' (Some previous) s ; Ok (value :: r)
          | Ok (CRegisterRoot value) => Ok [value]
          | Ok _ => Ok []
          | Err _ => Ok []
          | Panic p => Panic p
          | OutOfFuel => OutOfFuel
          end
      end
  end.

Definition chain_fuel (s : basic) : nat := S (b_cursor (blk_data s)).

(* values from the newest register to the oldest *)
Definition registers_rev (s : basic) : res (list nat) := register_chain (chain_fuel s) (cur_register s) s.
Definition get_register_len (s : basic) : res nat := do l <- registers_rev s ; Ok (length l).
Definition get_register (index : nat) (s : basic) : res (option nat) :=
  do l <- registers_rev s ; Ok (nth_error (rev l) index).

Definition push_register (addr : nat) : BM unit :=
  sdo s <- sget ;
  sdo index <- (match cur_register s with
                | Some previous => push_to_data_block (CRegister previous addr)
                | None => push_to_data_block (CRegisterRoot addr)
                end) ;
  fun s' => Ok (set_cur_register s' (Some index), Done tt).

Definition pop_register : BM (option nat) :=
  fun s =>
    match cur_register s with
    | None => Ok (s, Done None)
    | Some index =>
        match get_from_block BData index s with
        | Ok (CRegister previous value) => Ok (set_cur_register s (Some previous), Done (Some value))
        | Ok (CRegisterRoot value) => Ok (set_cur_register s None, Done (Some value))
        | Ok _ => Ok (s, Fail E_not_basic)
        | Err e => Ok (s, Fail e)
        | Panic p => Panic p
        | OutOfFuel => OutOfFuel
        end
    end.

Definition get_instruction_len (s : basic) : nat := b_cursor (blk_instr s).
Definition get_instruction (addr : nat) (s : basic) : res (option (instruction * option nat)) :=
  match get_from_instruction_block_ensure_index addr s with
  | Ok x => Ok (Some x)
  | Err _ => Ok None
  | Panic p => Panic p
  | OutOfFuel => OutOfFuel
  end.
Definition get_jump_table_len (s : basic) : nat := b_cursor (blk_jump s).
Definition get_from_jump_table (index : nat) (s : basic) : res (option nat) :=
  match get_from_jump_table_block_ensure_index index s with
  | Ok x => Ok (Some x)
  | Err _ => Ok None
  | Panic p => Panic p
  | OutOfFuel => OutOfFuel
  end.
(* *get_from_jump_table_mut(index)? = v *)
Definition set_jump_table (index v : nat) : BM bool :=
  fun s =>
    match get_from_jump_table_block_ensure_index index s with
    | Ok _ =>
        match set_in_block BJump index (CJumpPoint v) s with
        | Ok (s', Done _) => Ok (s', Done true)
        | Ok (s', Fail _) => Ok (s', Done false)
        | Err e => Err e | Panic p => Panic p | OutOfFuel => OutOfFuel
        end
    | Err _ => Ok (s, Done false)
    | Panic p => Panic p
    | OutOfFuel => OutOfFuel
    end.

Definition push_frame (index : nat) : BM unit :=
  sdo _ <- push_to_data_block (CJumpPoint index) ;
  sdo s <- sget ;
  let frame_data :=
    match cur_frame s, cur_register s with
    | Some frame, Some register => CFrame frame register
    | Some frame, None => CFrameIndex frame
    | None, Some register => CFrameRegister register
    | None, None => CFrameRoot
    end in
  sdo frame_index <- push_to_data_block frame_data ;
  fun s' => Ok (set_cur_frame s' (Some frame_index), Done tt).

Definition pop_frame : BM (option nat) :=
  fun s =>
    match cur_frame s with
    | None => Ok (s, Done None)
    | Some index =>
        match index with
        | O => Panic P_sub_underflow
        | S im1 =>
            match (do c <- get_from_block BData im1 s ; as_jump_point c) with
            | Err e => Ok (s, Fail e)
            | Panic p => Panic p
            | OutOfFuel => OutOfFuel
            | Ok return_index =>
                match get_from_block BData index s with
                | Err e => Ok (s, Fail e)
                | Panic p => Panic p
                | OutOfFuel => OutOfFuel
                | Ok data =>
                    let upd prev reg := Ok (set_cur_register (set_cur_frame s prev) reg, Done (Some return_index)) in
                    match data with
                    | CFrame previous register => upd (Some previous) (Some register)
                    | CFrameIndex previous => upd (Some previous) None
                    | CFrameRegister register => upd None (Some register)
                    | CFrameRoot => upd None None
                    | _ => Ok (s, Fail E_not_basic)
                    end
                end
            end
        end
    end.

(* parse_add_symbol: [sym] is DataFactory::parse_symbol(from) (an oracle, the
   SipHash of the name), [byte_len] is from.len(), [chars] is from.chars() *)
Definition parse_add_symbol (sym : N) (byte_len : nat) (chars : list N) : BM nat :=
  sdo symbol_index <- push_to_data_block (CSymbol sym) ;
  sdo list_index <- push_to_data_block (CCharList byte_len) ;
  sdo _ <- push_all (map CChar chars) ;
  sdo _ <- push_to_symbol_table_block sym list_index ;
  sret symbol_index.
