(* C04  An accepted program accounts for every token, in order.
   Only statements, [exact] and [Print Assumptions] live here. *)
From Coq Require Import List Arith Bool NArith.
From GV Require Import Base.Result Gen.TokenTypes Gen.Defs Model.Parser Model.BuilderWL Spec.TreeShape
  Proofs.C03.Bounded Proofs.C03.Bounded4 Proofs.C04.Bounded Proofs.C04.Shape Proofs.C04.Validated.
Import ListNotations.

(* UNBOUNDED, for every token list: whenever parse accepts, the node links it returns
   form a tree.  [well_linked ns root]: there is a set of marked nodes containing the root
   such that every child index of a marked node exists, names that node as its parent and
   is itself marked, and every unmarked node is a dropped separator.  (parse validates its
   result with validate_tree, mirrored from parser.rs; the proof is the depth-first-search
   invariant of that validation.) *)
Theorem C04_accepted_parse_is_tree : forall (toks : list token_type) root ns,
  parse toks = Ok (root, ns) -> ns <> [] -> well_linked ns root.
Proof. exact parse_accepts_only_trees. Qed.
Print Assumptions C04_accepted_parse_is_tree.

(* ... and no node is shared: two marked nodes never have the same child *)
Theorem C04_no_shared_child : forall ns root, well_linked ns root ->
  forall v, (forall i, marked v i -> children_ok ns v i) ->
  forall i j c, marked v i -> marked v j -> child ns i c -> child ns j c -> i = j.
Proof. exact no_shared_child. Qed.
Print Assumptions C04_no_shared_child.

(* what the boolean checker establishes, as Props: the root has no parent, the
   in-order walk from the root visits no node twice, child and parent links agree at
   every node it visits, and whatever it does not visit is a dropped separator *)
Theorem C04_checker_sound : forall ns root, ns <> [] -> proper_tree_b ns root = true ->
  (exists rn, nth_error ns root = Some rn /\ n_parent rn = None) /\
  exists o, inorder ns root = Some o /\ NoDup o /\
            (forall i, In i o -> links_agree_at ns i) /\
            (forall i n, nth_error ns i = Some n -> In i o \/ is_separator_node n = true).
Proof. exact proper_tree_b_sound. Qed.
Print Assumptions C04_checker_sound.

(* every token sequence of length <= 3 over ALL token types that parse and build
   accept: proper tree, tokens in source order, every value/operator node attributed *)
Theorem C04_bounded_3 : forall toks : list token_type, length toks <= 3 -> c04_ok toks = true.
Proof. exact c04_bounded_3. Qed.
Print Assumptions C04_bounded_3.

(* length 4 over the representative alphabet *)
Theorem C04_bounded_4_rep : forall toks : list token_type,
  length toks = 4 -> (forall t, In t toks -> In t rep_alphabet) -> c04_ok toks = true.
Proof. intros toks Hl Hin. exact (proj2 (pipeline_bounded_4_rep toks Hl Hin)). Qed.
Print Assumptions C04_bounded_4_rep.

(* parse validates its own result (validate_tree in parser.rs, mirrored in the model), so a
   node graph that is not a tree is reported as a syntax error; what used to be known finding
   C04-K1 (`[ ] -- 5`: the expression after a side-effect block was detached) is now rejected *)
Example C04_former_K1_rejected :
  parse [TT_StartSideEffect; TT_EndSideEffect; TT_Opposite; TT_Number] = Err E_malformed.
Proof. vm_compute. reflexivity. Qed.

(* full statement (not proved for unbounded length) *)
Definition C04_full_statement : Prop :=
  forall toks : list token_type, c04_ok toks = true.
