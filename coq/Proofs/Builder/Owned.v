(* What the bodies and arms registered by inline compilation own: the index
   sets of the registered subtrees are pairwise disjoint, lie strictly below the
   node that registered them, and the subtrees are subtrees of the node array. *)
From Coq Require Import List Arith Bool NArith Lia.
From GV Require Import Base.Result Gen.TokenTypes Gen.Defs Gen.Instr Model.Parser Model.BuilderWL Model.Compile
  Proofs.C05.InlBase Proofs.Builder.TreeAt.
Import ListNotations.

Definition proot (p : pend) : nat := t_ix (p_tree p).
Definition iroot (it : tree * nat) : nat := t_ix (fst it).
Definition owned (ps : list pend) (its : list (tree * nat)) : list nat :=
  flat_map (fun p => indices (p_tree p)) ps ++ flat_map (fun it => indices (fst it)) its.

Definition cnt (l : list nat) (x : nat) : nat := count_occ Nat.eq_dec l x.

Lemma cnt_app : forall a b x, cnt (a ++ b) x = cnt a x + cnt b x.
Proof. intros. apply count_occ_app. Qed.
Lemma cnt_pos_in : forall l x, 0 < cnt l x -> In x l.
Proof. intros l x H. apply (count_occ_In Nat.eq_dec). exact H. Qed.
Lemma cnt_notin : forall l x, ~ In x l -> cnt l x = 0.
Proof. intros l x H. apply (count_occ_not_In Nat.eq_dec). exact H. Qed.
Lemma cnt_nodup : forall l, NoDup l -> forall x, cnt l x <= 1.
Proof. intros l H. apply (NoDup_count_occ Nat.eq_dec). exact H. Qed.
Lemma nodup_cnt : forall l, (forall x, cnt l x <= 1) -> NoDup l.
Proof. intros l H. apply (NoDup_count_occ Nat.eq_dec). exact H. Qed.

Lemma owned_app : forall p1 p2 i1 i2 x,
  cnt (owned (p1 ++ p2) (i1 ++ i2)) x = cnt (owned p1 i1) x + cnt (owned p2 i2) x.
Proof. intros. unfold owned. rewrite !flat_map_app, !cnt_app. lia. Qed.

Lemma flat_map_items : forall c e (its : list (tree * nat)),
  flat_map (fun p : pend => indices (p_tree p)) (map (fun it : tree * nat => mkP (fst it) c (snd it) e) its)
  = flat_map (fun it : tree * nat => indices (fst it)) its.
Proof. intros c e its. induction its as [|it its IH]; [reflexivity|]. cbn. rewrite IH. reflexivity. Qed.

Lemma owned_items : forall ps c e (its : list (tree * nat)) x,
  cnt (owned (ps ++ map (fun it => mkP (fst it) c (snd it) e) its) []) x = cnt (owned ps its) x.
Proof.
  intros. unfold owned. rewrite flat_map_app, flat_map_items, !cnt_app. cbn [flat_map]. unfold cnt at 3. cbn. lia.
Qed.

Lemma owned_in_app : forall p1 p2 i1 i2 x,
  In x (owned (p1 ++ p2) (i1 ++ i2)) <-> In x (owned p1 i1) \/ In x (owned p2 i2).
Proof. intros. unfold owned. rewrite !flat_map_app, !in_app_iff. tauto. Qed.

Lemma owned_in_items : forall ps c e (its : list (tree * nat)) x,
  In x (owned (ps ++ map (fun it => mkP (fst it) c (snd it) e) its) []) <-> In x (owned ps its).
Proof.
  intros. unfold owned. rewrite flat_map_app, flat_map_items, !in_app_iff. cbn [flat_map In]. tauto.
Qed.

Lemma In_tl : forall A (x : A) l, In x (tl l) -> In x l.
Proof. intros A x [|y l] H; [exact H | right; exact H]. Qed.

Section Roots.
Variable nodes : list pnode.
Variable init : binit.
Variable lit_ok : nat -> bool.

Definition P_own (t : tree) : Prop :=
  tree_at nodes t -> NoDup (indices t) ->
  forall rj cx s s' ps its, inl init lit_ok rj t cx s = Ok (s', ps, its) ->
    (forall x, cnt (owned ps its) x <= 1) /\
    (forall x, In x (owned ps its) -> In x (tl (indices t))) /\
    Forall (fun p => tree_at nodes (p_tree p)) ps /\
    Forall (fun it => tree_at nodes (fst it)) its.

Theorem inl_owned : forall t, P_own t.
Proof.
  induction t as [ix d l r IHl IHr] using tree_ind'.
  intros Hat Hnd rj cx s s' ps its H.
  destruct Hat as [_ [Hal Har]].
  destruct (nodup_node _ _ _ _ Hnd) as [N1 [N2 [N3 [N4 N5]]]].
  cbn [inl] in H. cbv zeta in H.
  destruct (kind_of d) eqn:Hk.
  all: repeat inv_ok.
  all: cbn [oindices] in *.
  all: repeat match goal with
              | Hi : inl _ _ _ ?a _ _ = Ok _, IH : forall x, Some ?a = Some x -> P_own x,
                Ha : tree_at nodes ?a, Hn : NoDup (indices ?a) |- _ =>
                let A := fresh "A" in let B := fresh "B" in let C := fresh "C" in let D := fresh "D" in
                destruct (IH a eq_refl Ha Hn _ _ _ _ _ _ Hi) as [A [B [C D]]]; clear Hi
              end.
  all: try match goal with
           | Hi : ?a :: ?l = _ ++ _ |- context [?h :: map ?F ?l] =>
             change (h :: map F l) with (map F (a :: l)); rewrite Hi
           end.
  all: refine (conj _ (conj _ (conj _ _))).
  (* trees *)
  all: try solve [ rewrite ?app_nil_r; cbn [app]; repeat (apply Forall_app; split);
                   first [ assumption | apply Forall_nil
                         | apply Forall_cons; [cbn [p_tree fst]; assumption | apply Forall_nil]
                         | apply Forall_map; eapply Forall_impl; [|eassumption]; cbn [p_tree]; auto ] ].
  (* inclusion *)
  all: try solve [
    let x := fresh "x" in let Hx := fresh "Hx" in
    intros x Hx; cbn [indices tl]; rewrite ?app_nil_r in Hx; cbn [app] in Hx;
    rewrite ?owned_in_items in Hx; rewrite ?owned_in_app in Hx;
    unfold owned in Hx; rewrite ?flat_map_app in Hx; cbn [flat_map p_tree fst] in Hx; rewrite ?app_nil_r, ?in_app_iff in Hx; cbn [In] in Hx;
    rewrite ?in_app_iff;
    repeat match goal with
           | B : forall y, In y (owned ?p ?i) -> In y (tl (indices ?a)) |- _ =>
             let B' := fresh "B" in
             assert (B' := fun H => In_tl _ _ _ (B x H)); clear B;
             unfold owned in B'; rewrite ?in_app_iff in B'
           end;
    tauto ].
  (* every index is owned at most once *)
  all: try solve [
    let x := fresh "x" in intros x;
    rewrite ?app_nil_r; cbn [app];
    rewrite ?owned_items; rewrite ?owned_app;
    unfold owned; rewrite ?flat_map_app; cbn [flat_map p_tree fst]; rewrite ?app_nil_r, ?cnt_app;
    repeat match goal with
           | B : forall y, In y (owned ?p ?i) -> In y (tl (indices ?a)), A : forall y, cnt (owned ?p ?i) y <= 1 |- _ =>
             let Z := fresh "Z" in let A' := fresh "A" in
             assert (Z : ~ In x (indices a) -> cnt (owned p i) x = 0)
               by (let Hc := fresh in let Hi := fresh in intros Hc; apply cnt_notin; intros Hi; apply Hc, In_tl, B, Hi);
             assert (A' := A x); clear A B;
             unfold owned in Z, A'; rewrite ?cnt_app in Z, A'
           end;
    repeat match goal with
           | N : NoDup (indices ?rt) |- _ =>
             pose proof (cnt_nodup _ N x);
             pose proof (cnt_notin (indices rt) x);
             clear N
           end;
    change (cnt [] x) with 0;
    repeat match goal with
           | N5 : forall y, In y (indices ?a) -> ~ In y (indices ?b) |- _ =>
             destruct (in_dec Nat.eq_dec x (indices a)); destruct (in_dec Nat.eq_dec x (indices b));
             try (exfalso; eapply N5; eassumption); clear N5
           end;
    repeat match goal with
           | Z : ~ In x ?l -> _, n : ~ In x ?l |- _ => specialize (Z n)
           end;
    lia ].
  apply Forall_app. split; [apply Forall_app; split; assumption|].
  apply Forall_map. cbn [p_tree]. apply Forall_app. split; assumption.
Qed.
End Roots.
