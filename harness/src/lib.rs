//! Shared helpers for the correspondence harness binaries.
use std::io::{self, BufRead, Write};
use std::panic::{self, AssertUnwindSafe};

/// Silence the default panic hook: panics are caught per case and reported as PANIC.
pub fn quiet_panics() {
    panic::set_hook(Box::new(|_| {}));
}

pub fn catch<T, F: FnOnce() -> T>(f: F) -> Result<T, ()> {
    panic::catch_unwind(AssertUnwindSafe(f)).map_err(|_| ())
}

/// Read case lines from stdin, write `f(line)` per line to stdout.
pub fn for_each_line<F: FnMut(&str) -> String>(mut f: F) {
    let stdin = io::stdin();
    let stdout = io::stdout();
    let mut out = io::BufWriter::new(stdout.lock());
    for line in stdin.lock().lines() {
        let line = line.expect("read");
        if line.is_empty() {
            continue;
        }
        let r = f(&line);
        writeln!(out, "{}", r).expect("write");
    }
    out.flush().expect("flush");
}

pub fn hex_i64(v: i64) -> String {
    if v < 0 { format!("-{:x}", (v as i128).unsigned_abs()) } else { format!("{:x}", v) }
}

pub fn parse_hex_i64(s: &str) -> i64 {
    if let Some(r) = s.strip_prefix('-') {
        -(i128::from_str_radix(r, 16).expect("hex") ) as i64
    } else {
        i64::from_str_radix(s, 16).expect("hex")
    }
}
