//! list: C16 harness.  Builds a list from item specifications on BasicGarnishData /
//! SimpleGarnishData twice -- directly (start_list/add_to_list/end_list) and through the
//! runtime (`ops::make_list` on registers) -- and reads it back through get_list_len,
//! get_list_item, get_list_item_iter, get_list_item_with_symbol and through the Access and
//! Apply operations; optionally concatenates it with a second list.
//!
//! Case line:   <impl> | <items> | <query symbols> | <items of the second list or ->
//!   impl   B | S
//!   item   n<int> number | t<dotted hex cps or -> text | s<hex> symbol | k<hex>=<int> pair keyed by a symbol
//!          | p<int>=<int> pair keyed by a number | l<count> nested list of numbers | u unit
//!   query symbols: hex u64, space separated (or -)
//! Output:  <case>\tA@<addr>{...} B@<addr>{...} [C1@..{..} C2@..{..}]\t<oracle>
//!   in {...}:  len=<n|err> items=<k:r,...> iter=<r,...|err> sym=<hex:r,...> acc=<key:r,...> app=<key:r,...>
//!   r = tree of the value | none | err | PANIC ; keys of acc/app: i<int> or y<hex>
//!   oracle (S): the intern-table hash of every constant:  N<num>=<hex> S<hex>=<hex> T<cps>=<hex>
#[path = "../storeview.rs"]
mod storeview;

use garnish_lang_runtime::ops;
use garnish_lang_simple_data::{BasicGarnishData, NoCustom, NoOpCompanion, ReallocationStrategy, SimpleData, SimpleGarnishData, SimpleNumber, StorageSettings};
use garnish_lang_traits::helpers::{iterate_concatenation_mut, iterate_rev_concatenation_mut};
use garnish_lang_traits::{Extents, GarnishData, TypeConstants};
use garnish_verif_harness::*;
use std::collections::hash_map::DefaultHasher;
use std::hash::{Hash, Hasher};
use storeview::*;

const DEPTH: usize = 3;

fn cache_hash(v: &SimpleData) -> u64 {
    let mut h = DefaultHasher::new();
    v.hash(&mut h);
    v.get_data_type().hash(&mut h);
    h.finish()
}

struct Orc {
    on: bool,
    entries: Vec<String>,
}

impl Orc {
    fn num(&mut self, n: SimpleNumber) {
        if self.on {
            let e = format!("N{}={:x}", show_num(n), cache_hash(&SimpleData::Number(n)));
            if !self.entries.contains(&e) {
                self.entries.push(e);
            }
        }
    }
    fn sym(&mut self, s: u64) {
        if self.on {
            let e = format!("S{:x}={:x}", s, cache_hash(&SimpleData::Symbol(s)));
            if !self.entries.contains(&e) {
                self.entries.push(e);
            }
        }
    }
    fn text(&mut self, t: &str, enc: &str) {
        if self.on {
            let e = format!("T{}={:x}", enc, cache_hash(&SimpleData::CharList(t.to_string())));
            if !self.entries.contains(&e) {
                self.entries.push(e);
            }
        }
    }
}

trait Store: GarnishData<Size = usize, Number = SimpleNumber, Char = char, Byte = u8, Symbol = u64> {
    fn add_text(&mut self, s: &str) -> Result<usize, Self::Error>;
}

impl Store for BasicGarnishData<(), NoOpCompanion> {
    fn add_text(&mut self, s: &str) -> Result<usize, Self::Error> {
        self.add_string(s)
    }
}

impl Store for SimpleGarnishData<NoCustom> {
    fn add_text(&mut self, s: &str) -> Result<usize, Self::Error> {
        self.start_char_list()?;
        for c in s.chars() {
            self.add_to_char_list(c)?;
        }
        self.end_char_list()
    }
}

fn build_direct<D: Store>(d: &mut D, items: &[usize]) -> Result<usize, D::Error> {
    let mut l = d.start_list(items.len())?;
    for a in items {
        l = d.add_to_list(l, *a)?;
    }
    d.end_list(l)
}

fn make_item<D: Store>(d: &mut D, spec: &str, orc: &mut Orc) -> Result<usize, D::Error> {
    let body = &spec[1..];
    match spec.as_bytes()[0] {
        b'n' => {
            let n = SimpleNumber::Integer(body.parse::<i32>().expect("int"));
            orc.num(n);
            d.add_number(n)
        }
        b't' => {
            let s: String = parse_dotted_hex(body).into_iter().map(|c| char::from_u32(c as u32).expect("char")).collect();
            orc.text(&s, body);
            d.add_text(&s)
        }
        b's' => {
            let s = u64::from_str_radix(body, 16).expect("hex");
            orc.sym(s);
            d.add_symbol(s)
        }
        b'k' => {
            let (k, v) = body.split_once('=').expect("k=v");
            let s = u64::from_str_radix(k, 16).expect("hex");
            let n = SimpleNumber::Integer(v.parse::<i32>().expect("int"));
            orc.sym(s);
            orc.num(n);
            let ka = d.add_symbol(s)?;
            let va = d.add_number(n)?;
            d.add_pair((ka, va))
        }
        b'p' => {
            let (k, v) = body.split_once('=').expect("k=v");
            let kn = SimpleNumber::Integer(k.parse::<i32>().expect("int"));
            let n = SimpleNumber::Integer(v.parse::<i32>().expect("int"));
            orc.num(kn);
            orc.num(n);
            let ka = d.add_number(kn)?;
            let va = d.add_number(n)?;
            d.add_pair((ka, va))
        }
        b'l' => {
            let count: usize = body.parse().expect("count");
            let mut its = vec![];
            for i in 0..count {
                let n = SimpleNumber::Integer(i as i32);
                orc.num(n);
                its.push(d.add_number(n)?);
            }
            build_direct(d, &its)
        }
        b'u' => d.add_unit(),
        _ => panic!("bad item {}", spec),
    }
}

fn show<E>(d: &impl Store, r: Result<Option<usize>, E>) -> String {
    match r {
        Ok(Some(a)) => tree(d, a, DEPTH),
        Ok(None) => "none".to_string(),
        Err(_) => "err".to_string(),
    }
}

/// push left and key, run the operation, pop the answer
fn via_op<D: Store>(d: &mut D, left: usize, key: usize, apply: bool) -> String {
    let before = d.get_register_len();
    if d.push_register(left).is_err() || d.push_register(key).is_err() {
        return "err".to_string();
    }
    let r = if apply { ops::apply(d).map(|_| ()) } else { ops::access(d).map(|_| ()) };
    let out = match r {
        Err(_) => "err".to_string(),
        Ok(()) => match d.pop_register() {
            Ok(Some(a)) => tree(d, a, DEPTH),
            Ok(None) => "none".to_string(),
            Err(_) => "err".to_string(),
        },
    };
    // leave the register stack as it was
    while d.get_register_len() > before {
        if d.pop_register().is_err() {
            break;
        }
    }
    out
}

fn queries<D: Store>(d: &mut D, addr: usize, n_hint: i32, syms: &[u64], is_list: bool, orc: &mut Orc) -> String {
    let mut parts: Vec<String> = vec![];
    if is_list {
        parts.push(format!(
            "len={}",
            match d.get_list_len(addr) {
                Ok(n) => format!("{}", n),
                Err(_) => "err".to_string(),
            }
        ));
        let items: Vec<String> = (-1..=n_hint + 1).map(|k| format!("{}:{}", k, show(d, d.get_list_item(addr, SimpleNumber::Integer(k))))).collect();
        parts.push(format!("items={}", items.join(",")));
        let it = match d.get_list_item_iter(addr, Extents::new(SimpleNumber::zero(), SimpleNumber::max_value())) {
            Ok(iter) => {
                let v: Vec<usize> = iter.collect();
                v.iter().map(|a| tree(d, *a, DEPTH)).collect::<Vec<String>>().join(",")
            }
            Err(_) => "err".to_string(),
        };
        parts.push(format!("iter={}", it));
        let sy: Vec<String> = syms.iter().map(|s| format!("{:x}:{}", s, show(d, d.get_list_item_with_symbol(addr, *s)))).collect();
        parts.push(format!("sym={}", sy.join(",")));
    } else {
        // the order in which the runtime helper visits the items, forwards and in reverse
        for (name, rev) in [("iter", false), ("riter", true)] {
            let mut seen: Vec<(SimpleNumber, usize)> = vec![];
            let r = if rev {
                iterate_rev_concatenation_mut(d, addr, |_, i, a| {
                    seen.push((i, a));
                    Ok(None)
                })
            } else {
                iterate_concatenation_mut(d, addr, |_, i, a| {
                    seen.push((i, a));
                    Ok(None)
                })
            };
            let txt = match r {
                Ok((_, total)) => format!(
                    "{}/{}",
                    seen.iter().map(|(i, a)| format!("{}:{}", show_num(*i), tree(d, *a, DEPTH))).collect::<Vec<String>>().join(","),
                    total
                ),
                Err(_) => "err".to_string(),
            };
            parts.push(format!("{}={}", name, txt));
        }
    }
    for (name, apply) in [("acc", false), ("app", true)] {
        if apply && !is_list {
            continue;
        }
        let mut out: Vec<String> = vec![];
        for k in -2..=n_hint + 1 {
            let n = SimpleNumber::Integer(k);
            orc.num(n);
            let r = match d.add_number(n) {
                Ok(ka) => via_op(d, addr, ka, apply),
                Err(_) => "err".to_string(),
            };
            out.push(format!("i{}:{}", k, r));
        }
        for s in syms {
            orc.sym(*s);
            let r = match d.add_symbol(*s) {
                Ok(ka) => via_op(d, addr, ka, apply),
                Err(_) => "err".to_string(),
            };
            out.push(format!("y{:x}:{}", s, r));
        }
        parts.push(format!("{}={}", name, out.join(",")));
    }
    parts.join(" ")
}

fn run_case<D: Store>(d: &mut D, items: &[&str], syms: &[u64], items2: Option<Vec<&str>>, orc: &mut Orc) -> String {
    let mut out: Vec<String> = vec![];
    let mut addrs = vec![];
    for it in items {
        match make_item(d, it, orc) {
            Ok(a) => addrs.push(a),
            Err(_) => return "ITEMERR".to_string(),
        }
    }
    let n = addrs.len() as i32;
    // A: the data interface directly
    let la = match build_direct(d, &addrs) {
        Ok(a) => a,
        Err(_) => return "BUILDERR".to_string(),
    };
    out.push(format!("A@{}{{{}}}", la, queries(d, la, n, syms, true, orc)));
    // B: the MakeList operation of the runtime
    let mut ok = true;
    for a in &addrs {
        ok &= d.push_register(*a).is_ok();
    }
    let lb = if ok && ops::make_list(d, addrs.len()).is_ok() {
        match d.pop_register() {
            Ok(Some(a)) => Some(a),
            _ => None,
        }
    } else {
        None
    };
    match lb {
        Some(lb) => out.push(format!("B@{}{{{}}}", lb, queries(d, lb, n, syms, true, orc))),
        None => out.push("B@err".to_string()),
    }
    if let Some(items2) = items2 {
        let mut addrs2 = vec![];
        for it in &items2 {
            match make_item(d, it, orc) {
                Ok(a) => addrs2.push(a),
                Err(_) => return "ITEMERR".to_string(),
            }
        }
        let l2 = match build_direct(d, &addrs2) {
            Ok(a) => a,
            Err(_) => return "BUILDERR".to_string(),
        };
        let total = n + addrs2.len() as i32;
        match d.add_concatenation(la, l2) {
            Ok(c1) => {
                out.push(format!("C1@{}{{{}}}", c1, queries(d, c1, total, syms, false, orc)));
                // a nested concatenation with a single value on the right
                let x = if addrs.is_empty() { d.add_unit() } else { Ok(addrs[0]) };
                if let Ok(x) = x {
                    if let Ok(c2) = d.add_concatenation(c1, x) {
                        out.push(format!("C2@{}{{{}}}", c2, queries(d, c2, total + 1, syms, false, orc)));
                    }
                }
            }
            Err(_) => out.push("C1@err".to_string()),
        }
    }
    out.join(" ")
}

fn main() {
    quiet_panics();
    for_each_line(|line| {
        let secs: Vec<&str> = line.split(" | ").collect();
        let toks = |s: &str| -> Vec<String> { if s == "-" || s.is_empty() { vec![] } else { s.split(' ').map(|x| x.to_string()).collect() } };
        let items = toks(secs[1]);
        let items: Vec<&str> = items.iter().map(|s| s.as_str()).collect();
        let syms: Vec<u64> = toks(secs[2]).iter().map(|s| u64::from_str_radix(s, 16).expect("hex")).collect();
        let items2s = if secs.len() > 3 && secs[3] != "-" { Some(toks(secs[3])) } else { None };
        let items2: Option<Vec<&str>> = items2s.as_ref().map(|v| v.iter().map(|s| s.as_str()).collect());
        let mut orc = Orc { on: secs[0] == "S", entries: vec![] };
        let res = catch(|| match secs[0] {
            "B" => {
                // a roomy data block: growth is C15's subject, and fewer reallocations keep the model run fast
                let small = StorageSettings::new(16, usize::MAX, ReallocationStrategy::FixedSize(16));
                let big = StorageSettings::new(2048, usize::MAX, ReallocationStrategy::FixedSize(2048));
                let mut d = BasicGarnishData::<(), NoOpCompanion>::new_with_settings(small.clone(), small.clone(), small.clone(), small.clone(), big, small, NoOpCompanion::new()).expect("new");
                run_case(&mut d, &items, &syms, items2.clone(), &mut orc)
            }
            "S" => {
                let mut d = SimpleGarnishData::new();
                run_case(&mut d, &items, &syms, items2.clone(), &mut orc)
            }
            _ => panic!("bad impl"),
        });
        let res = res.unwrap_or_else(|_| "PANIC".to_string());
        let o = if orc.entries.is_empty() { "-".to_string() } else { orc.entries.join(" ") };
        format!("{}\t{}\t{}", line, res, o)
    });
}
