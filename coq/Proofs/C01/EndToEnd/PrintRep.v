(* (a3)+(b) What the PARSER MODEL makes of the printed tokens: through C02
   ([pratt_parse]: wherever the reference parser is defined, parse accepts and
   its node array denotes an index-carrying tree whose erasure is the reference
   tree) the printed tokens of an AST of the fragment parse to a tree [Tn]
   with [rep e 0 Tn].  The reference tree forgets one thing the builder reads:
   an identifier directly right of the access operator is stored as a
   Property.  That is recovered by an invariant of the spine machine
   (Spec/Chains.v): an atom is stored as Property exactly when the innermost
   open frame is an access operator ([pfix]). *)
From Coq Require Import ZArith NArith List Bool Arith Lia.
From GV Require Import Base.Result Gen.TokenTypes Gen.Defs Model.Parser Model.Compile Spec.RefTable Spec.Pratt Spec.Chains
  Spec.Ast Spec.Printer Spec.Fragment Proofs.C02.Denote Proofs.C02.Full
  Proofs.Builder.PrattBridge
  Proofs.C01.EndToEnd.PrintItems Proofs.C01.EndToEnd.PrintClimb.
Import ListNotations.

(* ---- nothing is trimmed from printed tokens ---- *)
Lemma ttoks_first lvl : forall e, efrag lvl e = true -> exists t r, ttoks e = t :: r /\ is_trim t = false.
Proof.
  induction e; intros F; try discriminate F; cbn [efrag] in F;
    repeat (apply andb_true_iff in F; let G := fresh "G" in destruct F as [F G]).
  - exists (fst (lit_tok l)), []. split; [reflexivity|]. destruct l; reflexivity.
  - exists TT_Value, []. split; reflexivity.
  - exists TT_Identifier, []. split; reflexivity.
  - destruct (is_prefix o) eqn:Ho.
    + rewrite (ttoks_pre _ _ Ho). eexists _, _. split; [reflexivity|]. destruct o; try discriminate Ho; reflexivity.
    + rewrite (ttoks_suf _ _ Ho). destruct (IHe F) as (t & r & -> & Ht). eexists _, _. split; [reflexivity|exact Ht].
  - rewrite (ttoks_binary (EBin o e1 e2) _ _ _ eq_refl). destruct (IHe1 F) as (t & r & -> & Ht). eexists _, _. split; [reflexivity|exact Ht].
  - rewrite (ttoks_binary (EAnd e1 e2) _ _ _ eq_refl). destruct (IHe1 ltac:(assumption)) as (t & r & -> & Ht). eexists _, _. split; [reflexivity|exact Ht].
  - rewrite (ttoks_binary (EOr e1 e2) _ _ _ eq_refl). destruct (IHe1 ltac:(assumption)) as (t & r & -> & Ht). eexists _, _. split; [reflexivity|exact Ht].
  - destruct k.
    + rewrite ttoks_space. destruct (IHe1 ltac:(assumption)) as (t & r & -> & Ht). eexists _, _. split; [reflexivity|exact Ht].
    + rewrite (ttoks_binary (EList Comma e1 e2) _ _ _ eq_refl). destruct (IHe1 ltac:(assumption)) as (t & r & -> & Ht). eexists _, _. split; [reflexivity|exact Ht].
  - rewrite ttoks_group. eexists _, _. split; reflexivity.
  - rewrite (ttoks_binary (ECond neg e1 e2) _ _ _ eq_refl). destruct (IHe1 ltac:(assumption)) as (t & r & -> & Ht). eexists _, _. split; [reflexivity|exact Ht].
  - rewrite (ttoks_binary (EElse e1 e2) _ _ _ eq_refl). destruct (IHe1 ltac:(assumption)) as (t & r & -> & Ht). eexists _, _. split; [reflexivity|exact Ht].
  - destruct s; [|discriminate]. rewrite (ttoks_binary (ESeq Semi e1 e2) _ _ _ eq_refl). destruct (IHe1 ltac:(assumption)) as (t & r & -> & Ht). eexists _, _. split; [reflexivity|exact Ht].
  - rewrite ttoks_nested. eexists _, _. split; reflexivity.
  - rewrite ttoks_reapply. eexists _, _. split; reflexivity.
Qed.

Lemma ttoks_last lvl : forall e, efrag lvl e = true -> exists r t, ttoks e = r ++ [t] /\ is_trim t = false.
Proof.
  assert (snoc : forall (a : list token_type) x b y, exists c, a ++ x :: b ++ [y] = c ++ [y]).
  { intros a x b y. exists (a ++ x :: b). rewrite <- app_assoc. reflexivity. }
  induction e; intros F; try discriminate F; cbn [efrag] in F;
    repeat (apply andb_true_iff in F; let G := fresh "G" in destruct F as [F G]).
  - exists [], (fst (lit_tok l)). split; [reflexivity|]. destruct l; reflexivity.
  - exists [], TT_Value. split; reflexivity.
  - exists [], TT_Identifier. split; reflexivity.
  - destruct (is_prefix o) eqn:Ho.
    + rewrite (ttoks_pre _ _ Ho). destruct (IHe F) as (r & t & -> & Ht). exists (unop_tt o :: W :: r), t. split; [reflexivity|exact Ht].
    + rewrite (ttoks_suf _ _ Ho). exists (ttoks e ++ [W]), (unop_tt o). split; [rewrite <- app_assoc; reflexivity|].
      destruct o; try discriminate Ho; reflexivity.
  - rewrite (ttoks_binary (EBin o e1 e2) _ _ _ eq_refl). destruct (IHe2 ltac:(assumption)) as (r & t & -> & Ht).
    exists (ttoks e1 ++ W :: binop_tt o :: W :: r), t. split; [rewrite <- app_assoc; reflexivity|exact Ht].
  - rewrite (ttoks_binary (EAnd e1 e2) _ _ _ eq_refl). destruct (IHe2 ltac:(assumption)) as (r & t & -> & Ht).
    exists (ttoks e1 ++ W :: TT_And :: W :: r), t. split; [rewrite <- app_assoc; reflexivity|exact Ht].
  - rewrite (ttoks_binary (EOr e1 e2) _ _ _ eq_refl). destruct (IHe2 ltac:(assumption)) as (r & t & -> & Ht).
    exists (ttoks e1 ++ W :: TT_Or :: W :: r), t. split; [rewrite <- app_assoc; reflexivity|exact Ht].
  - destruct k.
    + rewrite ttoks_space. destruct (IHe2 ltac:(assumption)) as (r & t & -> & Ht).
      exists (ttoks e1 ++ W :: r), t. split; [rewrite <- app_assoc; reflexivity|exact Ht].
    + rewrite (ttoks_binary (EList Comma e1 e2) _ _ _ eq_refl). destruct (IHe2 ltac:(assumption)) as (r & t & -> & Ht).
      exists (ttoks e1 ++ W :: TT_Comma :: W :: r), t. split; [rewrite <- app_assoc; reflexivity|exact Ht].
  - rewrite ttoks_group. exists (TT_StartGroup :: ttoks e), TT_EndGroup. split; reflexivity.
  - rewrite (ttoks_binary (ECond neg e1 e2) _ _ _ eq_refl). destruct (IHe2 ltac:(assumption)) as (r & t & -> & Ht).
    exists (ttoks e1 ++ W :: cond_tt neg :: W :: r), t. split; [rewrite <- app_assoc; reflexivity|exact Ht].
  - rewrite (ttoks_binary (EElse e1 e2) _ _ _ eq_refl). destruct (IHe2 ltac:(assumption)) as (r & t & -> & Ht).
    exists (ttoks e1 ++ W :: TT_ElseJump :: W :: r), t. split; [rewrite <- app_assoc; reflexivity|exact Ht].
  - destruct s; [|discriminate]. rewrite (ttoks_binary (ESeq Semi e1 e2) _ _ _ eq_refl). destruct (IHe2 ltac:(assumption)) as (r & t & -> & Ht).
    exists (ttoks e1 ++ W :: TT_ExpressionSeparator :: W :: r), t. split; [rewrite <- app_assoc; reflexivity|exact Ht].
  - rewrite ttoks_nested. exists (TT_StartExpression :: W :: ttoks e ++ [W]), TT_EndExpression.
    split; [cbn [app]; rewrite <- app_assoc; reflexivity|reflexivity].
  - rewrite ttoks_reapply. destruct (IHe ltac:(assumption)) as (r & t & -> & Ht). exists (TT_Reapply :: W :: r), t. split; [reflexivity|exact Ht].
Qed.

Lemma trim_printed lvl e : efrag lvl e = true -> trim_tokens (ttoks e) = (0, ttoks e).
Proof.
  intros F. destruct (ttoks_first lvl e F) as (t & r & E1 & Ht). destruct (ttoks_last lvl e F) as (r' & t' & E2 & Ht').
  unfold trim_tokens.
  assert (D1 : drop_while_trim (ttoks e) = ttoks e) by (rewrite E1; cbn [drop_while_trim]; rewrite Ht; reflexivity).
  rewrite D1, Nat.sub_diag. f_equal.
  rewrite E2, rev_app_distr. cbn [rev app drop_while_trim]. rewrite Ht'.
  change (t' :: rev r') with ([t'] ++ rev r'). rewrite rev_app_distr, rev_involutive. reflexivity.
Qed.

(* ---- the Property invariant of the spine machine ---- *)
Fixpoint pfix (fl : bool) (t : ntree) : Prop :=
  match t with
  | NAtom _ d _ => if fl then d <> D_Identifier else d <> D_Property
  | NPre _ d _ a => pfix (definition_eqb d D_Access) a
  | NSuf _ _ _ a => pfix fl a
  | NBin _ d _ l r => pfix fl l /\ pfix (definition_eqb d D_Access) r
  | NGroup _ _ _ a => pfix false a
  end.

Definition aflag (fs : list frame) : bool :=
  match fs with f :: _ => definition_eqb (frame_def f) D_Access | [] => false end.

Fixpoint frames_ok (fs : list frame) : Prop :=
  match fs with
  | [] => True
  | f :: r => match f with FBin _ _ _ l => pfix (aflag r) l | _ => True end /\ frames_ok r
  end.

Definition state_ok (st : spine_state) : Prop :=
  frames_ok (fst st) /\ match snd st with Some t => pfix (aflag (fst st)) t | None => True end.

Lemma plug_ok f r t : frames_ok (f :: r) -> pfix (aflag (f :: r)) t -> pfix (aflag r) (plug f t).
Proof.
  intros [Hf _] Ht. destruct f as [i d k l|i d k|b i k]; cbn [plug pfix aflag frame_def] in *.
  - split; assumption.
  - exact Ht.
  - destruct b; exact Ht.
Qed.

Lemma pop_ok d : forall fs t fs' t', frames_ok fs -> pfix (aflag fs) t -> pop d fs t = (fs', t') ->
  frames_ok fs' /\ pfix (aflag fs') t'.
Proof.
  induction fs as [|f r IH]; intros t fs' t' Hf Ht Hp; cbn [pop] in Hp.
  - injection Hp as <- <-. split; assumption.
  - destruct (stays_below d f).
    + injection Hp as <- <-. split; assumption.
    + apply (IH _ _ _ (proj2 Hf) (plug_ok _ _ _ Hf Ht) Hp).
Qed.

Lemma close_group_ok bc : forall fs t fs' t', frames_ok fs -> pfix (aflag fs) t -> close_group bc fs t = Some (fs', t') ->
  frames_ok fs' /\ pfix (aflag fs') t'.
Proof.
  induction fs as [|f r IH]; intros t fs' t' Hf Ht Hp; cbn [close_group] in Hp; [discriminate|].
  destruct f as [i d k l|i d k|b i k].
  - apply (IH _ _ _ (proj2 Hf) (plug_ok _ _ _ Hf Ht) Hp).
  - apply (IH _ _ _ (proj2 Hf) (plug_ok _ _ _ Hf Ht) Hp).
  - destruct (bkind_eqb b bc); [|discriminate Hp]. injection Hp as <- <-. split; [exact (proj2 Hf)|]. exact (plug_ok (FGroup b i k) r t Hf Ht).
Qed.

Lemma close_ok : forall fs t, frames_ok fs -> pfix (aflag fs) t -> pfix false (close fs t).
Proof.
  induction fs as [|f r IH]; intros t Hf Ht; cbn [close]; [exact Ht|].
  apply IH; [exact (proj2 Hf)|exact (plug_ok _ _ _ Hf Ht)].
Qed.

Definition item_noprop (it : item) : Prop :=
  match it with IValue d _ => d <> D_Property | _ => True end.

Lemma atom_store_ok d fs : d <> D_Property ->
  if aflag fs then atom_store d fs <> D_Identifier else atom_store d fs <> D_Property.
Proof.
  intros Hd. unfold atom_store, aflag.
  destruct (definition_eqb d D_Identifier) eqn:E.
  - destruct fs as [|f r]; [exact Hd|]. destruct (definition_eqb (frame_def f) D_Access); [discriminate|exact Hd].
  - destruct fs as [|f r]; [exact Hd|]. destruct (definition_eqb (frame_def f) D_Access); [|exact Hd].
    intros ->. discriminate E.
Qed.

Lemma spine_step_ok it n st st' : item_noprop it -> state_ok st -> spine_step it n st = Some st' -> state_ok st'.
Proof.
  intros Hit [Hf Ht] Hs. destruct st as [fs ot]. cbn [fst snd] in *.
  destruct it as [d k|d k|d k|d k|b k|b k]; destruct ot as [t|]; cbn [spine_step] in Hs; try discriminate Hs.
  - injection Hs as <-. split; [exact Hf|]. cbn [fst snd pfix]. apply atom_store_ok. exact Hit.
  - destruct (ref_rank d); [|discriminate]. injection Hs as <-. split; cbn [fst snd frames_ok]; auto.
  - destruct (ref_rank d); [|discriminate]. destruct (pop d fs t) as [fs' t'] eqn:Ep. injection Hs as <-.
    destruct (pop_ok _ _ _ _ _ Hf Ht Ep) as [Hf' Ht']. split; cbn [fst snd pfix]; auto.
  - destruct (ref_rank d); [|discriminate]. destruct (pop d fs t) as [fs' t'] eqn:Ep.
    destruct (sep_blocked d fs'); [discriminate|]. injection Hs as <-.
    destruct (pop_ok _ _ _ _ _ Hf Ht Ep) as [Hf' Ht']. split; cbn [fst snd frames_ok]; auto.
  - injection Hs as <-. split; cbn [fst snd frames_ok]; auto.
  - destruct (close_group b fs t) as [[fs' t']|] eqn:Ec; [|discriminate]. injection Hs as <-.
    destruct (close_group_ok _ _ _ _ _ Hf Ht Ec) as [Hf' Ht']. split; cbn [fst snd]; auto.
Qed.

Lemma spine_run_ok : forall its n st st', Forall item_noprop its -> state_ok st -> spine_run its n st = Some st' -> state_ok st'.
Proof.
  induction its as [|it r IH]; intros n st st' Hi Hs Hr; cbn [spine_run] in Hr.
  - injection Hr as <-. exact Hs.
  - destruct (spine_step it n st) as [st1|] eqn:E; [|discriminate].
    inversion Hi; subst. eapply IH; [eassumption| |exact Hr]. eapply spine_step_ok; eauto.
Qed.

Lemma spine_insert_pfix its T : Forall item_noprop its -> spine_insert its = Some T -> pfix false T.
Proof.
  intros Hi H. unfold spine_insert in H.
  destruct (spine_run its 0 ([], None)) as [[fs [t|]]|] eqn:E; try discriminate H.
  destruct (existsb is_fgroup fs); [discriminate H|]. injection H as <-.
  assert (S0 : state_ok ([], None)) by (split; exact I).
  destruct (spine_run_ok _ _ _ _ Hi S0 E) as [Hf Ht]. apply close_ok; assumption.
Qed.

(* the items of printed tokens never carry the Property definition *)
Lemma hdef_noprop e : hdef e <> D_Property.
Proof.
  unfold hdef. destruct (head_tt e) as [t|]; [|discriminate]. destruct t; discriminate.
Qed.

Lemma eitems_noprop lvl : forall e off, efrag lvl e = true -> Forall item_noprop (eitems e off).
Proof.
  induction e; intros off F; try discriminate F; cbn [efrag] in F;
    repeat (apply andb_true_iff in F; let G := fresh "G" in destruct F as [F G]); cbn [eitems].
  - constructor; [apply hdef_noprop|constructor].
  - constructor; [apply hdef_noprop|constructor].
  - constructor; [apply hdef_noprop|constructor].
  - destruct (is_prefix o).
    + constructor; [exact I|apply IHe; exact F].
    + apply Forall_app. split; [apply IHe; exact F|constructor; [exact I|constructor]].
  - apply Forall_app. split; [apply IHe1; assumption|constructor; [exact I|apply IHe2; assumption]].
  - apply Forall_app. split; [apply IHe1; assumption|constructor; [exact I|apply IHe2; assumption]].
  - apply Forall_app. split; [apply IHe1; assumption|constructor; [exact I|apply IHe2; assumption]].
  - destruct k; apply Forall_app; (split; [apply IHe1; assumption|constructor; [exact I|apply IHe2; assumption]]).
  - constructor; [exact I|]. apply Forall_app. split; [apply IHe; assumption|constructor; [exact I|constructor]].
  - apply Forall_app. split; [apply IHe1; assumption|constructor; [exact I|apply IHe2; assumption]].
  - apply Forall_app. split; [apply IHe1; assumption|constructor; [exact I|apply IHe2; assumption]].
  - destruct s; [|discriminate]. cbn [eitems]. apply Forall_app. split; [apply IHe1; assumption|constructor; [exact I|apply IHe2; assumption]].
  - constructor; [exact I|]. apply Forall_app. split; [apply IHe; assumption|constructor; [exact I|constructor]].
  - constructor; [exact I|apply IHe; assumption].
Qed.

(* ---- where identifiers and properties may stand ---- *)
Definition is_access (d : definition) : bool := definition_eqb d D_Access.

Fixpoint acc_ok (fl : bool) (e : expr) : bool :=
  match e with
  | ELit (LProp _) => fl
  | EIdent _ => negb fl
  | ELit _ | EValue => true
  | EUn o x => if is_prefix o then acc_ok (is_access (hdef e)) x else acc_ok fl x
  | EGroup x => acc_ok false x
  | ENested _ b => acc_ok false b
  | EReapply x => acc_ok (is_access (hdef e)) x
  | EBin _ l r | EAnd l r | EOr l r | EList _ l r | ECond _ l r | EElse l r | ESeq _ l r =>
      acc_ok fl l && acc_ok (is_access (hdef e)) r
  | _ => true
  end.

Lemma wf_acc_ok lvl : forall e body, efrag lvl e = true -> wf body e = true -> paren_ok e = true -> acc_ok false e = true.
Proof.
  induction e; intros body F Wf P; try discriminate F; cbn [efrag] in F;
    repeat (apply andb_true_iff in F; let G := fresh "G" in destruct F as [F G]).
  - destruct l; try reflexivity. discriminate Wf.
  - reflexivity.
  - reflexivity.
  - cbn [acc_ok]. cbn [wf] in Wf. pose proof (paren_ok_un _ _ P) as Px.
    destruct (is_prefix o) eqn:Ho; [|apply (IHe false); assumption].
    replace (is_access (hdef (EUn o e))) with false by (destruct o; try discriminate Ho; reflexivity).
    apply (IHe false); assumption.
  - (* binary operators: access is the special one *)
    destruct (paren_ok_binary (EBin o e1 e2) _ _ _ eq_refl P) as [P1 P2].
    pose proof (ok_children_binary (EBin o e1 e2) _ _ _ eq_refl (paren_ok_children _ P)) as Hc.
    cbn [acc_ok]. destruct o;
      try (cbn [wf] in Wf; apply andb_true_iff in Wf; destruct Wf as [W1 W2];
           change (is_access (hdef (EBin _ e1 e2))) with false;
           rewrite (IHe1 false F W1 P1), (IHe2 false G W2 P2); reflexivity).
    change (is_access (hdef (EBin BAccess e1 e2))) with true.
    change (ref_rtl (hdef (EBin BAccess e1 e2))) with false in Hc. cbv iota in Hc. destruct Hc as [_ Hr].
    destruct e2; try discriminate G; try (destruct o); try (destruct k); try (destruct neg); try (destruct s); try (vm_compute in Hr; discriminate Hr).
    + (* a literal *)
      destruct l.
      all: try (cbn [wf] in Wf; apply andb_true_iff in Wf; destruct Wf as [W1 W2];
                cbn [acc_ok]; rewrite (IHe1 false F W1 P1); reflexivity).
    + cbn [wf] in Wf. apply andb_true_iff in Wf. destruct Wf as [W1 W2]. cbn [acc_ok]. rewrite (IHe1 false F W1 P1). reflexivity.
    + discriminate Wf.
    + cbn [wf] in Wf. apply andb_true_iff in Wf. destruct Wf as [W1 W2].
      cbn [acc_ok]. rewrite (IHe1 false F W1 P1). cbn [andb]. apply (IHe2 false G W2 P2).
    + cbn [wf] in Wf. apply andb_true_iff in Wf. destruct Wf as [W1 W2].
      cbn [acc_ok]. rewrite (IHe1 false F W1 P1). cbn [andb]. apply (IHe2 false G W2 P2).
  - destruct (paren_ok_binary (EAnd e1 e2) _ _ _ eq_refl P) as [P1 P2].
    cbn [wf] in Wf. apply andb_true_iff in Wf. destruct Wf as [W1 W2]. cbn [acc_ok].
    change (is_access (hdef (EAnd e1 e2))) with false. rewrite (IHe1 false), (IHe2 false); auto.
  - destruct (paren_ok_binary (EOr e1 e2) _ _ _ eq_refl P) as [P1 P2].
    cbn [wf] in Wf. apply andb_true_iff in Wf. destruct Wf as [W1 W2]. cbn [acc_ok].
    change (is_access (hdef (EOr e1 e2))) with false. rewrite (IHe1 false), (IHe2 false); auto.
  - assert (Hb : exists t, as_binary (EList k e1 e2) = Some (t, e1, e2)) by (destruct k; eexists; reflexivity).
    destruct Hb as [t Hb]. destruct (paren_ok_binary (EList k e1 e2) _ _ _ Hb P) as [P1 P2].
    cbn [wf] in Wf. apply andb_true_iff in Wf. destruct Wf as [W1 W2]. cbn [acc_ok].
    replace (is_access (hdef (EList k e1 e2))) with false by (destruct k; reflexivity). rewrite (IHe1 false), (IHe2 false); auto.
  - cbn [wf] in Wf. cbn [acc_ok]. apply (IHe false); [assumption|exact Wf|exact (paren_ok_group _ P)].
  - destruct (paren_ok_binary (ECond neg e1 e2) _ _ _ eq_refl P) as [P1 P2].
    cbn [wf] in Wf. apply andb_true_iff in Wf. destruct Wf as [W1 W2]. cbn [acc_ok].
    replace (is_access (hdef (ECond neg e1 e2))) with false by (destruct neg; reflexivity). rewrite (IHe1 false), (IHe2 false); auto.
  - destruct (paren_ok_binary (EElse e1 e2) _ _ _ eq_refl P) as [P1 P2].
    cbn [wf] in Wf. repeat (apply andb_true_iff in Wf; let W := fresh "W" in destruct Wf as [Wf W]). cbn [acc_ok].
    change (is_access (hdef (EElse e1 e2))) with false. rewrite (IHe1 false), (IHe2 false); auto.
  - destruct s; [|discriminate]. destruct (paren_ok_binary (ESeq Semi e1 e2) _ _ _ eq_refl P) as [P1 P2].
    cbn [wf] in Wf. repeat (apply andb_true_iff in Wf; let W := fresh "W" in destruct Wf as [Wf W]). cbn [acc_ok].
    change (is_access (hdef (ESeq Semi e1 e2))) with false. rewrite (IHe1 true), (IHe2 true); auto.
  - cbn [wf] in Wf. cbn [acc_ok]. apply (IHe true); [assumption|exact Wf|exact (paren_ok_nested _ _ P)].
  - cbn [wf] in Wf. cbn [acc_ok]. change (is_access (hdef (EReapply e))) with false.
    apply (IHe false); [assumption|exact Wf|exact (paren_ok_reapply _ P)].
Qed.

(* ---- from the erased tree and the invariant to the correspondence ---- *)
Lemma norm_atom_inv d x : norm_atom d = x -> x <> D_Identifier -> d = x.
Proof. intros H Hx. destruct d; cbn [norm_atom] in H; try exact H. congruence. Qed.

Lemma norm_atom_ident d : norm_atom d = D_Identifier -> d = D_Identifier \/ d = D_Property.
Proof. destruct d; cbn [norm_atom]; intros H; try discriminate H; auto. Qed.

Lemma erase_rep lvl : forall e fl T off, efrag lvl e = true -> acc_ok fl e = true -> pfix fl T ->
  erase T = rtree_of_expr e off -> rep e off T.
Proof.
  induction e; intros fl T off F A Pf E; try discriminate F; cbn [efrag] in F;
    repeat (apply andb_true_iff in F; let G := fresh "G" in destruct F as [F G]).
  - (* literal *)
    destruct T as [i d k| | | |]; try discriminate E. cbn [erase rtree_of_expr] in E. injection E as Ed Ek.
    cbn [rep]. split; [|exact Ek]. cbn [pfix] in Pf. destruct l; cbn [stored_def acc_ok] in *;
      try (apply norm_atom_inv; [exact Ed|discriminate]).
    subst fl. destruct (norm_atom_ident _ Ed) as [->| ->]; [contradiction|reflexivity].
  - destruct T as [i d k| | | |]; try discriminate E. cbn [erase rtree_of_expr] in E. injection E as Ed Ek.
    cbn [rep]. split; [|exact Ek]. apply norm_atom_inv; [exact Ed|discriminate].
  - destruct T as [i d k| | | |]; try discriminate E. cbn [erase rtree_of_expr] in E. injection E as Ed Ek.
    cbn [rep]. split; [|exact Ek]. cbn [pfix acc_ok] in *. apply negb_true_iff in A. subst fl.
    destruct (norm_atom_ident _ Ed) as [->| ->]; [reflexivity|contradiction].
  - cbn [rtree_of_expr rep acc_ok] in *. destruct (is_prefix o) eqn:Ho.
    + destruct T as [|i d k a| | |]; try discriminate E. cbn [erase] in E. injection E as Ed Ek Ea. cbn [pfix] in Pf.
      subst d. split; [reflexivity|]. split; [exact Ek|]. eapply IHe; eauto.
    + destruct T as [| |i d k a| |]; try discriminate E. cbn [erase] in E. injection E as Ed Ek Ea. cbn [pfix] in Pf.
      split; [exact Ed|]. split; [exact Ek|]. eapply IHe; eauto.
  - cbn [rtree_of_expr rep acc_ok] in *. apply andb_true_iff in A. destruct A as [A1 A2].
    destruct T as [| | |i d k tl tr|]; try discriminate E. cbn [erase] in E. injection E as Ed Ek El Er. destruct Pf as [Pl Pr].
    subst d. split; [reflexivity|]. split; [exact Ek|]. split; [eapply IHe1; eauto|eapply IHe2; eauto].
  - cbn [rtree_of_expr rep acc_ok] in *. apply andb_true_iff in A. destruct A as [A1 A2].
    destruct T as [| | |i d k tl tr|]; try discriminate E. cbn [erase] in E. injection E as Ed Ek El Er. destruct Pf as [Pl Pr].
    subst d. split; [reflexivity|]. split; [exact Ek|]. split; [eapply IHe1; eauto|eapply IHe2; eauto].
  - cbn [rtree_of_expr rep acc_ok] in *. apply andb_true_iff in A. destruct A as [A1 A2].
    destruct T as [| | |i d k tl tr|]; try discriminate E. cbn [erase] in E. injection E as Ed Ek El Er. destruct Pf as [Pl Pr].
    subst d. split; [reflexivity|]. split; [exact Ek|]. split; [eapply IHe1; eauto|eapply IHe2; eauto].
  - cbn [acc_ok] in A. apply andb_true_iff in A. destruct A as [A1 A2].
    destruct k; cbn [rtree_of_expr rep] in *;
      (destruct T as [| | |i d k tl tr|]; try discriminate E; cbn [erase] in E; injection E as Ed Ek El Er; destruct Pf as [Pl Pr];
       subst d; split; [reflexivity|]; split; [exact Ek|]; split; [eapply IHe1; eauto|eapply IHe2; eauto]).
  - cbn [rtree_of_expr rep acc_ok] in *.
    destruct T as [| | | |b i k a]; try discriminate E. cbn [erase] in E. injection E as Eb Ek Ea. subst b. cbn [pfix] in Pf.
    split; [exact Ek|]. eapply IHe; eauto.
  - cbn [rtree_of_expr rep acc_ok] in *. apply andb_true_iff in A. destruct A as [A1 A2].
    destruct T as [| | |i d k tl tr|]; try discriminate E. cbn [erase] in E. injection E as Ed Ek El Er. destruct Pf as [Pl Pr].
    subst d. split; [reflexivity|]. split; [exact Ek|]. split; [eapply IHe1; eauto|eapply IHe2; eauto].
  - cbn [rtree_of_expr rep acc_ok] in *. apply andb_true_iff in A. destruct A as [A1 A2].
    destruct T as [| | |i d k tl tr|]; try discriminate E. cbn [erase] in E. injection E as Ed Ek El Er. destruct Pf as [Pl Pr].
    subst d. split; [reflexivity|]. split; [exact Ek|]. split; [eapply IHe1; eauto|eapply IHe2; eauto].
  - destruct s; [|discriminate]. cbn [rtree_of_expr rep acc_ok] in *. apply andb_true_iff in A. destruct A as [A1 A2].
    destruct T as [| | |i d k tl tr|]; try discriminate E. cbn [erase] in E. injection E as Ed Ek El Er. destruct Pf as [Pl Pr].
    subst d. split; [reflexivity|]. split; [exact Ek|]. split; [eapply IHe1; eauto|eapply IHe2; eauto].
  - cbn [rtree_of_expr rep acc_ok] in *.
    destruct T as [| | | |b i k a]; try discriminate E. cbn [erase] in E. injection E as Eb Ek Ea. subst b. cbn [pfix] in Pf.
    split; [exact Ek|]. eapply IHe; eauto.
  - cbn [rtree_of_expr rep acc_ok] in *.
    destruct T as [|i d k a| | |]; try discriminate E. cbn [erase] in E. injection E as Ed Ek Ea. cbn [pfix] in Pf.
    subst d. split; [reflexivity|]. split; [exact Ek|]. eapply IHe; eauto.
Qed.

(* ---- the parser model on the printed tokens ---- *)
Theorem parse_printed lvl e body : efrag lvl e = true -> wf body e = true -> paren_ok e = true ->
  exists Tn ns,
    parse (ttoks e) = Ok (nid Tn, ns) /\
    Compile.tree_of ns (nid Tn) = Some (img Tn) /\
    denotes ns None Tn /\ ordered Tn /\ rep e 0 Tn /\ (forall j, j < length ns -> has_id Tn j).
Proof.
  intros F Wf P. pose proof (pratt_printed lvl e F P) as Hpr.
  destruct (pratt_parse _ _ Hpr) as (Tn & ns & its & Hits & _ & Hins & Hp & DT & OT & _ & Cov & ET).
  rewrite (trim_printed lvl e F) in Hits, ET. cbn [fst snd] in Hits, ET. rewrite shift_rtree_0 in ET.
  rewrite (items_of_printed lvl e F) in Hits. injection Hits as <-.
  exists Tn, ns. split; [exact Hp|]. split; [eapply denotes_tree_of; eauto|]. split; [exact DT|]. split; [exact OT|].
  split; [|exact Cov].
  eapply (erase_rep lvl e false); [exact F|apply (wf_acc_ok lvl e body); assumption| |symmetry; exact ET].
  eapply spine_insert_pfix; [apply (eitems_noprop lvl); exact F|exact Hins].
Qed.
