"""C05 Built instruction streams are well-formed."""
import os, time
import vplib, codelib as cl
from vplib import Verdict, log

PID = "C05"
MANIFEST_ENTRY = {
 "level_claimed": {
  "category": "proof",
  "text": "Spec/WfCode.v states well-formedness of one build's output independently of the builder (operand kinds per "
          "instruction with the runtime's operand table regenerated from execute.rs, jump operands / expression values inside "
          "the build's own jump range, every jump entry inside the build's own instruction range with only the entry point at "
          "its first instruction -- which excludes surviving 0 placeholders --, no fall-through into a body start or off the "
          "end, one metadata record per instruction naming an existing node). Theorems in coq/Properties/C05.v: the executable "
          "checker decides that proposition; for all 73^3 token triples and all token sequences of length <= 5 over an 18-token "
          "reduced alphabet, for three initial states of the data object, every build accepted by the parser and worklist-builder "
          "models is well-formed, and the structurally recursive tree compiler (Model/Compile.v) "
          "produces exactly the worklist model's code; machine-checked witnesses show the two exclusions are necessary; and "
          "C05_full: for EVERY proper tree outside C05-K2 (a shape the parser never produces) and EVERY initial state, the code the tree compiler "
          "produces is well-formed (induction on the tree with the pending-bodies invariant: every placeholder is owned by a "
          "registered body or arm, every registered body is emitted, patches its placeholder, adds an instruction and ends in "
          "a terminator). compile_agrees_full (Proofs/Builder/*.v, by induction on the tree: one iteration of build()'s node loop "
          "is one visit of a node, draining a subtree emits its inline code and registers its bodies and arms, the root loop "
          "emits the bodies LIFO): for EVERY node array and root that form a proper tree (tree_of nodes root = Some t), every "
          "initial state, literal oracle and fuel, a successful run of the worklist model of build() IS the tree compiler's "
          "result -- same instructions, metadata, jump table, entry; with it C05_full_builder and C05_operands_meta_builder "
          "state the inductive theorems directly for BuilderWL.build. What remains bounded: nothing about code shape; not "
          "proved are the converse direction (the tree compiler succeeds => the worklist model succeeds within build_fuel; "
          "only error-class and termination statements need it). The hypothesis is discharged for everything the parser model "
          "accepts: C05_validate_tree_of (the parser's final check validate_tree accepts only proper trees) and C05_parse_tree_of "
          "(parse returns the empty program or a proper tree), hence compile_agrees_parsed / C05_full_parsed for EVERY accepted token "
          "sequence, no bound. On every run the worklist model, the tree compiler and the real "
          "build() are diffed instruction-for-instruction on all token triples, a fixed corpus, grammar-generated programs and "
          "programs built after another program, on both data implementations, and the checker is evaluated natively on every "
          "real instruction stream and must agree with the extracted Coq checker.",
  "design_ref": "DESIGN.md section 8 C05"
 },
 "level_note": "Trusted: Coq kernel (vm_compute for the finite theorems); extraction; the Rust harness wfcode, the OCaml driver "
               "and tools/codelib.py (native re-implementation of the checker). Literal parsing is an oracle of the builder model "
               "(lit_ok); data-operand kinds are checked on the real data objects only. The former finding C05-K1 (empty pending body "
               "whose end instruction was skipped) is repaired in build.rs (b7aaffe) and its inputs stay in the corpus; C05-K2 (a conditional or else-chain linked directly as the left operand of && / ||) is PROVED empty on the whole operator fragment, with no bound on length or nesting (round 6: C05_reference_no_K2 - the reference tree keeps the climbing invariant that the root of a left operand binds at least as tightly as the operator taking it, and ?> !> |> are looser than && ||; C05_operator_expressions_not_K2 through C02_full and the Pratt bridge; C05_full_operator_expressions: every successful build of such a token list is well-formed with no exclusion); outside the fragment (side-effect brackets, annotations, blank-line separators, empty brackets) the exclusion of C05_full_parsed stays, the missing parser invariant is stated as C05_parser_links_no_K2_statement and proved to be exactly the gap (C05_no_K2_gives_wf_all_parsed), supported there by the exhaustive bounded theorems only.",
 "technique": "Coq proof (checker soundness, finite theorems by vm_compute, refutation witnesses) over executable models + "
              "differential correspondence with the Rust builder + native oracle on the real instruction streams"
}

TRUSTED = vplib.BASE_TRUSTED + [
    "axioms (Print Assumptions): none - all C05 theorems are closed under the global context",
    "lit_ok: whether a literal's text parses is an oracle of the builder model (the harness uses texts that parse)",
    "tools/codelib.py: native checker for the five clauses of Spec/WfCode.v (must agree with the extracted Coq checker on every case)",
]

PREFIXES = ["5", "1 ?> 2", "a && b", "{ 5 }"]


def gen_cases(tier, seed):
    rng = vplib.rng_for(seed, "C05")
    cases = list(cl.all_triples())
    n_fixed = 0
    for s in cl.FIXED_SOURCES:
        cases.append("S " + cl.hx(s))
        n_fixed += 1
    srcs = cl.source_cases(rng, 120000 if tier == "thorough" else 4000)
    for s in srcs:
        cases.append("S " + cl.hx(s))
    # programs built after another program (non-empty initial state)
    after = cl.FIXED_SOURCES + srcs[: (20000 if tier == "thorough" else 500)]
    for k, s in enumerate(after):
        cases.append("A %s;%s" % (cl.hx(PREFIXES[k % len(PREFIXES)]), cl.hx(s)))
    return cases


def run_pair(cases, exe):
    text = "\n".join(cases) + "\n"
    rc, impl = vplib.run_lines([exe], text, timeout=1500)
    if rc != 0 or len(impl) != len(cases):
        return None, None, "wfcode harness rc=%s lines=%d/%d" % (rc, len(impl), len(cases))
    rc, model = vplib.run_lines([os.path.join(vplib.OCAML_BUILD, "wf_driver")], "\n".join(impl) + "\n", timeout=1500)
    if rc != 0 or len(model) != len(cases):
        return impl, None, "wf_driver rc=%s lines=%d/%d %s" % (rc, len(model), len(cases), model[-1:] if model else "")
    return impl, model, None


def init_of(oracle):
    """(il, jl, last) from the oracle field of an A case"""
    for f in oracle.split(" "):
        if f.startswith("init="):
            il, jl, last = f[5:].split(",")
            return int(il), int(jl), last
    return 0, 0, "none"


def classify(nodes, root, bad, init):
    """finding id for a not-well-formed real build, or None.  No class is listed: the former C05-K1 (a body
    that compiles to nothing) was repaired in build.rs (commit b7aaffe); C05-K2 is not reachable from source."""
    return None


def evaluate(v, cases, impl, model, stats, samples, distinct, listed):
    n_tie = 0
    for i, line in enumerate(impl):
        parts = line.split("\t")
        case, res, oracle = parts[0], parts[1], parts[2] if len(parts) > 2 else "-"
        f = cl.fields(res)
        kind = case[0]
        stats["kinds"][kind] = stats["kinds"].get(kind, 0) + 1
        if f.get("L") != "ok":
            stats["outcomes"]["lex:" + f.get("L", res)] = stats["outcomes"].get("lex:" + f.get("L", res), 0) + 1
            continue
        p = f.get("P", "")
        if not p.startswith("OK"):
            stats["outcomes"]["parse:" + p] = stats["outcomes"].get("parse:" + p, 0) + 1
            continue
        b = f.get("B", "")
        mres = model[i].split("\t")[1] if model is not None else None
        g = cl.fields(mres) if mres else {}
        if mres is not None:
            if g.get("B") != b:
                stats["model_disagreements"] += 1
                n_tie += 1
                if n_tie <= 5:
                    v.tie_failure("correspondence build: %s (%r) impl=%s model=%s" % (case, cl.case_source(case), b[:300], str(g.get("B"))[:300]))
            if g.get("C") != "same":
                stats["compile_disagreements"] += 1
                n_tie += 1
                if n_tie <= 5:
                    v.tie_failure("tree compiler differs from the worklist model: %s (%r) worklist=%s compile=%s" % (
                        case, cl.case_source(case), str(g.get("B"))[:300], str(g.get("C"))[:300]))
            if g.get("T") == "notree":
                stats["not_a_tree"] += 1
        lst = cl.parse_listing(b)
        if lst is None:
            stats["outcomes"]["build:" + b] = stats["outcomes"].get("build:" + b, 0) + 1
            continue
        stats["outcomes"]["built"] = stats["outcomes"].get("built", 0) + 1
        root, nodes = cl.parse_nodes(p)
        init = init_of(oracle)
        kinds = f.get("K", "K[]")[2:-1].split(",") if f.get("K", "-") != "-" else None
        checks = [("simple", lst, kinds)]
        if f.get("BB", "same") != "same":
            stats["basic_differs"] += 1
            bb = f["BB"].split("@")[0]
            lb = cl.parse_listing(bb)
            if lb is None:
                v.violation(component="build", input=case, shown=cl.case_source(case), impl=f["BB"][:300],
                            what="BasicGarnishData build differs in kind from the SimpleGarnishData build (%s)" % b[:200])
            else:
                bk = f.get("BK", "same")
                checks.append(("basic", lb, kinds if bk == "same" else bk[2:-1].split(",")))
        elif f.get("BK", "same") != "same":
            checks.append(("basic", lst, f["BK"][2:-1].split(",")))
        if len(lst["instrs"]) >= 4:
            distinct.add(b)
        if len(samples) < 8 and kind != "T" and i % 997 == 0:
            samples.append({"input": cl.case_source(case), "impl": b[:240], "model": str(g.get("B"))[:240], "coq_checker": g.get("W")})
        for which, l, ks in checks:
            bad = cl.wf_native(l, nodes, init[0], init[1], ks)
            bits = cl.wf_bits(bad)
            stats["verdicts"][bits] = stats["verdicts"].get(bits, 0) + 1
            if which == "simple" and mres is not None and g.get("W") not in (None, "-"):
                # the extracted Coq checker ran on the model's listing (= the real one when B agrees):
                # the data-type part of the operand clause is native only
                coq_bits = g["W"]
                nat_struct = cl.wf_bits(cl.wf_native(l, nodes, init[0], init[1], None))
                if coq_bits != nat_struct and g.get("B") == b:
                    stats["checker_disagreements"] += 1
                    if stats["checker_disagreements"] <= 5:
                        v.tie_failure("native checker and extracted Coq checker disagree: %s coq=%s native=%s %s" % (
                            case, coq_bits, nat_struct, bad[:2]))
            if bad:
                fid = classify(nodes, root, bad, init)
                if fid and fid in listed:
                    v.known_hit(fid, "%r%s: %s" % (cl.case_source(case), "" if kind != "A" else " (second program)", bad[0]))
                    stats["known_hits"] += 1
                else:
                    stats["property_failures"] += 1
                    if len(v.violations) < 40:
                        v.violation(component="build", data=which, input=case, shown=cl.case_source(case), what="; ".join(bad[:4]),
                                    impl=b[:400], model=str(g.get("B"))[:400], init="%d,%d,%s" % init)


def run(tier, seed):
    v = Verdict(PID, tier, seed)
    v.assumptions = [
        "a build is judged by what it adds to the data object: instructions, jump entries, metadata, entry (read back through "
        "get_instruction / get_from_jump_table / get_data_type / get_expression / BuildData)",
        "an end-of-expression or unconditional jump 'ends a straight-line run': no fall-through into a body start (target of an "
        "expression value or of a conditional / logical jump operand) and none off the end of the stream",
        "'no unpatched placeholder survives' is read on values: every jump entry of the build lies inside the build's own "
        "instruction range, only the entry point at its first instruction",
    ]
    sy = vplib.sync(["instr", "defs", "tokentypes", "execmap"])
    for name, err in sy.get("errors", {}).items():
        v.tie_failure("translator %s: %s" % (name, err))
    pr = vplib.prove(PID, ["Proofs/C05", "Proofs/Builder"], extra_targets=["Extract/WfExtract.vo"])
    for f in pr["failures"]:
        v.tie_failure("prove: " + f)
    v.coverage.update(vplib.proof_coverage(
        pr, "make -C coq Properties/C05.vo && coqc Properties/C05.v (Print Assumptions) && tools/props/c05.py correspondence + oracle", TRUSTED))
    v.coverage["tables_regenerated"] = sy.get("changed", [])
    v.coverage["theorem_status"] = {
        "C05_checker_decides": "full", "C05_triples_bounded_3": "bounded(3 tokens, full alphabet)",
        "C05_reduced_bounded_5": "bounded(5 tokens, reduced alphabet)", "C05_small_bounded_7": "bounded(7 tokens, small alphabet)", "C05_compile_agrees_bounded_3": "bounded(3)",
        "C05_compile_agrees_bounded_5": "bounded(5, reduced)", "C05_K1_refuted": "refuted-witness",
        "C05_K1_shared_refuted": "refuted-witness", "C05_K2_refuted": "refuted-witness",
        "C05_operands_meta_all_trees": "full (all trees, all initial states, no exclusion)",
        "C05_full": "full (all proper trees outside C05-K2, all initial states); carried to the worklist model by compile_agrees_full"}
    ok, exe, out = cl.harness_exe("wfcode")
    if not ok:
        v.tie_failure("harness build failed: " + out)
    have_model = os.path.exists(os.path.join(vplib.OCAML_BUILD, "wf_model.ml"))
    okm, outm = vplib.ocaml_build("wf") if have_model else (False, "no extracted model")
    if not okm:
        v.tie_failure("model driver build failed: " + outm[-300:])
    cases = gen_cases(tier, seed)
    stats = {"cases": len(cases), "kinds": {}, "outcomes": {}, "verdicts": {}, "model_disagreements": 0, "compile_disagreements": 0,
             "checker_disagreements": 0, "not_a_tree": 0, "basic_differs": 0, "property_failures": 0, "known_hits": 0}
    distinct, samples = set(), []
    listed = {f["id"] for f in vplib.findings_for(PID)}
    if ok:
        impl, model, err = run_pair(cases, exe)
        if err:
            v.tie_failure("correspondence run: " + err)
        if impl is not None:
            evaluate(v, cases, impl, model if okm else None, stats, samples, distinct, listed)
            if v.tie_failures and not v.violations and tier == "quick":
                # a tie broke: look harder for an input on which the property itself fails
                rng = vplib.rng_for(seed, "C05-directed")
                extra = ["S " + cl.hx(s) for s in cl.source_cases(rng, 20000)]
                impl2 = vplib.run_lines([exe], "\n".join(extra) + "\n", timeout=900)[1]
                st2 = {"cases": len(extra), "kinds": {}, "outcomes": {}, "verdicts": {}, "model_disagreements": 0, "compile_disagreements": 0,
                       "checker_disagreements": 0, "not_a_tree": 0, "basic_differs": 0, "property_failures": 0, "known_hits": 0}
                if impl2 and len(impl2) == len(extra):
                    evaluate(v, extra, impl2, None, st2, [], set(), listed)
                stats["directed_search"] = {k: st2[k] for k in ("cases", "property_failures", "known_hits")}
    if exe:
        try:
            os.remove(exe)
        except OSError:
            pass
    v.coverage.update({
        "evaluations": len(cases),
        "distinct_nontrivial": len(distinct),
        "rule": "all 73^3 token-type triples; a fixed corpus of small programs (every construct, every listed finding shape); "
                "grammar-generated programs of the core language (literals, unary / binary operators, lists, groups, nested "
                "expressions, side effects, conditionals and else-chains, && / ||, apply forms, reapply loops, sub-expressions, "
                "fix applies, access), mostly parenthesised; the same programs built after one of four other programs (non-empty "
                "initial state); both data implementations. A case is non-trivial when its build has at least four instructions "
                "(counted by distinct instruction streams)",
        "samples": samples,
        "histogram": stats,
    })
    return v.finish("proof")


def replay(obj):
    cases = [x["input"] for x in obj.get("violations", []) if x.get("input", "")[:2] in ("T ", "S ", "A ")]
    if not cases:
        print("replay names a broken tie, not an input:", obj.get("no_longer_checks"))
        return run("quick", obj.get("seed", 0))
    ok, out = vplib.cargo_build("debug", bins=["wfcode"])
    if not ok:
        print("harness build failed")
        return 2
    impl, model, err = run_pair(cases, vplib.harness_bin("wfcode"))
    if impl is None:
        print(err)
        return 2
    rc = 0
    for line in impl:
        case, res, oracle = (line.split("\t") + ["-"])[:3]
        f = cl.fields(res)
        lst = cl.parse_listing(f.get("B", ""))
        if lst is None:
            print("ok (not built): %r %s" % (cl.case_source(case), res[:100]))
            continue
        root, nodes = cl.parse_nodes(f["P"])
        init = init_of(oracle)
        kinds = f.get("K", "K[]")[2:-1].split(",") if f.get("K", "-") != "-" else None
        bad = cl.wf_native(lst, nodes, init[0], init[1], kinds)
        fid = classify(nodes, root, bad, init) if bad else None
        if bad and not fid:
            rc = 1
        print("%s: %r %s %s" % ("FAILS" if bad and not fid else ("known " + fid if fid else "ok"), cl.case_source(case), f.get("B", "")[:200], bad[:3]))
    return rc
