(* C10: how each testing construct classifies a value, read off one model step.
   Definitions only (extracted for the direct oracle); the theorems are in Truth.v. *)
From Coq Require Import NArith List Bool Arith.
From GV Require Import Gen.Instr Gen.Exec Gen.Truth Gen.Dispatch Model.OpDispatch Spec.Falsy.
Import ListNotations.

(* ------------------- (b) how each construct classifies a value, read off a step *)
(* Some true: the construct treated the value as true.
   `?>` jumps to its arm on true; `!>` jumps on false; `&&` goes on to its right
   operand (jumps) on true and pushes False otherwise; `||` pushes True on true
   and goes on otherwise; `!!` pushes the negation, `??` the truth value;
   `^^` is read with a unit (false) partner on either side. *)
Definition verdict (i : instruction) (o : outcome) : option bool :=
  match res o, calls o with
  | ROk, [] =>
      match i with
      | I_JumpIfTrue => if Nat.eqb (pushes o) 0 then Some (jumps o) else None
      | I_JumpIfFalse => if Nat.eqb (pushes o) 0 then Some (negb (jumps o)) else None
      | I_And => match top_is o, jumps o with
                 | TopNone, true => Some true | TopBool false, false => Some false | _, _ => None end
      | I_Or => match top_is o, jumps o with
                | TopBool true, false => Some true | TopNone, true => Some false | _, _ => None end
      | I_Not => match top_is o, jumps o with TopBool b, false => Some (negb b) | _, _ => None end
      | I_Tis | I_Xor => match top_is o, jumps o with TopBool b, false => Some b | _, _ => None end
      | _ => None
      end
  | _, _ => None
  end.

Definition classify (i : instruction) (v : operand) (h : host_mode) : option bool :=
  if instruction_eqb i I_Xor then verdict i (step i v (Some (plain T_Unit)) h)
  else verdict i (step i v None h).
Definition classify_xor_right (v : operand) (h : host_mode) : option bool :=
  verdict I_Xor (step I_Xor (plain T_Unit) (Some v) h).


Definition logic_instructions : list instruction := [I_And; I_Or; I_Xor; I_Not; I_Tis].

Definition is_logic (i : instruction) : bool := existsb (instruction_eqb i) logic_instructions.


Definition logic_shape (i : instruction) (r : option operand) : bool :=
  match r with
  | Some _ => instruction_eqb i I_Xor
  | None => is_logic i && negb (instruction_eqb i I_Xor)
  end.

