(* C11_equivalence: struct_eq is reflexive (NaN-free values of the domain),
   symmetric and transitive (values the model covers, numbers in range). *)
From Coq Require Import ZArith NArith List Bool Arith Lia Reals.
From Flocq Require Import Core IEEE754.BinarySingleNaN IEEE754.Binary IEEE754.Bits.
From GV Require Import Base.Result Gen.Instr Model.Num Model.Value Spec.StructEq Spec.NatOrder
  Proofs.C12.Numbers Proofs.C11.Canon.
Import ListNotations.

(* ---- numbers: equality is equality of the denoted extended reals ---- *)
Lemma num_eq_iff a b : num_in_range a -> num_in_range b ->
  num_eq a b = true <-> exists x, denote a = Some x /\ denote b = Some x.
Proof.
  intros Ra Rb. unfold num_eq.
  destruct (denote a) as [x|] eqn:Ea.
  - destruct (denote b) as [y|] eqn:Eb.
    + rewrite (num_cmp_correct a b x y Ra Rb Ea Eb). split.
      * destruct (xcompare x y) eqn:E; try discriminate. intros _. apply xcompare_eq in E. subst. eauto.
      * intros (z & Hz1 & Hz2). injection Hz1 as <-. injection Hz2 as <-. rewrite xcompare_refl. reflexivity.
    + rewrite (num_cmp_nan a b) by (right; apply denote_nan; exact Eb).
      split; [discriminate | intros (z & _ & H); discriminate H].
  - rewrite (num_cmp_nan a b) by (left; apply denote_nan; exact Ea).
    split; [discriminate | intros (z & H & _); discriminate H].
Qed.

Lemma num_eq_refl a : num_in_range a -> num_not_nan a -> num_eq a a = true.
Proof.
  intros Ra Na. apply num_eq_iff; try assumption.
  assert (H : is_nan_num a = false) by (destruct a; [reflexivity | exact Na]).
  destruct (denote_some a H) as [x Hx]. eauto.
Qed.

Lemma num_eq_sym a b : num_in_range a -> num_in_range b -> num_eq a b = num_eq b a.
Proof.
  intros Ra Rb. destruct (num_eq a b) eqn:E1, (num_eq b a) eqn:E2; try reflexivity.
  - apply num_eq_iff in E1; try assumption. destruct E1 as (x & H1 & H2).
    assert (H : num_eq b a = true) by (apply num_eq_iff; eauto). congruence.
  - apply num_eq_iff in E2; try assumption. destruct E2 as (x & H1 & H2).
    assert (H : num_eq a b = true) by (apply num_eq_iff; eauto). congruence.
Qed.

Lemma num_eq_trans a b c : num_in_range a -> num_in_range b -> num_in_range c ->
  num_eq a b = true -> num_eq b c = true -> num_eq a c = true.
Proof.
  intros Ra Rb Rc H1 H2. apply num_eq_iff in H1; try assumption. apply num_eq_iff in H2; try assumption.
  destruct H1 as (x & Hx1 & Hx2), H2 as (y & Hy1 & Hy2). apply num_eq_iff; try assumption.
  exists x. split; [assumption|]. congruence.
Qed.

(* ---- generic facts about list_eqb under Forall ---- *)
Section ListEqb.
  Context {A : Type} (f : A -> A -> bool).
  Lemma list_eqb_refl (l : list A) : Forall (fun x => f x x = true) l -> list_eqb f l l = true.
  Proof. induction 1 as [|x l Hx _ IH]; cbn [list_eqb]; [reflexivity|]. rewrite Hx, IH. reflexivity. Qed.

  Lemma list_eqb_sym (l : list A) : forall r, Forall (fun x => forall y, In y r -> f x y = f y x) l ->
    list_eqb f l r = list_eqb f r l.
  Proof.
    induction l as [|x l IH]; intros [|y r] H; try reflexivity.
    inversion H as [|? ? Hx Hl]; subst. cbn [list_eqb].
    rewrite (Hx y) by (left; reflexivity). f_equal. apply IH.
    eapply Forall_impl; [|exact Hl]. intros a Ha z Hz. apply Ha. right. exact Hz.
  Qed.

  Lemma list_eqb_trans (l : list A) : forall r s,
    Forall (fun x => forall y z, In y r -> In z s -> f x y = true -> f y z = true -> f x z = true) l ->
    list_eqb f l r = true -> list_eqb f r s = true -> list_eqb f l s = true.
  Proof.
    induction l as [|x l IH]; intros [|y r] [|z s] H H1 H2; try discriminate; try reflexivity.
    inversion H as [|? ? Hx Hl]; subst. cbn [list_eqb] in *.
    apply andb_true_iff in H1. apply andb_true_iff in H2. destruct H1 as [H1a H1b], H2 as [H2a H2b].
    apply andb_true_iff. split.
    - apply (Hx y z); try assumption; left; reflexivity.
    - apply (IH r s); try assumption.
      eapply Forall_impl; [|exact Hl]. intros a Ha y' z' Hy' Hz'. apply Ha; right; assumption.
  Qed.
End ListEqb.

Lemma N_eqb_list_refl l : list_eqb N.eqb l l = true.
Proof. apply list_eqb_refl. apply Forall_forall. intros x _. apply N.eqb_refl. Qed.
Lemma N_eqb_list_sym l r : list_eqb N.eqb l r = list_eqb N.eqb r l.
Proof. apply list_eqb_sym. apply Forall_forall. intros x _ y _. apply N.eqb_sym. Qed.
Lemma N_eqb_list_trans l r s : list_eqb N.eqb l r = true -> list_eqb N.eqb r s = true -> list_eqb N.eqb l s = true.
Proof.
  apply list_eqb_trans. apply Forall_forall. intros x _ y z _ _ H1 H2.
  apply N.eqb_eq in H1. apply N.eqb_eq in H2. apply N.eqb_eq. congruence.
Qed.

(* ---- predicates on canonical forms, mirroring val_all ---- *)
Fixpoint cval_all (P : num -> Prop) (strict : bool) (c : cval) : Prop :=
  match c with
  | CNum n => P n
  | CSymList l => Forall (sympart_ok P) l
  | CPair a b => cval_all P strict a /\ cval_all P strict b
  | CSeq items => (fix all (l : list cval) : Prop := match l with [] => True | x :: l' => cval_all P strict x /\ all l' end) items
  | CType _ | CExpr _ | CExternal _ | COut => if strict then False else True
  | _ => True
  end.

Lemma cval_all_seq P s items : cval_all P s (CSeq items) <-> Forall (cval_all P s) items.
Proof.
  cbn [cval_all]. induction items as [|x items IH]; [split; auto|].
  split.
  - intros [Hx Hr]. constructor; [exact Hx | apply IH, Hr].
  - intros H. inversion H; subst. split; [assumption | apply IH; assumption].
Qed.

(* induction on value trees / canonical forms with the nested lists *)
Section ValInd.
  Variable P : val -> Prop.
  Hypothesis Hleaf : forall v,
    match v with VPair _ _ | VConcat _ _ | VRange _ _ | VSlice _ _ | VPartial _ _ | VList _ => False | _ => True end -> P v.
  Hypothesis Hpair : forall a b, P a -> P b -> P (VPair a b).
  Hypothesis Hconcat : forall a b, P a -> P b -> P (VConcat a b).
  Hypothesis Hrange : forall a b, P a -> P b -> P (VRange a b).
  Hypothesis Hslice : forall a b, P a -> P b -> P (VSlice a b).
  Hypothesis Hpartial : forall a b, P a -> P b -> P (VPartial a b).
  Hypothesis Hlist : forall items, Forall P items -> P (VList items).
  Fixpoint val_ind' (v : val) : P v :=
    match v with
    | VPair a b => Hpair a b (val_ind' a) (val_ind' b)
    | VConcat a b => Hconcat a b (val_ind' a) (val_ind' b)
    | VRange a b => Hrange a b (val_ind' a) (val_ind' b)
    | VSlice a b => Hslice a b (val_ind' a) (val_ind' b)
    | VPartial a b => Hpartial a b (val_ind' a) (val_ind' b)
    | VList items =>
        Hlist items ((fix go (l : list val) : Forall P l :=
                        match l with [] => Forall_nil P | x :: l' => Forall_cons x (val_ind' x) (go l') end) items)
    | VUnit => Hleaf VUnit I | VTrue => Hleaf VTrue I | VFalse => Hleaf VFalse I
    | VType t => Hleaf (VType t) I | VNum n => Hleaf (VNum n) I | VChar c => Hleaf (VChar c) I
    | VByte b => Hleaf (VByte b) I | VSym s => Hleaf (VSym s) I | VSymList l => Hleaf (VSymList l) I
    | VChars l => Hleaf (VChars l) I | VBytes l => Hleaf (VBytes l) I
    | VExpr n => Hleaf (VExpr n) I | VExternal n => Hleaf (VExternal n) I | VCustom => Hleaf VCustom I
    end.
End ValInd.

Section CvalInd.
  Variable P : cval -> Prop.
  Hypothesis Hleaf : forall c, match c with CPair _ _ | CSeq _ => False | _ => True end -> P c.
  Hypothesis Hpair : forall a b, P a -> P b -> P (CPair a b).
  Hypothesis Hseq : forall items, Forall P items -> P (CSeq items).
  Fixpoint cval_ind' (c : cval) : P c :=
    match c with
    | CPair a b => Hpair a b (cval_ind' a) (cval_ind' b)
    | CSeq items =>
        Hseq items ((fix go (l : list cval) : Forall P l :=
                       match l with [] => Forall_nil P | x :: l' => Forall_cons x (cval_ind' x) (go l') end) items)
    | CUnit => Hleaf CUnit I | CTrue => Hleaf CTrue I | CFalse => Hleaf CFalse I
    | CNum n => Hleaf (CNum n) I | CSym s => Hleaf (CSym s) I | CSymList l => Hleaf (CSymList l) I
    | CChars l => Hleaf (CChars l) I | CBytes l => Hleaf (CBytes l) I
    | CType t => Hleaf (CType t) I | CExpr n => Hleaf (CExpr n) I | CExternal n => Hleaf (CExternal n) I
    | COut => Hleaf COut I
    end.
End CvalInd.

(* the canonical form inherits what holds of the value *)
Lemma canon_all P s v : val_all P s v ->
  cval_all P s (canon v) /\ Forall (cval_all P s) (cflat v).
Proof.
  induction v using val_ind'.
  - destruct v; try contradiction; intros Hv; unfold canon, cflat; cbn [canon2 fst snd cval_all];
      cbn [val_all] in Hv; repeat split; try (constructor; [|constructor]); try exact Hv; try exact I;
      cbn [cval_all]; try exact Hv; try exact I.
  - intros [Ha Hb]. destruct (IHv1 Ha) as [Ca _], (IHv2 Hb) as [Cb _].
    unfold canon, cflat in *. cbn [canon2 fst snd cval_all]. repeat split; try assumption.
    constructor; [split; assumption | constructor].
  - intros [Ha Hb]. destruct (IHv1 Ha) as [_ Fa], (IHv2 Hb) as [_ Fb].
    unfold canon, cflat in *. cbn [canon2 fst snd].
    assert (F : Forall (cval_all P s) (snd (canon2 v1) ++ snd (canon2 v2))) by (apply Forall_app; split; assumption).
    split; [apply cval_all_seq; exact F | exact F].
  - intros [].
  - intros [].
  - cbn [val_all]. destruct s; [intros []|]. intros _. unfold canon, cflat. cbn. split; [exact I | constructor; [exact I | constructor]].
  - intros Hv. apply val_all_list in Hv.
    assert (F : Forall (cval_all P s) (map canon items)).
    { apply Forall_forall. intros c Hc. apply in_map_iff in Hc. destruct Hc as (x & <- & Hx).
      rewrite Forall_forall in H, Hv. apply (H x Hx). apply Hv, Hx. }
    unfold canon at 1, cflat. cbn [canon2 fst snd]. change (map (fun i => fst (canon2 i)) items) with (map canon items).
    split; [apply cval_all_seq; exact F | exact F].
Qed.

(* ---- symbol-list parts ---- *)
Lemma sympart_eqb_refl p : sympart_ok (fun n => num_in_range n /\ num_not_nan n) p -> sympart_eqb p p = true.
Proof. destruct p as [s|n]; cbn; [intros _; apply N.eqb_refl | intros [R N]; apply num_eq_refl; assumption]. Qed.

Lemma sympart_eqb_sym p q : sympart_ok num_in_range p -> sympart_ok num_in_range q -> sympart_eqb p q = sympart_eqb q p.
Proof. destruct p, q; cbn; intros; try reflexivity; [apply N.eqb_sym | apply num_eq_sym; assumption]. Qed.

Lemma sympart_eqb_trans p q r : sympart_ok num_in_range p -> sympart_ok num_in_range q -> sympart_ok num_in_range r ->
  sympart_eqb p q = true -> sympart_eqb q r = true -> sympart_eqb p r = true.
Proof.
  destruct p as [s1|n1], q as [s2|n2], r as [s3|n3]; cbn [sympart_ok sympart_eqb]; intros Hp Hq Hr H1 H2; try discriminate.
  - apply N.eqb_eq in H1. apply N.eqb_eq in H2. apply N.eqb_eq. congruence.
  - apply (num_eq_trans n1 n2 n3); assumption.
Qed.

Lemma data_type_eqb_sym x y : data_type_eqb x y = data_type_eqb y x.
Proof. unfold data_type_eqb. apply N.eqb_sym. Qed.
Lemma data_type_eqb_refl x : data_type_eqb x x = true.
Proof. unfold data_type_eqb. apply N.eqb_refl. Qed.
Lemma data_type_eqb_trans x y z : data_type_eqb x y = true -> data_type_eqb y z = true -> data_type_eqb x z = true.
Proof. unfold data_type_eqb. intros H1 H2. apply N.eqb_eq in H1. apply N.eqb_eq in H2. apply N.eqb_eq. congruence. Qed.

(* ---- ceq is an equivalence on well-formed canonical forms ---- *)
Lemma ceq_refl c : cval_all (fun n => num_in_range n /\ num_not_nan n) true c -> ceq c c = true.
Proof.
  induction c using cval_ind'.
  - destruct c; try contradiction; cbn [cval_all ceq]; intros Hc; try reflexivity; try contradiction.
    + destruct Hc. apply num_eq_refl; assumption.
    + apply N.eqb_refl.
    + apply list_eqb_refl. eapply Forall_impl; [|exact Hc]. intros p Hp. apply sympart_eqb_refl, Hp.
    + apply N_eqb_list_refl.
    + apply N_eqb_list_refl.
  - cbn [cval_all ceq]. intros [Ha Hb]. rewrite IHc1, IHc2 by assumption. reflexivity.
  - intros Hc. apply cval_all_seq in Hc. rewrite ceq_seq. apply list_eqb_refl.
    rewrite Forall_forall in *. intros x Hx. apply H; [exact Hx | apply Hc, Hx].
Qed.

Lemma ceq_sym a : forall b, cval_all num_in_range false a -> cval_all num_in_range false b -> ceq a b = ceq b a.
Proof.
  induction a using cval_ind'; intros b Ha Hb.
  - destruct a; try contradiction; destruct b; cbn [ceq]; try reflexivity; cbn [cval_all] in Ha, Hb.
    + apply num_eq_sym; assumption.
    + apply N.eqb_sym.
    + apply list_eqb_sym. rewrite Forall_forall in *. intros p Hp q Hq. apply sympart_eqb_sym; [apply Ha, Hp | apply Hb, Hq].
    + apply N_eqb_list_sym.
    + apply N_eqb_list_sym.
    + apply data_type_eqb_sym.
    + apply N.eqb_sym.
    + apply N.eqb_sym.
  - destruct b; cbn [ceq]; try reflexivity. cbn [cval_all] in Ha, Hb. destruct Ha as [Ha1 Ha2], Hb as [Hb1 Hb2].
    rewrite (IHa1 b1), (IHa2 b2) by assumption. reflexivity.
  - destruct b; try reflexivity. rewrite !ceq_seq. apply cval_all_seq in Ha. apply cval_all_seq in Hb.
    apply list_eqb_sym. rewrite Forall_forall in *. intros x Hx y Hy. apply H; [exact Hx | apply Ha, Hx | apply Hb, Hy].
Qed.

Lemma ceq_trans a : forall b c, cval_all num_in_range false a -> cval_all num_in_range false b -> cval_all num_in_range false c ->
  ceq a b = true -> ceq b c = true -> ceq a c = true.
Proof.
  induction a using cval_ind'; intros b d Ha Hb Hd H1 H2.
  - destruct a; try contradiction; destruct b; cbn [ceq] in H1; try discriminate H1;
      destruct d; cbn [ceq] in H2; try discriminate H2; cbn [ceq]; try reflexivity; cbn [cval_all] in Ha, Hb, Hd.
    + apply (num_eq_trans n n0 n1); assumption.
    + apply N.eqb_eq in H1. apply N.eqb_eq in H2. apply N.eqb_eq. congruence.
    + eapply list_eqb_trans; [|exact H1|exact H2]. rewrite Forall_forall in *. intros p Hp q r Hq Hr.
      apply sympart_eqb_trans; [apply Ha, Hp | apply Hb, Hq | apply Hd, Hr].
    + eapply N_eqb_list_trans; eassumption.
    + eapply N_eqb_list_trans; eassumption.
    + eapply data_type_eqb_trans; eassumption.
    + apply N.eqb_eq in H1. apply N.eqb_eq in H2. apply N.eqb_eq. congruence.
    + apply N.eqb_eq in H1. apply N.eqb_eq in H2. apply N.eqb_eq. congruence.
  - destruct b; cbn [ceq] in H1; try discriminate H1. destruct d; cbn [ceq] in H2; try discriminate H2.
    cbn [cval_all] in Ha, Hb, Hd. destruct Ha as [Ha1 Ha2], Hb as [Hb1 Hb2], Hd as [Hd1 Hd2].
    apply andb_true_iff in H1. apply andb_true_iff in H2. destruct H1 as [H1a H1b], H2 as [H2a H2b].
    cbn [ceq]. apply andb_true_iff. split; [apply (IHa1 b1 d1) | apply (IHa2 b2 d2)]; assumption.
  - destruct b; try discriminate H1. destruct d; try discriminate H2.
    rewrite ceq_seq in *. apply cval_all_seq in Ha. apply cval_all_seq in Hb. apply cval_all_seq in Hd.
    eapply list_eqb_trans; [|exact H1|exact H2].
    rewrite Forall_forall in *. intros x Hx y z Hy Hz. apply H; [exact Hx | apply Ha, Hx | apply Hb, Hy | apply Hd, Hz].
Qed.

(* ---- the theorems on values ---- *)
Theorem struct_eq_refl v : domain_nan_free v -> struct_eq v v = true.
Proof. intros H. unfold struct_eq. apply ceq_refl. apply (canon_all _ true v H). Qed.

Theorem struct_eq_sym a b : modelled a -> modelled b -> struct_eq a b = struct_eq b a.
Proof. intros Ha Hb. unfold struct_eq. apply ceq_sym; [apply (canon_all _ false a Ha) | apply (canon_all _ false b Hb)]. Qed.

Theorem struct_eq_trans a b c : modelled a -> modelled b -> modelled c ->
  struct_eq a b = true -> struct_eq b c = true -> struct_eq a c = true.
Proof.
  intros Ha Hb Hc. unfold struct_eq. apply ceq_trans;
    [apply (canon_all _ false a Ha) | apply (canon_all _ false b Hb) | apply (canon_all _ false c Hc)].
Qed.

(* the domain is covered by the model *)
Lemma val_all_weaken (P Q : num -> Prop) v : (forall n, P n -> Q n) -> val_all P true v -> val_all Q false v.
Proof.
  intros HPQ. induction v using val_ind'.
  - destruct v; try contradiction; cbn [val_all]; intros Hv; try exact I; try contradiction.
    + apply HPQ, Hv.
    + eapply Forall_impl; [|exact Hv]. intros p Hp. destruct p; cbn in *; [exact I | apply HPQ, Hp].
  - cbn [val_all]. intros [Ha Hb]. split; auto.
  - cbn [val_all]. intros [Ha Hb]. split; auto.
  - intros [].
  - intros [].
  - intros [].
  - intros Hv. apply val_all_list in Hv. apply val_all_list.
    rewrite Forall_forall in *. intros x Hx. apply H; [exact Hx | apply Hv, Hx].
Qed.

Lemma in_domain_modelled v : in_domain v -> modelled v.
Proof. apply val_all_weaken. auto. Qed.
Lemma domain_nan_free_in_range v : domain_nan_free v -> modelled v.
Proof. apply val_all_weaken. intros n [H _]. exact H. Qed.
