(* How far the arity discipline of Proofs/C06/Balanced.v reaches (the bound is
   in the name): for every token triple over the full alphabet, every token
   sequence of length <= 5 over the reduced alphabet and every sequence of
   length 7 over the ten-token alphabet, a program accepted by the parser and
   builder models, without a bare `;;` and outside the finding classes
   C06-K1..K4, keeps the discipline -- so the inductive static theorem applies
   to it.  By vm_compute. *)
From Coq Require Import List Arith Bool NArith Lia.
From GV Require Import Base.Result Gen.TokenTypes Gen.Defs Gen.Instr Model.Parser Model.BuilderWL Model.Compile
  Spec.Depth Proofs.C05.Known Proofs.C05.Bounded Proofs.C06.Known Proofs.C06.Balanced.
Import ListNotations.

Definition check_bal (toks : list token_type) : bool :=
  match parse toks with
  | Ok (root, nodes) =>
    match build nodes empty_init lit_all (build_fuel nodes) root, tree_of nodes root with
    | Ok _, Some t => has_terminator t || c06_known_b t || balanced t
    | _, _ => true
    end
  | _ => true
  end.

Definition check3bal (a b c : token_type) : bool := check_bal [a; b; c].

Lemma triples_bal_true :
  forallb (fun a => forallb (fun b => forallb (fun c => check3bal a b c) all_token_type) all_token_type) all_token_type = true.
Proof. vm_cast_no_check (@eq_refl bool true). Qed.

Lemma triples_check_bal : forall a b c, check_bal [a; b; c] = true.
Proof.
  intros a b c.
  exact (forallb3_spec token_type check3bal all_token_type triples_bal_true a b c
           (all_token_type_complete a) (all_token_type_complete b) (all_token_type_complete c)).
Qed.

Definition reduced_bal (n : nat) : bool := forallb check_bal (seqs reduced_alphabet n).
Lemma reduced_bal_0 : reduced_bal 0 = true.
Proof. vm_cast_no_check (@eq_refl bool true). Qed.
Lemma reduced_bal_1 : reduced_bal 1 = true.
Proof. vm_cast_no_check (@eq_refl bool true). Qed.
Lemma reduced_bal_2 : reduced_bal 2 = true.
Proof. vm_cast_no_check (@eq_refl bool true). Qed.
Lemma reduced_bal_3 : reduced_bal 3 = true.
Proof. vm_cast_no_check (@eq_refl bool true). Qed.
Lemma reduced_bal_4 : reduced_bal 4 = true.
Proof. vm_cast_no_check (@eq_refl bool true). Qed.
Lemma reduced_bal_5 : reduced_bal 5 = true.
Proof. vm_cast_no_check (@eq_refl bool true). Qed.

Lemma reduced_bal_spec : forall n toks, reduced_bal n = true -> length toks = n ->
  (forall x, In x toks -> In x reduced_alphabet) -> check_bal toks = true.
Proof.
  intros n toks Hn Hl Hin. unfold reduced_bal in Hn. rewrite forallb_forall in Hn. apply Hn.
  apply seqs_complete; assumption.
Qed.

Lemma reduced_check_bal : forall toks, length toks <= 5 -> (forall x, In x toks -> In x reduced_alphabet) -> check_bal toks = true.
Proof.
  intros toks Hlen Hin.
  destruct toks as [|t1 [|t2 [|t3 [|t4 [|t5 [|t6 toks]]]]]].
  - exact (reduced_bal_spec 0 [] reduced_bal_0 eq_refl Hin).
  - exact (reduced_bal_spec 1 [t1] reduced_bal_1 eq_refl Hin).
  - exact (reduced_bal_spec 2 [t1; t2] reduced_bal_2 eq_refl Hin).
  - exact (reduced_bal_spec 3 [t1; t2; t3] reduced_bal_3 eq_refl Hin).
  - exact (reduced_bal_spec 4 [t1; t2; t3; t4] reduced_bal_4 eq_refl Hin).
  - exact (reduced_bal_spec 5 [t1; t2; t3; t4; t5] reduced_bal_5 eq_refl Hin).
  - cbn [length] in Hlen. lia.
Qed.

Lemma small_bal_7 : all_seqs_ok check_bal small_alphabet 7 [] = true.
Proof. vm_cast_no_check (@eq_refl bool true). Qed.

Lemma small_check_bal : forall toks, length toks = 7 -> (forall x, In x toks -> In x small_alphabet) -> check_bal toks = true.
Proof. intros toks H7 Hin. exact (all_seqs_ok_spec _ check_bal small_alphabet 7 [] small_bal_7 toks H7 Hin). Qed.

(* what a passed check means *)
Definition accepted_balanced (toks : list token_type) : Prop :=
  forall root nodes r t,
    parse toks = Ok (root, nodes) ->
    build nodes empty_init lit_all (build_fuel nodes) root = Ok r ->
    tree_of nodes root = Some t ->
    ~ Excluded_C06 t -> ~ Known_C06_K1 t -> ~ Known_C06_K2 t -> ~ Known_C06_K3 t -> ~ Known_C06_K4 t ->
    balanced t = true.

Lemma check_bal_meaning : forall toks, check_bal toks = true -> accepted_balanced toks.
Proof.
  intros toks Hc root nodes r t Hp Hb Ht Hx H1 H2 H3 H4.
  unfold check_bal in Hc. rewrite Hp, Hb, Ht in Hc.
  unfold Excluded_C06, Known_C06_K1, Known_C06_K2, Known_C06_K3, Known_C06_K4 in *.
  destruct (has_terminator t); [congruence|].
  unfold c06_known_b in Hc.
  destruct (has_chain_no_else t); [congruence|].
  destruct (has_empty_value t); [congruence|].
  destruct (has_reapply_pending t); [congruence|].
  destruct (has_chain_early_else t); [congruence|].
  exact Hc.
Qed.
