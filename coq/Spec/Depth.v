(* What "evaluation is stack-balanced on every path" (C06) means.

   A program is the instruction stream and jump table one build added to a data
   object.  Every instruction has a fixed effect on the operand (register)
   stack -- how many operands it pops and pushes -- and on the input-value
   stack; the numbers are those of the runtime operations (runtime/src/runtime,
   via next_ref / next_two_raw_ref / push_*; tied to the running code by the
   depth harness, which executes programs one step at a time and reports the
   stack depths after every step).  Seven instructions have more than one
   successor or move control: JumpTo, JumpIfTrue, JumpIfFalse, And, Or,
   EndExpression, Apply / EmptyApply (into an expression body).

   [typed p d]: the assignment [d] gives every reachable instruction the operand
   depth above the current frame's base and the value-stack depth above the
   body's own input, the same along every path; no instruction pops below zero;
   an expression ends at operand depth one with its side effects closed; every
   expression body (and the entry) starts at (0, 0).

   [infer_depths] is an executable abstract interpreter over all paths; its
   answer is validated by [check_typed], whose soundness is
   Proofs/C06/DepthSound.v.  [amachine] is the abstract stack-depth machine the
   dynamic half of C06 talks about. *)
From Coq Require Import List Arith Bool NArith.
From GV Require Import Base.Result Gen.Instr Model.BuilderWL.
Import ListNotations.

Record prog : Type := mkProg {
  pg_ibase : nat;              (* index of the first instruction of this program *)
  pg_instrs : list instr;
  pg_jbase : nat;              (* index of its first jump entry *)
  pg_jumps : list nat;
  pg_entry : nat               (* reported entry (a jump-table index) *)
}.

Definition pinstr (p : prog) (pc : nat) : option instr :=
  if Nat.ltb pc (pg_ibase p) then None else nth_error (pg_instrs p) (pc - pg_ibase p).
Definition pjump (p : prog) (j : nat) : option nat :=
  if Nat.ltb j (pg_jbase p) then None else nth_error (pg_jumps p) (j - pg_jbase p).

(* ------------------------------------------------------------------ effects *)
(* straight-line instructions: operands popped, operands pushed, change of the
   value-stack depth (as an increment and a decrement) *)
Record eff : Type := mkEff { e_pop : nat; e_push : nat; e_vup : nat; e_vdown : nat }.

Definition effect (io : instr) : option eff :=
  match fst io with
  | I_Put | I_PutValue | I_Resolve => Some (mkEff 0 1 0 0)
  | I_PushValue => Some (mkEff 1 0 1 0)
  | I_UpdateValue => Some (mkEff 1 0 0 0)
  | I_StartSideEffect => Some (mkEff 0 0 1 0)
  | I_EndSideEffect => Some (mkEff 1 0 0 1)
  | I_Add | I_Subtract | I_Multiply | I_Divide | I_IntegerDivide | I_Power | I_Remainder
  | I_BitwiseAnd | I_BitwiseOr | I_BitwiseXor | I_BitwiseShiftLeft | I_BitwiseShiftRight
  | I_Xor | I_ApplyType | I_TypeEqual | I_Equal | I_NotEqual
  | I_LessThan | I_LessThanOrEqual | I_GreaterThan | I_GreaterThanOrEqual
  | I_MakePair | I_PartialApply | I_Access
  | I_MakeRange | I_MakeStartExclusiveRange | I_MakeEndExclusiveRange | I_MakeExclusiveRange
  | I_Concat => Some (mkEff 2 1 0 0)
  | I_Opposite | I_AbsoluteValue | I_BitwiseNot | I_Not | I_Tis | I_TypeOf
  | I_AccessLeftInternal | I_AccessRightInternal | I_AccessLengthInternal => Some (mkEff 1 1 0 0)
  | I_MakeList => match snd io with ONum n => Some (mkEff n 1 0 0) | _ => None end
  | I_Invalid => Some (mkEff 0 0 0 0)
  (* the call instructions, seen from the caller: operands replaced by the result *)
  | I_Apply => Some (mkEff 2 1 0 0)
  | I_EmptyApply => Some (mkEff 1 1 0 0)
  | I_JumpTo | I_JumpIfTrue | I_JumpIfFalse | I_And | I_Or | I_EndExpression | I_Reapply => None
  end.

(* depth pair: operands above the frame base, values above the body's input *)
Definition dp : Type := (nat * nat)%type.
Definition dp_eqb (a b : dp) : bool := Nat.eqb (fst a) (fst b) && Nat.eqb (snd a) (snd b).

Definition jump_operand (io : instr) : option nat :=
  match snd io with ONum j => Some j | _ => None end.

(* successors inside one body: [None] = the instruction cannot execute at this
   depth (operand underflow, closing a side effect that is not open, ending an
   expression at a depth other than (1, 0), missing jump entry, malformed
   operand); [Some l] = the possible next (pc, depth) pairs.  A call returns to
   the next instruction with its operands replaced by the result. *)
Definition succs (p : prog) (pc : nat) (io : instr) (d : dp) : option (list (nat * dp)) :=
  let '(r, v) := d in
  match fst io with
  | I_JumpTo =>
    match jump_operand io with
    | Some j => match pjump p j with Some t => Some [(t, (r, v))] | None => None end
    | None => None
    end
  | I_JumpIfTrue | I_JumpIfFalse =>
    match jump_operand io with
    | Some j =>
      match pjump p j with
      | Some t => if Nat.leb 1 r then Some [(S pc, (r - 1, v)); (t, (r - 1, v))] else None
      | None => None
      end
    | None => None
    end
  | I_And | I_Or =>
    match jump_operand io with
    | Some j =>
      match pjump p j with
      | Some t => if Nat.leb 1 r then Some [(S pc, (r, v)); (t, (r - 1, v))] else None
      | None => None
      end
    | None => None
    end
  | I_Reapply =>
    match jump_operand io with
    | Some j =>
      match pjump p j with
      | Some t => if Nat.leb 1 r then Some [(t, (r - 1, v))] else None
      | None => None
      end
    | None => None
    end
  | I_EndExpression => if dp_eqb d (1, 0) then Some [] else None
  | _ =>
    match effect io with
    | Some e =>
      if Nat.leb (e_pop e) r && Nat.leb (e_vdown e) v
      then Some [(S pc, (r - e_pop e + e_push e, v - e_vdown e + e_vup e))]
      else None
    | None => None
    end
  end.

(* body starts: the reported entry and every expression value of the program *)
Definition expr_refs (p : prog) : list nat :=
  flat_map (fun io => match io with (I_Put, OExpr j) => [j] | _ => [] end) (pg_instrs p).
Definition entry_refs (p : prog) : list nat := pg_entry p :: expr_refs p.

(* ------------------------------------------------------------------- typing *)
Definition dmap : Type := nat -> option dp.

Definition typed (p : prog) (d : dmap) : Prop :=
  (forall j, In j (entry_refs p) -> exists t, pjump p j = Some t /\ d t = Some (0, 0)) /\
  (forall pc x, d pc = Some x ->
     exists io l, pinstr p pc = Some io /\ succs p pc io x = Some l /\
                  forall pc' x', In (pc', x') l -> d pc' = Some x').

(* where an expression ends the operand depth is one (part of [succs], restated) *)
Definition ends_at_one (p : prog) (d : dmap) : Prop :=
  forall pc x o, d pc = Some x -> pinstr p pc = Some (I_EndExpression, o) -> x = (1, 0).

(* ------------------------------------------------------- abstract interpreter *)
Definition dlist : Type := list (option dp).
Definition dl_get (l : dlist) (k : nat) : option dp := match nth_error l k with Some x => x | None => None end.
Fixpoint dl_set (l : dlist) (k : nat) (x : dp) : dlist :=
  match l, k with
  | [], _ => []
  | _ :: r, O => Some x :: r
  | y :: r, S k' => y :: dl_set r k' x
  end.

Definition dmap_of (p : prog) (l : dlist) : dmap :=
  fun pc => if Nat.ltb pc (pg_ibase p) then None else dl_get l (pc - pg_ibase p).

(* worklist iteration: [None] = some path disagrees or cannot execute *)
Fixpoint propagate (fuel : nat) (p : prog) (l : dlist) (work : list (nat * dp)) : option dlist :=
  match fuel with
  | O => None
  | S f =>
    match work with
    | [] => Some l
    | (pc, x) :: rest =>
      if Nat.ltb pc (pg_ibase p) then None else
      match nth_error l (pc - pg_ibase p) with
      | None => None                                  (* outside the program *)
      | Some (Some y) => if dp_eqb x y then propagate f p l rest else None
      | Some None =>
        match pinstr p pc with
        | None => None
        | Some io =>
          match succs p pc io x with
          | None => None
          | Some nexts => propagate f p (dl_set l (pc - pg_ibase p) x) (nexts ++ rest)
          end
        end
      end
    end
  end.

Fixpoint entry_targets (p : prog) (js : list nat) : option (list (nat * dp)) :=
  match js with
  | [] => Some []
  | j :: r =>
    match pjump p j, entry_targets p r with
    | Some t, Some l => Some ((t, (0, 0)) :: l)
    | _, _ => None
    end
  end.

(* local validation of an assignment (independent of how it was found) *)
Definition check_entries (p : prog) (l : dlist) : bool :=
  forallb (fun j => match pjump p j with
                    | Some t => match dmap_of p l t with Some x => dp_eqb x (0, 0) | None => false end
                    | None => false
                    end) (entry_refs p).

Fixpoint check_nodes (p : prog) (l : dlist) (k : nat) (ins : list instr) (ds : dlist) : bool :=
  match ins, ds with
  | io :: ins', dx :: ds' =>
    (match dx with
     | None => true
     | Some x =>
       match succs p (pg_ibase p + k) io x with
       | None => false
       | Some nexts =>
         forallb (fun n => match dmap_of p l (fst n) with Some y => dp_eqb y (snd n) | None => false end) nexts
       end
     end) && check_nodes p l (S k) ins' ds'
  | [], [] => true
  | _, _ => false
  end.

Definition check_typed (p : prog) (l : dlist) : bool :=
  Nat.eqb (length l) (length (pg_instrs p)) && check_entries p l && check_nodes p l 0 (pg_instrs p) l.

Definition infer_depths (p : prog) : option dlist :=
  match entry_targets p (entry_refs p) with
  | None => None
  | Some work =>
    let n := length (pg_instrs p) in
    match propagate (4 * n + 2 * length work + 4) p (repeat None n) work with
    | Some l => if check_typed p l then Some l else None
    | None => None
    end
  end.

(* -------------------------------------------------- abstract depth machine *)
(* configuration: pc, operand depth above the frame base, value depth above the
   body's input, and for every active call (return pc, caller's operand depth
   after its operands were popped, caller's value depth) *)
Record acfg : Type := mkA {
  a_pc : nat; a_r : nat; a_v : nat; a_frames : list (nat * nat * nat)
}.

Inductive aout : Type :=
| AStep (c : acfg)
| AHalt (r v : nat).        (* EndExpression with no frame: depths left behind *)

(* all the moves the machine may make; [] = stuck (the runtime reports an error) *)
Definition asteps (p : prog) (c : acfg) : list aout :=
  match pinstr p (a_pc c) with
  | None => []
  | Some io =>
    let r := a_r c in let v := a_v c in
    match fst io with
    | I_EndExpression =>
      if Nat.leb 1 r then
        match a_frames c with
        | [] => [AHalt (r - 1) v]
        | (ret, r', v') :: fs => [AStep (mkA ret (S r') v' fs)]
        end
      else []
    | I_Apply | I_EmptyApply =>
      match effect io with
      | Some e =>
        if Nat.leb (e_pop e) r then
          AStep (mkA (S (a_pc c)) (r - e_pop e + e_push e) v (a_frames c)) ::
          flat_map (fun j => match pjump p j with
                             | Some t => [AStep (mkA t 0 0 ((S (a_pc c), r - e_pop e, v) :: a_frames c))]
                             | None => []
                             end) (expr_refs p)
        else []
      | None => []
      end
    | _ =>
      match succs p (a_pc c) io (r, v) with
      | Some l => map (fun n => AStep (mkA (fst n) (fst (snd n)) (snd (snd n)) (a_frames c))) l
      | None => []
      end
    end
  end.

Definition astep (p : prog) (c : acfg) (o : aout) : Prop := In o (asteps p c).

Inductive areach (p : prog) : acfg -> acfg -> Prop :=
| areach_refl : forall c, areach p c c
| areach_step : forall c c1 c2, areach p c c1 -> astep p c1 (AStep c2) -> areach p c c2.

Definition a_init (p : prog) (t : nat) : acfg := mkA t 0 0 [].

(* absolute depths of the three stacks, given the value-stack depth [v0] at the start *)
Definition total_regs (c : acfg) : nat := a_r c + fold_right (fun f acc => snd (fst f) + acc) 0 (a_frames c).
Definition total_values (v0 : nat) (c : acfg) : nat :=
  v0 + a_v c + fold_right (fun f acc => S (snd f) + acc) 0 (a_frames c).

(* the program one build added to a data object *)
Definition prog_of (init : binit) (ins : list instr) (js : list nat) (entry : nat) : prog :=
  mkProg (i_instr_len init) ins (i_jump_len init) js entry.
Definition prog_of_build (init : binit) (r : bstate * nat) : prog :=
  prog_of init (instrs (fst r)) (jumps (fst r)) (snd r).
