(* The inner loop of the worklist builder simulates the tree compiler: draining
   the node stack with the root of a subtree on top emits exactly the inline
   code of that subtree (Model/Compile.v, [inl]), pushes the bodies it registers
   on root_stack with the records the outer loop needs, bumps the child count of
   its list head, registers its arms with its else-chain head, and leaves every
   record outside the subtree alone.  By induction on the tree; every visit of
   a node is one iteration of the loop. *)
From Coq Require Import List Arith Bool NArith Lia.
From GV Require Import Base.Result Gen.TokenTypes Gen.Defs Gen.Instr Model.Parser Model.BuilderWL Model.Compile
  Proofs.C05.InlBase Proofs.C05.Known Proofs.C05.Jumps Proofs.Builder.BState Proofs.Builder.TreeAt Proofs.Builder.Owned.
Import ListNotations.

Inductive mode : Type := MPlain | MList (lp : nat) (d' : definition) | MCond (cp : nat).
Definition cx_of (c : nat) (m : mode) : ctx :=
  match m with MPlain => plain c | MList _ d' => mkCx c (Some d') false | MCond _ => mkCx c None true end.
Definition sp_of (m : mode) : option nat :=
  match m with MPlain => None | MList lp _ => Some lp | MCond cp => Some cp end.
Definition lp_of (m : mode) : option (nat * definition) := match m with MList lp d' => Some (lp, d') | _ => None end.
Definition cp_of (m : mode) : option nat := match m with MCond cp => Some cp | _ => None end.

Definition ready (b : bnode) (ix c : nat) (m : mode) : Prop :=
  b_init b = false /\ b_pidx b = ix /\ b_containing b = c /\ b_list_parent b = lp_of m /\
  b_child_count b = 0 /\ b_contrib b = true /\ b_cond_parent b = cp_of m /\ b_cond_items b = [] /\
  b_left_built b = false.

Definition mode_ok (m : mode) : Prop := match m with MList _ d' => kind_of d' = KList | _ => True end.

Lemma definition_eqb_eq : forall d d', definition_eqb d d' = true -> d = d'.
Proof. intros d d' H. destruct d; destruct d'; try reflexivity; discriminate H. Qed.

Lemma definition_eqb_sym : forall a b, definition_eqb a b = definition_eqb b a.
Proof. intros a b. unfold definition_eqb. apply N.eqb_sym. Qed.

Lemma definition_eqb_refl : forall a, definition_eqb a a = true.
Proof. intros a. unfold definition_eqb. apply N.eqb_refl. Qed.

Lemma deq_kind_false : forall d d', kind_of d <> KList -> kind_of d' = KList -> definition_eqb d d' = false.
Proof.
  intros d d' H1 H2. destruct (definition_eqb d d') eqn:E; [|reflexivity].
  apply definition_eqb_eq in E. subst. contradiction.
Qed.

Definition kcount (m : mode) (t : tree) : nat := match m with MList _ d' => count_items d' t | _ => 0 end.
Definition imap (its : list (tree * nat)) : list (nat * nat) := map (fun it => (t_ix (fst it), snd it)) its.

Definition reg (s : bstate) (p : pend) : Prop :=
  exists bp, lk s (proot p) = Some (Some bp) /\ ready bp (proot p) (p_containing p) MPlain /\
             b_jump_upd bp = Some (p_jump p) /\ ends_of bp = p_end p.

Definition post (s s' : bstate) (t : tree) (m : mode) (b : bnode) (c' : cst) (ps : list pend) (its : list (tree * nat)) : Prop :=
  cst_of s' = c' /\
  root_stack s' = rev (map proot ps) ++ root_stack s /\
  blen s' = blen s /\
  (forall j, ~ In j (indices t) -> sp_of m <> Some j -> lk s' j = lk s j) /\
  (forall j pb, sp_of m = Some j -> lk s j = Some (Some pb) ->
                lk s' j = Some (Some (b_eff (kcount m t) (imap its) pb))) /\
  (exists b', lk s' (t_ix t) = Some (Some b') /\ b_root_end b' = b_root_end b) /\
  Forall (fun p => reg s' p /\ In (proot p) (tl (indices t))) ps /\
  Forall (fun it => In (t_ix (fst it)) (tl (indices t))) its.


(* ---- the else-chain head: its arms are pushed on root_stack and given their records ---- *)
Lemma fold_push_root_spec : forall (items : list (nat * nat)) s1,
  cst_of (fold_left (fun acc it => push_root acc (fst it)) items s1) = cst_of s1 /\
  root_stack (fold_left (fun acc it => push_root acc (fst it)) items s1) = rev (map fst items) ++ root_stack s1 /\
  blen (fold_left (fun acc it => push_root acc (fst it)) items s1) = blen s1 /\
  forall j, lk (fold_left (fun acc it => push_root acc (fst it)) items s1) j = lk s1 j.
Proof.
  induction items as [|it items IH]; intros s1; [cbn; auto|].
  cbn [fold_left]. destruct (IH (push_root s1 (fst it))) as [A [B [C D]]].
  split; [exact A|]. split; [|split; [exact C | exact D]].
  rewrite B. cbn [map rev]. rewrite <- app_assoc. reflexivity.
Qed.

Definition assign_arm (c jt : nat) (acc : res bstate) (it : nat * nat) : res bstate :=
  do a <- acc; assign_b a (fst it) (b_new_jump_end (fst it) c (snd it) [(I_JumpTo, ONum jt)]).

Lemma fold_assign_ok : forall c jt items r s3,
  fold_left (assign_arm c jt) items r = Ok s3 -> exists s2, r = Ok s2.
Proof.
  induction items as [|it items IH]; intros r s3 H; [exists s3; exact H|].
  cbn [fold_left] in H. destruct (IH _ _ H) as [s2 Hs2].
  unfold assign_arm in Hs2. destruct r; try discriminate Hs2. eexists; reflexivity.
Qed.

Lemma fold_assign_spec : forall c jt items s2 s3,
  fold_left (assign_arm c jt) items (Ok s2) = Ok s3 ->
  cst_of s3 = cst_of s2 /\ root_stack s3 = root_stack s2 /\ blen s3 = blen s2 /\
  (forall j, ~ In j (map fst items) -> lk s3 j = lk s2 j) /\
  (NoDup (map fst items) -> forall it, In it items ->
     lk s3 (fst it) = Some (Some (b_new_jump_end (fst it) c (snd it) [(I_JumpTo, ONum jt)]))).
Proof.
  induction items as [|it items IH]; intros s2 s3 H.
  - cbn in H. inversion H; subst. repeat split; auto. intros _ it [].
  - cbn [fold_left] in H. destruct (fold_assign_ok _ _ _ _ _ H) as [s2' Hs2'].
    rewrite Hs2' in H. unfold assign_arm in Hs2'. cbn [bind] in Hs2'. apply assign_b_ok in Hs2'.
    destruct (IH _ _ H) as [A [B [C [D E]]]]. destruct Hs2' as [S1 [S2 [S3 [S4 S5]]]].
    split; [congruence|]. split; [congruence|]. split; [congruence|]. split.
    + intros j Hj. cbn [map In] in Hj. rewrite D by tauto. apply S2. intros E'. apply Hj. left. congruence.
    + intros Hnd it' [Hit|Hit].
      * subst it'. cbn [map] in Hnd. inversion Hnd; subst. rewrite D by assumption. exact S1.
      * cbn [map] in Hnd. inversion Hnd; subst. apply E; assumption.
Qed.

(* a registered root occurs in what is owned at least as often as among the roots *)
Lemma cnt_roots_le : forall ps its x,
  cnt (map proot ps ++ map iroot its) x <= cnt (owned ps its) x.
Proof.
  intros ps its x. unfold owned. rewrite !cnt_app.
  assert (G : forall A (f : A -> tree) (l : list A),
            cnt (map (fun y => t_ix (f y)) l) x <= cnt (flat_map (fun y => indices (f y)) l) x).
  { intros A f l. induction l as [|y l IH]; [apply Nat.le_refl|].
    cbn [map flat_map]. rewrite cnt_app. unfold cnt at 1. cbn [count_occ].
    destruct (Nat.eq_dec (t_ix (f y)) x) as [E|E].
    - assert (0 < cnt (indices (f y)) x).
      { apply (count_occ_In Nat.eq_dec). rewrite <- E. apply ix_in. }
      fold (cnt (map (fun y0 => t_ix (f y0)) l) x). lia.
    - fold (cnt (map (fun y0 => t_ix (f y0)) l) x). lia. }
  pose proof (G pend p_tree ps). pose proof (G (tree * nat)%type fst its).
  unfold proot, iroot. lia.
Qed.

Lemma owned_roots_nodup : forall ps its,
  (forall x, cnt (owned ps its) x <= 1) -> NoDup (map proot ps ++ map iroot its).
Proof. intros ps its H. apply nodup_cnt. intros x. pose proof (cnt_roots_le ps its x). specialize (H x). lia. Qed.

Lemma proot_items : forall c e (its : list (tree * nat)),
  map proot (map (fun it : tree * nat => mkP (fst it) c (snd it) e) its) = map iroot its.
Proof. intros c e its. rewrite map_map. reflexivity. Qed.

Lemma imap_fst : forall its, map fst (imap its) = map iroot its.
Proof. intros its. unfold imap, iroot. rewrite map_map. reflexivity. Qed.

Lemma setb_ne : forall s s' i b j, setb s s' i b -> j <> i -> lk s' j = lk s j.
Proof. intros s s' i b j [_ [H _]] Hne. apply H. exact Hne. Qed.
Lemma setb_eq : forall s s' i b, setb s s' i b -> lk s' i = Some (Some b).
Proof. intros s s' i b [H _]. exact H. Qed.
Lemma setb_cst : forall s s' i b, setb s s' i b -> cst_of s' = cst_of s.
Proof. intros s s' i b [_ [_ [H _]]]. exact H. Qed.
Lemma setb_roots : forall s s' i b, setb s s' i b -> root_stack s' = root_stack s.
Proof. intros s s' i b [_ [_ [_ [H _]]]]. exact H. Qed.
Lemma setb_len : forall s s' i b, setb s s' i b -> blen s' = blen s.
Proof. intros s s' i b [_ [_ [_ [_ H]]]]. exact H. Qed.


Lemma post_frame : forall s s' t m b c' ps its j,
  post s s' t m b c' ps its -> ~ In j (indices t) -> sp_of m <> Some j -> lk s' j = lk s j.
Proof. intros s s' t m b c' ps its j H. destruct H as [_ [_ [_ [H _]]]]. apply H. Qed.
Lemma post_sp : forall s s' t m b c' ps its j pb,
  post s s' t m b c' ps its -> sp_of m = Some j -> lk s j = Some (Some pb) ->
  lk s' j = Some (Some (b_eff (kcount m t) (imap its) pb)).
Proof. intros s s' t m b c' ps its j pb H. destruct H as [_ [_ [_ [_ [H _]]]]]. apply H. Qed.
Lemma post_cst : forall s s' t m b c' ps its, post s s' t m b c' ps its -> cst_of s' = c'.
Proof. intros s s' t m b c' ps its H. destruct H as [H _]. exact H. Qed.
Lemma post_roots : forall s s' t m b c' ps its, post s s' t m b c' ps its -> root_stack s' = rev (map proot ps) ++ root_stack s.
Proof. intros s s' t m b c' ps its H. destruct H as [_ [H _]]. exact H. Qed.
Lemma post_len : forall s s' t m b c' ps its, post s s' t m b c' ps its -> blen s' = blen s.
Proof. intros s s' t m b c' ps its H. destruct H as [_ [_ [H _]]]. exact H. Qed.

Lemma some_neq : forall A (a b : A), a <> b -> Some a <> Some b.
Proof. intros A a b H E. apply H. injection E as E. exact E. Qed.

(* side conditions: disequalities and non-membership among the indices at hand *)
Ltac ne_solve :=
  solve [ assumption
        | cbn [sp_of]; apply some_neq; ne_solve
        | apply not_eq_sym; assumption
        | cbn [sp_of]; discriminate
        | cbn [sp_of]; let E := fresh in intros E; inversion E; subst;
          first [ contradiction | match goal with H : ?x <> ?x |- _ => exact (H eq_refl) end ]
        | let E := fresh in intros E; subst; contradiction
        | match goal with
          | F : In ?j (indices ?X) -> False |- ?j <> t_ix ?X =>
            let E := fresh in intros E; apply F; rewrite E; apply ix_in
          | F : In ?j (indices ?X) -> False |- t_ix ?X <> ?j =>
            let E := fresh in intros E; apply F; rewrite <- E; apply ix_in
          | Hin : In ?j (indices ?X), N : ~ In ?k (indices ?X) |- ?j <> ?k =>
            let E := fresh in intros E; apply N; rewrite <- E; exact Hin
          | Hin : In ?j (indices ?X), N : ~ In ?k (indices ?X) |- ?k <> ?j =>
            let E := fresh in intros E; apply N; rewrite E; exact Hin
          | Hin : In ?j (indices ?X), N : forall x, In x (indices ?X) -> ~ In x (indices ?Y) |- ~ In ?j (indices ?Y) =>
            apply N; exact Hin
          | Hin : In ?j (indices ?X), N : forall x, In x (indices ?Y) -> ~ In x (indices ?X) |- ~ In ?j (indices ?Y) =>
            let E := fresh in intros E; exact (N _ E Hin)
          end ].

(* compute the record of node [j] in a state from the history of that state *)
Ltac lk_chain :=
  repeat match goal with
         | |- lk (bump ?s) ?j = _ => change (lk (bump s) j) with (lk s j)
         | |- lk (push_instr ?s ?i ?m) ?j = _ => change (lk (push_instr s i m) j) with (lk s j)
         | |- lk (push_jump ?s ?x) ?j = _ => change (lk (push_jump s x) j) with (lk s j)
         | |- lk (push_root ?s ?x) ?j = _ => change (lk (push_root s x) j) with (lk s j)
         | H : lk ?s ?j = _ |- lk ?s ?j = _ => exact H
         | |- lk ?s ?j = lk ?s ?j => reflexivity
         | H : setb ?s ?s' ?i ?b |- lk ?s' ?j = _ =>
           first [ constr_eq i j; exact (setb_eq _ _ _ _ H)
                 | rewrite (setb_ne _ _ _ _ j H) by ne_solve ]
         | H : forall j0, lk ?s' j0 = lk ?s j0 |- lk ?s' ?j = _ => rewrite (H j)
         | H : forall j0, ~ In j0 ?L -> lk ?s' j0 = lk ?s j0 |- lk ?s' ?j = _ =>
           rewrite (H j) by (let E := fresh "E" in intros E;
                             match goal with Hr : forall x, In x L -> _ \/ _ |- _ =>
                               let E1 := fresh "E" in destruct (Hr _ E) as [E1|E1]; contradiction end)
         | H : post ?s ?s' ?t ?m _ _ _ _ |- lk ?s' ?j = _ =>
           first [ eapply (post_sp _ _ _ _ _ _ _ _ j _ H); [reflexivity | lk_chain]
                 | rewrite (post_frame _ _ _ _ _ _ _ _ j H) by ne_solve ]
         end.

Ltac cst_norm :=
  repeat match goal with
         | |- context [jump_len ?i ?s] => change (jump_len i s) with (jl i (cst_of s))
         | |- context [instr_len ?i ?s] => change (instr_len i s) with (il i (cst_of s))
         | |- context [cst_of (bump ?s)] => change (cst_of (bump s)) with (cst_of s)
         | |- context [cst_of (push_instr ?s ?i ?m)] => change (cst_of (push_instr s i m)) with (emit (cst_of s) i m)
         | |- context [cst_of (push_jump ?s ?x)] => change (cst_of (push_jump s x)) with (new_jump (cst_of s) x)
         | |- context [cst_of (push_root ?s ?x)] => change (cst_of (push_root s x)) with (cst_of s)
         | H : setb ?s ?s' _ _ |- context [cst_of ?s'] => rewrite (setb_cst _ _ _ _ H)
         | H : post ?s ?s' _ _ _ _ _ _ |- context [cst_of ?s'] => rewrite (post_cst _ _ _ _ _ _ _ _ H)
         | H : cst_of ?s' = _ |- context [cst_of ?s'] => rewrite H
         end.
Ltac cst_norm_in Hx :=
  repeat match type of Hx with
         | context [jump_len ?i ?s] => change (jump_len i s) with (jl i (cst_of s)) in Hx
         | context [instr_len ?i ?s] => change (instr_len i s) with (il i (cst_of s)) in Hx
         | context [cst_of (bump ?s)] => change (cst_of (bump s)) with (cst_of s) in Hx
         | context [cst_of (push_instr ?s ?i ?m)] => change (cst_of (push_instr s i m)) with (emit (cst_of s) i m) in Hx
         | context [cst_of (push_jump ?s ?x)] => change (cst_of (push_jump s x)) with (new_jump (cst_of s) x) in Hx
         | context [cst_of (push_root ?s ?x)] => change (cst_of (push_root s x)) with (cst_of s) in Hx
         | context [cst_of ?s'] =>
           match goal with
           | H : setb ?s s' _ _ |- _ => rewrite (setb_cst _ _ _ _ H) in Hx
           | H : post ?s s' _ _ _ _ _ _ |- _ => rewrite (post_cst _ _ _ _ _ _ _ _ H) in Hx
           end
         end.


Ltac rewrite_ready :=
  repeat match goal with
         | H : b_list_parent ?b = _ |- context [b_list_parent ?b] => rewrite H
         | H : b_contrib ?b = _ |- context [b_contrib ?b] => rewrite H
         | H : b_init ?b = _ |- context [b_init ?b] => rewrite H
         | H : b_cond_parent ?b = _ |- context [b_cond_parent ?b] => rewrite H
         end.
Ltac bsimpl :=
  cbn [b_init b_pidx b_containing b_list_parent b_child_count b_contrib b_jump_upd b_root_end b_cond_parent
       b_cond_items b_left_built b_set_init b_set_contrib b_inc_count b_add_item b_set_left_built b_eff
       b_new b_new_list b_new_cond b_new_jump b_new_jump_end lp_of cp_of].
Ltac plain_side := bsimpl; rewrite_ready; first [left; reflexivity | right; reflexivity].

(* the bookkeeping after a visit of the node *)
Ltac after_step Han :=
  match type of Han with
  | after_node ?s1 ?ix = Ok ?s2 =>
    let Hx := fresh "Hx" in
    eassert (Hx : lk s1 ix = _) by lk_chain;
    first [ rewrite (after_node_plain _ _ _ Hx ltac:(plain_side)) in Han; inversion Han; subst s2; clear Han Hx
          | let sm := fresh "s" in let pb := fresh "pb" in
            let A := fresh "Hown" in let B := fresh "Hlp" in let C := fresh "Hbump" in
            destruct (after_node_list _ _ _ _ _ _ Hx ltac:(bsimpl; rewrite_ready; reflexivity)
                        ltac:(bsimpl; rewrite_ready; reflexivity) Han) as (sm & pb & A & B & C);
            clear Han Hx;
            match type of B with
            | lk ?sx ?lp = _ =>
              let Hq := fresh "Hq" in
              revert B;
              eassert (Hq : lk sx lp = Some (Some _)) by lk_chain;
              intros B;
              rewrite Hq in B; injection B as B; subst pb; clear Hq
            end ]
  end.

Ltac ready_solve := unfold ready; bsimpl; repeat split; reflexivity.
Ltac sp_side :=
  let j := fresh "j" in let E := fresh "E" in
  intros j E; cbn [sp_of] in E;
  first [ discriminate E
        | inversion E; subst j; split; [ne_solve | eexists; lk_chain] ].


Ltac mode_of ba :=
  lazymatch ba with
  | b_new _ _ => constr:(MPlain)
  | b_new_list _ _ ?p ?d => constr:(MList p d)
  | b_new_cond _ _ ?cp => constr:(MCond cp)
  | b_new_jump _ _ _ => constr:(MPlain)
  | b_new_jump_end _ _ _ _ => constr:(MPlain)
  end.
Ltac cont_of ba :=
  lazymatch ba with
  | b_new _ ?c => c
  | b_new_list _ ?c _ _ => c
  | b_new_cond _ ?c _ => c
  | b_new_jump _ ?c _ => c
  | b_new_jump_end _ ?c _ _ => c
  end.

(* the subtree on top of the node stack, by the induction hypothesis *)
Ltac child_step IH Hd :=
  match type of Hd with
  | drain ?nodes _ _ ?f ?s2 ?crj (t_ix ?a :: ?rest') = Ok ?out =>
    let Hb := fresh "Hb" in
    eassert (Hb : lk s2 (t_ix a) = Some (Some _)) by lk_chain;
    match type of Hb with
    | _ = Some (Some ?ba) =>
      let m := mode_of ba in let c := cont_of ba in
      match goal with
      | Ha : tree_at nodes a, Hn : NoDup (indices a) |- _ =>
        let ca := fresh "c" in let psa := fresh "ps" in let itsa := fresh "its" in
        let fa := fresh "f" in let sa := fresh "s" in
        let Hinl := fresh "Hinl" in let Hd' := fresh "Hd" in let Hpost := fresh "Hpost" in
        destruct (IH a eq_refl m c f s2 crj rest' out ba Ha Hn Hd Hb ltac:(ready_solve) ltac:(first [exact I | assumption]) ltac:(sp_side))
          as (ca & psa & itsa & fa & sa & Hinl & Hd' & Hpost);
        clear Hd
      end
    end
  end.


Ltac bsimpl_in H :=
  cbn [b_init b_pidx b_containing b_list_parent b_child_count b_contrib b_jump_upd b_root_end b_cond_parent
       b_cond_items b_left_built b_set_init b_set_contrib b_inc_count b_add_item b_set_left_built b_eff
       b_new b_new_list b_new_cond b_new_jump b_new_jump_end lp_of cp_of] in H.
Ltac rewrite_ready_in Hh :=
  repeat match goal with
         | H : b_list_parent ?b = _ |- _ => rewrite H in Hh
         | H : b_contrib ?b = _ |- _ => rewrite H in Hh
         | H : b_init ?b = _ |- _ => rewrite H in Hh
         | H : b_cond_parent ?b = _ |- _ => rewrite H in Hh
         | H : b_pidx ?b = _ |- _ => rewrite H in Hh
         | H : b_containing ?b = _ |- _ => rewrite H in Hh
         | H : b_left_built ?b = _ |- _ => rewrite H in Hh
         | H : b_cond_items ?b = _ |- _ => rewrite H in Hh
         | H : b_child_count ?b = _ |- _ => rewrite H in Hh
         end.

(* one visit of the node itself: [opener] selects and unfolds the handler *)
Ltac own_step Hd Hnth opener :=
  let f := fresh "f" in let s1 := fresh "s" in let st1 := fresh "st" in let s2 := fresh "s" in
  let Ef := fresh "Ef" in let Hh := fresh "Hh" in let Han := fresh "Han" in let Hd' := fresh "Hd" in
  destruct (drain_step _ _ _ _ _ _ _ _ _ _ Hd Hnth) as (f & s1 & st1 & s2 & Ef & Hh & Han & Hd');
  match type of Ef with ?x = _ => subst x end; clear Hd;
  opener Hh;
  match type of Hh with
  | context [get_b ?s0 ?ix] =>
    let Hg := fresh "Hg" in
    eassert (Hg : lk s0 ix = Some (Some _)) by lk_chain;
    rewrite !(get_b_lk _ _ _ Hg) in Hh; clear Hg
  | _ => idtac
  end;
  repeat match type of Hh with
         | context [nth_error (bnodes ?s0) ?j] =>
           change (nth_error (bnodes s0) j) with (lk s0 j) in Hh;
           let Hg := fresh "Hg" in
           eassert (Hg : lk s0 j = Some (Some _)) by lk_chain;
           rewrite Hg in Hh; clear Hg
         end;
  cbn [bind] in Hh; bsimpl_in Hh; rewrite_ready_in Hh; cbn [negb andb] in Hh; cbv iota beta in Hh;
  repeat match type of Hh with
         | context [nth_error (bnodes ?s0) ?j] =>
           change (nth_error (bnodes s0) j) with (lk s0 j) in Hh;
           let Hg := fresh "Hg" in
           eassert (Hg : lk s0 j = Some (Some _)) by lk_chain;
           rewrite Hg in Hh; clear Hg
         end;
  cbv iota beta in Hh;
  match goal with
  | Hl : n_left ?pn = _, Hr : n_right ?pn = _ |- _ => rewrite ?Hl, ?Hr in Hh
  end;
  cbn [need bind] in Hh; repeat inv_b;
  after_step Han.

Ltac norm_inls :=
  repeat match goal with
         | H : inl _ _ _ _ (cx_of _ _) _ = Ok _ |- _ => cbn [cx_of] in H
         end;
  repeat match goal with
         | H : inl ?i ?lo _ _ _ _ = Ok (_, _, ?it) |- _ =>
           is_var it;
           let E := fresh in
           assert (E : it = []) by (apply (proj1 (inl_items i lo _ _ _ _ _ _ _ H)); reflexivity);
           subst it
         end;
  repeat match goal with
         | H : inl _ _ _ _ _ ?st = Ok _ |- _ =>
           lazymatch st with
           | context [cst_of] => progress cst_norm_in H
           end
         end.


Lemma post_pends : forall s s' t m b c' ps its, post s s' t m b c' ps its ->
  Forall (fun p => reg s' p /\ In (proot p) (tl (indices t))) ps.
Proof. intros s s' t m b c' ps its H. destruct H as [_ [_ [_ [_ [_ [_ [H _]]]]]]]. exact H. Qed.
Lemma post_items : forall s s' t m b c' ps its, post s s' t m b c' ps its ->
  Forall (fun it => In (t_ix (fst it)) (tl (indices t))) its.
Proof. intros s s' t m b c' ps its H. destruct H as [_ [_ [_ [_ [_ [_ [_ H]]]]]]]. exact H. Qed.

Ltac roots_norm :=
  repeat match goal with
         | |- context [root_stack (bump ?s)] => change (root_stack (bump s)) with (root_stack s)
         | |- context [root_stack (push_instr ?s ?i ?m)] => change (root_stack (push_instr s i m)) with (root_stack s)
         | |- context [root_stack (push_jump ?s ?x)] => change (root_stack (push_jump s x)) with (root_stack s)
         | |- context [root_stack (push_root ?s ?x)] => change (root_stack (push_root s x)) with (x :: root_stack s)
         | H : setb ?s ?s' _ _ |- context [root_stack ?s'] => rewrite (setb_roots _ _ _ _ H)
         | H : post ?s ?s' _ _ _ _ _ _ |- context [root_stack ?s'] => rewrite (post_roots _ _ _ _ _ _ _ _ H)
         | H : root_stack ?s' = _ |- context [root_stack ?s'] => rewrite H
         end.
Ltac blen_norm :=
  repeat match goal with
         | |- context [blen (bump ?s)] => change (blen (bump s)) with (blen s)
         | |- context [blen (push_instr ?s ?i ?m)] => change (blen (push_instr s i m)) with (blen s)
         | |- context [blen (push_jump ?s ?x)] => change (blen (push_jump s x)) with (blen s)
         | |- context [blen (push_root ?s ?x)] => change (blen (push_root s x)) with (blen s)
         | H : setb ?s ?s' _ _ |- context [blen ?s'] => rewrite (setb_len _ _ _ _ H)
         | H : post ?s ?s' _ _ _ _ _ _ |- context [blen ?s'] => rewrite (post_len _ _ _ _ _ _ _ _ H)
         | H : blen ?s' = _ |- context [blen ?s'] => rewrite H
         end.

(* a generic index outside the node's subtree *)
Ltac frame_facts Hj :=
  cbn [indices] in Hj;
  repeat match type of Hj with
         | ~ In _ (_ :: _) => apply not_in_cons in Hj; let A := fresh "Fj" in destruct Hj as [A Hj]
         | ~ In _ (_ ++ _) =>
           let A := fresh "Fj" in let B := fresh "Fj" in
           assert (A := fun H => Hj (in_or_app _ _ _ (or_introl H)));
           assert (B := fun H => Hj (in_or_app _ _ _ (or_intror H))); clear Hj
         end.

(* pends / items inherited from a child keep their registration *)
Ltac pend_leaf :=
  first [ apply Forall_nil
        | match goal with
          | Hp : post _ _ ?a _ _ _ ?ps _ |- Forall _ ?ps =>
            eapply Forall_impl; [| exact (post_pends _ _ _ _ _ _ _ _ Hp)];
            let p := fresh "p" in let Hreg := fresh "Hreg" in let Hin := fresh "Hin" in
            intros p [Hreg Hin]; apply In_tl in Hin;
            split;
            [ let bp := fresh "bp" in let Hb := fresh "Hb" in let Hrest := fresh "Hrest" in
              destruct Hreg as [bp [Hb Hrest]]; exists bp; split; [lk_chain | exact Hrest]
            | cbn [indices tl]; rewrite ?in_app_iff; tauto ]
          end ].
Ltac pend_new :=
  apply Forall_cons; [|apply Forall_nil];
  split;
  [ unfold reg, proot; cbn [p_tree p_containing p_jump p_end];
    eexists; split; [lk_chain | split; [ready_solve | split; unfold ends_of; bsimpl; cst_norm; reflexivity]]
  | unfold proot; cbn [p_tree indices tl]; rewrite ?in_app_iff; auto using ix_in ].
Ltac item_new :=
  apply Forall_cons; [|apply Forall_nil];
  cbn [fst indices tl]; rewrite ?in_app_iff; auto using ix_in.
Ltac item_leaf :=
  first [ apply Forall_nil
        | match goal with
          | Hp : post _ _ ?a _ _ _ _ ?its |- Forall _ ?its =>
            eapply Forall_impl; [| exact (post_items _ _ _ _ _ _ _ _ Hp)];
            let it := fresh "it" in let Hin := fresh "Hin" in
            intros it Hin; apply In_tl in Hin; cbn [indices tl]; rewrite ?in_app_iff; tauto
          end ].

Ltac post_solve :=
  unfold post; refine (conj _ (conj _ (conj _ (conj _ (conj _ (conj _ (conj _ _)))))));
  [ cst_norm; first [ reflexivity | cbn [list_count]; do 3 f_equal; lia ]
  | roots_norm; rewrite ?map_app, ?rev_app_distr; unfold proot; cbn [map rev app p_tree]; rewrite ?app_nil_r, <- ?app_assoc; reflexivity
  | blen_norm; reflexivity
  | let j := fresh "j" in let Hj := fresh "Hj" in let Hs := fresh "Hs" in
    intros j Hj Hs; cbn [sp_of] in Hs; frame_facts Hj;
    try (assert (Fsp := fun E => Hs (f_equal Some E)));
    lk_chain
  | idtac
  | cbn [t_ix]; eexists; split; [lk_chain | bsimpl; reflexivity]
  | rewrite ?app_nil_r; repeat (apply Forall_app; split); first [pend_leaf | pend_new | idtac]
  | rewrite ?app_nil_r; repeat (apply Forall_app; split); first [item_leaf | item_new | idtac] ].


Ltac bnorm :=
  rewrite ?b_inc_eff, ?b_add_eff, ?b_eff_eff, ?b_eff_0.

Ltac sp_solve :=
  let j := fresh "j" in let pb := fresh "pb" in let E := fresh "E" in let Hpb := fresh "Hpb" in
  intros j pb E Hpb; cbn [sp_of] in E;
  first [ discriminate E
        | inversion E; subst j; clear E;
          repeat match goal with
                 | H1 : lk ?s ?x = Some (Some ?p), H2 : lk ?s ?x = Some (Some ?q) |- _ =>
                   rewrite H1 in H2; injection H2 as H2; subst q
                 end;
          let Hz := fresh "Hz" in
          match goal with |- lk ?S ?x = _ => eassert (Hz : lk S x = Some (Some _)) by lk_chain end;
          rewrite Hz; clear Hz; f_equal; f_equal; bnorm;
          cbn [kcount count_items imap map app fst snd]; cst_norm;
          repeat match goal with
                 | H : definition_eqb ?x ?y = _ |- context [definition_eqb ?x ?y] => rewrite H
                 | H : definition_eqb ?x ?y = _ |- context [definition_eqb ?y ?x] => rewrite (definition_eqb_sym y x), H
                 end;
          rewrite ?definition_eqb_refl; cbn [Nat.add]; rewrite ?Nat.add_0_r, ?b_eff_0;
          first [ reflexivity | (f_equal; lia) | (unfold imap; rewrite ?map_app, ?app_nil_r; reflexivity) | idtac ] ].

Ltac inl_solve Hk :=
  cbn [inl]; rewrite Hk; cbn [cx_of cx_containing cx_list cx_cond plain present andb negb]; rewrite ?definition_eqb_refl;
  repeat first
    [ progress cbn [seq2 bind ret drop_items]
    | match goal with
      | H : ?x = false |- context [if ?x then _ else _] => rewrite H
      | H : ?x = true |- context [if ?x then _ else _] => rewrite H
      | H : inl _ _ _ _ _ _ = Ok _ |- _ => rewrite H
      end ];
  reflexivity.

(* run the worklist until the node and everything it pushed has been popped *)
Ltac run IHl IHr Hnth opener :=
  repeat match goal with
         | Hd : drain _ _ _ _ _ _ (t_ix _ :: _) = Ok _ |- _ => first [ child_step IHl Hd | child_step IHr Hd ]
         | Hd : drain _ _ _ _ _ _ (_ :: _) = Ok _ |- _ => own_step Hd Hnth opener
         end.

Ltac finish_sim Hk :=
  first
  [ match goal with
    | H : false = true |- _ => discriminate H
    | H : true = false |- _ => discriminate H
    end
  | repeat match goal with
           | H : definition_eqb ?x ?y = true |- _ => apply definition_eqb_eq in H; subst x
           end;
    norm_inls;
    repeat match goal with H : _ && _ = _ |- _ => progress cbn [andb negb] in H end;
    eexists _, _, _, _, _; split; [inl_solve Hk | split; [eassumption | post_solve]] ].

Section Sim.
Variable nodes : list pnode.
Variable init : binit.
Variable lit_ok : nat -> bool.

Definition P_sim (t : tree) : Prop :=
  forall m c fuel s crj rest out b,
    tree_at nodes t -> NoDup (indices t) ->
    drain nodes init lit_ok fuel s crj (t_ix t :: rest) = Ok out ->
    lk s (t_ix t) = Some (Some b) -> ready b (t_ix t) c m -> mode_ok m ->
    (forall j, sp_of m = Some j -> ~ In j (indices t) /\ exists pb, lk s j = Some (Some pb)) ->
    exists c' ps its fuel' s',
      inl init lit_ok crj t (cx_of c m) (cst_of s) = Ok (c', ps, its) /\
      drain nodes init lit_ok fuel' s' crj rest = Ok out /\
      post s s' t m b c' ps its.

Theorem drain_sim : forall t, P_sim t.
Proof.
  induction t as [ix d l r IHl IHr] using tree_ind'.
  intros m c fuel s crj rest out b Hat Hnd Hd Hlk Hrd Hmo Hsp.
  cbn [t_ix] in *.
  destruct Hat as [[pn [Hnth [Hdef [Hl Hr]]]] [Hal Har]].
  destruct (nodup_node _ _ _ _ Hnd) as [N1 [N2 [N3 [N4 N5]]]].
  destruct Hrd as [R1 [R2 [R3 [R4 [R5 [R6 [R7 [R8 R9]]]]]]]].
  subst d.
  destruct (kind_of (n_def pn)) eqn:Hk.
  all: destruct l as [a|]; destruct r as [bb|]; cbn [oix oindices] in *.
  all: try (assert (Nia : ix <> t_ix a) by (intros E; apply N1; rewrite E; apply ix_in)).
  all: try (assert (Nib : ix <> t_ix bb) by (intros E; apply N2; rewrite E; apply ix_in)).
  all: try (assert (Nab : ~ In (t_ix a) (indices bb)) by (apply N5; apply ix_in)).
  all: try (assert (Nba : ~ In (t_ix bb) (indices a)) by (intros E; exact (N5 _ E (ix_in bb)))).
  all: try (assert (Nab' : t_ix a <> t_ix bb) by (intros E; apply Nab; rewrite E; apply ix_in)).
  all: destruct m as [|lp d'|cp]; cbn [lp_of cp_of] in *.
  all: try (destruct (Hsp _ eq_refl) as [Hspn [pb0 Hpb0]]; frame_facts Hspn).
  all: try (assert (Hdeq : definition_eqb (n_def pn) d' = false) by (apply deq_kind_false; [rewrite Hk; discriminate | exact Hmo])).
  all: try (pose proof (kind_group _ Hk) as HdefD).
  all: try (pose proof (kind_side_effect _ Hk) as HdefD).
  all: try (pose proof (kind_nested _ Hk) as HdefD).
  all: try (pose proof (kind_reapply _ Hk) as HdefD).
  all: try (pose proof (kind_infix _ Hk) as HdefD).
  all: try (destruct (kind_subexpr _ Hk) as [HdefD|HdefD]).
  all: try match type of Hk with _ = KUnary _ ?cr => destruct cr end.
  all: try match type of Hk with _ = KFixApply ?cr => destruct cr end.
  all: try solve [
    run IHl IHr Hnth ltac:(fun Hh =>
      first [ rewrite (hpn_value init lit_ok _ _ _ _ _ _ _ Hk) in Hh; unfold handle_value_like in Hh
            | rewrite (hpn_binary init lit_ok _ _ _ _ _ _ _ Hk) in Hh; unfold handle_binary in Hh
            | rewrite (hpn_unary_prefix init lit_ok _ _ _ _ _ _ Hk) in Hh; unfold handle_unary in Hh
            | rewrite (hpn_unary_suffix init lit_ok _ _ _ _ _ _ Hk) in Hh; unfold handle_unary_suffix in Hh
            | rewrite (hpn_list init lit_ok _ _ _ _ _ Hk) in Hh; unfold handle_list in Hh
            | rewrite (hpn_logical init lit_ok _ _ _ _ _ _ Hk) in Hh; unfold handle_logical in Hh
            | rewrite (hpn_jump_if init lit_ok _ _ _ _ _ _ Hk) in Hh; unfold handle_jump_if in Hh
            | rewrite (hpn_else init lit_ok _ _ _ _ _ Hk) in Hh; unfold handle_else in Hh
            | rewrite (hpn_fix_suffix init lit_ok _ _ _ _ _ Hk) in Hh; unfold handle_fix_apply in Hh
            | rewrite (hpn_fix_prefix init lit_ok _ _ _ _ _ Hk) in Hh; unfold handle_fix_apply in Hh
            | rewrite (hpn_err init lit_ok _ _ _ _ _ Hk) in Hh; discriminate Hh
            | unfold handle_parse_node in Hh; rewrite HdefD in Hh ];
      rewrite ?Hl, ?Hr in Hh; cbn [need bind] in Hh);
    finish_sim Hk; try sp_solve ].
  all: run IHl IHr Hnth ltac:(fun Hh => rewrite (hpn_else init lit_ok _ _ _ _ _ Hk) in Hh; unfold handle_else in Hh;
                                        rewrite ?Hl, ?Hr in Hh; cbn [need bind] in Hh).
  all: match goal with Hd : drain _ _ _ _ _ _ (_ :: _) = Ok _ |- _ =>
         destruct (drain_step _ _ _ _ _ _ _ _ _ _ Hd Hnth) as (f' & sA & stA & sB & Ef & Hh & Han & Hd');
         match type of Ef with ?x = _ => subst x end; clear Hd end.
  all: rewrite (hpn_else init lit_ok _ _ _ _ _ Hk) in Hh; unfold handle_else in Hh.
  all: match type of Hh with context [get_b ?s0 ?i0] => eassert (Hg : lk s0 i0 = Some (Some _)) by lk_chain end.
  all: rewrite (get_b_lk _ _ _ Hg) in Hh; cbn [bind] in Hh; bsimpl_in Hh; rewrite_ready_in Hh; cbn [negb app] in Hh.
  all: match type of Hh with context [imap ?x ++ imap ?y] =>
         replace (imap x ++ imap y) with (imap (x ++ y)) in Hh by (unfold imap; rewrite map_app; reflexivity);
         destruct (x ++ y) as [|p0 l1] eqn:Eits end.
  (* no arm registered: the chain is a plain sequence *)
  1,3: cbn [imap map] in Hh; injection Hh as ? ?; subst sA stA; after_step Han;
       apply app_eq_nil in Eits; destruct Eits; subst;
       finish_sim Hk; try sp_solve.
  (* arms registered: a join entry, the arms on root_stack, their records *)
  all: cbn [imap map] in Hh; cbv iota beta in Hh.
  all: match goal with Ei : _ ++ _ = ?p :: ?l |- _ =>
         match type of Hh with context [?h :: map ?F l] => change (h :: map F l) with (imap (p :: l)) in Hh end end.
  all: rewrite <- Eits in Hh.
  all: apply bind_ok in Hh; destruct Hh as [sF [Hfold Hh]]; injection Hh as ? ?; subst sA stA.
  all: match type of Hfold with fold_left _ ?items (Ok ?s2) = _ =>
         match type of Hfold with context [b_new_jump_end _ ?cc _ [(I_JumpTo, ONum ?jt)]] =>
           change (fold_left (assign_arm cc jt) items (Ok s2) = Ok sF) in Hfold;
           destruct (fold_assign_spec _ _ _ _ _ Hfold) as [FA [FB [FC [FD FE]]]];
           match s2 with fold_left _ _ ?s1' =>
             destruct (fold_push_root_spec items s1') as [PA [PB [PC PD]]] end
         end end.
  {
    match type of PA with cst_of ?sp = _ => set (sP := sp) in *; clearbody sP end.
    destruct (inl_owned nodes init lit_ok a Hal N3 _ _ _ _ _ _ Hinl) as [OA [OB [OC OD]]].
    destruct (inl_owned nodes init lit_ok bb Har N4 _ _ _ _ _ _ Hinl0) as [OA' [OB' [OC' OD']]].
    pose proof (owned_roots_nodup _ _ OA) as NDa. pose proof (owned_roots_nodup _ _ OA') as NDb.
    pose proof (post_items _ _ _ _ _ _ _ _ Hpost) as PIa. pose proof (post_items _ _ _ _ _ _ _ _ Hpost0) as PIb.
    pose proof (post_pends _ _ _ _ _ _ _ _ Hpost) as PPa. pose proof (post_pends _ _ _ _ _ _ _ _ Hpost0) as PPb.
    rewrite Forall_forall in PIa, PIb.
    assert (Hia : forall y, In y (map iroot its) -> In y (indices a)).
    { intros y Hx. apply in_map_iff in Hx. destruct Hx as [it [E Hit]]. subst y. apply In_tl, PIa, Hit. }
    assert (Hib : forall y, In y (map iroot its0) -> In y (indices bb)).
    { intros y Hx. apply in_map_iff in Hx. destruct Hx as [it [E Hit]]. subst y. apply In_tl, PIb, Hit. }
    assert (Hroots : forall y, In y (map fst (imap (its ++ its0))) -> In y (indices a) \/ In y (indices bb)).
    { intros y Hx. rewrite imap_fst, map_app, in_app_iff in Hx. destruct Hx; [left; auto | right; auto]. }
    assert (NDi : NoDup (map fst (imap (its ++ its0)))).
    { rewrite imap_fst, map_app. destruct (nodup_app_inv _ _ _ NDa) as [_ [Na _]]. destruct (nodup_app_inv _ _ _ NDb) as [_ [Nb _]].
      apply nodup_app_intro; [exact Na | exact Nb |]. intros y Hx Hy. exact (N5 y (Hia y Hx) (Hib y Hy)). }
    specialize (FE NDi).
    after_step Han.
    norm_inls.
    eexists _, _, _, _, _. split; [|split; [eassumption|]].
    { cbn [inl]; rewrite Hk; cbn [cx_of cx_containing cx_list cx_cond plain present andb negb].
      rewrite Hinl. cbn [seq2 bind]. rewrite Hinl0. cbn [seq2 bind]. rewrite Eits. reflexivity. }
    rewrite <- Eits.
    unfold post; refine (conj _ (conj _ (conj _ (conj _ (conj _ (conj _ (conj _ _))))))).
    - cst_norm. reflexivity.
    - roots_norm. rewrite imap_fst. rewrite !map_app, !proot_items, !rev_app_distr, <- !app_assoc. reflexivity.
    - blen_norm. reflexivity.
    - intros j Hj Hs; cbn [sp_of] in Hs; frame_facts Hj; try (assert (Fsp := fun E => Hs (f_equal Some E))); lk_chain.
    - sp_solve.
    - cbn [t_ix]; eexists; split; [lk_chain | bsimpl; reflexivity].
    - rewrite Forall_forall in PPa, PPb.
      assert (Hna : forall p, In p ps -> ~ In (proot p) (map fst (imap (its ++ its0)))).
      { intros p Hp E. rewrite imap_fst, map_app, in_app_iff in E.
        destruct (nodup_app_inv _ _ _ NDa) as [_ [_ Dab]].
        destruct E as [E|E]; [exact (Dab _ (in_map proot _ _ Hp) E)|].
        apply (N5 (proot p)); [apply In_tl; apply (PPa p Hp) | apply Hib; exact E]. }
      assert (Hnb : forall p, In p ps0 -> ~ In (proot p) (map fst (imap (its ++ its0)))).
      { intros p Hp E. rewrite imap_fst, map_app, in_app_iff in E.
        destruct (nodup_app_inv _ _ _ NDb) as [_ [_ Dab]].
        destruct E as [E|E]; [|exact (Dab _ (in_map proot _ _ Hp) E)].
        apply (N5 (proot p)); [apply Hia; exact E | apply In_tl; apply (PPb p Hp)]. }
      apply Forall_app. split; [apply Forall_app; split|].
      + apply Forall_forall. intros p Hp. destruct (PPa p Hp) as [[bp [Hbp Hrest]] Hin]. pose proof (In_tl _ _ _ Hin) as Hin'.
        split; [|cbn [indices tl]; rewrite in_app_iff; left; exact Hin'].
        exists bp. split; [|exact Hrest]. rewrite (FD _ (Hna p Hp)). lk_chain.
      + apply Forall_forall. intros p Hp. destruct (PPb p Hp) as [[bp [Hbp Hrest]] Hin]. pose proof (In_tl _ _ _ Hin) as Hin'.
        split; [|cbn [indices tl]; rewrite in_app_iff; right; exact Hin'].
        exists bp. split; [|exact Hrest]. rewrite (FD _ (Hnb p Hp)). lk_chain.
      + apply Forall_map. apply Forall_forall. intros it Hit. unfold reg, proot. cbn [p_tree p_containing p_jump p_end].
        split.
        * eexists. split; [apply (FE (t_ix (fst it), snd it)); unfold imap; apply (in_map (fun it0 : tree * nat => (t_ix (fst it0), snd it0))); exact Hit|].
          cbn [fst snd]. split; [ready_solve | split; unfold ends_of; bsimpl; cst_norm; reflexivity].
        * cbn [indices tl]. rewrite in_app_iff. apply in_app_or in Hit. destruct Hit as [Hit|Hit];
            [left; apply In_tl, PIa, Hit | right; apply In_tl, PIb, Hit].
    - apply Forall_nil.
  }
  {
    match type of PA with cst_of ?sp = _ => set (sP := sp) in *; clearbody sP end.
    destruct (inl_owned nodes init lit_ok a Hal N3 _ _ _ _ _ _ Hinl) as [OA [OB [OC OD]]].
    destruct (inl_owned nodes init lit_ok bb Har N4 _ _ _ _ _ _ Hinl0) as [OA' [OB' [OC' OD']]].
    pose proof (owned_roots_nodup _ _ OA) as NDa. pose proof (owned_roots_nodup _ _ OA') as NDb.
    pose proof (post_items _ _ _ _ _ _ _ _ Hpost) as PIa. pose proof (post_items _ _ _ _ _ _ _ _ Hpost0) as PIb.
    pose proof (post_pends _ _ _ _ _ _ _ _ Hpost) as PPa. pose proof (post_pends _ _ _ _ _ _ _ _ Hpost0) as PPb.
    rewrite Forall_forall in PIa, PIb.
    assert (Hia : forall y, In y (map iroot its) -> In y (indices a)).
    { intros y Hx. apply in_map_iff in Hx. destruct Hx as [it [E Hit]]. subst y. apply In_tl, PIa, Hit. }
    assert (Hib : forall y, In y (map iroot its0) -> In y (indices bb)).
    { intros y Hx. apply in_map_iff in Hx. destruct Hx as [it [E Hit]]. subst y. apply In_tl, PIb, Hit. }
    assert (Hroots : forall y, In y (map fst (imap (its ++ its0))) -> In y (indices a) \/ In y (indices bb)).
    { intros y Hx. rewrite imap_fst, map_app, in_app_iff in Hx. destruct Hx; [left; auto | right; auto]. }
    assert (NDi : NoDup (map fst (imap (its ++ its0)))).
    { rewrite imap_fst, map_app. destruct (nodup_app_inv _ _ _ NDa) as [_ [Na _]]. destruct (nodup_app_inv _ _ _ NDb) as [_ [Nb _]].
      apply nodup_app_intro; [exact Na | exact Nb |]. intros y Hx Hy. exact (N5 y (Hia y Hx) (Hib y Hy)). }
    specialize (FE NDi).
    after_step Han.
    norm_inls.
    eexists _, _, _, _, _. split; [|split; [eassumption|]].
    { cbn [inl]; rewrite Hk; cbn [cx_of cx_containing cx_list cx_cond plain present andb negb].
      rewrite Hinl. cbn [seq2 bind]. rewrite Hinl0. cbn [seq2 bind]. rewrite Eits. reflexivity. }
    rewrite <- Eits.
    unfold post; refine (conj _ (conj _ (conj _ (conj _ (conj _ (conj _ (conj _ _))))))).
    - cst_norm. reflexivity.
    - roots_norm. rewrite imap_fst. rewrite !map_app, !proot_items, !rev_app_distr, <- !app_assoc. reflexivity.
    - blen_norm. reflexivity.
    - intros j Hj Hs; cbn [sp_of] in Hs; frame_facts Hj; try (assert (Fsp := fun E => Hs (f_equal Some E))); lk_chain.
    - sp_solve.
    - cbn [t_ix]; eexists; split; [lk_chain | bsimpl; reflexivity].
    - rewrite Forall_forall in PPa, PPb.
      assert (Hna : forall p, In p ps -> ~ In (proot p) (map fst (imap (its ++ its0)))).
      { intros p Hp E. rewrite imap_fst, map_app, in_app_iff in E.
        destruct (nodup_app_inv _ _ _ NDa) as [_ [_ Dab]].
        destruct E as [E|E]; [exact (Dab _ (in_map proot _ _ Hp) E)|].
        apply (N5 (proot p)); [apply In_tl; apply (PPa p Hp) | apply Hib; exact E]. }
      assert (Hnb : forall p, In p ps0 -> ~ In (proot p) (map fst (imap (its ++ its0)))).
      { intros p Hp E. rewrite imap_fst, map_app, in_app_iff in E.
        destruct (nodup_app_inv _ _ _ NDb) as [_ [_ Dab]].
        destruct E as [E|E]; [|exact (Dab _ (in_map proot _ _ Hp) E)].
        apply (N5 (proot p)); [apply Hia; exact E | apply In_tl; apply (PPb p Hp)]. }
      apply Forall_app. split; [apply Forall_app; split|].
      + apply Forall_forall. intros p Hp. destruct (PPa p Hp) as [[bp [Hbp Hrest]] Hin]. pose proof (In_tl _ _ _ Hin) as Hin'.
        split; [|cbn [indices tl]; rewrite in_app_iff; left; exact Hin'].
        exists bp. split; [|exact Hrest]. rewrite (FD _ (Hna p Hp)). lk_chain.
      + apply Forall_forall. intros p Hp. destruct (PPb p Hp) as [[bp [Hbp Hrest]] Hin]. pose proof (In_tl _ _ _ Hin) as Hin'.
        split; [|cbn [indices tl]; rewrite in_app_iff; right; exact Hin'].
        exists bp. split; [|exact Hrest]. rewrite (FD _ (Hnb p Hp)). lk_chain.
      + apply Forall_map. apply Forall_forall. intros it Hit. unfold reg, proot. cbn [p_tree p_containing p_jump p_end].
        split.
        * eexists. split; [apply (FE (t_ix (fst it), snd it)); unfold imap; apply (in_map (fun it0 : tree * nat => (t_ix (fst it0), snd it0))); exact Hit|].
          cbn [fst snd]. split; [ready_solve | split; unfold ends_of; bsimpl; cst_norm; reflexivity].
        * cbn [indices tl]. rewrite in_app_iff. apply in_app_or in Hit. destruct Hit as [Hit|Hit];
            [left; apply In_tl, PIa, Hit | right; apply In_tl, PIb, Hit].
    - apply Forall_nil.
  }
Qed.

End Sim.
