(* store driver (C15): reads the output lines of harness/src/bin/store.rs
     <case>\t<impl results and dumps>\t<oracle>
   runs the same history on the extracted store model and prints
     <case>\t<model results and dumps>\t-
   in exactly the harness' format (see the header of store.rs). *)
let nat_of_int (i : int) : nat =
  let r = ref O in
  for _ = 1 to i do r := S !r done;
  !r
let int_of_nat (x : nat) : int =
  let rec go acc = function O -> acc | S y -> go (acc + 1) y in
  go 0 x

let sp = Printf.sprintf
(* split on a separator string (no Str dependency) *)
let split_str (sep : string) (s : string) : string list =
  let n = String.length s and m = String.length sep in
  let rec go start i acc =
    if i + m > n then Stdlib.List.rev (String.sub s start (n - start) :: acc)
    else if String.sub s i m = sep then go (i + m) (i + m) (String.sub s start (i - start) :: acc)
    else go start (i + 1) acc in
  go 0 0 []
let join = String.concat
let dotted l = if l = [] then "-" else join "." l
let hexn (v : n) = hex_of_n v

let parse_dotted_hex (s : string) : n list =
  if s = "-" then [] else Stdlib.List.map n_of_hex (split_on '.' s)

let show_snum = function
  | SInt v -> "i" ^ hex_of_z v
  | SFlt b ->
    let h = hex_of_n b in
    "f" ^ String.make (max 0 (16 - String.length h)) '0' ^ h
let parse_snum (s : string) : snum =
  let body = String.sub s 1 (String.length s - 1) in
  match s.[0] with
  | 'i' -> SInt (z_of_hex body)
  | 'f' -> SFlt (n_of_hex body)
  | _ -> failwith ("bad num " ^ s)

let instr_tbl = Array.of_list all_instruction
let type_tbl = Array.of_list all_data_type
let instr_ix i = int_of_n (instruction_index i)
let type_ix t = int_of_n (data_type_index t)

(* a read-only view of either store *)
type 's view = {
  v_type : int -> 's -> data_type res;
  v_number : int -> 's -> snum res;
  v_ty : int -> 's -> data_type res;
  v_char : int -> 's -> n res;
  v_byte : int -> 's -> n res;
  v_symbol : int -> 's -> n res;
  v_expression : int -> 's -> nat res;
  v_external : int -> 's -> nat res;
  v_pair : int -> 's -> (nat * nat) res;
  v_concat : int -> 's -> (nat * nat) res;
  v_range : int -> 's -> (nat * nat) res;
  v_slice : int -> 's -> (nat * nat) res;
  v_partial : int -> 's -> (nat * nat) res;
  v_list_len : int -> 's -> nat res;
  v_list_item : int -> int -> 's -> nat option res;
  v_clist_len : int -> 's -> nat res;
  v_clist_item : int -> int -> 's -> n option res;
  v_blist_len : int -> 's -> nat res;
  v_blist_item : int -> int -> 's -> n option res;
  v_slist_len : int -> 's -> nat res;
  v_slist_item : int -> int -> 's -> string option res;
}

let ni = nat_of_int
let basic_view : basic view = {
  v_type = (fun a s -> get_data_type (ni a) s);
  v_number = (fun a s -> get_number (ni a) s);
  v_ty = (fun a s -> get_type (ni a) s);
  v_char = (fun a s -> get_char (ni a) s);
  v_byte = (fun a s -> get_byte (ni a) s);
  v_symbol = (fun a s -> get_symbol (ni a) s);
  v_expression = (fun a s -> get_expression (ni a) s);
  v_external = (fun a s -> get_external (ni a) s);
  v_pair = (fun a s -> get_pair (ni a) s);
  v_concat = (fun a s -> get_concatenation (ni a) s);
  v_range = (fun a s -> get_range (ni a) s);
  v_slice = (fun a s -> get_slice (ni a) s);
  v_partial = (fun a s -> get_partial (ni a) s);
  v_list_len = (fun a s -> get_list_len (ni a) s);
  v_list_item = (fun a i s -> get_list_item (ni a) (z_of_int i) s);
  v_clist_len = (fun a s -> get_char_list_len (ni a) s);
  v_clist_item = (fun a i s -> get_char_list_item (ni a) (ni i) s);
  v_blist_len = (fun a s -> get_byte_list_len (ni a) s);
  v_blist_item = (fun a i s -> get_byte_list_item (ni a) (ni i) s);
  v_slist_len = (fun a s -> get_symbol_list_len (ni a) s);
  v_slist_item = (fun a i s ->
    match get_symbol_list_item (ni a) (ni i) s with
    | Ok (Some (Inl x)) -> Ok (Some ("s" ^ hexn x))
    | Ok (Some (Inr x)) -> Ok (Some ("n" ^ show_snum x))
    | Ok None -> Ok None
    | Err e -> Err e | Panic p -> Panic p | OutOfFuel -> OutOfFuel);
}
let zi i = z_of_int i
let simple_view : simple view = {
  v_type = (fun a s -> s_get_data_type (ni a) s);
  v_number = (fun a s -> s_get_number (ni a) s);
  v_ty = (fun a s -> s_get_type (ni a) s);
  v_char = (fun a s -> s_get_char (ni a) s);
  v_byte = (fun a s -> s_get_byte (ni a) s);
  v_symbol = (fun a s -> s_get_symbol (ni a) s);
  v_expression = (fun a s -> s_get_expression (ni a) s);
  v_external = (fun a s -> s_get_external (ni a) s);
  v_pair = (fun a s -> s_get_pair (ni a) s);
  v_concat = (fun a s -> s_get_concatenation (ni a) s);
  v_range = (fun a s -> s_get_range (ni a) s);
  v_slice = (fun a s -> s_get_slice (ni a) s);
  v_partial = (fun a s -> s_get_partial (ni a) s);
  v_list_len = (fun a s -> s_get_list_len (ni a) s);
  v_list_item = (fun a i s -> s_get_list_item (ni a) (zi i) s);
  v_clist_len = (fun a s -> s_get_char_list_len (ni a) s);
  v_clist_item = (fun a i s -> s_get_char_list_item (ni a) (zi i) s);
  v_blist_len = (fun a s -> s_get_byte_list_len (ni a) s);
  v_blist_item = (fun a i s -> s_get_byte_list_item (ni a) (zi i) s);
  v_slist_len = (fun a s -> s_get_symbol_list_len (ni a) s);
  v_slist_item = (fun a i s ->
    match s_get_symbol_list_item (ni a) (zi i) s with
    | Ok (Some x) -> Ok (Some ("s" ^ hexn x))
    | Ok None -> Ok None
    | Err e -> Err e | Panic p -> Panic p | OutOfFuel -> OutOfFuel);
}

exception Model_panic
exception Model_hang
(* the implementation stopped (panicked) before the step whose oracle value is needed *)
exception Oracle_missing
(* Err -> None; a model panic / hang inside a getter aborts the dump *)
let okv (r : 'a res) : 'a option =
  match r with Ok a -> Some a | Err _ -> None | Panic _ -> raise Model_panic | OutOfFuel -> raise Model_hang

let range n = Stdlib.List.init n (fun i -> i)

let rec tree : 's. 's view -> 's -> int -> int -> string = fun v s addr depth ->
  match okv (v.v_type addr s) with
  | None -> "Err"
  | Some t ->
    let two name r =
      match okv r with
      | None -> name ^ "(Err)"
      | Some (a, b) ->
        if depth = 0 then name ^ "(~)"
        else sp "%s(%s,%s)" name (tree v s (int_of_nat a) (depth - 1)) (tree v s (int_of_nat b) (depth - 1)) in
    let leaf name f r = match okv r with None -> name ^ "(Err)" | Some x -> sp "%s(%s)" name (f x) in
    let items len_r item f =
      match okv len_r with
      | None -> None
      | Some len ->
        Some (Stdlib.List.map (fun i ->
          match item i with
          | Ok (Some x) -> f x
          | Ok None -> "?"
          | Err _ -> "!"
          | Panic _ -> raise Model_panic
          | OutOfFuel -> raise Model_hang) (range (int_of_nat len))) in
    (match t with
     | T_Invalid -> "Inv"
     | T_Unit -> "U" | T_True -> "T" | T_False -> "F" | T_Custom -> "Cu"
     | T_Type -> leaf "Ty" (fun t -> string_of_int (type_ix t)) (v.v_ty addr s)
     | T_Number -> leaf "N" show_snum (v.v_number addr s)
     | T_Char -> leaf "Ch" hexn (v.v_char addr s)
     | T_Byte -> leaf "By" hexn (v.v_byte addr s)
     | T_Symbol -> leaf "Sy" hexn (v.v_symbol addr s)
     | T_Expression -> leaf "Ex" (fun x -> string_of_int (int_of_nat x)) (v.v_expression addr s)
     | T_External -> leaf "Xt" (fun x -> string_of_int (int_of_nat x)) (v.v_external addr s)
     | T_CharList ->
       (match items (v.v_clist_len addr s) (fun i -> v.v_clist_item addr i s) hexn with
        | None -> "Cl(Err)" | Some l -> sp "Cl(%s)" (dotted l))
     | T_ByteList ->
       (match items (v.v_blist_len addr s) (fun i -> v.v_blist_item addr i s) hexn with
        | None -> "Bl(Err)" | Some l -> sp "Bl(%s)" (dotted l))
     | T_SymbolList ->
       (match items (v.v_slist_len addr s) (fun i -> v.v_slist_item addr i s) (fun x -> x) with
        | None -> "SyL(Err)" | Some l -> sp "SyL(%s)" (dotted l))
     | T_Pair -> two "P" (v.v_pair addr s)
     | T_Concatenation -> two "Cc" (v.v_concat addr s)
     | T_Range -> two "Rg" (v.v_range addr s)
     | T_Slice -> two "Sl" (v.v_slice addr s)
     | T_Partial -> two "Pt" (v.v_partial addr s)
     | T_List ->
       (match okv (v.v_list_len addr s) with
        | None -> "L(Err)"
        | Some len ->
          if depth = 0 then "L(~)"
          else
            let its = Stdlib.List.map (fun i ->
              match v.v_list_item addr i s with
              | Ok (Some a) -> tree v s (int_of_nat a) (depth - 1)
              | Ok None -> "?"
              | Err _ -> "!"
              | Panic _ -> raise Model_panic
              | OutOfFuel -> raise Model_hang) (range (int_of_nat len)) in
            sp "L(%s)" (join "," its)))

let us x = string_of_int (int_of_nat x)

let basic_cell (c : cell) : string =
  match c with
  | CUnit -> "Unit" | CTrue -> "True" | CFalse -> "False"
  | CType t -> sp "Type:%d" (type_ix t)
  | CNumber x -> "Number:" ^ show_snum x
  | CChar c -> "Char:" ^ hexn c
  | CByte c -> "Byte:" ^ hexn c
  | CSymbol c -> "Symbol:" ^ hexn c
  | CSymbolList x -> "SymbolList:" ^ us x
  | CExpression x -> "Expression:" ^ us x
  | CExternal x -> "External:" ^ us x
  | CCharList x -> "CharList:" ^ us x
  | CByteList x -> "ByteList:" ^ us x
  | CPair (a, b) -> sp "Pair:%s:%s" (us a) (us b)
  | CRange (a, b) -> sp "Range:%s:%s" (us a) (us b)
  | CSlice (a, b) -> sp "Slice:%s:%s" (us a) (us b)
  | CPartial (a, b) -> sp "Partial:%s:%s" (us a) (us b)
  | CList (a, b) -> sp "List:%s:%s" (us a) (us b)
  | CConcatenation (a, b) -> sp "Concatenation:%s:%s" (us a) (us b)
  | CCustom -> "Custom"
  | CEmpty -> "_"
  | CUninitializedList (a, b) -> sp "UninitializedList:%s:%s" (us a) (us b)
  | CListItem a -> "ListItem:" ^ us a
  | CAssociativeItem (s, a) -> sp "AssociativeItem:%s:%s" (hexn s) (us a)
  | CValue (a, b) -> sp "Value:%s:%s" (us a) (us b)
  | CValueRoot a -> "ValueRoot:" ^ us a
  | CRegister (a, b) -> sp "Register:%s:%s" (us a) (us b)
  | CRegisterRoot a -> "RegisterRoot:" ^ us a
  | CInstructionWithData (i, a) -> sp "InstructionWithData:%d:%s" (instr_ix i) (us a)
  | CInstruction i -> sp "Instruction:%d" (instr_ix i)
  | CJumpPoint a -> "JumpPoint:" ^ us a
  | CFrame (a, b) -> sp "Frame:%s:%s" (us a) (us b)
  | CFrameIndex a -> "FrameIndex:" ^ us a
  | CFrameRegister a -> "FrameRegister:" ^ us a
  | CFrameRoot -> "FrameRoot"
  | CCloneItem a -> "CloneItem:" ^ us a
  | CCloneIndexMap (a, b) -> sp "CloneIndexMap:%s:%s" (us a) (us b)

let simple_cell (c : sdata) : string =
  let ul l = dotted (Stdlib.List.map us l) in
  let hl l = dotted (Stdlib.List.map hexn l) in
  match c with
  | SUnit -> "Unit" | STrue -> "True" | SFalse -> "False"
  | SType t -> sp "Type:%d" (type_ix t)
  | SNumber x -> "Number:" ^ show_snum x
  | SChar c -> "Char:" ^ hexn c
  | SByte c -> "Byte:" ^ hexn c
  | SSymbol c -> "Symbol:" ^ hexn c
  | SSymbolList l -> "SymbolList:" ^ hl l
  | SExpression x -> "Expression:" ^ us x
  | SExternal x -> "External:" ^ us x
  | SCharList l -> "CharList:" ^ hl l
  | SByteList l -> "ByteList:" ^ hl l
  | SPair (a, b) -> sp "Pair:%s:%s" (us a) (us b)
  | SRange (a, b) -> sp "Range:%s:%s" (us a) (us b)
  | SSlice (a, b) -> sp "Slice:%s:%s" (us a) (us b)
  | SPartial (a, b) -> sp "Partial:%s:%s" (us a) (us b)
  | SList (a, b) -> sp "List:%s:%s" (ul a) (ul b)
  | SConcatenation (a, b) -> sp "Concatenation:%s:%s" (us a) (us b)
  | SStackFrame a -> "StackFrame:" ^ us a
  | SCustom -> "Custom"

let text_of (cps : n list) : string =
  let b = Buffer.create 16 in
  Stdlib.List.iter (fun c -> Buffer.add_utf_8_uchar b (Uchar.of_int (int_of_n c))) cps;
  Buffer.contents b

(* context shared by both stores *)
type ctx = {
  mutable results : (int option * char) list;   (* newest first: numeric result, kind *)
  mutable syms : n list;                          (* in order of first registration *)
  mutable esyms : n list;
}

let results_in_order cx = Stdlib.List.rev cx.results

let trees (v : 's view) (s : 's) cx : string =
  let l = Stdlib.List.mapi (fun k (r, kind) -> (k, r, kind)) (results_in_order cx) in
  join ";" (Stdlib.List.filter_map (fun (k, r, kind) ->
    match r, kind with
    | Some a, 'a' -> Some (sp "%d:%s" k (tree v s a 4))
    | _ -> None) l)

let opt_s = function Some x -> us x | None -> "-"

let dump_basic (s : basic) cx : string =
  let ins = Stdlib.List.map (fun i ->
    match okv (get_instruction (ni i) s) with
    | Some (Some (ins, Some x)) -> sp "%d/%s" (instr_ix ins) (us x)
    | Some (Some (ins, None)) -> sp "%d/-" (instr_ix ins)
    | _ -> "?") (range (int_of_nat (get_instruction_len s))) in
  let jt = Stdlib.List.map (fun i ->
    match okv (get_from_jump_table (ni i) s) with Some (Some x) -> us x | _ -> "?")
    (range (int_of_nat (get_jump_table_len s))) in
  let cur = match okv (get_current_value s) with Some (Some x) -> us x | _ -> "-" in
  let reglen st = match get_register_len st with Ok n -> int_of_nat n | Err _ -> 0 | Panic _ -> raise Model_panic | OutOfFuel -> raise Model_hang in
  let regs = Stdlib.List.map (fun i ->
    match okv (get_register (ni i) s) with Some (Some x) -> us x | _ -> "?") (range (reglen s)) in
  let rec pop_values st acc =
    match pop_value_stack st with
    | Ok (st', Done (Some v)) -> pop_values st' (us v :: acc)
    | Ok (_, _) -> Stdlib.List.rev acc
    | Err _ -> Stdlib.List.rev acc
    | Panic _ -> raise Model_panic
    | OutOfFuel -> raise Model_hang in
  let vs = pop_values s [] in
  let rec pop_frames st acc =
    match pop_frame st with
    | Ok (st', Done (Some r)) -> pop_frames st' (sp "%s/%d" (us r) (reglen st') :: acc)
    | Ok (_, Done None) -> Stdlib.List.rev acc
    | Ok (_, Fail _) -> Stdlib.List.rev ("err" :: acc)
    | Err _ -> Stdlib.List.rev ("err" :: acc)
    | Panic _ -> raise Model_panic
    | OutOfFuel -> raise Model_hang in
  let fs = pop_frames s [] in
  let ys = Stdlib.List.map (fun sym ->
    match get_symbol_string sym s with
    | Ok (Some name) -> sp "%s:%s" (hexn sym) (text_of name)
    | Ok None -> sp "%s:None" (hexn sym)
    | Err _ -> sp "%s:Err" (hexn sym)
    | Panic _ -> sp "%s:PANIC" (hexn sym)
    | OutOfFuel -> raise Model_hang) cx.syms in
  let es = Stdlib.List.map (fun sym ->
    match get_symbol_expression sym s with
    | Ok (Some x) -> sp "%s:%s" (hexn sym) (us x)
    | Ok None -> sp "%s:None" (hexn sym)
    | Err _ -> sp "%s:Err" (hexn sym)
    | Panic _ -> raise Model_panic
    | OutOfFuel -> raise Model_hang) cx.esyms in
  let n_custom = int_of_nat s.blk_custom.b_cursor in
  let some_custom = Stdlib.List.length (Stdlib.List.filter (fun i ->
    match get_from_custom_data_block (ni i) s with Ok (Some _) -> true | Ok None -> false | Err _ -> false
    | Panic _ -> raise Model_panic | OutOfFuel -> raise Model_hang) (range n_custom)) in
  let bl = Stdlib.List.map (fun b -> sp "%s.%s.%s" (us b.b_start) (us b.b_cursor) (us b.b_size))
      [s.blk_instr; s.blk_jump; s.blk_sym; s.blk_expr; s.blk_data; s.blk_custom] in
  let heap = ref [] and run = ref 0 in
  let flush () = if !run > 0 then (heap := sp "_*%d" !run :: !heap; run := 0) in
  Stdlib.List.iter (fun c ->
    let t = basic_cell c in
    if t = "_" then incr run else (flush (); heap := t :: !heap)) s.heap;
  flush ();
  sp "I=[%s] J=[%s] V=%s IC=%s T=[%s] R=[%s] VS=[%s] FS=[%s] Y=[%s] E=[%s] C=%d/%d DL=%s BL=%s HD=%s/%s/%s H=%s"
    (join "," ins) (join "," jt) cur (us s.ip) (trees basic_view s cx)
    (join "," regs) (join "," vs) (join "," fs) (join "," ys) (join "," es) n_custom some_custom
    (us (get_data_len s)) (join "," bl) (opt_s s.cur_value) (opt_s s.cur_register) (opt_s s.cur_frame)
    (join "," (Stdlib.List.rev !heap))

let dump_simple (hf : sdata -> n) (s : simple) cx : string =
  let ins = Stdlib.List.map (fun i ->
    match s_get_instruction (ni i) s with
    | Some (ins, Some x) -> sp "%d/%s" (instr_ix ins) (us x)
    | Some (ins, None) -> sp "%d/-" (instr_ix ins)
    | None -> "?") (range (int_of_nat (s_get_instruction_len s))) in
  let jt = Stdlib.List.map (fun i ->
    match s_get_from_jump_table (ni i) s with Some x -> us x | None -> "?")
    (range (int_of_nat (s_get_jump_table_len s))) in
  let cur = match s_get_current_value s with Some x -> us x | None -> "-" in
  let data = Array.of_list s.s_data in
  let regs = Stdlib.List.map (fun i ->
    match s_get_register (ni i) s with
    | Some x ->
      let xi = int_of_nat x in
      (match (if xi < Array.length data then Some data.(xi) else None) with
       | Some (SStackFrame r) -> "F" ^ us r
       | _ -> us x)
    | None -> "?") (range (int_of_nat (s_get_register_len s))) in
  let vs = Stdlib.List.rev_map us s.s_values in
  let rec pop_frames st acc =
    match s_pop_frame st with
    | Ok (st', Done (Some r)) -> pop_frames st' (sp "%s/%d" (us r) (int_of_nat (s_get_register_len st')) :: acc)
    | Ok (_, Done None) -> Stdlib.List.rev acc
    | Ok (_, Fail _) -> Stdlib.List.rev ("err" :: acc)
    | Err _ -> Stdlib.List.rev ("err" :: acc)
    | Panic _ -> raise Model_panic
    | OutOfFuel -> raise Model_hang in
  let fs = pop_frames s [] in
  let ys = Stdlib.List.map (fun sym ->
    match s_get_symbol_name sym s with
    | Some name -> sp "%s:%s" (hexn sym) (text_of name)
    | None -> sp "%s:None" (hexn sym)) cx.syms in
  let n_custom = Stdlib.List.length (Stdlib.List.filter (fun c -> c = SCustom) s.s_data) in
  ignore hf;
  sp "I=[%s] J=[%s] V=%s IC=%s T=[%s] R=[%s] VS=[%s] FS=[%s] Y=[%s] E=[] C=%d/%d DL=%s D=%s"
    (join "," ins) (join "," jt) cur (us s.s_cursor) (trees simple_view s cx)
    (join "," regs) (join "," vs) (join "," fs) (join "," ys) n_custom n_custom
    (us (s_get_data_len s)) (join "," (Stdlib.List.map simple_cell s.s_data))

(* ------------------------------------------------------------------ cases *)
let parse_settings (t : string) : settings =
  match split_on '/' t with
  | [init; mx; st] ->
    let n = int_of_string (String.sub st 1 (String.length st - 1)) in
    { initial_size = ni (int_of_string init);
      max_items = (if mx = "-" then None else Some (ni (int_of_string mx)));
      strat = (match st.[0] with 'F' -> FixedSize (ni n) | 'M' -> Multiplicative (ni n) | _ -> failwith "strategy") }
  | _ -> failwith ("bad settings " ^ t)

let utf8_len (cps : n list) : int =
  Stdlib.List.fold_left (fun acc c ->
    let c = int_of_n c in
    acc + (if c < 0x80 then 1 else if c < 0x800 then 2 else if c < 0x10000 then 3 else 4)) 0 cps

let cps_of_string (s : string) : n list =
  (* minimal UTF-8 decoder (names are ASCII in the generated cases) *)
  let l = ref [] and i = ref 0 and n = String.length s in
  while !i < n do
    let c = Char.code s.[!i] in
    let len, init =
      if c < 0x80 then 1, c else if c < 0xE0 then 2, c land 0x1F
      else if c < 0xF0 then 3, c land 0x0F else 4, c land 0x07 in
    let v = ref init in
    for j = 1 to len - 1 do
      if !i + j < n then v := (!v lsl 6) lor (Char.code s.[!i + j] land 0x3F)
    done;
    l := n_of_int !v :: !l;
    i := !i + len
  done;
  Stdlib.List.rev !l

let trim_colons (s : string) : string =
  let n = String.length s in
  let a = ref 0 and b = ref n in
  while !a < !b && s.[!a] = ':' do incr a done;
  while !b > !a && s.[!b - 1] = ':' do decr b done;
  String.sub s !a (!b - !a)

let () =
  iter_lines (fun line ->
    match split_on '\t' line with
    | case :: _ :: oracle :: _ ->
      (* oracle: h<k>:<hex> and s<k>:<hex> *)
      let hashes = Hashtbl.create 16 and symvals = Hashtbl.create 16 in
      if oracle <> "-" then
        Stdlib.List.iter (fun e ->
          match split_on ':' e with
          | [k; v] ->
            let step = int_of_string (String.sub k 1 (String.length k - 1)) in
            if k.[0] = 'h' then Hashtbl.replace hashes step (n_of_hex v)
            else Hashtbl.replace symvals step (n_of_hex v)
          | _ -> failwith ("bad oracle entry " ^ e)) (split_on ' ' oracle);
      let head, opstr =
        (match split_str " | " case with
         | [h; o] -> h, o
         | [h] -> (if String.length h >= 2 && String.sub h (String.length h - 2) 2 = " |" then String.sub h 0 (String.length h - 2) else h), ""
         | _ -> failwith "bad case") in
      let hp = Array.of_list (split_on ' ' head) in
      let ops = Stdlib.List.filter (fun s -> s <> "")
          (split_str " ; " opstr) in
      let ops = Stdlib.List.map (fun o -> Array.of_list (split_on ' ' o)) ops in
      let every = (match hp.(2) with "a" -> 1 | "e" -> 0 | k -> int_of_string k) in
      let nops = Stdlib.List.length ops in
      let cx = { results = []; syms = []; esyms = [] } in
      let arg (t : string) : nat =
        if String.length t > 0 && t.[0] = '@' then begin
          let k = int_of_string (String.sub t 1 (String.length t - 1)) in
          let l = results_in_order cx in
          (match Stdlib.List.nth_opt l k with
           | Some (Some v, _) -> ni v
           | _ -> O)
        end else ni (int_of_string t) in
      (* the intern-table hash oracle: filled per step *)
      let htable : (sdata * n) list ref = ref [] in
      let hf (v : sdata) : n =
        match Stdlib.List.assoc_opt v !htable with
        | Some x -> x
        | None -> raise Oracle_missing in
      let op_of (k : int) (t : string array) : op * sdata option =
        let hx s = n_of_hex s in
        match t.(0) with
        | "I" -> OInstr (instr_tbl.(int_of_string t.(1)), (if t.(2) = "-" then None else Some (arg t.(2)))), None
        | "J" -> OJump (arg t.(1)), None
        | "JM" -> OJumpSet (arg t.(1), arg t.(2)), None
        | "Y" ->
          let name = t.(1) in
          let sym = (match Hashtbl.find_opt symvals k with Some v -> v | None -> raise Oracle_missing) in
          if not (Stdlib.List.mem sym cx.syms) then cx.syms <- cx.syms @ [sym];
          ignore (trim_colons name);
          OSymbol (sym, ni (String.length name), cps_of_string name), Some (SSymbol sym)
        | "E" -> OExprSym (hx t.(1), arg t.(2)), None
        | "C" -> OCustom, None
        | "U" -> OUnit, None | "T" -> OTrue, None | "F" -> OFalse, None
        | "N" -> let x = parse_snum t.(1) in ONumber x, Some (SNumber x)
        | "TY" -> let x = type_tbl.(int_of_string t.(1)) in OType x, Some (SType x)
        | "CH" -> OChar (hx t.(1)), Some (SChar (hx t.(1)))
        | "BY" -> OByte (hx t.(1)), Some (SByte (hx t.(1)))
        | "SY" -> OSym (hx t.(1)), Some (SSymbol (hx t.(1)))
        | "EX" -> let a = arg t.(1) in OExpression a, Some (SExpression a)
        | "XT" -> let a = arg t.(1) in OExternal a, Some (SExternal a)
        | "P" -> OPair (arg t.(1), arg t.(2)), None
        | "CC" -> OConcat (arg t.(1), arg t.(2)), None
        | "RG" -> ORange (arg t.(1), arg t.(2)), None
        | "SL" -> OSlice (arg t.(1), arg t.(2)), None
        | "PT" -> OPartial (arg t.(1), arg t.(2)), None
        | "W" -> let cps = parse_dotted_hex t.(1) in OText (ni (utf8_len cps), cps), Some (SCharList cps)
        | "BL" -> let b = parse_dotted_hex t.(1) in OBytes b, Some (SByteList b)
        | "LS" -> OListStart (arg t.(1)), None
        | "LA" -> OListAdd (arg t.(1), arg t.(2)), None
        | "LE" -> OListEnd (arg t.(1)), None
        | "RP" -> ORegPush (arg t.(1)), None
        | "RQ" -> ORegPop, None
        | "VP" -> OValPush (arg t.(1)), None
        | "VQ" -> OValPop, None
        | "VS" -> OValSet (arg t.(1)), None
        | "FP" -> OFramePush (arg t.(1)), None
        | "FQ" -> OFramePop, None
        | "IC" -> OCursor (arg t.(1)), None
        | o -> failwith ("bad op " ^ o) in
      let res_txt = ref [] and dumps = ref [] in
      let record (r : result option) =
        (* None = panic *)
        let txt, num, kind =
          (match r with
           | None -> "PANIC", None, '-'
           | Some (RAddr a) -> "a" ^ us a, Some (int_of_nat a), 'a'
           | Some (RHandle a) -> "h" ^ us a, Some (int_of_nat a), 'h'
           | Some (RIndex a) -> "x" ^ us a, Some (int_of_nat a), 'x'
           | Some ROk -> "ok", None, '-'
           | Some RNone -> "none", None, '-'
           | Some (RSome a) -> "some" ^ us a, Some (int_of_nat a), 's'
           | Some RErr -> "err", None, '-'
           | Some RNA -> "NA", None, '-') in
        res_txt := txt :: !res_txt;
        cx.results <- (num, kind) :: cx.results in
      let skip () = res_txt := "-" :: !res_txt; cx.results <- (None, '-') :: cx.results in
      let finish () =
        Printf.printf "%s\t%s # %s\t-\n" case (join " " (Stdlib.List.rev !res_txt)) (join " ; " (Stdlib.List.rev !dumps)) in
      let drive (type s) (init : (s * unit outcome) res) (step : op -> s -> (s * result) res) (dump : s -> ctx -> string) (is_simple : bool) =
        match init with
        | Ok (_, Fail _) | Err _ -> Printf.printf "%s\tNEWERR\t-\n" case
        | Panic _ -> Printf.printf "%s\tNEWPANIC\t-\n" case
        | OutOfFuel -> Printf.printf "%s\tNEWHANG\t-\n" case
        | Ok (s0, Done ()) ->
          let st = ref s0 and dead = ref false in
          let safe_dump k =
            let d = (try dump !st cx with Model_panic -> "DUMPPANIC" | Model_hang -> "DUMPHANG") in
            dumps := sp "%s:%s" k d :: !dumps in
          Stdlib.List.iteri (fun k t ->
            if !dead then skip ()
            else begin
             (try
              let o, interned = op_of k t in
              (if is_simple then
                 match interned, Hashtbl.find_opt hashes k with
                 | Some v, Some hv -> htable := (v, hv) :: Stdlib.List.remove_assoc v !htable
                 | _ -> ());
              (match (try step o !st with Oracle_missing -> raise Oracle_missing) with
               | Ok (s', r) ->
                 st := s';
                 record (Some r);
                 (match o, r with
                  | OExprSym (sym, _), ROk -> if not (Stdlib.List.mem sym cx.esyms) then cx.esyms <- cx.esyms @ [sym]
                  | _ -> ())
               | Panic _ -> dead := true; record None
               | OutOfFuel -> dead := true; res_txt := "HANG" :: !res_txt; cx.results <- (None, '-') :: cx.results
               | Err _ -> dead := true; res_txt := "MODELERR" :: !res_txt; cx.results <- (None, '-') :: cx.results);
              let last = (k + 1 = nops) in
              if (not !dead) && (last || (every > 0 && (k + 1) mod every = 0)) then safe_dump (string_of_int k)
             with Oracle_missing ->
               dead := true; res_txt := "NO-ORACLE" :: !res_txt; cx.results <- (None, '-') :: cx.results)
            end) ops;
          if nops = 0 then safe_dump "-";
          finish () in
      (match hp.(0) with
       | "B" ->
         let init =
           if hp.(1) = "default" then new_default
           else (match Stdlib.List.map parse_settings (split_on ',' hp.(1)) with
               | [a; b; c; d; e; f] -> new_with_settings a b c d e f
               | _ -> failwith "profile") in
         drive init bstep dump_basic false
       | "S" -> drive (Ok (simple_new, Done ())) (sstep hf) (dump_simple hf) true
       | _ -> failwith "bad impl")
    | _ -> failwith ("bad line " ^ line))
