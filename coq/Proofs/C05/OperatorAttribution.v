(* The attribution clause of C04 on the operator fragment without the C05-K2
   exclusion: the parser links no C05-K2 tree for a token list on which the
   reference parser of C02 is defined (OperatorNoK2.v). *)
From Coq Require Import List Arith Bool NArith.
From GV Require Import Base.Result Gen.TokenTypes Gen.Defs Gen.Instr Model.Parser Model.BuilderWL Model.Compile
  Spec.RefTable Spec.Pratt Spec.TreeShape
  Proofs.C05.Known Proofs.C05.OperatorNoK2 Proofs.C04.ParserLeft.
Import ListNotations.

Lemma C04_attribution_operator_expressions_proof : forall toks rt, pratt toks = Some rt ->
  exists root ns t,
    parse toks = Ok (root, ns) /\ ns <> [] /\ Compile.tree_of ns root = Some t /\ ~ Known_C05_K2 t /\
    forall init lit fuel r, build ns init lit fuel root = Ok r -> covered_tree_b ns root (fst r) = true.
Proof.
  intros toks rt H. destruct (pratt_parse_tree toks rt H) as (root & ns & t & Hp & Hne & Ht & Hk).
  exists root, ns, t. repeat (split; [assumption|]).
  destruct (parsed_covered_tree_K2 toks root ns Hp Hne) as [t' [Ht' Hw]].
  rewrite Ht in Ht'. injection Ht' as <-.
  intros init lit fuel r Hb. exact (Hw init lit fuel r Hk Hb).
Qed.

(* in the shape of C04_attribution_full_statement, restricted to the fragment *)
Lemma C04_attribution_full_on_operator_expressions_proof : forall toks rt root ns init lit fuel r,
  pratt toks = Some rt -> parse toks = Ok (root, ns) ->
  build ns init lit fuel root = Ok r -> covered_tree_b ns root (fst r) = true.
Proof.
  intros toks rt root ns init lit fuel r H Hp Hb.
  destruct (C04_attribution_operator_expressions_proof toks rt H) as (root' & ns' & t & Hp' & _ & _ & _ & Hc).
  rewrite Hp in Hp'. injection Hp' as <- <-. exact (Hc init lit fuel r Hb).
Qed.

(* the parser invariant of OperatorNoK2.v is all that C04_attribution_full_statement lacks *)
Lemma no_K2_gives_attribution_all_parsed : parser_links_no_K2_statement ->
  forall (toks : list token_type) root ns init lit fuel r,
    parse toks = Ok (root, ns) -> ns <> [] ->
    build ns init lit fuel root = Ok r -> covered_tree_b ns root (fst r) = true.
Proof.
  intros HK toks root ns init lit fuel r Hp Hne Hb.
  destruct (parsed_covered_tree_K2 toks root ns Hp Hne) as [t [Ht Hw]].
  exact (Hw init lit fuel r (HK toks root ns t Hp Ht) Hb).
Qed.
