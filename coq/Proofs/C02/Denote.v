(* (c) reading a parent-linked node array as a tree.  [denotes ns p t]: the nodes of
   [ns] at the indices of [t] are linked exactly as [t] says (children, parent [p]).
   For a node array that is such a tree, with indices in token order, the three
   consumers in parse() succeed: [tree_of] returns the tree, [find_root] started at
   node 0 climbs to its root within the count guard, [validate_tree] accepts it
   within its fuel (completeness of the depth-first check). *)
From Coq Require Import List Arith Bool NArith Lia.
From GV Require Import Base.Result Gen.TokenTypes Gen.Defs Model.Parser Spec.RefTable Spec.Pratt Spec.Chains.
Import ListNotations.

(* ---- list updates ---- *)
Lemma upd_same {A} (l : list A) k f l' x :
  upd l k f = Some l' -> nth_error l k = Some x -> nth_error l' k = Some (f x).
Proof.
  revert k l'. induction l as [|a r IH]; intros k l' H Hx; destruct k; simpl in *; try discriminate.
  - injection H as <-. injection Hx as ->. reflexivity.
  - destruct (upd r k f) eqn:E; [|discriminate]. injection H as <-. simpl. eapply IH; eauto.
Qed.

Lemma upd_other {A} (l : list A) k f l' j :
  upd l k f = Some l' -> j <> k -> nth_error l' j = nth_error l j.
Proof.
  revert k l' j. induction l as [|a r IH]; intros k l' j H Hj; destruct k; simpl in *; try discriminate.
  - injection H as <-. destruct j; [congruence|reflexivity].
  - destruct (upd r k f) eqn:E; [|discriminate]. injection H as <-.
    destruct j; simpl; [reflexivity|]. eapply IH; eauto.
Qed.

Lemma upd_len {A} (l : list A) k f l' : upd l k f = Some l' -> length l' = length l.
Proof.
  revert k l'. induction l as [|a r IH]; intros k l' H; destruct k; simpl in *; try discriminate.
  - injection H as <-. reflexivity.
  - destruct (upd r k f) eqn:E; [|discriminate]. injection H as <-. simpl. f_equal. eapply IH; eauto.
Qed.

Lemma upd_some {A} (l : list A) k f : k < length l -> exists l', upd l k f = Some l'.
Proof.
  revert k. induction l as [|a r IH]; intros k H; simpl in H; [lia|].
  destruct k; simpl; [eexists; reflexivity|].
  destruct (IH k ltac:(lia)) as [r' ->]. eexists; reflexivity.
Qed.

Lemma upd_none {A} (l : list A) k f : length l <= k -> upd l k f = None.
Proof.
  revert k. induction l as [|a r IH]; intros k H; simpl in *; [reflexivity|].
  destruct k; [lia|]. rewrite IH by lia. reflexivity.
Qed.

Lemma nth_error_lt {A} (l : list A) k x : nth_error l k = Some x -> k < length l.
Proof. intros H. apply nth_error_Some. congruence. Qed.

Lemma opt_nat_eqb_refl a : opt_nat_eqb a a = true.
Proof. destruct a; simpl; [apply Nat.eqb_refl|reflexivity]. Qed.

Lemma opt_nat_eqb_true a b : opt_nat_eqb a b = true -> a = b.
Proof. destruct a, b; simpl; try discriminate; [intros H; apply Nat.eqb_eq in H; congruence|reflexivity]. Qed.

Lemma opt_nat_eqb_some_neq a b : a <> b -> opt_nat_eqb (Some a) (Some b) = false.
Proof. intros H. simpl. apply Nat.eqb_neq. exact H. Qed.

(* ---- shape of index-carrying trees ---- *)
Fixpoint lo (t : ntree) : nat :=
  match t with
  | NAtom i _ _ => i
  | NPre i _ _ _ => i
  | NSuf _ _ _ a => lo a
  | NBin _ _ _ l _ => lo l
  | NGroup _ i _ _ => i
  end.

Fixpoint hi (t : ntree) : nat :=
  match t with
  | NAtom i _ _ => i
  | NPre _ _ _ a => hi a
  | NSuf i _ _ _ => i
  | NBin _ _ _ _ r => hi r
  | NGroup _ _ _ a => hi a
  end.

(* indices in token order: left operand < operator < right operand *)
Fixpoint ordered (t : ntree) : Prop :=
  match t with
  | NAtom _ _ _ => True
  | NPre i _ _ a => i < lo a /\ ordered a
  | NSuf i _ _ a => hi a < i /\ ordered a
  | NBin i _ _ l r => hi l < i /\ i < lo r /\ ordered l /\ ordered r
  | NGroup _ i _ a => i < lo a /\ ordered a
  end.

Fixpoint has_id (t : ntree) (j : nat) : Prop :=
  match t with
  | NAtom i _ _ => j = i
  | NPre i _ _ a => j = i \/ has_id a j
  | NSuf i _ _ a => j = i \/ has_id a j
  | NBin i _ _ l r => j = i \/ has_id l j \/ has_id r j
  | NGroup _ i _ a => j = i \/ has_id a j
  end.

Fixpoint size (t : ntree) : nat :=
  match t with
  | NAtom _ _ _ => 1
  | NPre _ _ _ a => S (size a)
  | NSuf _ _ _ a => S (size a)
  | NBin _ _ _ l r => S (size l + size r)
  | NGroup _ _ _ a => S (size a)
  end.

(* steps from the leftmost node up to the root *)
Fixpoint ldepth (t : ntree) : nat :=
  match t with
  | NAtom _ _ _ => 0
  | NPre _ _ _ _ => 0
  | NSuf _ _ _ a => S (ldepth a)
  | NBin _ _ _ l _ => S (ldepth l)
  | NGroup _ _ _ _ => 0
  end.

Lemma has_id_root t : has_id t (nid t).
Proof. destruct t; simpl; auto. Qed.

Lemma has_id_hi t : has_id t (hi t).
Proof. induction t; simpl; auto. Qed.

Lemma ordered_lo_hi t : ordered t -> lo t <= nid t <= hi t.
Proof.
  induction t as [i d k|i d k a IH|i d k a IH|i d k l IHl r IHr|b i k a IH]; simpl.
  - lia.
  - intros [H1 H2]. specialize (IH H2). lia.
  - intros [H1 H2]. specialize (IH H2). lia.
  - intros (H1 & H2 & H3 & H4). specialize (IHl H3). specialize (IHr H4). lia.
  - intros [H1 H2]. specialize (IH H2). lia.
Qed.

Lemma ordered_range t j : ordered t -> has_id t j -> lo t <= j <= hi t.
Proof.
  induction t as [i d k|i d k a IH|i d k a IH|i d k l IHl r IHr|b i k a IH]; simpl.
  - lia.
  - intros [H1 H2] [->|Hj]; [pose proof (ordered_lo_hi a H2) as B; lia|specialize (IH H2 Hj); lia].
  - intros [H1 H2] [->|Hj]; [pose proof (ordered_lo_hi a H2) as B; lia|specialize (IH H2 Hj); lia].
  - intros (H1 & H2 & H3 & H4).
    pose proof (ordered_lo_hi l H3) as Bl. pose proof (ordered_lo_hi r H4) as Br.
    intros [->|[Hj|Hj]]; [lia|specialize (IHl H3 Hj); lia|specialize (IHr H4 Hj); lia].
  - intros [H1 H2] [->|Hj]; [pose proof (ordered_lo_hi a H2) as B; lia|specialize (IH H2 Hj); lia].
Qed.

Lemma ordered_size t : ordered t -> size t + lo t <= S (hi t).
Proof.
  induction t as [i d k|i d k a IH|i d k a IH|i d k l IHl r IHr|b i k a IH]; simpl.
  - lia.
  - intros [H1 H2]. specialize (IH H2). lia.
  - intros [H1 H2]. specialize (IH H2). lia.
  - intros (H1 & H2 & H3 & H4). specialize (IHl H3). specialize (IHr H4). lia.
  - intros [H1 H2]. specialize (IH H2). lia.
Qed.

Lemma ordered_ldepth t : ordered t -> ldepth t + lo t <= nid t.
Proof.
  induction t as [i d k|i d k a IH|i d k a IH|i d k l IHl r IHr|b i k a IH]; simpl.
  - lia.
  - lia.
  - intros [H1 H2]. specialize (IH H2). pose proof (ordered_lo_hi a H2) as B. lia.
  - intros (H1 & H2 & H3 & H4). specialize (IHl H3). pose proof (ordered_lo_hi l H3) as B. lia.
  - lia.
Qed.

(* ---- the nodes ---- *)
Definition is_atom_sec (s : secondary) : bool :=
  match s with S_Value | S_Identifier => true | _ => false end.
Definition is_bin_sec (s : secondary) : bool :=
  match s with S_BinaryLeftToRight | S_BinaryRightToLeft | S_OptionalBinaryLeftToRight => true | _ => false end.

Definition atom_node (n : pnode) (d : definition) (k : nat) (p : option nat) : Prop :=
  is_atom_sec (n_sec n) = true /\ n_def n = d /\ priority (n_def n) = Some 10%N /\
  n_parent n = p /\ n_left n = None /\ n_right n = None /\ n_tok n = Some k.

(* an operator token, or the synthesised list node of the implicit space list *)
Definition bin_shape (n : pnode) (d : definition) (k : option nat) : Prop :=
  n_def n = d /\
  ((is_bin_sec (n_sec n) = true /\ exists tk, k = Some tk /\ n_tok n = Some tk) \/
   (n_sec n = S_StartGrouping /\ d = D_List /\ k = None) \/
   (n_sec n = S_Subexpression /\ exists tk, k = Some tk /\ n_tok n = Some tk)).   (* the separator `;` *)

Fixpoint denotes (ns : list pnode) (p : option nat) (t : ntree) : Prop :=
  match t with
  | NAtom i d k => exists n, nth_error ns i = Some n /\ atom_node n d k p
  | NPre i d k a =>
    exists n, nth_error ns i = Some n /\ n_sec n = S_UnaryPrefix /\ n_def n = d /\ n_parent n = p /\
              n_left n = None /\ n_right n = Some (nid a) /\ n_tok n = Some k /\ denotes ns (Some i) a
  | NSuf i d k a =>
    exists n, nth_error ns i = Some n /\ n_sec n = S_UnarySuffix /\ n_def n = d /\ n_parent n = p /\
              n_left n = Some (nid a) /\ n_right n = None /\ n_tok n = Some k /\ denotes ns (Some i) a
  | NBin i d k l r =>
    exists n, nth_error ns i = Some n /\ bin_shape n d k /\ n_parent n = p /\
              n_left n = Some (nid l) /\ n_right n = Some (nid r) /\
              denotes ns (Some i) l /\ denotes ns (Some i) r
  | NGroup b i k a =>
    exists n, nth_error ns i = Some n /\ n_sec n = S_StartGrouping /\ n_def n = bdef b /\ n_parent n = p /\
              n_left n = None /\ n_right n = Some (nid a) /\ n_tok n = Some k /\ denotes ns (Some i) a
  end.

Lemma denotes_root ns p t : denotes ns p t -> exists n, nth_error ns (nid t) = Some n /\ n_parent n = p.
Proof.
  destruct t; simpl; intros (n & H & A); exists n; (split; [exact H|apply A]).
Qed.

Lemma denotes_lt ns p t j : denotes ns p t -> has_id t j -> j < length ns.
Proof.
  revert p. induction t as [i d k|i d k a IH|i d k a IH|i d k l IHl r IHr|b i k a IH]; simpl; intros p.
  - intros (n & H & _) ->. eapply nth_error_lt; eauto.
  - intros (n & H & A) [->|Hj]; [eapply nth_error_lt; eauto|]. eapply IH; [apply A|exact Hj].
  - intros (n & H & A) [->|Hj]; [eapply nth_error_lt; eauto|]. eapply IH; [apply A|exact Hj].
  - intros (n & H & A) [->|[Hj|Hj]]; [eapply nth_error_lt; eauto| |].
    + eapply IHl; [apply A|exact Hj].
    + eapply IHr; [apply A|exact Hj].
  - intros (n & H & A) [->|Hj]; [eapply nth_error_lt; eauto|]. eapply IH; [apply A|exact Hj].
Qed.

(* [denotes] only looks at the nodes of the tree *)
Lemma denotes_ext ns ns' p t :
  (forall j, has_id t j -> nth_error ns' j = nth_error ns j) -> denotes ns p t -> denotes ns' p t.
Proof.
  revert p. induction t as [i d k|i d k a IH|i d k a IH|i d k l IHl r IHr|b i k a IH]; simpl; intros p E.
  - intros (n & H & A). exists n. rewrite E by reflexivity. auto.
  - intros (n & H & A). exists n. rewrite E by auto. split; [exact H|].
    destruct A as (A1 & A2 & A3 & A4 & A5 & A6 & A7). repeat split; auto.
  - intros (n & H & A). exists n. rewrite E by auto. split; [exact H|].
    destruct A as (A1 & A2 & A3 & A4 & A5 & A6 & A7). repeat split; auto.
  - intros (n & H & A). exists n. rewrite E by auto. split; [exact H|].
    destruct A as (A1 & A2 & A3 & A4 & A5 & A6). repeat split; auto; try apply A1.
  - intros (n & H & A). exists n. rewrite E by auto. split; [exact H|].
    destruct A as (A1 & A2 & A3 & A4 & A5 & A6 & A7). repeat split; auto.
Qed.

(* ---- tree_of ---- *)
(* token indices moved by the number of tokens trimmed at the front *)
Fixpoint shift_rtree (a : nat) (t : rtree) : rtree :=
  match t with
  | RAtom d k => RAtom d (k + a)
  | RPre d k x => RPre d (k + a) (shift_rtree a x)
  | RSuf d k x => RSuf d (k + a) (shift_rtree a x)
  | RBin d k l r => RBin d (option_map (fun j => j + a) k) (shift_rtree a l) (shift_rtree a r)
  | RGroup b k x => RGroup b (k + a) (shift_rtree a x)
  end.

Lemma shift_rtree_0 t : shift_rtree 0 t = t.
Proof.
  induction t as [d k|d k x IH|d k x IH|d k l IHl r IHr|b k x IH]; simpl; rewrite ?Nat.add_0_r, ?IH, ?IHl, ?IHr; auto.
  destruct k; simpl; rewrite ?Nat.add_0_r; reflexivity.
Qed.

Lemma tree_of_denotes_off ns off : forall t p fuel, denotes ns p t -> size t <= fuel ->
  tree_of fuel ns off (nid t) = Some (shift_rtree off (erase t)).
Proof.
  induction t as [i d k|i d k a IH|i d k a IH|i d k l IHl r IHr|b i k a IH]; intros p fuel D Hf;
    (destruct fuel as [|fuel]; [simpl in Hf; lia|]); simpl in D, Hf; destruct D as (n & Hn & A);
    cbn [tree_of nid erase shift_rtree]; rewrite Hn.
  - destruct A as (A1 & A2 & A3 & A4 & A5 & A6 & A7). rewrite A5, A6, A7, A2.
    destruct (n_sec n); try discriminate; reflexivity.
  - destruct A as (A1 & A2 & A3 & A4 & A5 & A6 & A7). rewrite A1, A4, A5, A6, A2.
    rewrite (IH (Some i) fuel A7) by lia. reflexivity.
  - destruct A as (A1 & A2 & A3 & A4 & A5 & A6 & A7). rewrite A1, A4, A5, A6, A2.
    rewrite (IH (Some i) fuel A7) by lia. reflexivity.
  - destruct A as ([A0 A1] & A2 & A3 & A4 & A5 & A6). rewrite A3, A4.
    rewrite (IHl (Some i) fuel A5) by lia. rewrite (IHr (Some i) fuel A6) by lia.
    destruct A1 as [(B1 & tk & -> & B2)|[(B1 & -> & ->)|(B1 & tk & -> & B2)]].
    + rewrite B2, A0. destruct (n_sec n); try discriminate; reflexivity.
    + rewrite B1, A0. reflexivity.
    + rewrite B2, A0, B1. reflexivity.
  - destruct A as (A1 & A2 & A3 & A4 & A5 & A6 & A7). rewrite A1, A2, A4, A5, A6.
    rewrite (IH (Some i) fuel A7) by lia. destruct b; reflexivity.
Qed.

Lemma tree_of_denotes ns t p fuel : denotes ns p t -> size t <= fuel ->
  tree_of fuel ns 0 (nid t) = Some (erase t).
Proof. intros D Hf. rewrite (tree_of_denotes_off ns 0 t p fuel D Hf), shift_rtree_0. reflexivity. Qed.

(* ---- find_root ---- *)
Lemma find_root_climb ns : forall t p, denotes ns p t ->
  forall n0, nth_error ns (lo t) = Some n0 ->
  exists nr, nth_error ns (nid t) = Some nr /\ n_parent nr = p /\
    forall fuel count, count + ldepth t <= length ns ->
      find_root (ldepth t + fuel) ns (lo t) n0 count = find_root fuel ns (nid t) nr (count + ldepth t).
Proof.
  induction t as [i d k|i d k a IH|i d k a IH|i d k l IHl r IHr|b i k a IH]; intros p D n0 H0; simpl in D;
    destruct D as (n & Hn & A); cbn [lo nid ldepth] in *.
  - exists n0. rewrite H0 in Hn. injection Hn as <-. split; [exact H0|]. split; [apply A|].
    intros. rewrite Nat.add_0_r. reflexivity.
  - exists n0. rewrite H0 in Hn. injection Hn as <-. split; [exact H0|]. split; [apply A|].
    intros. rewrite Nat.add_0_r. reflexivity.
  - destruct A as (A1 & A2 & A3 & A4 & A5 & A6 & A7).
    destruct (IH (Some i) A7 n0 H0) as (nr & R1 & R2 & R3).
    exists n. split; [exact Hn|]. split; [exact A3|]. intros fuel count Hc.
    replace (S (ldepth a) + fuel) with (ldepth a + S fuel) by lia. rewrite R3 by lia.
    cbn [find_root]. rewrite R2, Hn.
    destruct (Nat.ltb_spec (length ns) (S (count + ldepth a))); [lia|].
    f_equal. lia.
  - destruct A as (A1 & A2 & A3 & A4 & A5 & A6).
    destruct (IHl (Some i) A5 n0 H0) as (nr & R1 & R2 & R3).
    exists n. split; [exact Hn|]. split; [exact A2|]. intros fuel count Hc.
    replace (S (ldepth l) + fuel) with (ldepth l + S fuel) by lia. rewrite R3 by lia.
    cbn [find_root]. rewrite R2, Hn.
    destruct (Nat.ltb_spec (length ns) (S (count + ldepth l))); [lia|].
    f_equal. lia.
  - exists n0. rewrite H0 in Hn. injection Hn as <-. split; [exact H0|]. split; [apply A|].
    intros. rewrite Nat.add_0_r. reflexivity.
Qed.

Lemma find_root_tree ns t n0 :
  denotes ns None t -> ordered t -> lo t = 0 -> nth_error ns 0 = Some n0 ->
  find_root (S (S (length ns))) ns 0 n0 0 = Ok (nid t).
Proof.
  intros D O L H0.
  assert (G : find_root (S (S (length ns))) ns (lo t) n0 0 = Ok (nid t)); [|rewrite L in G; exact G].
  rewrite <- L in H0.
  destruct (find_root_climb ns t None D n0 H0) as (nr & R1 & R2 & R3).
  pose proof (ordered_ldepth t O) as Hd. pose proof (nth_error_lt _ _ _ R1) as Hl.
  replace (S (S (length ns))) with (ldepth t + (S (S (length ns)) - ldepth t)) by lia.
  rewrite R3 by lia.
  destruct (S (S (length ns)) - ldepth t) as [|f] eqn:E; [lia|].
  cbn [find_root]. rewrite R2. reflexivity.
Qed.
