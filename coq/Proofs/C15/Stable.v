(* C15: the invariant [G] under which every operation runs without panic,
   and the relation [Stable s s'] "everything that was stored in s still
   reads back the same in s'".  Data cells are frozen when their kind is
   never overwritten (everything except Empty / ListItem / AssociativeItem /
   UninitializedList / Value / ValueRoot) or when they lie inside a finished
   list. *)
From Coq Require Import NArith List Bool Arith Lia Permutation.
From GV Require Import Base.Result Model.StoreBase Model.BasicStore Spec.AbsTables
  Proofs.C15.ListFacts Proofs.C15.Layout.
Import ListNotations.

Definition data (s : basic) : list cell := window s BData.

Definition scratch (c : cell) : bool :=
  match c with CEmpty | CListItem _ | CAssociativeItem _ _ => true | _ => false end.

Definition header_len (c : cell) : option nat :=
  match c with CUninitializedList len _ | CList len _ => Some len | _ => None end.

Definition stable_kind (c : cell) : bool :=
  match c with
  | CEmpty | CListItem _ | CAssociativeItem _ _ | CUninitializedList _ _ | CValue _ _ | CValueRoot _ => false
  | _ => true
  end.

Definition frame_ok (c : cell) : Prop :=
  match c with CFrame f _ | CFrameIndex f => 1 <= f | _ => True end.

(* every list header (open or finished) is followed by its 2*len own cells *)
Definition RegionOk (T : list cell) : Prop :=
  forall p c len, nth_error T p = Some c -> header_len c = Some len ->
    p + 2 * len < length T /\
    forall k, 1 <= k <= 2 * len -> exists c', nth_error T (p + k) = Some c' /\ scratch c' = true.

Definition FramesOk (T : list cell) : Prop := forall i c, nth_error T i = Some c -> frame_ok c.

Record G (s : basic) : Prop := {
  g_good : Good s;
  g_region : RegionOk (data s);
  g_frames : FramesOk (data s);
  g_cur_frame : forall i, cur_frame s = Some i -> 1 <= i }.

Definition frozen (T : list cell) (i : nat) : Prop :=
  exists c, nth_error T i = Some c /\
    (stable_kind c = true \/
     exists p len ac, nth_error T p = Some (CList len ac) /\ p < i /\ i <= p + 2 * len).

Record Stable (s s' : basic) : Prop := {
  sb_len : forall b, length (window s b) <= length (window s' b);
  sb_data : forall i, frozen (data s) i -> nth_error (data s') i = nth_error (data s) i;
  sb_instr : forall i c, nth_error (window s BInstr) i = Some c -> nth_error (window s' BInstr) i = Some c;
  sb_custom : forall i c, nth_error (window s BCustom) i = Some c -> nth_error (window s' BCustom) i = Some c;
  sb_sym : forall c, In c (window s BSym) -> In c (window s' BSym);
  sb_expr : forall c, In c (window s BExpr) -> In c (window s' BExpr) }.

Lemma Stable_refl : forall s, Stable s s.
Proof. intro s. constructor; auto. Qed.

Lemma frozen_preserved : forall T T' i, (forall j, frozen T j -> nth_error T' j = nth_error T j) -> frozen T i -> frozen T' i.
Proof.
  intros T T' i H [c [Hc Hk]]. exists c. split; [rewrite (H i); [exact Hc|exists c; auto]|].
  destruct Hk as [Hk|(p & len & ac & Hp & Hlt & Hle)]; [left; exact Hk|].
  right. exists p, len, ac. split; [|lia].
  rewrite (H p); [exact Hp|]. exists (CList len ac). split; [exact Hp|left; reflexivity].
Qed.

Lemma Stable_trans : forall a b c, Stable a b -> Stable b c -> Stable a c.
Proof.
  intros a b c [L1 D1 I1 C1 S1 E1] [L2 D2 I2 C2 S2 E2]. constructor.
  - intro x. specialize (L1 x). specialize (L2 x). lia.
  - intros i F. rewrite D2; [apply D1; exact F|]. apply (frozen_preserved (data a)); assumption.
  - auto.
  - auto.
  - auto.
  - auto.
Qed.

(* two states with the same heap and blocks (only the chain heads / cursor differ) *)
Definition same_store (s s' : basic) : Prop := heap s' = heap s /\ forall b, get_block s' b = get_block s b.

Lemma same_store_window : forall s s' b, same_store s s' -> window s' b = window s b.
Proof. intros s s' b [Hh Hb]. unfold window. rewrite Hh, Hb. reflexivity. Qed.

Lemma same_store_good : forall s s', same_store s s' -> Good s -> Good s'.
Proof.
  intros s s' [Hh Hb] [[Is Ic Il] P M]. constructor; [constructor| |].
  - intro b. unfold st, sz in *. rewrite Hb, Is. destruct b; cbn [offset]; rewrite ?Hb; reflexivity.
  - intro b. unfold cur, sz in *. rewrite Hb. apply Ic.
  - rewrite Hh, Il. unfold total_size, sz. rewrite !Hb. reflexivity.
  - intro b. rewrite Hb. apply P.
  - intro b. unfold sett in *. rewrite Hb. apply M.
Qed.

Lemma same_store_stable : forall s s', same_store s s' -> Stable s s'.
Proof.
  intros s s' H. constructor; intros; unfold data in *; rewrite ?(same_store_window s s' _ H); auto.
Qed.

Lemma same_store_G : forall s s', same_store s s' -> G s ->
  (forall i, cur_frame s' = Some i -> 1 <= i) -> G s'.
Proof.
  intros s s' H [Gd R F C] HC. constructor; [eapply same_store_good; eassumption| | |exact HC];
    unfold data; rewrite (same_store_window s s' _ H); assumption.
Qed.

Lemma same_store_set_cur_value : forall s v, same_store s (set_cur_value s v).
Proof. intros. split; [reflexivity|destruct b; reflexivity]. Qed.
Lemma same_store_set_cur_register : forall s v, same_store s (set_cur_register s v).
Proof. intros. split; [reflexivity|destruct b; reflexivity]. Qed.
Lemma same_store_set_cur_frame : forall s v, same_store s (set_cur_frame s v).
Proof. intros. split; [reflexivity|destruct b; reflexivity]. Qed.
Lemma same_store_set_ip : forall s v, same_store s (set_ip s v).
Proof. intros. split; [reflexivity|destruct b; reflexivity]. Qed.

(* ---- consequences of RegionOk ---- *)
Lemma header_not_scratch : forall c len, header_len c = Some len -> scratch c = false.
Proof. destruct c; cbn; congruence. Qed.

Lemma regions_apart : forall T p q cp cq lp lq, RegionOk T -> p < q ->
  nth_error T p = Some cp -> nth_error T q = Some cq -> header_len cp = Some lp -> header_len cq = Some lq ->
  p + 2 * lp < q.
Proof.
  intros T p q cp cq lp lq R Hpq Hp Hq Hlp Hlq.
  destruct (le_lt_dec q (p + 2 * lp)) as [Hle|Hgt]; [|exact Hgt]. exfalso.
  destruct (R p cp lp Hp Hlp) as [_ Hreg].
  destruct (Hreg (q - p)) as (c' & Hc' & Hs); [lia|].
  replace (p + (q - p)) with q in Hc' by lia. rewrite Hq in Hc'. inversion Hc'; subst c'.
  rewrite (header_not_scratch _ _ Hlq) in Hs. discriminate.
Qed.

(* a cell in the region of an open list is not frozen *)
Lemma open_region_not_frozen : forall T q len count k, RegionOk T ->
  nth_error T q = Some (CUninitializedList len count) -> 1 <= k <= 2 * len -> ~ frozen T (q + k).
Proof.
  intros T q len count k R Hq Hk [c [Hc Hf]].
  destruct (R q _ len Hq eq_refl) as [_ Hreg].
  destruct (Hreg k Hk) as (c' & Hc' & Hs). rewrite Hc in Hc'. inversion Hc'; subst c'.
  destruct Hf as [Hf|(p & lp & ac & Hp & Hlt & Hle)].
  - destruct c; cbn in Hs, Hf; congruence.
  - destruct (lt_eq_lt_dec p q) as [[Hpq|Heq]|Hqp].
    + pose proof (regions_apart T p q _ _ lp len R Hpq Hp Hq eq_refl eq_refl). lia.
    + subst p. rewrite Hq in Hp. discriminate.
    + pose proof (regions_apart T q p _ _ len lp R Hqp Hq Hp eq_refl eq_refl). lia.
Qed.

Lemma unstable_not_in_list : forall T i c, RegionOk T -> nth_error T i = Some c -> scratch c = false -> stable_kind c = false ->
  ~ frozen T i.
Proof.
  intros T i c R Hc Hs Hk [c' [Hc' Hf]]. rewrite Hc in Hc'. inversion Hc'; subst c'.
  destruct Hf as [Hf|(p & lp & ac & Hp & Hlt & Hle)]; [congruence|].
  destruct (R p _ lp Hp eq_refl) as [_ Hreg].
  destruct (Hreg (i - p)) as (c2 & Hc2 & Hs2); [lia|].
  replace (p + (i - p)) with i in Hc2 by lia. rewrite Hc in Hc2. inversion Hc2; subst c2. congruence.
Qed.

(* ---- RegionOk / FramesOk under the three kinds of change ---- *)
Lemma region_app : forall T cells, RegionOk T -> (forall c, In c cells -> header_len c = None) -> RegionOk (T ++ cells).
Proof.
  intros T cells R Hh p c len Hp Hl.
  destruct (lt_dec p (length T)) as [Hlt|Hge].
  - rewrite nth_error_app1 in Hp by assumption.
    destruct (R p c len Hp Hl) as [Hb Hreg]. split; [rewrite app_length; lia|].
    intros k Hk. destruct (Hreg k Hk) as (c' & Hc' & Hs). exists c'. split; [|exact Hs].
    rewrite nth_error_app1 by lia. exact Hc'.
  - rewrite nth_error_app2 in Hp by lia. apply nth_error_In in Hp. rewrite (Hh c Hp) in Hl. discriminate.
Qed.

(* appending a fresh list header with its region of Empty cells *)
Lemma region_app_list : forall T len, RegionOk T -> RegionOk (T ++ CUninitializedList len 0 :: repeat CEmpty (2 * len)).
Proof.
  intros T len R p c l Hp Hl.
  destruct (lt_dec p (length T)) as [Hlt|Hge].
  - rewrite nth_error_app1 in Hp by assumption.
    destruct (R p c l Hp Hl) as [Hb Hreg]. split; [rewrite app_length; lia|].
    intros k Hk. destruct (Hreg k Hk) as (c' & Hc' & Hs). exists c'. split; [|exact Hs].
    rewrite nth_error_app1 by lia. exact Hc'.
  - rewrite nth_error_app2 in Hp by lia.
    destruct (p - length T) as [|d] eqn:Ed.
    + cbn in Hp. inversion Hp; subst c. cbn in Hl. inversion Hl; subst l.
      assert (p = length T) by lia. subst p.
      split; [rewrite app_length; cbn [length]; rewrite repeat_length; lia|].
      intros k Hk. exists CEmpty. split; [|reflexivity].
      rewrite nth_error_app2 by lia. replace (length T + k - length T) with (S (k - 1)) by lia.
      cbn [nth_error]. rewrite nth_error_repeat.
      assert (E : (k - 1 <? 2 * len) = true) by (apply Nat.ltb_lt; lia). rewrite E. reflexivity.
    + cbn [nth_error] in Hp. rewrite nth_error_repeat in Hp. destruct (d <? 2 * len); [|discriminate].
      inversion Hp; subst c. discriminate.
Qed.

(* overwriting a cell by one with the same header length and the same scratch flag *)
Lemma region_update : forall T T' i old new, RegionOk T -> nth_error T i = Some old -> set_ix T i new = Some T' ->
  header_len new = header_len old -> scratch new = scratch old -> RegionOk T'.
Proof.
  intros T T' i old new R Hold Hset Hh Hs p c len Hp Hl.
  rewrite (set_ix_nth _ _ _ _ p Hset) in Hp. rewrite (set_ix_length _ _ _ _ Hset).
  assert (Hp' : exists c0, nth_error T p = Some c0 /\ header_len c0 = Some len).
  { destruct (p =? i) eqn:E.
    - apply Nat.eqb_eq in E. subst p. inversion Hp; subst c. exists old. split; [exact Hold|congruence].
    - exists c. split; assumption. }
  destruct Hp' as (c0 & Hc0 & Hl0). destruct (R p c0 len Hc0 Hl0) as [Hb Hreg]. split; [exact Hb|].
  intros k Hk. destruct (Hreg k Hk) as (c' & Hc' & Hs'). rewrite (set_ix_nth _ _ _ _ (p + k) Hset).
  destruct (p + k =? i) eqn:E.
  - apply Nat.eqb_eq in E. exists new. split; [reflexivity|]. rewrite E, Hold in Hc'. inversion Hc'; subst c'. congruence.
  - exists c'. split; assumption.
Qed.

Lemma frames_app : forall T cells, FramesOk T -> (forall c, In c cells -> frame_ok c) -> FramesOk (T ++ cells).
Proof.
  intros T cells F H i c Hc. destruct (lt_dec i (length T)).
  - rewrite nth_error_app1 in Hc by assumption. eapply F; eassumption.
  - rewrite nth_error_app2 in Hc by lia. apply nth_error_In in Hc. auto.
Qed.

Lemma frames_update : forall T T' i new, FramesOk T -> set_ix T i new = Some T' -> frame_ok new -> FramesOk T'.
Proof.
  intros T T' i new F Hset Hn j c Hc. rewrite (set_ix_nth _ _ _ _ j Hset) in Hc.
  destruct (j =? i); [inversion Hc; subst; assumption|eapply F; eassumption].
Qed.

Lemma frames_perm : forall T T', FramesOk T -> (forall c, In c T' -> In c T) -> FramesOk T'.
Proof.
  intros T T' F H j c Hc. apply nth_error_In in Hc. apply H in Hc. apply In_nth_error in Hc. destruct Hc as [n Hn]. eapply F; eassumption.
Qed.
