(* C01  Compiled programs compute what the source means.
   Only statements, [exact] and [Print Assumptions] live here.

   Objects: the reference evaluator Spec/Eval.v on the AST Spec/Ast.v (printed
   to source text by Spec/Printer.v), the AST compiler Model/CompileExpr.v
   (tied to compiler/src/build/build.rs and to Model/BuilderWL.v by the
   correspondence runs and by C01_compile_builder_bounded_3) and the runtime
   model Model/Machine.v (tied to runtime/src by the correspondence runs). *)
From Coq Require Import ZArith NArith List Bool Arith.
From GV Require Import Base.Result Base.Host Gen.Instr Model.Num Model.Value Model.Machine
  Model.CompileExpr Model.CompileWL Spec.Ast Spec.Printer Spec.Eval
  Proofs.C01.MachineFacts Proofs.C01.Fragment Proofs.C01.Stages Proofs.C01.Main Proofs.C01.StageThms
  Proofs.C01.Bounded Proofs.C01.Witness
  Spec.Fragment Proofs.C01.EndToEnd.Facts Proofs.C01.EndToEnd.Final.
Import ListNotations.

(* "the compiled program, started at its entry with `$` = vin, reaches End with
   current value v, host state h' and observable (resolve/apply) host trace t":
   StageThms.reaches, unfolded once here for the reader *)
Example C01_reaches_def : forall sym_hash hstate host e vin h v h' t,
  reaches sym_hash hstate host e vin h v h' t <->
  exists s0 fuel steps sfin,
    initial hstate (compile_prog sym_hash e) 0 vin h = Some s0 /\
    run hstate host fuel (compile_prog sym_hash e) s0 = REnd hstate sfin steps /\
    current_value hstate sfin = Some v /\ hs sfin = h' /\ observable (tr sfin) = t.
Proof. intros. reflexivity. Qed.

(* The full statement: every printable program of the core grammar outside the
   known-finding classes, every input value, every host that declines defer_op:
   the program the BUILDER MODEL makes of the parsed printed tokens
   (Model/Parser.v, Model/BuilderWL.v: transliterations of parse() and build(),
   tied to the Rust by correspondence) computes what the evaluator says.
   Nested expressions are labelled with the jump-table indices of their bodies,
   which is what the host sees of an expression value. *)
Definition C01_full_statement : Prop :=
  forall sym_hash hstate host, declines_defer hstate host ->
  forall e vin h n v h' t,
  printable e = true -> known_K1 e = false -> known_K2 e = false -> labels_ok e = true ->
  eval_prog sym_hash hstate host n e vin h = ODone v (h', t) ->
  reaches_built sym_hash hstate host e vin h v h' t.

(* ... proved wherever the AST compiler agrees with the builder model (which
   C01_compile_builder_bounded_3 establishes for every AST of at most 3
   constructors and every check run validates on every generated program) *)
Theorem C01_full_where_builder_agrees : forall sym_hash hstate host, declines_defer hstate host ->
  forall e vin h n v h' t,
  wl_program sym_hash e = Ok (compile_prog sym_hash e, 0) ->
  printable e = true -> known_K1 e = false -> known_K2 e = false -> labels_ok e = true ->
  eval_prog sym_hash hstate host n e vin h = ODone v (h', t) ->
  reaches_built sym_hash hstate host e vin h v h' t.
Proof. exact all_programs_built. Qed.
Print Assumptions C01_full_where_builder_agrees.

(* ---- END TO END on the operator fragment, no bound on the size of the program ----
   [frag_e2e] (Spec/Fragment.v): literals, `$`, identifiers, round groups, every prefix and
   suffix operator, every binary operator (arithmetic, bitwise, comparison, equality, `^^`,
   pair, access, `<~`, `~>`), `~~`, space lists and comma lists, `&&` `||`, conditionals
   `?>` `!>` and `|>` else-chains, nested expressions `{ body }` (as values and as the
   functions of the apply forms), re-apply `^~ e`, and sequences `l ; r` at the top of a
   program or of a `{ }` body.  (Side-effect blocks [ ] and the blank-line separator are
   outside: the reference parser of C02 is undefined on them; a round group directly around
   a sequence is not in the grammar.)

   The transliterated builder (Model/BuilderWL.v) run on what the transliterated parser
   (Model/Parser.v) makes of the printed tokens produces EXACTLY the program of the AST
   compiler -- the hypothesis of C01_full_where_builder_agrees -- for every printable AST of
   the fragment.  Proof (Proofs/C01/EndToEnd): the printed tokens are in the domain of the
   reference precedence-climbing parser and it returns the tree of the AST (the printer's
   parenthesisation argument, PrintClimb.v); C02 turns that into the parser model's node
   array (PrintRep.v, with the Property invariant); the builder model succeeds wherever the
   tree compiler does (BuildOk.v) and then equals it (compile_agrees_full); the tree
   compiler on that tree emits the AST compiler's inline code, out-of-line bodies and
   jump table (CompileSim.v, by induction on the AST). *)
Theorem C01_wl_agrees_fragment : forall sym_hash e,
  frag_e2e e = true -> printable e = true ->
  wl_program sym_hash e = Ok (compile_prog sym_hash e, 0).
Proof. exact wl_agrees_fragment_proof. Qed.
Print Assumptions C01_wl_agrees_fragment.

(* C01_full_statement restricted to the fragment: a theorem over the parser, builder and
   machine models *)
Theorem C01_full_fragment : forall sym_hash hstate host, declines_defer hstate host ->
  forall e vin h n v h' t,
  frag_e2e e = true ->
  printable e = true -> known_K1 e = false -> known_K2 e = false -> labels_ok e = true ->
  eval_prog sym_hash hstate host n e vin h = ODone v (h', t) ->
  reaches_built sym_hash hstate host e vin h v h' t.
Proof. exact full_fragment_proof. Qed.
Print Assumptions C01_full_fragment.

(* ... where the K2 class is vacuous (no side-effect blocks) *)
Theorem C01_full_fragment_plain : forall sym_hash hstate host, declines_defer hstate host ->
  forall e vin h n v h' t,
  frag_e2e e = true -> printable e = true -> known_K1 e = false -> labels_ok e = true ->
  eval_prog sym_hash hstate host n e vin h = ODone v (h', t) ->
  reaches_built sym_hash hstate host e vin h v h' t.
Proof. exact full_fragment_plain_proof. Qed.
Print Assumptions C01_full_fragment_plain.

(* ... and without nested expressions (levels 0-3 of the fragment) there are no labels either *)
Theorem C01_full_fragment_operators : forall sym_hash hstate host, declines_defer hstate host ->
  forall e vin h n v h' t,
  efrag 3 e = true -> printable e = true -> known_K1 e = false ->
  eval_prog sym_hash hstate host n e vin h = ODone v (h', t) ->
  reaches_built sym_hash hstate host e vin h v h' t.
Proof. exact full_fragment_operators_proof. Qed.
Print Assumptions C01_full_fragment_operators.

(* non-vacuity: `a = (1 + 2) * -- 3 , x . y < 4 && $ ?> { 5 6 } ~~ |> 7` (25 constructors,
   mixed precedences and associativities, a comma list, a space list, a group, an else-chain,
   a nested expression labelled with the jump-table index of its body) satisfies every
   hypothesis of C01_full_fragment; side-effect blocks and blank-line sequences are not in the
   fragment, nor is a round group directly around a sequence *)
Example C01_ex_e2e_member :
  frag_e2e demo_e2e = true /\ printable demo_e2e = true /\ Nat.leb 12 (Ast.size demo_e2e) = true /\
  known_K1 demo_e2e = false /\ known_K2 demo_e2e = false /\ labels_ok demo_e2e = true.
Proof. exact demo_e2e_in_fragment. Qed.
Example C01_ex_e2e_excludes :
  frag_e2e (ENested 1 (ESeq Blank EValue EValue)) = false /\
  frag_e2e (ESide EValue (ELit (LInt 1))) = false /\
  frag_e2e (EGroup (ESeq Semi EValue EValue)) = false /\
  frag_e2e (EReapply (ESide EValue (ELit (LInt 1)))) = false.
Proof. exact frag_e2e_excludes. Qed.

(* functions and calls: `2 ~> { $ + 1 } ~> { $ * 3 }` (two functions applied in turn) and the
   loop `{ $ < 3 ?> ^~ $ + 1 |> $ } <~ 0` (the body restarts itself until `$` reaches 3)
   satisfy every hypothesis of C01_full_fragment, and the evaluator answers 9 and 3 *)
Example C01_ex_e2e_apply_twice :
  frag_e2e demo_apply2 = true /\ printable demo_apply2 = true /\ known_K1 demo_apply2 = false /\
  known_K2 demo_apply2 = false /\ labels_ok demo_apply2 = true /\
  eval_prog sh unit nohost 20 demo_apply2 VUnit tt = ODone (VNum (Int 9)) (tt, []).
Proof. exact demo_apply2_ok. Qed.
Example C01_ex_e2e_loop :
  frag_e2e demo_loop = true /\ printable demo_loop = true /\ known_K1 demo_loop = false /\
  known_K2 demo_loop = false /\ labels_ok demo_loop = true /\
  eval_prog sh unit nohost 40 demo_loop VUnit tt = ODone (VNum (Int 3)) (tt, []).
Proof. exact demo_loop_ok. Qed.
(* a function whose body is a sequence of two statements: `{ $ + 1 ; $ * 2 } <~ 3` is 8 *)
Example C01_ex_e2e_sequence_body :
  frag_e2e demo_seq = true /\ printable demo_seq = true /\ known_K1 demo_seq = false /\
  known_K2 demo_seq = false /\ labels_ok demo_seq = true /\
  eval_prog sh unit nohost 20 demo_seq VUnit tt = ODone (VNum (Int 8)) (tt, []).
Proof. exact demo_seq_ok. Qed.

(* Stages 1-4, proved for ALL programs of the core grammar: every construct of
   Spec/Ast.v.  What separates it from the full statement: the labels of the
   nested expressions are the jump-table indices of their bodies (labels_ok; the
   checks compare up to renaming instead), so values and traces are equal on
   the nose. *)
Theorem C01_all_constructs_partial : forall sym_hash hstate host, declines_defer hstate host ->
  forall e vin h n v h' t,
  printable e = true -> known_K1 e = false -> known_K2 e = false -> labels_ok e = true ->
  eval_prog sym_hash hstate host n e vin h = ODone v (h', t) ->
  reaches sym_hash hstate host e vin h v h' t.
Proof. exact all_programs. Qed.
Print Assumptions C01_all_constructs_partial.

(* the same with the hypotheses the proof uses (decidable shape predicates) *)
Theorem C01_stage4_partial : forall sym_hash hstate host, declines_defer hstate host ->
  forall e vin h n v h' t,
  frag e = true -> shape_ok e = true -> seq_ok true e = true -> labels_ok e = true ->
  eval_prog sym_hash hstate host n e vin h = ODone v (h', t) ->
  reaches sym_hash hstate host e vin h v h' t.
Proof. exact stage4_program'. Qed.
Print Assumptions C01_stage4_partial.

(* stages 1-3: everything except nested expressions, the apply forms and `^~`
   (no labels to speak of) *)
Theorem C01_control_partial : forall sym_hash hstate host, declines_defer hstate host ->
  forall e vin h n v h' t,
  frag3 e = true -> shape_ok e = true -> seq_ok true e = true ->
  eval_prog sym_hash hstate host n e vin h = ODone v (h', t) ->
  reaches sym_hash hstate host e vin h v h' t.
Proof. exact stage3_program'. Qed.
Print Assumptions C01_control_partial.

(* stage 1: literals, `$`, groups, unary / binary arithmetic, bitwise, comparison *)
Theorem C01_arith_partial : forall sym_hash hstate host, declines_defer hstate host ->
  forall e vin h n v h' t,
  stage1 e = true ->
  eval_prog sym_hash hstate host n e vin h = ODone v (h', t) ->
  reaches sym_hash hstate host e vin h v h' t.
Proof. exact stage1_program. Qed.
Print Assumptions C01_arith_partial.

(* stage 2: + identifiers, equality, pairs, access, lists, sequences, side-effect blocks *)
Theorem C01_data_partial : forall sym_hash hstate host, declines_defer hstate host ->
  forall e vin h n v h' t,
  stage2 e = true -> shape_ok e = true -> seq_ok true e = true ->
  eval_prog sym_hash hstate host n e vin h = ODone v (h', t) ->
  reaches sym_hash hstate host e vin h v h' t.
Proof. exact stage2_program. Qed.
Print Assumptions C01_data_partial.

(* AST compiler = builder model on the printed tokens, for every AST of the
   core grammar with at most 3 constructors over the pool of Proofs/C01/Bounded.v *)
Theorem C01_compile_builder_bounded_3 : forall e, In e corpus3 -> agrees e = true.
Proof. exact compile_agrees_bounded_3. Qed.
Print Assumptions C01_compile_builder_bounded_3.

(* the known-finding classes are real: on these programs the evaluator answers
   and the faithful model of the implementation does not agree *)
Theorem C01_K1_refuted :
  known_K1 k1_witness = true /\
  eval_prog sh unit nohost 10 k1_witness (VNum (Int 9)) tt = ODone (VNum (Int 9)) (tt, []) /\
  machine_result k1_witness (VNum (Int 9)) 100 = Some (inl E_noreg).
Proof. exact K1_refuted. Qed.
Print Assumptions C01_K1_refuted.

Theorem C01_K2_refuted :
  known_K2 k2_witness = true /\
  eval_prog sh unit nohost 50 k2_witness (VNum (Int 100)) tt = ODone (VNum (Int 101)) (tt, []) /\
  machine_result k2_witness (VNum (Int 100)) 200 = Some (inr (VNum (Int 1))).
Proof. exact K2_refuted. Qed.
Print Assumptions C01_K2_refuted.

(* non-vacuity *)
Example C01_ex_fragment : frag3 demo = true /\ shape_ok demo = true /\ seq_ok true demo = true /\
  known_K1 demo = false /\ known_K2 demo = false.
Proof. exact demo_in_fragment. Qed.
Example C01_ex_stage4 :
  printable demo4 = true /\ known_K1 demo4 = false /\ known_K2 demo4 = false /\ labels_ok demo4 = true /\ frag3 demo4 = false.
Proof. exact demo4_in_fragment. Qed.
Example C01_ex_stage4_runs :
  exists h t, eval_prog sh nat host9 40 demo4 VUnit 0 = ODone (VPair (VNum (Int 3)) (VNum (Int 9))) (h, t) /\ length t = 1.
Proof. exact demo4_evaluates. Qed.
Example C01_ex_corpus : 1500 <= length corpus3.
Proof. exact corpus3_size. Qed.
